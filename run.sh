#!/bin/sh
# usage: run.sh <property> [quick|thorough]   – builds the checker if needed, then checks /repo's working tree
cd "$(dirname "$0")" || exit 2
export GOFLAGS=-mod=mod GOPROXY=off GOSUMDB=off GOTOOLCHAIN=local PATH=/opt/veriftools/go1.26.8/bin:$PATH
unset GOWORK
if [ ! -x bin/artcheck ] || [ -n "$(find checker -newer bin/artcheck \( -name '*.go' -o -name 'go.mod' -o -name '*.json' -o -name '*.txt' \) 2>/dev/null | head -1)" ]; then
  (cd checker && go build -o ../bin/artcheck .) || { echo "run.sh: cannot build the checker"; exit 2; }
fi
exec bin/artcheck -p "$1" -tier "${2:-${VERIF_TIER:-quick}}"
