#!/bin/bash
# usage: sweep_patch.sh <diff> <tag> [tier] [notest] – apply in a scratch worktree, (build, vet, suite), run every rule once (artcheck -sweep)
PATCH=$(readlink -f "$1"); TAG=$2; TIER=${3:-quick}
export GOFLAGS=-mod=mod GOPROXY=off GOSUMDB=off GOTOOLCHAIN=local PATH=/opt/veriftools/go1.26.8/bin:$PATH
W=/tmp/swp.$TAG
git -C /repo worktree add -q --detach $W HEAD || exit 2
cd $W && git apply "$PATCH" 2>/dev/null || { echo "=== $TAG: PATCH DOES NOT APPLY"; git -C /repo worktree remove --force $W; exit 2; }
S=skipped
if [ "$4" != "notest" ]; then S=ok; (go build ./... && go vet . && go test -vet=off -count=1 .) >/dev/null 2>&1 || S=FAIL; fi
mkdir -p /tmp/swpv.$TAG && cp /verif/known_findings.json /tmp/swpv.$TAG/
out=$(${ARTCHECK_BIN:-/verif/bin/artcheck} -sweep -tier $TIER -repo $W -verif /tmp/swpv.$TAG 2>&1 | head -1)
echo "=== $TAG suite=$S $out" | cut -c1-${WIDTH:-900}
cd /; git -C /repo worktree remove --force $W; rm -rf /tmp/swpv.$TAG
