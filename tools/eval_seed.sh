#!/bin/bash
# usage: eval_seed.sh <patch.diff> <demo_test.go> <TestName> [props…]
# 1) confirms the seeded change in a scratch worktree (suite passes, demo fails with / passes without)
# 2) applies it to /repo, runs the quick checks, and undoes it
set -u
PATCH=$(readlink -f "$1"); DEMO=$(readlink -f "$2"); TEST="$3"; shift 3
PROPS="${*:-C01 C02 C03 C04 C05 C06 C07 C08 C09 C10 C11 C12 C13 C14 C15 C16 C17 C18 C19}"
export GOFLAGS=-mod=mod GOPROXY=off
W=/tmp/evalwt.$$
git -C /repo worktree add -q --detach $W HEAD || exit 2
trap 'git -C /repo worktree remove --force $W >/dev/null 2>&1' EXIT
cd $W
cp "$DEMO" zz_demo_test.go
go test -vet=off -count=1 -run "^${TEST}\$" . >/tmp/evalwt.$$.log 2>&1; R0=$?
echo "demo without change: exit=$R0 (want 0)"
git apply "$PATCH" || { echo "PATCH DOES NOT APPLY"; exit 2; }
go build ./... || { echo "DOES NOT BUILD"; exit 2; }
go test -vet=off -count=1 -run "^${TEST}\$" . >/tmp/evalwt.$$.log 2>&1; R1=$?
echo "demo with change:    exit=$R1 (want !=0)"; tail -5 /tmp/evalwt.$$.log | sed 's/^/    /'
rm zz_demo_test.go
go test -vet=off -count=1 . >/tmp/evalwt.$$.log 2>&1; R2=$?
echo "suite with change:   exit=$R2 (want 0)"
rm -f /tmp/evalwt.$$.log
cd /verif
git -C /repo apply "$PATCH" || { echo "cannot apply to /repo"; exit 2; }
CAUGHT=""
for p in $PROPS; do
  out=$(./run.sh $p quick 2>&1); rc=$?
  if [ $rc -ne 0 ]; then CAUGHT="$CAUGHT $p"; echo "--- $p exit=$rc"; echo "$out" | grep -A1 "^VIOLATION" | grep -v "^--" | head -6 | cut -c1-330; fi
done
git -C /repo checkout -- . ; git -C /repo status --short | grep -v '^??' | head
echo "CAUGHT BY:${CAUGHT:- none}"
