module verif/tools/mutgen

go 1.26.8
