// mutgen enumerates small syntactic changes (mutants) of the library sources. It is a development aid
// for finding gaps of the static checks (tools/mutsweep.py drives it); it is not part of any check.
//
// usage: go run . <repo> > mutants.jsonl
package main

import (
	"encoding/json"
	"fmt"
	"go/scanner"
	"go/token"
	"os"
	"path/filepath"
	"regexp"
	"strconv"
	"strings"
)

type mutant struct {
	ID   string `json:"id"`
	File string `json:"file"`
	Off  int    `json:"off"`
	Len  int    `json:"len"`
	New  string `json:"new"`
	Op   string `json:"op"`
	Line int    `json:"line"`
	Text string `json:"text"` // the source line, for the reader
}

var files = []string{"tree.go", "node.go", "node4.go", "node16.go", "node16_other.go", "pool.go", "keys.go", "collation.go", "art.go", "cmd/go-art/tree.tmpl"}

var relSwap = map[token.Token][]string{
	token.LSS: {"<=", ">"}, token.LEQ: {"<"}, token.GTR: {">=", "<"}, token.GEQ: {">"},
	token.EQL: {"!="}, token.NEQ: {"=="}, token.LAND: {"||"}, token.LOR: {"&&"},
	token.INC: {"--"}, token.DEC: {"++"}, token.ADD_ASSIGN: {"-="}, token.SUB_ASSIGN: {"+="},
	token.ADD: {"-"}, token.SUB: {"+"}, token.SHL: {">>"}, token.SHR: {"<<"},
	token.AND: {"|"}, token.OR: {"&"}, token.BREAK: {"continue"}, token.CONTINUE: {"break"},
}

var actionRe = regexp.MustCompile(`(?s)\{\{.*?\}\}`)

func main() {
	repo := os.Args[1]
	enc := json.NewEncoder(os.Stdout)
	n := 0
	emit := func(m mutant) {
		n++
		m.ID = fmt.Sprintf("m%05d", n)
		enc.Encode(m)
	}
	for _, f := range files {
		b, err := os.ReadFile(filepath.Join(repo, f))
		if err != nil {
			continue
		}
		src := string(b)
		scan := src
		if strings.HasSuffix(f, ".tmpl") {
			// blank the template actions, keep offsets
			scan = actionRe.ReplaceAllStringFunc(src, func(s string) string {
				out := []byte(s)
				for i := range out {
					if out[i] != '\n' {
						out[i] = ' '
					}
				}
				return string(out)
			})
		}
		lineOf := func(off int) (int, string) {
			ln := 1 + strings.Count(src[:off], "\n")
			s := strings.LastIndexByte(src[:off], '\n') + 1
			e := strings.IndexByte(src[off:], '\n')
			if e < 0 {
				e = len(src) - off
			}
			return ln, strings.TrimSpace(src[s : off+e])
		}
		fset := token.NewFileSet()
		tf := fset.AddFile(f, -1, len(scan))
		var sc scanner.Scanner
		sc.Init(tf, []byte(scan), func(token.Position, string) {}, 0)
		var prev token.Token
		for {
			pos, tok, lit := sc.Scan()
			if tok == token.EOF {
				break
			}
			off := tf.Offset(pos)
			ln, text := lineOf(off)
			if strings.HasPrefix(text, "//") || strings.HasPrefix(text, "import") || strings.HasPrefix(text, "package") {
				prev = tok
				continue
			}
			if reps, ok := relSwap[tok]; ok {
				// unary + - & are not interesting
				unary := (tok == token.SUB || tok == token.ADD || tok == token.AND) && !(prev == token.IDENT || prev == token.INT || prev == token.RPAREN || prev == token.RBRACK)
				if !unary {
					for _, r := range reps {
						emit(mutant{File: f, Off: off, Len: len(tok.String()), New: r, Op: "op " + tok.String() + "→" + r, Line: ln, Text: text})
					}
				}
			}
			if tok == token.INT {
				if v, err := strconv.ParseInt(lit, 0, 64); err == nil {
					emit(mutant{File: f, Off: off, Len: len(lit), New: strconv.FormatInt(v+1, 10), Op: "const+1", Line: ln, Text: text})
					if v > 0 {
						emit(mutant{File: f, Off: off, Len: len(lit), New: strconv.FormatInt(v-1, 10), Op: "const-1", Line: ln, Text: text})
					}
				}
			}
			if tok == token.IDENT && (lit == "true" || lit == "false") {
				emit(mutant{File: f, Off: off, Len: len(lit), New: map[string]string{"true": "false", "false": "true"}[lit], Op: "bool flip", Line: ln, Text: text})
			}
			prev = tok
		}
		// line-level operators
		off := 0
		lines := strings.SplitAfter(src, "\n")
		for i, raw := range lines {
			t := strings.TrimSpace(raw)
			start := off
			off += len(raw)
			if t == "" || strings.HasPrefix(t, "//") || strings.HasPrefix(t, "{{") {
				continue
			}
			// negate an if condition
			if strings.HasPrefix(t, "if ") && strings.HasSuffix(t, "{") || strings.HasPrefix(t, "} else if ") && strings.HasSuffix(t, "{") {
				ifAt := strings.Index(raw, "if ") + 3
				body := raw[ifAt:strings.LastIndex(raw, "{")]
				condAt := ifAt
				if semi := strings.LastIndex(body, ";"); semi >= 0 {
					condAt = ifAt + semi + 1
				}
				cond := strings.TrimSpace(raw[condAt:strings.LastIndex(raw, "{")])
				if cond != "" && !strings.Contains(cond, "{{") {
					emit(mutant{File: f, Off: start + condAt, Len: strings.LastIndex(raw, "{") - condAt, New: " !(" + cond + ") ", Op: "negate if", Line: i + 1, Text: t})
				}
				// remove a guard: if … { <one line> }
				if strings.HasPrefix(t, "if ") && i+2 < len(lines) && strings.TrimSpace(lines[i+2]) == "}" && !strings.HasSuffix(strings.TrimSpace(lines[i+1]), "{") {
					l := len(raw) + len(lines[i+1]) + len(lines[i+2])
					emit(mutant{File: f, Off: start, Len: l, New: "", Op: "remove guard", Line: i + 1, Text: t + " " + strings.TrimSpace(lines[i+1]) + " }"})
				}
				continue
			}
			// delete a simple statement line
			simple := !strings.HasSuffix(t, "{") && !strings.HasSuffix(t, "(") && !strings.HasSuffix(t, ",") && t != "}" && t != ")" && !strings.HasPrefix(t, "}") &&
				!strings.HasPrefix(t, "return") && !strings.HasPrefix(t, "case ") && !strings.HasPrefix(t, "default") && !strings.HasPrefix(t, "var ") && !strings.HasPrefix(t, "func ") &&
				!strings.HasPrefix(t, "type ") && !strings.HasPrefix(t, "package") && !strings.HasPrefix(t, "import") && !strings.HasPrefix(t, "\"") && !strings.HasPrefix(t, "goto") && !strings.HasSuffix(t, ":")
			if simple && (strings.Contains(t, "=") || strings.HasSuffix(t, "++") || strings.HasSuffix(t, "--") || strings.HasSuffix(t, ")") || t == "break" || t == "continue") && !strings.Contains(t, ":=") {
				emit(mutant{File: f, Off: start, Len: len(raw), New: "", Op: "delete stmt", Line: i + 1, Text: t})
			}
		}
	}
	fmt.Fprintln(os.Stderr, "mutants:", n)
}
