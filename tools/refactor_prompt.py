#!/usr/bin/env python3
"""usage: refactor_prompt.py <worktree> <outdir> <area-file> > prompt
Brief for an independent sub-agent that writes behaviour-preserving refactorings (the false-alarm
corpus): the scratch worktree, the area of the code, and one-line summaries of the refactorings
already in /verif/refactorings so that the new ones differ in kind. Nothing else from /verif."""
import json, sys, glob
wt, out, area = sys.argv[1:4]
prev = []
for f in sorted(glob.glob('/verif/refactorings/*.json')):
    try:
        s = json.load(open(f)).get('summary', '')
    except Exception:
        continue
    if s:
        prev.append('  - ' + ' '.join(s.split())[:160])
print(f"""You are helping to test a static verification tool for false alarms. Your job: write SIX independent, realistic, strictly BEHAVIOUR-PRESERVING refactorings of a Go library - the kind of tidy-up commits a maintainer makes - so that we can confirm the tool stays silent on them.

The library is Clement-Jean/go-art (a generic Adaptive Radix Tree in Go). Your private scratch copy (a git worktree) is at {wt}. Work ONLY there and in {out}. Never touch /repo or /verif, never read /verif. NEVER use `git stash`, never use pkill/killall (kill only process ids you started). To reset your worktree: `git -C {wt} checkout -- . && git -C {wt} clean -fdq`.

Every shell command must start with:
  export GOFLAGS=-mod=mod GOPROXY=off GOSUMDB=off GOTOOLCHAIN=local PATH=/opt/veriftools/go1.26.8/bin:$PATH
There is no network. Build: `go build ./... && go vet .` ; the suite: `go test -vet=off -count=1 .` (run in {wt}; under a minute). Also cross-build: `GOARCH=arm64 go vet . && GOARCH=386 go vet .`. If you change cmd/go-art/tree.tmpl (the template from which trees.go is generated) you MUST regenerate trees.go in the same change: `rm trees.go && go run cmd/go-art/main.go && gofmt -w trees.go`, so the two stay in sync. collation.go is a hand-written sixth copy of the tree code in the template; a refactoring may be applied to the template only, to collation.go only, or to both (vary this across your six).

{open(area).read().strip()}

Each refactoring (independent of the others; each applies to the unmodified tree) must:
 a. Preserve the observable behaviour of every exported function for EVERY input and history, on every architecture (including panics/no panics, aliasing of caller slices, what is written to memory that outlives the call, what is retained). Not "almost": exactly. If in doubt, choose another refactoring. Do not fix bugs, do not change semantics, do not add features. The existing tests are thin (they never insert after a delete, never probe absent keys, never use large fan-outs with numeric keys), so passing them proves little: ARGUE equivalence, and where cheap write a throw-away differential/randomised test comparing old and new behaviour (do not deliver it).
 b. Be structurally non-trivial: extract a helper function/method/closure and call it from several places; inline a helper; turn a closure into a function or a method; introduce or remove an intermediate local; convert if-chains <-> switch (tagged or tagless); invert guards / early returns / else branches; fold a condition into a loop header or hoist it out; change a loop form (three-clause <-> range over int <-> range over array/slice <-> while-style), where iteration order is kept; replace a hand-written loop by copy/clear/slices/bytes functions or vice versa; named results; use min()/max(); merge two near-identical functions into one parameterised function or split one; reorder independent statements; move code between files. Make the six different from one another in kind, and DIFFERENT from these, which other people already delivered:
{chr(10).join(prev)}
 c. Compile, pass `go vet .` (also for GOARCH=arm64 and 386), pass the full suite.
 d. Be small to medium (5-80 changed lines in hand-written files) and look like something a maintainer would really commit.

Deliver in {out}: r1.diff ... r6.diff (each `git -C {wt} diff` of one refactoring against the unmodified tree, applying cleanly with `git apply`), and r1.json ... r6.json: {{"summary":"what was rewritten into what","why_equivalent":"the argument that behaviour is identical for all inputs","files_changed":[...]}}.
Before finishing verify each from a clean tree: apply, build, vet, suite passes, reset. Leave the worktree clean. Final message: one line per refactoring.""")
