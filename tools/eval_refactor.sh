#!/bin/bash
# usage: eval_refactor.sh <diff> <tag> [tier]  – behaviour-preserving change: apply in a scratch worktree, build, vet,
# run the suite, then run every check against the scratch tree (-repo). Any non-zero exit is a false alarm to triage.
PATCH=$(readlink -f "$1"); TAG=$2; TIER=${3:-quick}
export GOFLAGS=-mod=mod GOPROXY=off GOSUMDB=off GOTOOLCHAIN=local PATH=/opt/veriftools/go1.26.8/bin:$PATH
W=/tmp/evalrf.$TAG
git -C /repo worktree add -q --detach $W HEAD || exit 2
cd $W && git apply "$PATCH" || { echo "=== $TAG: PATCH DOES NOT APPLY"; git -C /repo worktree remove --force $W; exit 2; }
B=ok; go build ./... >/dev/null 2>&1 || B=FAIL
V=ok; go vet . >/dev/null 2>&1 || V=FAIL
S=ok; go test -vet=off -count=1 . >/tmp/evalrf.$TAG.log 2>&1 || S=FAIL
mkdir -p /tmp/evalrf_verif.$TAG && cp /verif/known_findings.json /tmp/evalrf_verif.$TAG/
ALARMS=""
for p in C01 C02 C03 C04 C05 C06 C07 C08 C09 C10 C11 C12 C13 C14 C15 C16 C17 C18 C19; do
  out=$(/verif/bin/artcheck -repo $W -verif /tmp/evalrf_verif.$TAG -p $p -tier $TIER 2>&1); rc=$?
  if [ $rc -ne 0 ]; then ALARMS="$ALARMS $p"; echo "--- $TAG $p exit=$rc"; echo "$out" | grep -A1 "^VIOLATION\|BROKEN" | grep -v "^--\|^VIOLATION" | head -4 | cut -c1-300; fi
done
echo "=== $TAG build=$B vet=$V suite=$S ALARMS:${ALARMS:- none}"
cd /; git -C /repo worktree remove --force $W; rm -rf /tmp/evalrf_verif.$TAG /tmp/evalrf.$TAG.log
