#!/bin/bash
# quick triage: apply patch in a scratch worktree and run all checks against it with -repo (no test runs)
PATCH=$(readlink -f "$1"); TAG=$2
W=/tmp/triage.$TAG
git -C /repo worktree add -q --detach $W HEAD || exit 2
cd $W && git apply "$PATCH" || { echo "$TAG: PATCH DOES NOT APPLY"; git -C /repo worktree remove --force $W; exit 2; }
mkdir -p /tmp/triage_verif.$TAG && cp /verif/known_findings.json /tmp/triage_verif.$TAG/
CAUGHT=""
for p in C01 C02 C03 C04 C05 C06 C07 C08 C09 C10 C11 C12 C13 C14 C15 C16 C17 C18 C19; do
  out=$(/verif/bin/artcheck -repo $W -verif /tmp/triage_verif.$TAG -p $p 2>&1); rc=$?
  if [ $rc -ne 0 ]; then CAUGHT="$CAUGHT $p"; echo "--- $TAG $p exit=$rc"; echo "$out" | grep -A1 "^VIOLATION\|BROKEN" | grep -v "^--\|^VIOLATION" | head -3 | cut -c1-260; fi
done
echo "=== $TAG CAUGHT BY:${CAUGHT:- none}"
git -C /repo worktree remove --force $W; rm -rf /tmp/triage_verif.$TAG
