#!/usr/bin/env python3
"""Development aid (not a check): evaluate every mutant of tools/mutgen against the static checks and, when the
checks are silent, against the existing test suite. Survivors (checks silent AND suite passes) are the
candidates for gaps: each is either an equivalent mutant or a property-breaking change nothing notices.

usage: mutsweep.py <mutants.jsonl> <results.jsonl> [workers]
Everything happens in scratch worktrees under /tmp/ms (removed at the end); /repo is never modified."""
import json, os, subprocess, sys, threading, queue, shutil

ENV = dict(os.environ, GOFLAGS="-mod=mod", GOPROXY="off", GOSUMDB="off", GOTOOLCHAIN="local",
           PATH="/opt/veriftools/go1.26.8/bin:" + os.environ["PATH"])
ENV.pop("GOWORK", None)
ROOT = "/tmp/ms%d" % os.getpid()

def sh(cmd, cwd, timeout=300, env=ENV):
    try:
        p = subprocess.run(cmd, cwd=cwd, env=env, shell=True, capture_output=True, text=True, timeout=timeout)
        return p.returncode, (p.stdout + p.stderr)
    except subprocess.TimeoutExpired:
        return 124, "timeout"

def worker(i, q, out, lock):
    w = f"{ROOT}/w{i}"; v = f"{ROOT}/v{i}"
    subprocess.run(["git", "-C", "/repo", "worktree", "add", "-q", "--detach", w, "HEAD"], check=True)
    os.makedirs(v, exist_ok=True); shutil.copy("/verif/known_findings.json", v)
    while True:
        try:
            m = q.get_nowait()
        except queue.Empty:
            break
        sh("git checkout -q -- . && git clean -fdq", w)
        path = os.path.join(w, m["file"])
        src = open(path, "rb").read()
        new = src[:m["off"]] + m["new"].encode() + src[m["off"] + m["len"]:]
        open(path, "wb").write(new)
        res = dict(m)
        ok = True
        if m["file"].endswith(".tmpl"):
            rc, o = sh("rm trees.go && go run cmd/go-art/main.go && gofmt -w trees.go", w, 120)
            if rc != 0:
                res["verdict"] = "nocompile"; ok = False
        if ok:
            other = m["file"] == "node16_other.go"
            tier = "thorough" if (other or os.environ.get("MUT_TIER") == "thorough") else "quick"
            binp = os.environ.get("ARTCHECK_BIN", "/verif/bin/artcheck")
            rc, o = sh(f"{binp} -sweep -tier {tier} -repo {w} -verif {v}", w, 300)
            line = (o.strip().splitlines() or [""])[0]
            if rc == 3:
                res["verdict"] = "nocompile"
            elif rc == 1:
                res["verdict"] = "caught"; res["sweep"] = line[:600]
            elif rc == 0:
                env = dict(ENV, GOARCH="386") if other else ENV
                rc2, o2 = sh("go build ./... && go vet . && go test -vet=off -count=1 .", w, 240, env)
                if rc2 == 0:
                    res["verdict"] = "SURVIVOR"
                elif rc2 == 124:
                    res["verdict"] = "suite-timeout"
                else:
                    res["verdict"] = "suite-fails"
                    res["suite"] = "\n".join([l for l in o2.splitlines() if "FAIL" in l or "panic" in l][:3])[:300]
            else:
                res["verdict"] = "checker-error"; res["sweep"] = o[-400:]
        with lock:
            out.write(json.dumps(res) + "\n"); out.flush()
    sh("true", "/")
    subprocess.run(["git", "-C", "/repo", "worktree", "remove", "--force", w])
    shutil.rmtree(v, ignore_errors=True)

def main():
    muts = [json.loads(l) for l in open(sys.argv[1])]
    done = set()
    if os.path.exists(sys.argv[2]):
        done = {json.loads(l)["id"] for l in open(sys.argv[2])}
    n = int(sys.argv[3]) if len(sys.argv) > 3 else 6
    os.makedirs(ROOT, exist_ok=True)
    q = queue.Queue()
    for m in muts:
        if m["id"] not in done:
            q.put(m)
    out = open(sys.argv[2], "a"); lock = threading.Lock()
    ts = [threading.Thread(target=worker, args=(i, q, out, lock)) for i in range(n)]
    [t.start() for t in ts]; [t.join() for t in ts]
    shutil.rmtree(ROOT, ignore_errors=True)

main()
