#!/usr/bin/env python3
"""usage: seed_prompt.py <Cxx> <worktree> <outdir> <round-hint-file|-> > prompt
Builds the brief handed to an independent sub-agent that writes property-breaking changes: the text
of one property (properties.jsonl), the scratch worktree, and one-line summaries of the changes other
agents already delivered for that property (seeded/*/meta.json) so that the new ones differ.
Nothing else from /verif is included."""
import json, sys, os, glob
pid, wt, out, hint = sys.argv[1:5]
props = [json.loads(l) for l in open('/verif/properties.jsonl')]
p = next(x for x in props if x['id'] == pid)
prev = []
for d in sorted(glob.glob('/verif/seeded/*')):
    m = os.path.join(d, 'meta.json')
    if os.path.exists(m):
        j = json.load(open(m))
        if j.get('breaks_property') == pid and j.get('summary'):
            prev.append('  - ' + ' '.join(j['summary'].split())[:330])
hint_text = open(hint).read().strip() if hint != '-' else ''
title = p.get('title') or p.get('name') or ''
stmt = p.get('statement') or p.get('description') or ''
q = p.get('quantifier') or ''
quant = q.get('text', '') if isinstance(q, dict) else q
print(f"""You are helping to test a verification tool. Your job: write two realistic, subtle code changes to a Go library, each of which BREAKS one stated property of the library while still compiling and passing the library's existing test suite.

The library is Clement-Jean/go-art (a generic Adaptive Radix Tree in Go). Your private scratch copy (a git worktree) is at {wt}. Work ONLY there and in {out}. Never touch /repo or /verif, never read /verif. NEVER use `git stash` (the stash is shared with other people's worktrees), never use pkill/killall (other people's processes run on this machine; kill only process ids you started). To reset your worktree use `git -C {wt} checkout -- . && git -C {wt} clean -fdq`.

Every shell command must start with:
  export GOFLAGS=-mod=mod GOPROXY=off GOSUMDB=off GOTOOLCHAIN=local PATH=/opt/veriftools/go1.26.8/bin:$PATH
There is no network. Build: `go build ./... && go vet .` ; the existing suite: `go test -vet=off -count=1 .` (run in {wt}; takes under a minute). If you change cmd/go-art/tree.tmpl (the template from which trees.go is generated) you must regenerate trees.go in the same change: `rm trees.go && go run cmd/go-art/main.go && gofmt -w trees.go` (unless being out of sync IS your change). collation.go is a hand-written sixth copy of the tree code in the template.

THE PROPERTY ({pid}): {title}
{stmt}
Quantification: {quant}

What each of your two changes (call them 1 and 2; independent of each other, each applying to the unmodified tree) must satisfy:
 a. It is the kind of change a maintainer could plausibly commit: an optimisation, a refactoring, a clean-up, a small feature, a copy/paste slip, a merge accident, an off-by-one in a rewritten loop, a condition simplified wrongly. No comments that give it away. Small (typically 3-40 changed lines), in non-test files only. Prefer changes that keep the overall code structure (same functions, same control flow shape) and alter a detail - an operand, a bound, a constant, an order of two statements, which variable is used - over large rewrites.
 b. `go build ./...` and `go vet .` succeed and the existing suite passes with it (run it at least twice).
 c. It makes the property FALSE for the real code: you must write a demonstration - one Go test file (package art, any file name ending in _test.go, one top-level Test function) - that PASSES on the unmodified tree and FAILS with your change applied. The demonstration only uses the library's behaviour (public API, or package-internal inspection if the property is about internals).
 d. The violation needs something specific to manifest - a particular input shape, history, size, key type, architecture, interleaving - so that the existing tests do not notice. Say precisely what.
 e. Known defects of the unmodified library, do not rely on them: byte-string keys that contain the byte 0x00; collation keys that the collator cannot tell apart (canonically equivalent strings, ill-formed UTF-8).
 f. Be DIFFERENT in mechanism and location from these changes that other people already produced for this property:
{chr(10).join(prev)}
    {hint_text}
    Look at the whole library (tree.go, node.go, node4.go, node16*.go/.s, pool.go, keys.go, collation.go, trees.go + cmd/go-art/tree.tmpl + cmd/go-art/main.go) and pick places where a small slip has an effect on exactly this property.

Deliver in {out}:
  patch.diff   (`git -C {wt} diff > {out}/patch.diff` with change 1 applied; must apply with `git apply` to the unmodified tree)
  demo_test.go (demonstration for change 1)
  meta.json    {{"property":"{pid}","summary":"what was changed and why it looks innocent","needs_to_manifest":"what specific input/history/... is needed","files_changed":[...],"demo_test_name":"TestXxx"}}
  patch2.diff, demo2_test.go, meta2.json  (same for change 2)
Before finishing: reset the worktree, then for each change verify from scratch: demo passes on the clean tree; apply patch; build; demo fails; remove the demo; existing suite passes; reset. Remove any demo files from the worktree at the end (leave the worktree clean). If after serious effort you can only produce one change, deliver one and say so. Your final message: two short paragraphs describing the changes.""")
