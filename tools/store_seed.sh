#!/bin/bash
# usage: store_seed.sh <srcdir> <n: ""|2> <name>   – part B: apply to /repo, run every quick check, undo, store under /verif/seeded/<name>
SRC=$1; N=$2; NAME=$3
PATCH=$SRC/patch$N.diff; DEMO=$SRC/demo${N}_test.go; META=$SRC/meta$N.json; CONF=/tmp/confirm_$NAME.json
[ -f "$DEMO" ] || DEMO=$(ls $SRC/demo$N*.go 2>/dev/null | head -1)
cd /verif
git -C /repo apply "$PATCH" || { echo "$NAME: cannot apply to /repo"; exit 2; }
CAUGHT=(); DETAILS=""
for p in C01 C02 C03 C04 C05 C06 C07 C08 C09 C10 C11 C12 C13 C14 C15 C16 C17 C18 C19; do
  if [ -n "$ARTCHECK_BIN" ]; then out=$($ARTCHECK_BIN -p $p -tier quick 2>&1); rc=$?; else out=$(./run.sh $p quick 2>&1); rc=$?; fi
  if [ $rc -eq 1 ]; then CAUGHT+=($p); DETAILS="$DETAILS$(echo "$out" | grep -A1 '^VIOLATION' | grep -v '^--\|^VIOLATION' | head -2 | cut -c1-300 | sed "s/^/$p: /")
"; elif [ $rc -ne 0 ]; then DETAILS="${DETAILS}$p: exit $rc $(echo "$out" | tail -1 | cut -c1-200)
"; fi
done
git -C /repo checkout -- . ; git -C /repo clean -fdq -e OUT >/dev/null 2>&1
DIRTY=$(git -C /repo status --short | wc -l)
mkdir -p seeded/$NAME && cp "$PATCH" seeded/$NAME/patch.diff && cp "$DEMO" seeded/$NAME/demo_test.go
python3 - "$META" "$CONF" "$NAME" "${CAUGHT[*]}" "$DIRTY" <<PY
import json,sys
meta=json.load(open(sys.argv[1])); conf=json.load(open(sys.argv[2])); name=sys.argv[3]; caught=sys.argv[4].split(); dirty=sys.argv[5]
details=open('/dev/stdin').read() if False else ""
out={"name":name,"breaks_property":meta.get("property"),"summary":meta.get("summary"),"needs_to_manifest":meta.get("needs_to_manifest"),"files_changed":meta.get("files_changed"),
 "author":"independent sub-agent given only the property text and a scratch worktree (nothing from /verif)",
 "confirmed_by_me":{"how":"tools/confirm_seed.sh: fresh scratch worktree of /repo HEAD; demo run without the change, patch applied, go build, demo run with the change, full suite with the change","demo_test":conf["test"],"race_detector":bool(conf["race"]),
   "demo_passes_without_change":conf["demo_without_change_exit"]==0,"demo_fails_with_change":conf["demo_with_change_exit"]!=0,"existing_suite_passes_with_change":conf["suite_with_change_exit"]==0,"demo_failure_excerpt":conf["demo_failure"]},
 "checks_run":"tools/store_seed.sh: git -C /repo apply patch.diff; ./run.sh <id> quick for all 19 properties; git -C /repo checkout -- .",
 "caught_by_checks":caught,"caught_by_own_property":meta.get("property") in caught}
json.dump(out,open("/verif/seeded/%s/meta.json"%name,"w"),indent=1,ensure_ascii=False)
PY
printf "%s" "$DETAILS" > seeded/$NAME/reports.txt
echo "$NAME caught_by: ${CAUGHT[*]:-none}  (repo dirty files after undo: $DIRTY)"
