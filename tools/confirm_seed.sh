#!/bin/bash
# usage: confirm_seed.sh <srcdir> <n: ""|2> <name>     – part A: confirm in a scratch worktree; writes /tmp/confirm_<name>.json
SRC=$1; N=$2; NAME=$3
PATCH=$SRC/patch$N.diff; DEMO=$SRC/demo${N}_test.go; META=$SRC/meta$N.json
[ -f "$DEMO" ] || DEMO=$(ls $SRC/demo$N*.go 2>/dev/null | head -1)
TEST=$(python3 -c "import json,sys; print(json.load(open('$META')).get('demo_test_name',''))" 2>/dev/null | sed 's/[ (].*//')
[ -n "$TEST" ] || TEST=$(grep -o 'func Test[A-Za-z0-9_]*' $DEMO | head -1 | sed 's/func //')
export GOFLAGS=-mod=mod GOPROXY=off
W=/tmp/confirm.$NAME
git -C /repo worktree add -q --detach $W HEAD || exit 2
cd $W
RACE=""; grep -q "race" $META 2>/dev/null && RACE="-race"
cp "$DEMO" zz_demo_test.go
go test $RACE -vet=off -count=1 -run "^${TEST}\$" . >/tmp/confirm.$NAME.log0 2>&1; R0=$?
git apply "$PATCH" 2>/tmp/confirm.$NAME.apply; RA=$?
go build ./... >/dev/null 2>&1; RB=$?
go test $RACE -vet=off -count=1 -run "^${TEST}\$" . >/tmp/confirm.$NAME.log1 2>&1; R1=$?
rm -f zz_demo_test.go
go test -vet=off -count=1 . >/tmp/confirm.$NAME.log2 2>&1; R2=$?
FAILMSG=$(grep -m3 -E "^\s+.*_test.go:[0-9]+:|panic:|DATA RACE" /tmp/confirm.$NAME.log1 | head -3 | tr '\n' '|' | cut -c1-400)
python3 - <<PY
import json
json.dump({"name":"$NAME","test":"$TEST","race":"$RACE","demo_without_change_exit":$R0,"patch_applies":$RA==0,"builds":$RB==0,"demo_with_change_exit":$R1,"suite_with_change_exit":$R2,"demo_failure":"""$FAILMSG"""},open("/tmp/confirm_$NAME.json","w"),indent=1)
PY
cd /; git -C /repo worktree remove --force $W; rm -f /tmp/confirm.$NAME.*
