#!/bin/bash
# usage: refresh_seed_meta.sh <seed-name>  – re-evaluate a stored seed with the current checker: the patch is applied in a scratch
# worktree of /repo HEAD (the same tree /repo has), every quick check is run against it (artcheck -p Cxx -repo <worktree>),
# and caught_by_checks / caught_by_own_property / reports.txt of /verif/seeded/<name> are rewritten. (store_seed.sh, used when a
# seed is first stored, applies the patch to /repo itself; this variant exists so that all seeds can be refreshed in parallel.)
NAME=$1
BIN=${ARTCHECK_BIN:-/verif/bin/artcheck}
export GOFLAGS=-mod=mod GOPROXY=off GOSUMDB=off GOTOOLCHAIN=local PATH=/opt/veriftools/go1.26.8/bin:$PATH
W=/tmp/rsm.$NAME; V=/tmp/rsmv.$NAME
git -C /repo worktree add -q --detach $W HEAD || exit 2
( cd $W && git apply /verif/seeded/$NAME/patch.diff 2>/dev/null ) || { echo "$NAME: PATCH DOES NOT APPLY"; git -C /repo worktree remove --force $W; exit 2; }
mkdir -p $V/evidence && cp /verif/known_findings.json $V/
CAUGHT=(); DETAILS=""
for p in C01 C02 C03 C04 C05 C06 C07 C08 C09 C10 C11 C12 C13 C14 C15 C16 C17 C18 C19; do
  out=$($BIN -p $p -tier quick -repo $W -verif $V 2>&1); rc=$?
  if [ $rc -eq 1 ]; then CAUGHT+=($p); DETAILS="$DETAILS$(echo "$out" | grep -A1 '^VIOLATION' | grep -v '^--\|^VIOLATION' | head -2 | cut -c1-300 | sed "s/^/$p: /")
"; elif [ $rc -ne 0 ]; then DETAILS="${DETAILS}$p: exit $rc $(echo "$out" | tail -1 | cut -c1-200)
"; fi
done
git -C /repo worktree remove --force $W; rm -rf $V
python3 - "$NAME" "${CAUGHT[*]}" <<PY
import json,sys,re
name=sys.argv[1]; caught=sys.argv[2].split()
p="/verif/seeded/%s/meta.json"%name
m=json.load(open(p))
prop=m.get("breaks_property") or re.search(r"C\d\d",name).group(0)
m["caught_by_checks"]=caught
m["caught_by_own_property"]=prop in caught
m["checks_refreshed"]="tools/refresh_seed_meta.sh: patch applied in a scratch worktree of /repo HEAD, artcheck -p <id> -tier quick -repo <worktree> for all 19 properties, with the checker as committed"
json.dump(m,open(p,"w"),indent=1,ensure_ascii=False)
PY
printf "%s" "$DETAILS" > /verif/seeded/$NAME/reports.txt
echo "$NAME caught_by: ${CAUGHT[*]:-none}"
