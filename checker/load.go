package main

// E1 – loader. Loads /repo's current working tree with go/packages (type-checked syntax),
// never executes anything from it.

import (
	"fmt"
	"go/ast"
	"go/token"
	"go/types"
	"os"
	"path/filepath"
	"sort"
	"strings"

	"golang.org/x/tools/go/packages"
)

const goBinDir = "/opt/veriftools/go1.26.8/bin"

var repoDir = "/repo"

func loaderEnv(goarch string) []string {
	env := []string{}
	for _, kv := range os.Environ() {
		k := kv
		if i := strings.IndexByte(kv, '='); i >= 0 {
			k = kv[:i]
		}
		switch k {
		case "GOFLAGS", "GOPROXY", "GOSUMDB", "GOTOOLCHAIN", "GOWORK", "GOARCH", "GOOS", "PATH", "CGO_ENABLED":
			continue
		}
		env = append(env, kv)
	}
	env = append(env,
		"GOFLAGS=-mod=mod", "GOPROXY=off", "GOSUMDB=off", "GOTOOLCHAIN=local", "GOWORK=off",
		"GOOS=linux", "GOARCH="+goarch, "CGO_ENABLED=0",
		"PATH="+goBinDir+":"+os.Getenv("PATH"))
	return env
}

// Loaded is one type-checked view of the repository for one architecture.
type Loaded struct {
	Arch  string
	Fset  *token.FileSet
	Pkgs  []*packages.Package
	Art   *packages.Package // the library package
	Gen   *packages.Package // cmd/go-art
	Sizes types.Sizes
	extra map[string][]byte // overlay contents (mutants/variants)
	// Renames lists the identifiers that were renamed to the canonical vocabulary in the overlay.
	Renames []string
}

// overlayFile returns the in-memory instantiation file (never written to /repo). It references
// every exported constructor with a matrix of type arguments so that SSA with
// InstantiateGenerics yields concrete functions.
func overlaySource(full bool) string {
	var b strings.Builder
	b.WriteString("package art\n\n")
	b.WriteString("type verifPV struct { p *int; s string }\n")
	b.WriteString("type verifCK struct { a uint32; s string }\n")
	vals := []string{"int"}
	if full {
		vals = []string{"int", "string", "*int", "[]byte", "struct{}", "[136]byte", "verifPV"}
	}
	n := 0
	emit := func(s string) {
		fmt.Fprintf(&b, "var _ = %s\n", s)
		n++
	}
	for _, v := range vals {
		for _, k := range []string{"string", "[]byte"} {
			emit(fmt.Sprintf("NewAlphaSortedTree[%s, %s]", k, v))
		}
		for _, k := range []string{"string", "[]byte", "[]rune"} {
			emit(fmt.Sprintf("NewCollationSortedTree[%s, %s]", k, v))
		}
		us := []string{"uint32"}
		is := []string{"int64"}
		fs := []string{"float64"}
		if full {
			us = []string{"uint", "uint64", "uint32", "uint16", "uint8"}
			is = []string{"int", "int64", "int32", "int16", "int8"}
			fs = []string{"float64", "float32"}
		}
		for _, k := range us {
			emit(fmt.Sprintf("NewUnsignedBinaryTree[%s, %s]", k, v))
		}
		for _, k := range is {
			emit(fmt.Sprintf("NewSignedBinaryTree[%s, %s]", k, v))
		}
		for _, k := range fs {
			emit(fmt.Sprintf("NewFloatBinaryTree[%s, %s]", k, v))
		}
		emit(fmt.Sprintf("NewCompoundTree[verifCK, %s]", v))
	}
	return b.String()
}

const overlayName = "zz_verif_instantiate.go"

type loadOpts struct {
	arch     string
	allDeps  bool // LoadAllSyntax (needed for SSA of dependencies)
	overlay  bool
	fullInst bool
	extra    map[string][]byte // further overlay (mutants, variants): abs path → content
}

// load loads the tree and, when it calls the identifiers the rules rely on by other names, loads it
// a second time with those identifiers renamed to the canonical vocabulary in the overlay.
func load(o loadOpts) (*Loaded, error) {
	l, err := loadOnce(o)
	if err != nil {
		return nil, err
	}
	rs := discoverNames(l)
	if len(rs.want) == 0 {
		return l, nil
	}
	ren := renamedSources(l, rs)
	if len(ren) == 0 {
		return l, nil
	}
	o2 := o
	o2.extra = map[string][]byte{}
	for k, v := range o.extra {
		o2.extra[k] = v
	}
	for k, v := range ren {
		o2.extra[k] = v
	}
	l2, err := loadOnce(o2)
	if err != nil {
		// the structural guess was wrong somewhere (two candidates, a clash of names): analyse the
		// tree under its own names rather than fail on a tree that type-checks
		l.Renames = []string{"canonical renaming abandoned: " + strings.SplitN(err.Error(), "\n", 2)[0]}
		return l, nil
	}
	l2.extra = o.extra // non-Go readers (template, assembly) see the tree's own files
	l2.Renames = rs.notes
	return l2, nil
}

func loadOnce(o loadOpts) (*Loaded, error) {
	fset := token.NewFileSet()
	mode := packages.LoadSyntax
	if o.allDeps {
		mode = packages.LoadAllSyntax
	}
	cfg := &packages.Config{
		Mode: mode | packages.NeedModule,
		Dir:  repoDir,
		Env:  loaderEnv(o.arch),
		Fset: fset,
	}
	cfg.Overlay = map[string][]byte{}
	if o.overlay {
		cfg.Overlay[filepath.Join(repoDir, overlayName)] = []byte(overlaySource(o.fullInst))
	}
	for k, v := range o.extra {
		cfg.Overlay[k] = v
	}
	pkgs, err := packages.Load(cfg, ".", "./cmd/go-art", "./examples")
	if err != nil {
		return nil, fmt.Errorf("go/packages: %v", err)
	}
	if len(pkgs) < 2 {
		return nil, fmt.Errorf("loaded %d packages from %s, expected >= 2", len(pkgs), repoDir)
	}
	l := &Loaded{Arch: o.arch, Fset: fset, Pkgs: pkgs, extra: o.extra}
	var errs []string
	packages.Visit(pkgs, nil, func(p *packages.Package) {
		for _, e := range p.Errors {
			errs = append(errs, e.Error())
		}
	})
	if len(errs) > 0 {
		sort.Strings(errs)
		if len(errs) > 8 {
			errs = errs[:8]
		}
		return nil, fmt.Errorf("load/type errors (GOARCH=%s): %s", o.arch, strings.Join(errs, "; "))
	}
	for _, p := range pkgs {
		switch {
		case p.Name == "art":
			l.Art = p
		case strings.HasSuffix(p.PkgPath, "/cmd/go-art"):
			l.Gen = p
		}
	}
	if l.Art == nil {
		return nil, fmt.Errorf("library package (package art) not found in %s", repoDir)
	}
	l.Sizes = l.Art.TypesSizes
	if l.Sizes == nil {
		l.Sizes = types.SizesFor("gc", o.arch)
	}
	return l, nil
}

// position renders a token.Pos relative to the repository root.
func (l *Loaded) position(p token.Pos) string {
	if !p.IsValid() {
		return "?"
	}
	pos := l.Fset.Position(p)
	rel, err := filepath.Rel(repoDir, pos.Filename)
	if err != nil || strings.HasPrefix(rel, "..") {
		rel = pos.Filename
	}
	return fmt.Sprintf("%s:%d", rel, pos.Line)
}

func (l *Loaded) fileOf(p token.Pos) string {
	pos := l.Fset.Position(p)
	return filepath.Base(pos.Filename)
}

// artFiles returns the syntax files of the library package that exist on disk (the overlay
// instantiation file is excluded), sorted by name.
func (l *Loaded) artFiles() []*ast.File {
	var out []*ast.File
	for _, f := range l.Art.Syntax {
		if l.fileOf(f.Pos()) == overlayName {
			continue
		}
		out = append(out, f)
	}
	sort.Slice(out, func(i, j int) bool { return l.fileOf(out[i].Pos()) < l.fileOf(out[j].Pos()) })
	return out
}

// readFile reads a repository file through the overlay (so that mutants of non-Go files –
// assembly, the template – are seen by the rules that read them).
func (l *Loaded) readFile(path string) ([]byte, error) {
	if b, ok := l.extra[path]; ok {
		return b, nil
	}
	return os.ReadFile(path)
}
