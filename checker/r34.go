package main

// R34 GENSYNC (C19) – E6 template renderer: render cmd/go-art/tree.tmpl with the table
// extracted from the generator's AST, format it, and compare with trees.go chunk by chunk.

import (
	"bytes"
	"fmt"
	"go/format"
	"path/filepath"
	"regexp"
	"sort"
	"strings"
)

func ruleR34(c *Ctx) {
	const P = "C19"
	genDir := filepath.Join(repoDir, "cmd", "go-art")
	// (1) go:generate directives
	genFile := ""
	var directives []string
	for _, f := range c.L.artFiles() {
		for _, cg := range f.Comments {
			for _, cm := range cg.List {
				if strings.HasPrefix(cm.Text, "//go:generate ") {
					directives = append(directives, strings.TrimPrefix(cm.Text, "//go:generate "))
					genFile = c.L.fileOf(cm.Pos())
				}
			}
		}
	}
	runsGen := false
	fmtFiles := map[string]bool{}
	for _, d := range directives {
		if strings.Contains(d, "go run") && strings.Contains(d, "cmd/go-art") {
			runsGen = true
		}
		if m := regexp.MustCompile(`gofmt\s+-w\s+(\S+)`).FindStringSubmatch(d); m != nil {
			fmtFiles[m[1]] = true
		}
	}
	if runsGen {
		c.r.ok("R34", "go:generate pipeline", genFile, fmt.Sprintf("a directive runs the generator; gofmt -w on %d file(s)", len(fmtFiles)), P)
	} else {
		c.r.bad("R34", "go:generate pipeline", "gen.go", fmt.Sprintf("expected a go:generate directive running cmd/go-art; found %q", directives), P)
	}
	// (2) constant evaluation of the generator (geneval.go): what every output file holds when
	// main returns
	rel := func(p string) string {
		if r, err := filepath.Rel(repoDir, p); err == nil {
			return r
		}
		return p
	}
	ev, err := newGenEval(genDir, repoDir, genDirFiles(genDir, c.L.extra), c.L.readFile, rel)
	if err != nil {
		c.r.undecided("R34", "generator parses", "cmd/go-art/main.go", err.Error(), P)
		return
	}
	stop := ev.run()
	if stop == nil {
		ev.finish()
	}
	for _, f := range ev.findings {
		if f.bad {
			c.r.bad("R34", f.key, f.pos, f.detail, P)
		}
	}
	if stop != nil {
		if stop.exit {
			if len(ev.findings) == 0 {
				c.r.bad("R34", "generator shape", ev.posStr(stop.pos), stop.reason+": no output is complete", P)
			}
		} else {
			c.r.undecided("R34", "generator shape", ev.posStr(stop.pos), "the generator leaves the evaluated subset of Go: "+stop.reason, P)
		}
		return
	}
	has := func(key string) bool {
		for _, f := range ev.findings {
			if f.key == key {
				return true
			}
		}
		return false
	}
	if !has("generator stops on a template error") {
		c.r.ok("R34", "generator stops on a template error", "cmd/go-art/main.go", fmt.Sprintf("the error of each of the %d template executions ends the program", ev.execs), P)
	}
	if !has("generator output reaches the file") {
		c.r.ok("R34", "generator output reaches the file", "cmd/go-art/main.go", "every byte the templates produce is in an output file when main returns (writers flushed before their file is closed)", P)
	}
	var outNames []string
	for n := range ev.outFiles {
		outNames = append(outNames, n)
	}
	sort.Strings(outNames)
	if len(outNames) != 1 || ev.execs == 0 {
		c.r.undecided("R34", "generator shape", "cmd/go-art/main.go", fmt.Sprintf("expected one output file written from a template; the generator writes %v with %d template executions", outNames, ev.execs), P)
		return
	}
	outFile := outNames[0]
	for f := range fmtFiles {
		if f != outFile {
			c.r.bad("R34", "generator output name", "cmd/go-art/main.go", fmt.Sprintf("generator writes %q but go:generate formats %q", outFile, f), P)
		}
	}
	raw := ev.outFiles[outFile].buf.Bytes()
	c.r.ok("R34", "generator shape", "cmd/go-art/main.go", fmt.Sprintf("evaluated: %d template execution(s), output %s (%d bytes before the go:generate formatting step)", ev.execs, outFile, len(raw)), P)

	// (3) the pipeline's result, compared with the checked-in file
	want := raw
	if fmtFiles[outFile] {
		w, err := format.Source(raw)
		if err != nil {
			c.r.bad("R34", "rendered template is valid Go", "cmd/go-art/main.go", err.Error(), P)
			return
		}
		want = w
	}
	have, err := c.L.readFile(filepath.Join(repoDir, outFile))
	if err != nil {
		c.r.bad("R34", "generated file present", outFile, err.Error(), P)
		return
	}
	if again, err := format.Source(have); err != nil || !bytes.Equal(again, have) {
		c.r.bad("R34", outFile+" is gofmt-stable", outFile, "formatting the checked-in file changes it (it is not the output of gofmt)", P)
	} else {
		c.r.ok("R34", outFile+" is gofmt-stable", outFile, "format(trees.go) == trees.go", P)
	}
	// chunk per instantiation: split before every leaf type declaration
	split := func(src []byte) (chunks [][]byte, names []string) {
		re := regexp.MustCompile(`(?m)^type (\w+)\[V any\] struct \{`)
		idx := re.FindAllSubmatchIndex(src, -1)
		prev := 0
		name := "header"
		for _, m := range idx {
			chunks = append(chunks, src[prev:m[0]])
			names = append(names, name)
			prev = m[0]
			name = string(src[m[2]:m[3]])
		}
		chunks = append(chunks, src[prev:])
		names = append(names, name)
		return
	}
	wc, wn := split(want)
	hc, hn := split(have)
	tvPrograms, tvCompared = len(wc)-1, 0
	if len(wc) != len(hc) {
		c.r.bad("R34", "instantiation count", outFile, fmt.Sprintf("generator output has %d instantiations %v, checked-in file has %d %v", len(wc)-1, wn[1:], len(hc)-1, hn[1:]), P)
	}
	for i := 0; i < len(wc) && i < len(hc); i++ {
		tvCompared++
		key := fmt.Sprintf("instantiation %s identical to generator output", wn[i])
		if bytes.Equal(wc[i], hc[i]) && wn[i] == hn[i] {
			c.r.ok("R34", key, outFile, fmt.Sprintf("%d bytes identical", len(wc[i])), P)
			continue
		}
		// first differing line
		wl, hl := strings.Split(string(wc[i]), "\n"), strings.Split(string(hc[i]), "\n")
		off := 0
		for j := 0; j < i; j++ {
			off += bytes.Count(hc[j], []byte("\n"))
		}
		d := 0
		for d < len(wl) && d < len(hl) && wl[d] == hl[d] {
			d++
		}
		w, h := "<end>", "<end>"
		if d < len(wl) {
			w = strings.TrimSpace(wl[d])
		}
		if d < len(hl) {
			h = strings.TrimSpace(hl[d])
		}
		c.r.bad("R34", key, fmt.Sprintf("%s:%d", outFile, off+d+1),
			fmt.Sprintf("generated code and template disagree in %s (checked-in %s): template renders %q, %s has %q", wn[i], hn[i], w, outFile, h), P)
	}
	c.r.floor("R34", 3+len(wc), "generator checks", P)
}
