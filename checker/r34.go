package main

// R34 GENSYNC (C19) – E6 template renderer: render cmd/go-art/tree.tmpl with the table
// extracted from the generator's AST, format it, and compare with trees.go chunk by chunk.

import (
	"bytes"
	"fmt"
	"go/ast"
	"go/constant"
	"go/format"
	"go/parser"
	"go/token"
	"path/filepath"
	"regexp"
	"strings"
	"text/template"
)

func ruleR34(c *Ctx) {
	const P = "C19"
	genDir := filepath.Join(repoDir, "cmd", "go-art")
	// (1) go:generate directives
	genFile := ""
	var directives []string
	for _, f := range c.L.artFiles() {
		for _, cg := range f.Comments {
			for _, cm := range cg.List {
				if strings.HasPrefix(cm.Text, "//go:generate ") {
					directives = append(directives, strings.TrimPrefix(cm.Text, "//go:generate "))
					genFile = c.L.fileOf(cm.Pos())
				}
			}
		}
	}
	runsGen, fmtsOut := false, false
	outName := ""
	for _, d := range directives {
		if strings.Contains(d, "go run") && strings.Contains(d, "cmd/go-art") {
			runsGen = true
		}
		if m := regexp.MustCompile(`gofmt\s+-w\s+(\S+)`).FindStringSubmatch(d); m != nil {
			fmtsOut = true
			outName = m[1]
		}
	}
	if runsGen && fmtsOut {
		c.r.ok("R34", "go:generate pipeline", genFile, "directives run the generator and gofmt -w "+outName, P)
	} else {
		c.r.bad("R34", "go:generate pipeline", "gen.go", fmt.Sprintf("expected a go:generate directive running cmd/go-art and one running gofmt -w on its output; found %q", directives), P)
	}
	// (2) generator: table, template name, output name from the AST of main.go
	fset := token.NewFileSet()
	mainPath := filepath.Join(genDir, "main.go")
	msrc, _ := c.L.readFile(mainPath)
	mf, err := parser.ParseFile(fset, mainPath, msrc, parser.ParseComments)
	if err != nil {
		c.r.undecided("R34", "generator parses", "cmd/go-art/main.go", err.Error(), P)
		return
	}
	var info = (*ast.File)(mf)
	_ = info
	// struct fields of the row type
	rowFields := map[string]string{} // name → "string"|"bool"
	var table []map[string]any
	tmplName, outFile := "", ""
	bad := ""
	ast.Inspect(mf, func(n ast.Node) bool {
		switch x := n.(type) {
		case *ast.TypeSpec:
			if st, ok := x.Type.(*ast.StructType); ok {
				for _, f := range st.Fields.List {
					tn := ""
					if id, ok := f.Type.(*ast.Ident); ok {
						tn = id.Name
					}
					for _, nm := range f.Names {
						rowFields[nm.Name] = tn
					}
				}
			}
		case *ast.CompositeLit:
			at, ok := x.Type.(*ast.ArrayType)
			if !ok || at.Len != nil {
				return true
			}
			for _, el := range x.Elts {
				row, ok := el.(*ast.CompositeLit)
				if !ok {
					bad = "table element is not a composite literal"
					continue
				}
				r := map[string]any{}
				for _, kvE := range row.Elts {
					kv, ok := kvE.(*ast.KeyValueExpr)
					if !ok {
						bad = "table row uses positional fields"
						continue
					}
					key := kv.Key.(*ast.Ident).Name
					switch v := kv.Value.(type) {
					case *ast.BasicLit:
						if v.Kind == token.STRING {
							r[key] = constant.StringVal(constant.MakeFromLiteral(v.Value, v.Kind, 0))
						} else {
							bad = "non-string literal in table"
						}
					case *ast.Ident:
						switch v.Name {
						case "true":
							r[key] = true
						case "false":
							r[key] = false
						default:
							bad = "non-constant value " + v.Name + " in table"
						}
					default:
						bad = fmt.Sprintf("non-constant expression for %s in table", key)
					}
				}
				table = append(table, r)
			}
		case *ast.CallExpr:
			if sel, ok := x.Fun.(*ast.SelectorExpr); ok {
				switch sel.Sel.Name {
				case "ParseFS", "ParseFiles":
					for _, a := range x.Args {
						if bl, ok := a.(*ast.BasicLit); ok && bl.Kind == token.STRING {
							tmplName = constant.StringVal(constant.MakeFromLiteral(bl.Value, bl.Kind, 0))
						}
					}
				case "OpenFile", "Create":
					if len(x.Args) > 0 {
						if bl, ok := x.Args[0].(*ast.BasicLit); ok && bl.Kind == token.STRING {
							outFile = constant.StringVal(constant.MakeFromLiteral(bl.Value, bl.Kind, 0))
						}
					}
				}
			}
		}
		return true
	})
	if bad != "" || len(table) == 0 || tmplName == "" || outFile == "" {
		c.r.undecided("R34", "generator shape", "cmd/go-art/main.go",
			fmt.Sprintf("cannot extract a constant table/template/output from the generator (rows=%d template=%q output=%q %s)", len(table), tmplName, outFile, bad), P)
		return
	}
	for _, r := range table {
		for f, t := range rowFields {
			if _, ok := r[f]; !ok {
				if t == "bool" {
					r[f] = false
				} else {
					r[f] = ""
				}
			}
		}
	}
	if outName != "" && outName != outFile {
		c.r.bad("R34", "generator output name", "cmd/go-art/main.go", fmt.Sprintf("generator writes %q but go:generate formats %q", outFile, outName), P)
	}
	c.r.ok("R34", "generator shape", "cmd/go-art/main.go", fmt.Sprintf("table of %d constant rows, template %s, output %s", len(table), tmplName, outFile), P)
	c.generatorOutputPath(fset, mf)

	// (3) render + format + compare
	tsrc, err := c.L.readFile(filepath.Join(genDir, tmplName))
	if err != nil {
		c.r.undecided("R34", "template readable", "cmd/go-art/"+tmplName, err.Error(), P)
		return
	}
	tm, err := template.New(tmplName).Parse(string(tsrc))
	if err != nil {
		c.r.bad("R34", "template parses", "cmd/go-art/"+tmplName, err.Error(), P)
		return
	}
	var buf bytes.Buffer
	if err := tm.Execute(&buf, table); err != nil {
		c.r.bad("R34", "template executes", "cmd/go-art/"+tmplName, err.Error(), P)
		return
	}
	want, err := format.Source(buf.Bytes())
	if err != nil {
		c.r.bad("R34", "rendered template is valid Go", "cmd/go-art/"+tmplName, err.Error(), P)
		return
	}
	have, err := c.L.readFile(filepath.Join(repoDir, outFile))
	if err != nil {
		c.r.bad("R34", "generated file present", outFile, err.Error(), P)
		return
	}
	if again, err := format.Source(have); err != nil || !bytes.Equal(again, have) {
		c.r.bad("R34", outFile+" is gofmt-stable", outFile, "formatting the checked-in file changes it (it is not the output of gofmt)", P)
	} else {
		c.r.ok("R34", outFile+" is gofmt-stable", outFile, "format(trees.go) == trees.go", P)
	}
	// chunk per instantiation: split before every leaf type declaration
	split := func(src []byte) (chunks [][]byte, names []string) {
		re := regexp.MustCompile(`(?m)^type (\w+)\[V any\] struct \{`)
		idx := re.FindAllSubmatchIndex(src, -1)
		prev := 0
		name := "header"
		for _, m := range idx {
			chunks = append(chunks, src[prev:m[0]])
			names = append(names, name)
			prev = m[0]
			name = string(src[m[2]:m[3]])
		}
		chunks = append(chunks, src[prev:])
		names = append(names, name)
		return
	}
	wc, wn := split(want)
	hc, hn := split(have)
	tvPrograms, tvCompared = len(table), 0
	if len(wc) != len(hc) {
		c.r.bad("R34", "instantiation count", outFile, fmt.Sprintf("generator output has %d instantiations %v, checked-in file has %d %v", len(wc)-1, wn[1:], len(hc)-1, hn[1:]), P)
	}
	for i := 0; i < len(wc) && i < len(hc); i++ {
		tvCompared++
		key := fmt.Sprintf("instantiation %s identical to generator output", wn[i])
		if bytes.Equal(wc[i], hc[i]) && wn[i] == hn[i] {
			c.r.ok("R34", key, outFile, fmt.Sprintf("%d bytes identical", len(wc[i])), P)
			continue
		}
		// first differing line
		wl, hl := strings.Split(string(wc[i]), "\n"), strings.Split(string(hc[i]), "\n")
		off := 0
		for j := 0; j < i; j++ {
			off += bytes.Count(hc[j], []byte("\n"))
		}
		d := 0
		for d < len(wl) && d < len(hl) && wl[d] == hl[d] {
			d++
		}
		w, h := "<end>", "<end>"
		if d < len(wl) {
			w = strings.TrimSpace(wl[d])
		}
		if d < len(hl) {
			h = strings.TrimSpace(hl[d])
		}
		c.r.bad("R34", key, fmt.Sprintf("%s:%d", outFile, off+d+1),
			fmt.Sprintf("generated code and template disagree in %s (checked-in %s): template renders %q, %s has %q", wn[i], hn[i], w, outFile, h), P)
	}
	c.r.floor("R34", 3+len(table), "generator checks", P)
}

// generatorOutputPath: what Execute writes reaches the output file. In the function that calls
// tmpl.Execute(w, …): w is the opened file, or a bufio.Writer on it that is flushed after Execute
// and before the file is closed – explicit statements run in order, deferred calls after them in
// reverse order of registration; and the error of Execute ends the program (otherwise a template
// error leaves a truncated file behind exit status 0). A generator that drops the tail of its
// output makes the checked-in file differ from what the generator produces (C19) although the
// rendering of the template (this rule's part 3) is unchanged.
func (c *Ctx) generatorOutputPath(fset *token.FileSet, mf *ast.File) {
	const P = "C19"
	pos := func(p token.Pos) string {
		q := fset.Position(p)
		return fmt.Sprintf("cmd/go-art/main.go:%d", q.Line)
	}
	var fn *ast.FuncDecl
	var exec *ast.CallExpr
	for _, d := range mf.Decls {
		fd, ok := d.(*ast.FuncDecl)
		if !ok || fd.Body == nil {
			continue
		}
		ast.Inspect(fd.Body, func(n ast.Node) bool {
			if call, ok := n.(*ast.CallExpr); ok {
				if sel, ok := call.Fun.(*ast.SelectorExpr); ok && (sel.Sel.Name == "Execute" || sel.Sel.Name == "ExecuteTemplate") && len(call.Args) >= 2 {
					fn, exec = fd, call
				}
			}
			return true
		})
	}
	if exec == nil {
		c.r.undecided("R34", "generator output path", "cmd/go-art/main.go", "no call of Execute found", P)
		return
	}
	wID, _ := ast.Unparen(exec.Args[0]).(*ast.Ident)
	if wID == nil {
		c.r.undecided("R34", "generator output path", pos(exec.Pos()), "the writer passed to Execute is not a variable", P)
		return
	}
	// definitions: which variable is the file (os.OpenFile / os.Create), which a bufio writer on it
	fileVar, bufOf := "", map[string]string{}
	ast.Inspect(fn.Body, func(n ast.Node) bool {
		as, ok := n.(*ast.AssignStmt)
		if !ok || len(as.Rhs) != 1 {
			return true
		}
		call, ok := ast.Unparen(as.Rhs[0]).(*ast.CallExpr)
		if !ok {
			return true
		}
		sel, ok := call.Fun.(*ast.SelectorExpr)
		if !ok {
			return true
		}
		lhs, _ := as.Lhs[0].(*ast.Ident)
		if lhs == nil {
			return true
		}
		switch sel.Sel.Name {
		case "OpenFile", "Create":
			fileVar = lhs.Name
		case "NewWriter", "NewWriterSize":
			if pk, ok := sel.X.(*ast.Ident); ok && pk.Name == "bufio" && len(call.Args) >= 1 {
				if a, ok := ast.Unparen(call.Args[0]).(*ast.Ident); ok {
					bufOf[lhs.Name] = a.Name
				}
			}
		}
		return true
	})
	// the error of Execute is fatal
	errFatal := false
	var stmts []ast.Stmt = fn.Body.List
	for i, st := range stmts {
		holds := false
		ast.Inspect(st, func(n ast.Node) bool {
			if n == ast.Node(exec) {
				holds = true
			}
			return true
		})
		if !holds {
			continue
		}
		fatalIn := func(b *ast.BlockStmt) bool {
			f := false
			ast.Inspect(b, func(n ast.Node) bool {
				if call, ok := n.(*ast.CallExpr); ok {
					switch t := call.Fun.(type) {
					case *ast.Ident:
						if t.Name == "panic" {
							f = true
						}
					case *ast.SelectorExpr:
						if strings.HasPrefix(t.Sel.Name, "Fatal") || t.Sel.Name == "Exit" || strings.HasPrefix(t.Sel.Name, "Panic") {
							f = true
						}
					}
				}
				return true
			})
			return f
		}
		if is, ok := st.(*ast.IfStmt); ok && fatalIn(is.Body) { // if err := Execute(); err != nil { fatal }
			errFatal = true
		}
		if i+1 < len(stmts) {
			if is, ok := stmts[i+1].(*ast.IfStmt); ok && fatalIn(is.Body) {
				errFatal = true
			}
		}
	}
	if errFatal {
		c.r.ok("R34", "generator stops on a template error", pos(exec.Pos()), "the error of Execute ends the program", P)
	} else {
		c.r.bad("R34", "generator stops on a template error", pos(exec.Pos()), "the error of Execute is not tested by a branch that ends the program: a failing template leaves a truncated output file and exit status 0", P)
	}
	key := "generator output reaches the file"
	w := wID.Name
	if w == fileVar && fileVar != "" {
		c.r.ok("R34", key, pos(exec.Pos()), "Execute writes to the opened file itself", P)
		return
	}
	target, buffered := bufOf[w]
	if !buffered {
		c.r.undecided("R34", key, pos(exec.Pos()), "Execute writes to "+w+", which is neither the opened file nor a bufio.Writer on it", P)
		return
	}
	// order of events at the end of the function: explicit statements, then deferred calls in
	// reverse order of registration
	type ev struct {
		what string // "flush" | "close" | "exec"
		p    token.Pos
	}
	var seq, deferred []ev
	classify := func(call *ast.CallExpr) (string, bool) {
		if call == exec {
			return "exec", true
		}
		sel, ok := call.Fun.(*ast.SelectorExpr)
		if !ok {
			return "", false
		}
		x, _ := ast.Unparen(sel.X).(*ast.Ident)
		if x == nil {
			return "", false
		}
		switch {
		case sel.Sel.Name == "Flush" && x.Name == w:
			return "flush", true
		case sel.Sel.Name == "Close" && x.Name == target:
			return "close", true
		}
		return "", false
	}
	for _, st := range stmts {
		if d, ok := st.(*ast.DeferStmt); ok {
			var evs []ev
			ast.Inspect(d.Call, func(n ast.Node) bool {
				if call, ok := n.(*ast.CallExpr); ok {
					if k, ok := classify(call); ok {
						evs = append(evs, ev{k, call.Pos()})
					}
				}
				return true
			})
			deferred = append(deferred, evs...)
			continue
		}
		ast.Inspect(st, func(n ast.Node) bool {
			if call, ok := n.(*ast.CallExpr); ok {
				if k, ok := classify(call); ok {
					seq = append(seq, ev{k, call.Pos()})
				}
			}
			return true
		})
	}
	for i := len(deferred) - 1; i >= 0; i-- {
		seq = append(seq, deferred[i])
	}
	state := "" // after exec: waiting for flush
	for _, e := range seq {
		switch e.what {
		case "exec":
			state = "written"
		case "flush":
			if state == "written" {
				state = "flushed"
			}
		case "close":
			if state == "written" {
				c.r.bad("R34", key, pos(e.p), fmt.Sprintf("%s.Close() runs before %s.Flush() (deferred calls run after the explicit statements, in reverse order): what is still in the buffer is written to a closed file and the error is lost – the generator exits 0 and the tail of the output is missing", target, w), P)
				return
			}
		}
	}
	switch state {
	case "flushed":
		c.r.ok("R34", key, pos(exec.Pos()), fmt.Sprintf("%s is a bufio.Writer on %s and is flushed after Execute, before %s is closed", w, target, target), P)
	default:
		c.r.bad("R34", key, pos(exec.Pos()), fmt.Sprintf("%s is a bufio.Writer on %s and is never flushed after Execute: the tail of the output stays in the buffer", w, target), P)
	}
}
