package main

import (
	"fmt"

	"go/ast"
	"go/token"
	"go/types"
	"golang.org/x/tools/go/cfg"
	"strings"
)

// worklistLoops finds `for len(q) != 0 { x := q[len(q)-1]; q = q[:len(q)-1]; … append(q, …) }`.
func (c *Ctx) worklistLoops(u *FuncUnit) []*ast.ForStmt {
	info := c.m.Info
	var out []*ast.ForStmt
	ast.Inspect(u.Body, func(n ast.Node) bool {
		if lit, ok := n.(*ast.FuncLit); ok && ast.Node(lit) != ast.Node(u.Lit) {
			return false
		}
		f, ok := n.(*ast.ForStmt)
		if !ok {
			return true
		}
		pops, pushes := 0, 0
		ast.Inspect(f.Body, func(x ast.Node) bool {
			if es, ok := x.(*ast.ExprStmt); ok {
				if _, _, isPush := c.m.pushCall(es); isPush {
					pushes++
				}
			}
			if call, ok := x.(*ast.CallExpr); ok {
				if _, isPop := c.m.popCall(call); isPop {
					pops++
				}
			}
			if as, ok := x.(*ast.AssignStmt); ok && len(as.Lhs) == 1 && len(as.Rhs) == 1 {
				if se, ok := ast.Unparen(as.Rhs[0]).(*ast.SliceExpr); ok && identVar(info, se.X) != nil && identVar(info, se.X) == identVar(info, as.Lhs[0]) {
					pops++
				}
				if call, ok := ast.Unparen(as.Rhs[0]).(*ast.CallExpr); ok && isBuiltinCall(info, call, "append") && len(call.Args) > 0 && identVar(info, call.Args[0]) == identVar(info, as.Lhs[0]) {
					pushes++
				}
				// q = pushChildren(q, n): a helper that appends to the stack it is given
				if call, ok := ast.Unparen(as.Rhs[0]).(*ast.CallExpr); ok {
					if cu := c.m.calleeUnit(call); cu != nil && cu.Lit == nil {
						if pi := passThroughParam(c.m, cu); pi >= 0 && pi < len(call.Args) && identVar(info, call.Args[pi]) != nil && identVar(info, call.Args[pi]) == identVar(info, as.Lhs[0]) {
							pushes += 2
						}
					}
				}
			}
			return true
		})
		if pops >= 1 && pushes >= 2 {
			out = append(out, f)
		}
		return true
	})
	return out
}

// R11 WORKSTATE – in a worklist loop a key position is per path, not loop-carried.
func ruleR11(c *Ctx) {
	info := c.m.Info
	n := 0
	for _, u := range c.sortedUnits() {
		props := c.attribute(u, "C02", "C03", "C04", "C08", "C09")
		if len(props) == 0 {
			continue // a walk that no operation named by a property reaches (statistics, debugging)
		}
		for _, loop := range c.worklistLoops(u) {
			n++
			// variables declared outside the loop and assigned inside it
			carried := map[*types.Var]token.Pos{}
			ast.Inspect(loop.Body, func(x ast.Node) bool {
				if _, isLit := x.(*ast.FuncLit); isLit {
					return false
				}
				mark := func(e ast.Expr, tok token.Token) {
					if tok == token.DEFINE {
						return
					}
					v := identVar(info, e)
					if v == nil || (v.Pos() >= loop.Pos() && v.Pos() <= loop.End()) {
						return
					}
					carried[v] = e.Pos()
				}
				switch y := x.(type) {
				case *ast.AssignStmt:
					for _, l := range y.Lhs {
						mark(l, y.Tok)
					}
				case *ast.IncDecStmt:
					mark(y.X, token.ASSIGN)
				}
				return true
			})
			// is a carried integer variable used as a key position (index, slice bound, or call argument)?
			bad := 0
			for v, pos := range carried {
				if !isIntType(v.Type()) {
					continue
				}
				use := ""
				ast.Inspect(loop.Body, func(x ast.Node) bool {
					mentions := func(e ast.Expr) bool {
						found := false
						if e == nil {
							return false
						}
						ast.Inspect(e, func(z ast.Node) bool {
							if id, ok := z.(*ast.Ident); ok && info.ObjectOf(id) == v {
								found = true
							}
							return true
						})
						return found
					}
					switch y := x.(type) {
					case *ast.IndexExpr:
						if mentions(y.Index) {
							use = "index " + display((&canonCtx{info: info}).canon(y))
						}
					case *ast.SliceExpr:
						if mentions(y.Low) || mentions(y.High) {
							use = "slice bound " + display((&canonCtx{info: info}).canon(y))
						}
					case *ast.CallExpr:
						if isBuiltinCall(info, y, "append") || isConversion(info, y) || isBuiltinCall(info, y, "len") || isBuiltinCall(info, y, "min") {
							return true
						}
						for _, a := range y.Args {
							if mentions(a) && isIntType(info.TypeOf(a)) {
								use = "argument of " + c.m.calleeName(y)
							}
						}
					}
					return true
				})
				if use != "" {
					bad++
					c.r.bad("R11", fmt.Sprintf("%s worklist carries key position %s", u.Name, v.Name()), c.m.pos(pos),
						fmt.Sprintf("%s is declared outside the worklist loop, updated inside it and used as a key position (%s): after a sibling subtree has been expanded it no longer is the depth of the popped entry", v.Name(), use), props...)
				}
			}
			if bad == 0 {
				c.r.ok("R11", fmt.Sprintf("%s worklist keeps key positions per entry", u.Name), c.m.pos(loop.Pos()), "no integer variable that is carried across iterations is used as an index, slice bound or position argument", props...)
			}
			// entries that carry their key position (entry{ref, depth}): every child pushed inside the
			// loop gets the same position expression – the one computed for the children of the
			// popped node – and never the popped position itself
			type pushPos struct {
				text string
				pos  token.Pos
				self bool
			}
			var pushes []pushPos
			poppedPos := map[*types.Var]bool{} // integer locals defined from the popped entry
			ast.Inspect(loop.Body, func(x ast.Node) bool {
				as, ok := x.(*ast.AssignStmt)
				if !ok || as.Tok != token.DEFINE {
					return true
				}
				for i, l := range as.Lhs {
					v := identVar(info, l)
					if v == nil || !isIntType(v.Type()) {
						continue
					}
					var rhs ast.Expr
					if len(as.Rhs) == len(as.Lhs) {
						rhs = as.Rhs[i]
					} else if len(as.Rhs) == 1 {
						rhs = as.Rhs[0]
					}
					// q[len(q)-1].depth  /  e.depth with e popped  /  a pop call
					fromStack := false
					ast.Inspect(rhs, func(z ast.Node) bool {
						switch y := z.(type) {
						case *ast.IndexExpr:
							if _, isSlice := info.TypeOf(y.X).Underlying().(*types.Slice); isSlice {
								fromStack = true
							}
						case *ast.CallExpr:
							if _, isPop := c.m.popCall(y); isPop {
								fromStack = true
							}
						}
						return true
					})
					if fromStack {
						poppedPos[v] = true
					}
				}
				return true
			})
			posOf := func(e ast.Expr) (ast.Expr, bool) {
				// entry{ref: X, depth: D}
				if cl, ok := ast.Unparen(e).(*ast.CompositeLit); ok {
					hasRef := false
					var d ast.Expr
					for _, el := range cl.Elts {
						v := el
						if kv, ok := el.(*ast.KeyValueExpr); ok {
							v = kv.Value
						}
						if c.isNodeRefType(info.TypeOf(v)) {
							hasRef = true
						} else if isIntType(info.TypeOf(v)) {
							d = v
						}
					}
					if hasRef && d != nil {
						return d, true
					}
				}
				return nil, false
			}
			ast.Inspect(loop.Body, func(x ast.Node) bool {
				if _, isLit := x.(*ast.FuncLit); isLit {
					return false
				}
				call, ok := x.(*ast.CallExpr)
				if !ok {
					return true
				}
				var d ast.Expr
				switch {
				case isBuiltinCall(info, call, "append") && len(call.Args) == 2:
					d, _ = posOf(call.Args[1])
				default:
					// push(child, pos): a local closure or method that takes a reference and an integer
					if len(call.Args) == 2 && c.isNodeRefType(info.TypeOf(call.Args[0])) && isIntType(info.TypeOf(call.Args[1])) {
						if v := identVar(info, call.Fun); v != nil && c.m.LitOfVar[v] != nil {
							d = call.Args[1]
						}
					}
				}
				if d == nil {
					return true
				}
				pv := identVar(info, d)
				pushes = append(pushes, pushPos{text: exprText(d), pos: call.Pos(), self: pv != nil && poppedPos[pv]})
				return true
			})
			if len(pushes) >= 2 {
				count := map[string]int{}
				for _, pp := range pushes {
					count[pp.text]++
				}
				major := ""
				for t, k := range count {
					if major == "" || k > count[major] || (k == count[major] && t < major) {
						major = t
					}
				}
				key := fmt.Sprintf("%s children are pushed with the position computed for them", u.Name)
				okAll := true
				for _, pp := range pushes {
					switch {
					case pp.self:
						okAll = false
						c.r.bad("R11", key, c.m.pos(pp.pos), fmt.Sprintf("a child is pushed with %s, the position of the popped entry itself: it is scanned as if it sat at its parent's depth, so its compressed path and branch byte are compared with the wrong key bytes", pp.text), props...)
					case pp.text != major && count[major] > count[pp.text]:
						okAll = false
						c.r.bad("R11", key, c.m.pos(pp.pos), fmt.Sprintf("%d of the %d pushes of this loop use position %s, this one uses %s", count[major], len(pushes), major, pp.text), props...)
					}
				}
				if okAll {
					c.r.ok("R11", key, c.m.pos(loop.Pos()), fmt.Sprintf("all %d pushes use %s", len(pushes), major), props...)
				}
			}
		}
	}
	c.r.floor("R11", 2, "worklist loops", "C03")
}

// R13 LEAFFILTER – every yield of a filtered scan is dominated by the leaf-level test.
func ruleR13(c *Ctx) {
	info := c.m.Info
	m := c.m
	yieldsOf := func(u *FuncUnit) (*types.Var, []*ast.CallExpr) { return yieldCallsOf(info, u) }
	for _, u := range c.seqLiterals() {
		parent := u.Parent
		if parent == nil {
			continue
		}
		g := m.cfgOf(u)
		guards := c.classifierGuards(u, g)
		_, ycalls := yieldsOf(u)
		switch {
		case unitBase(parent.Name) == "rangeScan":
			props := []string{"C03", "C09"}
			// parameters #1 and #2 of the parent are the lower and upper bound
			var pnames []*types.Var
			for _, f := range parent.Decl.Type.Params.List {
				for _, nm := range f.Names {
					v, _ := info.Defs[nm].(*types.Var)
					pnames = append(pnames, v)
				}
			}
			if len(pnames) < 3 {
				c.r.undecided("R13", "rangeScan bounds", m.pos(parent.Decl.Pos()), "rangeScan does not have (root, lower, upper, …) parameters", props...)
				continue
			}
			lower, upper := pnames[1], pnames[2]
			if sr := c.scanRoles(); sr.structMode {
				// the bounds arrive in a struct: the variables the leaf key is compared with under
				// the yield, each traced back to a field of the parameter (scanroles.go)
				lower, upper = sr.lowerVar, sr.upperVar
				if lower == nil || upper == nil || lower == upper {
					c.r.bad("R13", "rangeScan yield within bounds", m.pos(parent.Decl.Pos()), "the bounds are handed over in a struct and the yield is not dominated by comparisons of the stored key with two of its fields (stored key >= one, <= another): keys outside the requested bounds can be yielded", props...)
					continue
				}
			}
			// keyRel: the relation "stored key REL bound" that holds on a guard edge, for
			//   bytes.Compare(a, b) OP 0 (either operand order, 0 on either side), with a or b the
			//   leaf's getKey() – directly or through a local bound once – and the other a bound
			negate := map[string]string{"<": ">=", ">=": "<", ">": "<=", "<=": ">", "==": "!=", "!=": "=="}
			flip := map[string]string{"<": ">", ">": "<", "<=": ">=", ">=": "<=", "==": "==", "!=": "!="}
			isLeafKey := func(e ast.Expr) bool {
				kc, isCall := ast.Unparen(m.throughLocals(u, e)).(*ast.CallExpr)
				if !isCall {
					return false
				}
				sel, isSel := kc.Fun.(*ast.SelectorExpr)
				return isSel && sel.Sel.Name == "getKey"
			}
			boundOf := func(e ast.Expr) *types.Var {
				if v := identVar(info, ast.Unparen(e)); v == lower || v == upper {
					return v // the bound itself (a local of rangeScan filled from a field of its parameter)
				}
				v := identVar(info, ast.Unparen(m.throughLocals(u, e)))
				if v == lower || v == upper {
					return v
				}
				return nil
			}
			keyRel := func(gd guard) (bound *types.Var, rel string) {
				be, isBe := ast.Unparen(c.expandPredicate(gd.atom.e)).(*ast.BinaryExpr)
				if !isBe {
					return nil, ""
				}
				rel = be.Op.String()
				if _, known := negate[rel]; !known {
					return nil, ""
				}
				x, y := be.X, be.Y
				if tv, has := info.Types[x]; has && tv.Value != nil && tv.Value.ExactString() == "0" {
					x, y = y, x
					rel = flip[rel]
				}
				if tv, has := info.Types[y]; !has || tv.Value == nil || tv.Value.ExactString() != "0" {
					return nil, ""
				}
				cc, isCall := ast.Unparen(m.throughLocals(u, x)).(*ast.CallExpr)
				if !isCall || m.calleeName(cc) != "bytes.Compare" || len(cc.Args) != 2 {
					return nil, ""
				}
				switch {
				case isLeafKey(cc.Args[0]) && boundOf(cc.Args[1]) != nil:
					bound = boundOf(cc.Args[1])
				case isLeafKey(cc.Args[1]) && boundOf(cc.Args[0]) != nil:
					bound = boundOf(cc.Args[0])
					rel = flip[rel]
				default:
					return nil, ""
				}
				if !gd.atom.val {
					rel = negate[rel]
				}
				return bound, rel
			}
			for _, yc := range ycalls {
				yb, _ := blockOf(g, yc)
				lowOK, upOK := false, false
				for _, gd := range guards {
					bound, rel := keyRel(gd)
					if bound == nil || !edgeDominates(g, gd.b, gd.succ, yb) {
						continue
					}
					if bound == lower && rel == ">=" {
						lowOK = true
					}
					if bound == upper && rel == "<=" {
						upOK = true
					}
				}
				key := "rangeScan yield within bounds"
				if lowOK && upOK {
					c.r.ok("R13", key, m.pos(yc.Pos()), fmt.Sprintf("dominated by stored key >= %s and stored key <= %s", lower.Name(), upper.Name()), props...)
				} else {
					c.r.bad("R13", key, m.pos(yc.Pos()), fmt.Sprintf("a yield is not dominated by both leaf-level bound tests (lower ok=%v, upper ok=%v): keys outside [%s,%s] can be yielded", lowOK, upOK, lower.Name(), upper.Name()), props...)
				}
			}
			// the only early exit from the scan is on `> upper`; `< lower` must continue
			for _, gd := range guards {
				if bound, rel := keyRel(gd); bound == lower && rel == "<" {
					// edge "key < lower": must go back to the loop (no exit reachable without passing the loop head)
					tgt := gd.b.Succs[gd.succ]
					// follow the edge: it must lead back to the head of the worklist loop, not out of it
					exits := true
					seen := map[*cfg.Block]bool{}
					for cur := tgt; cur != nil && !seen[cur]; {
						seen[cur] = true
						if cur.Kind == cfg.KindForLoop {
							exits = false
							break
						}
						if len(cur.Succs) != 1 || len(cur.Nodes) != 0 {
							break
						}
						cur = cur.Succs[0]
					}
					key := "rangeScan key below the lower bound is skipped, not a stop"
					if exits {
						c.r.bad("R13", key, m.pos(gd.atom.e.Pos()), "a key below the lower bound ends the scan: every later key is lost", props...)
					} else {
						c.r.ok("R13", key, m.pos(gd.atom.e.Pos()), "continues with the next entry", props...)
					}
				}
			}
			// callers pass ordered bounds
			for _, tk := range m.Trees {
				ru := tk.Methods["Range"]
				if ru == nil || isCollationKind(tk) {
					continue
				}
				ast.Inspect(ru.Body, func(n ast.Node) bool {
					call, ok := n.(*ast.CallExpr)
					if !ok || m.calleeName(call) != "rangeScan" || len(call.Args) < 2 {
						return true
					}
					sr := c.scanRoles()
					var a, b *types.Var
					if sr.okA {
						a, b = identVar(info, c.boundArgAt(ru, call, sr.lowA)), identVar(info, c.boundArgAt(ru, call, sr.upA))
					}
					key := tk.Name + ".Range passes ordered bounds"
					if a == nil || b == nil {
						c.r.undecided("R13", key, m.pos(call.Pos()), "bounds are not plain variables", "C03")
						return true
					}
					// the pair that steers the descent belongs to the same two bounds, in the same order
					if sr.okB {
						la, ua := identVar(info, c.boundArgAt(ru, call, sr.lowB)), identVar(info, c.boundArgAt(ru, call, sr.upB))
						k2 := tk.Name + ".Range steers the descent by the bounds it compares the keys with"
						if la != nil && ua != nil {
							src := func(v *types.Var) *types.Var {
								if _, isTP := types.Unalias(v.Type()).(*types.TypeParam); isTP && c.enclosingParam(ru, v) {
									return v
								}
								return c.keyParamSource(ru, v)
							}
							sa, sb, sla, sua := src(a), src(b), src(la), src(ua)
							switch {
							case (la == a || (sa != nil && sa == sla)) && (ua == b || (sb != nil && sb == sua)):
								c.r.ok("R13", k2, m.pos(call.Pos()), fmt.Sprintf("lower pair (%s, %s) and upper pair (%s, %s) each come from one bound", a.Name(), la.Name(), b.Name(), ua.Name()), "C03", "C09")
							case sa != nil && sla != nil && sb != nil && sua != nil:
								c.r.bad("R13", k2, m.pos(call.Pos()), fmt.Sprintf("the stored keys are compared with (%s, %s), computed from (%s, %s), but the descent is steered by (%s, %s), computed from (%s, %s): subtrees that hold keys within the bounds are skipped", a.Name(), b.Name(), sa.Name(), sb.Name(), la.Name(), ua.Name(), sla.Name(), sua.Name()), "C03", "C09")
							}
						}
					}
					if why := c.orderedBefore(ru, call, a, b); why != "" {
						c.r.ok("R13", key, m.pos(call.Pos()), why, "C03", "C09")
					} else {
						c.r.bad("R13", key, m.pos(call.Pos()), fmt.Sprintf("no swap normalisation `if %s > %s { swap }` dominates the scan: reversed bounds give an empty result", a.Name(), b.Name()), "C03", "C09")
					}
					return true
				})
			}
			// the bounds are the caller's: the only assignments to the key-typed parameters of Range
			// are the swap of the two and the documented default of an empty upper bound (the
			// greatest stored key)
			for _, tk := range m.Trees {
				ru := tk.Methods["Range"]
				if ru == nil || ru.Type.Params == nil {
					continue
				}
				var kp []*types.Var
				for _, f := range ru.Type.Params.List {
					for _, nm := range f.Names {
						if v, _ := info.Defs[nm].(*types.Var); v != nil {
							kp = append(kp, v)
						}
					}
				}
				if len(kp) != 2 {
					continue
				}
				isParam := func(e ast.Expr) int {
					v := identVar(info, e)
					for i, p := range kp {
						if v == p {
							return i
						}
					}
					return -1
				}
				ast.Inspect(ru.Body, func(n ast.Node) bool {
					as, ok := n.(*ast.AssignStmt)
					if !ok {
						return true
					}
					for i, l := range as.Lhs {
						pi := isParam(l)
						if pi < 0 {
							continue
						}
						key := fmt.Sprintf("%s.Range assignment to bound %s", tk.Name, kp[pi].Name())
						switch {
						case len(as.Lhs) == 2 && len(as.Rhs) == 2 && isParam(as.Lhs[0]) >= 0 && isParam(as.Lhs[1]) >= 0 && isParam(as.Rhs[0]) == isParam(as.Lhs[1]) && isParam(as.Rhs[1]) == isParam(as.Lhs[0]):
							c.r.ok("R13", key, m.pos(as.Pos()), "swap of the two bounds", "C03")
						case pi == 1 && len(as.Rhs) == 1:
							call, _ := ast.Unparen(as.Rhs[0]).(*ast.CallExpr)
							if call == nil {
								// end = last with last, _, ok := t.Maximum()
								if lv := identVar(info, as.Rhs[0]); lv != nil {
									call = c.defCallOf(ru, lv)
								}
							}
							okDef := call != nil && c.isGreatestKeyCall(ru, call, 0)
							if okDef {
								c.r.ok("R13", key, m.pos(as.Pos()), "an empty upper bound defaults to the greatest stored key", "C03")
							} else {
								c.r.bad("R13", key, m.pos(as.Pos()), "the upper bound is replaced by something other than the greatest stored key", "C03")
							}
						default:
							_ = i
							c.r.bad("R13", key, m.pos(as.Pos()), "the lower bound the caller passed is replaced: the sequence no longer yields exactly the keys within the requested bounds", "C03")
						}
					}
					return true
				})
			}
		case unitBase(parent.Name) == "filter":
			props := []string{"C04"}
			for _, yc := range ycalls {
				// the yield may sit in a visitor literal handed to a leaf walker: the predicate test
				// is then in that literal
				g, guards := g, guards
				if hu := c.unitHolding(u, yc); hu != u {
					g = m.cfgOf(hu)
					guards = guardsOf(info, g)
				}
				yb, _ := blockOf(g, yc)
				ok := false
				for _, gd := range guards {
					if !gd.atom.val {
						continue
					}
					pc, isCall := ast.Unparen(gd.atom.e).(*ast.CallExpr)
					if !isCall || len(pc.Args) != len(yc.Args) {
						continue
					}
					pv := identVar(info, pc.Fun)
					if pv == nil || !c.enclosingParam(u, pv) {
						continue
					}
					same := true
					for i := range pc.Args {
						if identVar(info, pc.Args[i]) == nil || identVar(info, pc.Args[i]) != identVar(info, yc.Args[i]) {
							same = false
						}
					}
					if same && edgeDominates(g, gd.b, gd.succ, yb) {
						ok = true
					}
				}
				// predicate(k, v) && !yield(k, v): the right operand of && is evaluated only when the
				// left one holds
				if !ok {
					isPred := func(e ast.Expr) bool {
						pc, isCall := ast.Unparen(e).(*ast.CallExpr)
						if !isCall || len(pc.Args) != len(yc.Args) {
							return false
						}
						pv := identVar(info, pc.Fun)
						if pv == nil || !c.enclosingParam(u, pv) {
							return false
						}
						for i := range pc.Args {
							if identVar(info, pc.Args[i]) == nil || identVar(info, pc.Args[i]) != identVar(info, yc.Args[i]) {
								return false
							}
						}
						return true
					}
					contains := func(e ast.Expr) bool {
						found := false
						ast.Inspect(e, func(z ast.Node) bool {
							if z == ast.Node(yc) {
								found = true
							}
							return !found
						})
						return found
					}
					ast.Inspect(u.Body, func(z ast.Node) bool {
						be, isBe := z.(*ast.BinaryExpr)
						if !isBe || be.Op != token.LAND || !contains(be.Y) {
							return true
						}
						// the left operand: predicate(k, v), possibly itself a conjunction containing it
						var hasPred func(e ast.Expr) bool
						hasPred = func(e ast.Expr) bool {
							e = ast.Unparen(e)
							if isPred(e) {
								return true
							}
							if l, isL := e.(*ast.BinaryExpr); isL && l.Op == token.LAND {
								return hasPred(l.X) || hasPred(l.Y)
							}
							return false
						}
						if hasPred(be.X) {
							ok = true
						}
						return true
					})
				}
				if ok {
					c.r.ok("R13", "filter yield under predicate", m.pos(yc.Pos()), "dominated by predicate(k, v) on the yielded pair", props...)
				} else {
					c.r.bad("R13", "filter yield under predicate", m.pos(yc.Pos()), "a pair is yielded without the predicate having accepted it", props...)
				}
			}
		case strings.HasSuffix(parent.Name, ".Range"):
			// start == end closure: yield only under Search's ok, and the yielded key is the searched key
			props := []string{"C03"}
			for _, yc := range ycalls {
				yb, _ := blockOf(g, yc)
				ok := false
				for _, gd := range guards {
					v := identVar(info, gd.atom.e)
					if v == nil || !gd.atom.val {
						continue
					}
					def := c.defCallOf(u, v)
					if def == nil {
						continue
					}
					if sel, isSel := def.Fun.(*ast.SelectorExpr); isSel && sel.Sel.Name == "Search" && len(def.Args) == 1 && len(yc.Args) == 2 &&
						identVar(info, def.Args[0]) != nil && identVar(info, def.Args[0]) == identVar(info, yc.Args[0]) && edgeDominates(g, gd.b, gd.succ, yb) {
						ok = true
					}
				}
				key := parent.Name + " equal-bounds yield under Search ok"
				if ok {
					c.r.ok("R13", key, m.pos(yc.Pos()), "dominated by ok of Search(same key)", props...)
				} else {
					c.r.bad("R13", key, m.pos(yc.Pos()), "the equal-bounds sequence yields without a successful Search of the yielded key", props...)
				}
			}
		}
	}
	// the prefix predicates: bytes.HasPrefix(bytes-of-stored-key, bytes-of-prefix)
	for _, tk := range m.Trees {
		pu := tk.Methods["Prefix"]
		if pu == nil {
			continue
		}
		for _, lu := range m.unitsOf(pu)[1:] {
			if lu.Type.Results == nil || len(lu.Type.Results.List) != 1 || lu.Type.Params == nil {
				continue
			}
			var params []*types.Var
			for _, f := range lu.Type.Params.List {
				for _, nm := range f.Names {
					v, _ := info.Defs[nm].(*types.Var)
					params = append(params, v)
				}
			}
			ast.Inspect(lu.Body, func(n ast.Node) bool {
				call, ok := n.(*ast.CallExpr)
				if !ok || m.calleeName(call) != "bytes.HasPrefix" || len(call.Args) != 2 {
					return true
				}
				fromParam := func(e ast.Expr) bool {
					found := false
					ast.Inspect(e, func(z ast.Node) bool {
						if id, ok := z.(*ast.Ident); ok {
							v, _ := info.ObjectOf(id).(*types.Var)
							for _, p := range params {
								if v != nil && (v == p) {
									found = true
								}
							}
							// a local derived from the parameter (leafKeyS := []byte(string(k)))
							if v != nil && !found {
								if def := singleDef(info, lu.Body, v); def != nil {
									ast.Inspect(def, func(w ast.Node) bool {
										if id2, ok := w.(*ast.Ident); ok {
											for _, p := range params {
												if info.ObjectOf(id2) == p {
													found = true
												}
											}
										}
										return true
									})
								}
							}
						}
						return true
					})
					return found
				}
				key := tk.Name + ".Prefix predicate argument roles"
				props := []string{"C04"}
				if isCollationKind(tk) {
					props = append(props, "C08")
				}
				switch {
				case fromParam(call.Args[0]) && !fromParam(call.Args[1]):
					c.r.ok("R13", key, m.pos(call.Pos()), "HasPrefix(stored key, prefix)", props...)
				default:
					c.r.bad("R13", key, m.pos(call.Pos()), "bytes.HasPrefix is not called as HasPrefix(stored key, requested prefix)", props...)
				}
				return true
			})
		}
	}
	c.r.floor("R13", 5, "leaf-level filters", "C03")
}

// defCallOf: v is defined by `…, v := call(...)` (any position).
func (c *Ctx) defCallOf(u *FuncUnit, v *types.Var) *ast.CallExpr {
	var out *ast.CallExpr
	ast.Inspect(u.Body, func(n ast.Node) bool {
		as, ok := n.(*ast.AssignStmt)
		if !ok || len(as.Rhs) != 1 {
			return true
		}
		for _, l := range as.Lhs {
			if identVar(c.m.Info, l) == v {
				if call, ok := ast.Unparen(as.Rhs[0]).(*ast.CallExpr); ok {
					out = call
				}
			}
		}
		return true
	})
	return out
}

// orderedBefore: a swap normalisation of (a,b) or of the variables they are computed from
// precedes the call. Returns a description or "".
func (c *Ctx) orderedBefore(u *FuncUnit, call *ast.CallExpr, a, b *types.Var) string {
	info := c.m.Info
	// variables a and b are derived from (Transform(start), Transform(end)): accept a swap of
	// either pair, as long as the swap is `if X > Y { X, Y = Y, X }` (or bytes.Compare(X,Y) > 0)
	srcOf := func(v *types.Var) *types.Var { return c.keyParamSource(u, v) }
	pairs := [][2]*types.Var{{a, b}}
	if sa, sb := srcOf(a), srcOf(b); sa != nil && sb != nil {
		pairs = append(pairs, [2]*types.Var{sa, sb})
	}
	found := ""
	g := c.m.cfgOf(u)
	guards := guardsOf(info, g)
	mentions := func(e ast.Expr, v *types.Var) bool {
		f := false
		ast.Inspect(e, func(z ast.Node) bool {
			if id, ok := z.(*ast.Ident); ok && info.ObjectOf(id) == v {
				f = true
			}
			return true
		})
		return f
	}
	negate := map[string]string{"<": ">=", ">=": "<", ">": "<=", "<=": ">"}
	flip := map[string]string{"<": ">", ">": "<", "<=": ">=", ">=": "<="}
	// greater(gd): the pair (x, y) of which the guard edge establishes x > y – for x OP y on
	// (converted) variables and for Compare(x, y) OP 0, in either operand order
	greater := func(gd guard) (x, y ast.Expr) {
		be, ok := ast.Unparen(gd.atom.e).(*ast.BinaryExpr)
		if !ok {
			return nil, nil
		}
		rel := be.Op.String()
		if _, known := negate[rel]; !known {
			return nil, nil
		}
		l, r := ast.Unparen(be.X), ast.Unparen(be.Y)
		zero := func(e ast.Expr) bool {
			tv, has := info.Types[e]
			return has && tv.Value != nil && tv.Value.ExactString() == "0"
		}
		if zero(l) {
			l, r, rel = r, l, flip[rel]
		}
		if zero(r) {
			cc, ok := l.(*ast.CallExpr)
			if !ok || len(cc.Args) != 2 || isConversion(info, cc) {
				return nil, nil
			}
			l, r = cc.Args[0], cc.Args[1]
		}
		if !gd.atom.val {
			rel = negate[rel]
		}
		switch rel {
		case ">":
			return l, r
		case "<":
			return r, l
		}
		return nil, nil
	}
	ast.Inspect(u.Body, func(n ast.Node) bool {
		sw, ok := n.(*ast.AssignStmt)
		if !ok || sw.Pos() > call.Pos() || len(sw.Lhs) != 2 || len(sw.Rhs) != 2 {
			return true
		}
		for _, p := range pairs {
			if !(identVar(info, sw.Lhs[0]) == p[0] && identVar(info, sw.Lhs[1]) == p[1] && identVar(info, sw.Rhs[0]) == p[1] && identVar(info, sw.Rhs[1]) == p[0]) &&
				!(identVar(info, sw.Lhs[0]) == p[1] && identVar(info, sw.Lhs[1]) == p[0] && identVar(info, sw.Rhs[0]) == p[0] && identVar(info, sw.Rhs[1]) == p[1]) {
				continue
			}
			sb, _ := blockOf(g, sw)
			if sb == nil {
				continue
			}
			for _, gd := range guards {
				x, y := greater(gd)
				if x == nil || !edgeDominates(g, gd.b, gd.succ, sb) {
					continue
				}
				if mentions(x, p[0]) && mentions(y, p[1]) && !mentions(x, p[1]) && !mentions(y, p[0]) {
					found = fmt.Sprintf("%s and %s are swapped exactly when %s > %s, before the scan", p[0].Name(), p[1].Name(), p[0].Name(), p[1].Name())
				}
				// the encoded bounds swapped under the test of the bounds they were encoded from (the
				// encodings of these kinds preserve the order – C07/R15 – and the sources are not
				// assigned between the encoding and the test)
				if len(pairs) == 2 && p == pairs[0] {
					q := pairs[1]
					if mentions(x, q[0]) && mentions(y, q[1]) && !mentions(x, q[1]) && !mentions(y, q[0]) && !assignedAnywhere(info, u.Body, q[0]) && !assignedAnywhere(info, u.Body, q[1]) {
						found = fmt.Sprintf("%s and %s are swapped exactly when %s > %s (the bounds they encode), before the scan", p[0].Name(), p[1].Name(), q[0].Name(), q[1].Name())
					}
				}
			}
		}
		return true
	})
	return found
}

// R39 SCANEXIT (C02, C03, C04) – a stack traversal leaves its loop only because the stack is
// empty, because yield returned false, or (range scan) because a key is above the upper bound.
// R40 PREFIXRET (C04) – Prefix hands out either the filtering scan or, for the empty prefix, All().
func ruleR39R40(c *Ctx) {
	info := c.m.Info
	m := c.m
	nLoops := 0
	for _, u := range c.seqLiterals() {
		loops := c.worklistLoops(u)
		if len(loops) == 0 {
			continue
		}
		nLoops++
		props := c.attribute(u, "C02", "C03", "C04", "C05", "C08", "C09")
		g := m.cfgOf(u)
		guards := c.classifierGuards(u, g)
		yv, _ := info.Defs[u.Type.Params.List[0].Names[0]].(*types.Var)
		// allowed reasons to leave: edges (block, succ)
		type edge struct {
			b    *cfg.Block
			succ int
			why  string
		}
		var allowed []edge
		for _, gd := range guards {
			e := ast.Unparen(c.expandPredicate(gd.atom.e))
			// yield returned false
			if call, ok := e.(*ast.CallExpr); ok && identVar(info, call.Fun) == yv && !gd.atom.val {
				allowed = append(allowed, edge{gd.b, gd.succ, "yield returned false"})
			}
			// empty tree
			if be, ok := e.(*ast.BinaryExpr); ok {
				if sel, ok := ast.Unparen(be.X).(*ast.SelectorExpr); ok && sel.Sel.Name == "pointer" && info.Types[be.Y].IsNil() {
					if (be.Op == token.EQL && gd.atom.val) || (be.Op == token.NEQ && !gd.atom.val) {
						allowed = append(allowed, edge{gd.b, gd.succ, "empty tree"})
					}
				}
				// explicit emptiness test of the stack: len(q) == 0
				if lc, ok := ast.Unparen(be.X).(*ast.CallExpr); ok && isBuiltinCall(info, lc, "len") {
					if tv, has := info.Types[be.Y]; has && tv.Value != nil && tv.Value.ExactString() == "0" {
						if (be.Op == token.EQL && gd.atom.val) || (be.Op == token.NEQ && !gd.atom.val) {
							allowed = append(allowed, edge{gd.b, gd.succ, "stack empty"})
						}
					}
				}
				// key above the upper bound: Compare(key, bound) > 0 true edge (roles checked by R13)
				if cc, ok := ast.Unparen(be.X).(*ast.CallExpr); ok && m.calleeName(cc) == "bytes.Compare" && be.Op == token.GTR && gd.atom.val {
					allowed = append(allowed, edge{gd.b, gd.succ, "key above the upper bound"})
				}
			}
		}
		for _, b := range g.Blocks {
			if b.Kind == cfg.KindForLoop && len(b.Succs) == 2 {
				allowed = append(allowed, edge{b, 1, "stack empty"})
			}
		}
		for _, b := range g.Blocks {
			if !b.Live || len(b.Succs) != 0 || isPanicBlock(info, b) {
				continue
			}
			pos := u.Lit.End()
			if len(b.Nodes) > 0 {
				pos = b.Nodes[len(b.Nodes)-1].Pos()
			}
			why := ""
			for _, e := range allowed {
				if edgeDominates(g, e.b, e.succ, b) {
					why = e.why
					break
				}
			}
			// the function's final fall-off block is reached from several allowed edges: accept if
			// every predecessor path crosses one of them, i.e. removing ALL allowed edges makes it unreachable
			if why == "" {
				seen := make([]bool, len(g.Blocks))
				var dfs func(x *cfg.Block) bool
				dfs = func(x *cfg.Block) bool {
					if x == b {
						return true
					}
					if seen[x.Index] {
						return false
					}
					seen[x.Index] = true
					for i, s := range x.Succs {
						skip := false
						for _, e := range allowed {
							if e.b == x && e.succ == i {
								skip = true
							}
						}
						if skip {
							continue
						}
						if dfs(s) {
							return true
						}
					}
					return false
				}
				if !dfs(g.Blocks[0]) {
					why = "every path to it crosses an allowed exit edge"
				}
			}
			key := fmt.Sprintf("%s scan ends only when exhausted or stopped", u.Name)
			if why != "" {
				c.r.ok("R39", key, m.pos(pos), why, props...)
			} else {
				c.r.bad("R39", key, m.pos(pos), "the traversal can end although the stack is not empty, yield did not return false and no key above the upper bound was seen: the remaining keys are never delivered", props...)
			}
		}
	}
	if nLoops < 3 {
		c.r.undecided("R39", "coverage-floor stack traversals", "tree.go", fmt.Sprintf("only %d stack traversals recognised", nLoops), "C02")
	}
	// ---- R40
	for _, tk := range m.Trees {
		u := tk.Methods["Prefix"]
		if u == nil {
			continue
		}
		props := []string{"C04"}
		if isCollationKind(tk) {
			props = append(props, "C08")
		}
		fl := c.e.flow(u)
		n := 0
		for _, b := range fl.g.Blocks {
			if !b.Live || fl.in[b.Index] == nil {
				continue
			}
			for k, nd := range b.Nodes {
				rs, ok := nd.(*ast.ReturnStmt)
				if !ok || len(rs.Results) != 1 {
					continue
				}
				n++
				key := tk.Name + ".Prefix result is the filtering scan"
				res := ast.Unparen(rs.Results[0])
				if v := identVar(info, res); v != nil {
					if def := singleDef(info, u.Body, v); def != nil {
						res = ast.Unparen(def)
					}
				}
				call, isCall := res.(*ast.CallExpr)
				name := ""
				if isCall {
					name = m.calleeName(call)
				}
				switch {
				case unitBase(name) == "filter":
					c.r.ok("R40", key, m.pos(rs.Pos()), "filter(subtree, hasPrefix, restoreKey)", props...)
				case strings.HasSuffix(name, ".All") || unitBase(name) == "all":
					// only for the empty prefix
					fs := fl.setBefore(b, k)
					empty := false
					for _, f := range fs.lins() {
						_ = f
					}
					// fact len(p) == 0: two linear facts, use the prover
					var pv *types.Var
					for _, fld := range u.Decl.Type.Params.List {
						for _, nm := range fld.Names {
							pv, _ = info.Defs[nm].(*types.Var)
						}
					}
					if pv != nil {
						atom := "len(" + varID(pv) + ")"
						if fs.proveLin(linAtom(atom)) {
							empty = true
						}
					}
					if empty {
						c.r.ok("R40", key, m.pos(rs.Pos()), "All() for the empty prefix only (len(p) == 0 dominates)", props...)
					} else {
						c.r.bad("R40", key, m.pos(rs.Pos()), "an unfiltered traversal is returned for a non-empty prefix: keys that do not start with it are yielded when the selected subtree is only a superset", props...)
					}
				case isCall && isConversion(info, call), !isCall:
					if _, isLit := ast.Unparen(rs.Results[0]).(*ast.FuncLit); isLit {
						c.r.ok("R40", key, m.pos(rs.Pos()), "literal sequence", props...)
					} else {
						c.r.bad("R40", key, m.pos(rs.Pos()), "Prefix returns something other than the filtering scan", props...)
					}
				case isCall && c.returnsFilter(m.calleeUnit(call), u, 0):
					c.r.ok("R40", key, m.pos(rs.Pos()), "a helper of the tree whose every result is the filtering scan", props...)
				default:
					if endsInPanic(info, []ast.Stmt{&ast.ExprStmt{X: rs.Results[0]}}) {
						continue
					}
					c.r.bad("R40", key, m.pos(rs.Pos()), "Prefix returns "+name+"(…) instead of the filtering scan: the selected subtree is a superset of the matches and must be filtered", props...)
				}
			}
		}
		if n == 0 {
			// kinds without prefix support panic
			c.r.ok("R40", tk.Name+".Prefix not offered", m.pos(u.Decl.Pos()), "panics (no prefix scan for this key kind)", props...)
		}
	}
}

// isGreatestKeyCall: the call yields restoreKey(maximum(t.root)) – written in place or inside a
// helper of the tree that returns it (lastKey()).
func (c *Ctx) isGreatestKeyCall(u *FuncUnit, call *ast.CallExpr, depth int) bool {
	return c.isGreatestKeyCallBound(u, call, depth, nil, nil)
}

// isGreatestKeyCallBound: as isGreatestKeyCall, inside a helper whose parameters are bound to the
// arguments of the call that reached it (leafPair(maximum(t.root)) → restoreKey(l)).
func (c *Ctx) isGreatestKeyCallBound(u *FuncUnit, call *ast.CallExpr, depth int, bindU *FuncUnit, bind map[*types.Var]ast.Expr) bool {
	m := c.m
	info := m.Info
	if depth > 2 {
		return false
	}
	if m.isRestoreCall(call) && len(call.Args) == 1 {
		arg := ast.Unparen(m.throughLocals(u, call.Args[0]))
		frame := u
		if pv := identVar(info, arg); pv != nil && bind != nil {
			if b, ok := bind[pv]; ok && !assignedAnywhere(info, u.Body, pv) {
				arg, frame = ast.Unparen(m.throughLocals(bindU, b)), bindU
			}
		}
		hc, _ := arg.(*ast.CallExpr)
		if hc == nil {
			if lv := identVar(info, arg); lv != nil {
				hc = c.defCallOf(frame, lv)
			}
		}
		if hc == nil {
			return false
		}
		op, ok := m.helperOperand(hc, "maximum")
		return ok && c.isTreeRoot(op)
	}
	cu := m.calleeUnit(call)
	if cu == nil || cu.Body == nil || cu.Lit != nil {
		return false
	}
	// the callee's parameters stand for the arguments of this call
	nb := map[*types.Var]ast.Expr{}
	if cu.Type.Params != nil {
		i := 0
		for _, f := range cu.Type.Params.List {
			for _, nm := range f.Names {
				if v, _ := info.Defs[nm].(*types.Var); v != nil && i < len(call.Args) {
					nb[v] = call.Args[i]
				}
				i++
			}
		}
	}
	found, okAll := false, true
	ast.Inspect(cu.Body, func(n ast.Node) bool {
		rs, ok := n.(*ast.ReturnStmt)
		if !ok || len(rs.Results) == 0 {
			return true
		}
		first := ast.Unparen(rs.Results[0])
		var dc *ast.CallExpr
		if cc, isCall := first.(*ast.CallExpr); isCall {
			dc = cc
		} else if v := identVar(info, first); v != nil {
			dc = c.defCallOf(cu, v)
			if dc == nil {
				return true // the zero key of a "none" result
			}
		}
		if dc != nil && c.isGreatestKeyCallBound(cu, dc, depth+1, u, nb) {
			found = true
		} else {
			okAll = false
		}
		return true
	})
	return found && okAll
}

// returnsFilter: a method of the same tree (Prefix split into Prefix + prefixScan) whose every
// return is the filtering scan.
func (c *Ctx) returnsFilter(cu, from *FuncUnit, depth int) bool {
	if cu == nil || cu.Lit != nil || cu.Body == nil || cu.Recv != from.Recv || cu.Recv == "" || depth > 1 {
		return false
	}
	info := c.m.Info
	rets, all := returnExprs(cu)
	if !all {
		return false
	}
	for _, r := range rets {
		res := ast.Unparen(c.m.throughLocals(cu, r))
		call, ok := res.(*ast.CallExpr)
		if !ok || isConversion(info, call) {
			return false
		}
		if unitBase(c.m.calleeName(call)) == "filter" {
			continue
		}
		if !c.returnsFilter(c.m.calleeUnit(call), cu, depth+1) {
			return false
		}
	}
	return len(rets) > 0
}

// unitHolding: the innermost function literal inside u that contains n (u itself if none).
func (c *Ctx) unitHolding(u *FuncUnit, n ast.Node) *FuncUnit {
	best := u
	for _, cu := range c.m.Units {
		if cu.Lit == nil || cu == u {
			continue
		}
		if cu.Lit.Pos() <= n.Pos() && n.End() <= cu.Lit.End() && cu.Lit.Pos() >= u.Body.Pos() && cu.Lit.End() <= u.Body.End() {
			if best == u || cu.Lit.Pos() >= best.Lit.Pos() {
				best = cu
			}
		}
	}
	return best
}

// yieldCallsOf: the yield parameter of a sequence literal and its calls.
func yieldCallsOf(info *types.Info, u *FuncUnit) (yv *types.Var, calls []*ast.CallExpr) {
	if u.Type == nil || u.Type.Params == nil || len(u.Type.Params.List) != 1 || len(u.Type.Params.List[0].Names) != 1 {
		return
	}
	yv, _ = info.Defs[u.Type.Params.List[0].Names[0]].(*types.Var)
	ast.Inspect(u.Body, func(n ast.Node) bool {
		if call, ok := n.(*ast.CallExpr); ok && identVar(info, call.Fun) == yv && yv != nil {
			calls = append(calls, call)
		}
		return true
	})
	return
}

// keyParamSource: the one key-typed parameter of u that v is (transitively) computed from.
func (c *Ctx) keyParamSource(u *FuncUnit, v *types.Var) *types.Var {
	info := c.m.Info
	// key-typed parameters that v is (transitively) computed from
	seen := map[*types.Var]bool{v: true}
	srcs := map[*types.Var]bool{}
	for changed := true; changed; {
		changed = false
		ast.Inspect(u.Body, func(n ast.Node) bool {
			as, ok := n.(*ast.AssignStmt)
			if !ok {
				return true
			}
			// a swap of two variables defines neither of them anew
			if len(as.Lhs) == 2 && len(as.Rhs) == 2 {
				l0, l1, r0, r1 := identVar(info, as.Lhs[0]), identVar(info, as.Lhs[1]), identVar(info, as.Rhs[0]), identVar(info, as.Rhs[1])
				if l0 != nil && l1 != nil && l0 == r1 && l1 == r0 {
					return true
				}
			}
			hit := false
			hitAt := map[int]bool{}
			for i, l := range as.Lhs {
				if lv := identVar(info, l); lv != nil && seen[lv] {
					hit = true
					hitAt[i] = true
				}
			}
			if !hit {
				return true
			}
			for i, r := range as.Rhs {
				if len(as.Lhs) == len(as.Rhs) && !hitAt[i] {
					continue // a, b := f(x), f(y): a comes from x only
				}
				ast.Inspect(r, func(z ast.Node) bool {
					id, ok := z.(*ast.Ident)
					if !ok {
						return true
					}
					pv, _ := info.ObjectOf(id).(*types.Var)
					if pv == nil || pv.IsField() {
						return true
					}
					if _, isTP := types.Unalias(pv.Type()).(*types.TypeParam); isTP && c.enclosingParam(u, pv) {
						srcs[pv] = true
					} else if !seen[pv] && pv.Pos() >= u.Body.Pos() && pv.Pos() <= u.Body.End() {
						seen[pv] = true
						changed = true
					}
					return true
				})
			}
			return true
		})
	}
	if len(srcs) == 1 {
		for s := range srcs {
			return s
		}
	}
	return nil
}

// unitBase: the name of a function without its receiver (leafScanner.filter → filter).
func unitBase(name string) string {
	if i := strings.IndexByte(name, '$'); i >= 0 {
		name = name[:i]
	}
	if i := strings.LastIndexByte(name, '.'); i >= 0 {
		return name[i+1:]
	}
	return name
}
