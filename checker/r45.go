package main

import (
	"fmt"
	"go/ast"
	"go/token"
	"go/types"

	"golang.org/x/tools/go/cfg"
)

// R45 PROGRESS (C01, C08, C09) – the descent loop of Search, Delete and Insert moves to a child
// exactly when it goes round again:
//
//	(a) a path that returns to the loop head has moved the cursor to a child on the way (otherwise the
//	    loop spins on the same node: probing an absent key never returns), and
//	(b) a path that has moved the cursor to a child goes back to the loop head before anything is
//	    returned (otherwise the answer is computed one level too early – "absent" for a key that is
//	    stored below).
//
// Decided by two forward dataflows over the CFG (may / must "moved since the loop head").
func ruleR45(c *Ctx) {
	m := c.m
	info := m.Info
	n := 0
	isRefVal := func(t types.Type) bool {
		nn := namedOf(t)
		if nn == nil || m.NodeRef == nil {
			return false
		}
		if _, isPtr := t.Underlying().(*types.Pointer); isPtr {
			return false
		}
		return nn.Obj() == m.NodeRef.Obj()
	}
	for _, tk := range m.Trees {
		props := []string{"C01"}
		if isCollationKind(tk) {
			props = append(props, "C08")
		}
		if isCompoundKind(tk) {
			props = append(props, "C09")
		}
		for _, mn := range []string{"Search", "Delete"} {
			u := m.algorithmUnit(tk, mn)
			if u == nil {
				continue
			}
			g := m.cfgOf(u)
			// move events: cursor = <child expression>
			isMove := func(nd ast.Node) bool {
				as, ok := nd.(*ast.AssignStmt)
				if !ok || as.Tok != token.ASSIGN || len(as.Lhs) != len(as.Rhs) {
					return false
				}
				for i, l := range as.Lhs {
					id, isId := ast.Unparen(l).(*ast.Ident)
					if !isId || !isRefVal(info.TypeOf(id)) {
						continue
					}
					r := ast.Unparen(m.throughLocals(u, as.Rhs[i]))
					moved := false
					// cursor = child, child a reference local that starts empty (var child nodeRef) and is
					// only ever given a slot of the node: the cursor has moved to a child, or is the empty
					// reference, on which the loop condition (cursor.pointer != nil) ends the descent
					if v := identVar(info, r); v != nil && isRefVal(v.Type()) && !c.enclosingParam(u, v) {
						defs := assignedExprs(info, u.Body, v)
						allSlots := len(defs) > 0
						for _, d := range defs {
							isSlot := false
							ast.Inspect(d, func(z ast.Node) bool {
								if se, ok := z.(*ast.SelectorExpr); ok && se.Sel.Name == "children" {
									isSlot = true
								}
								return true
							})
							if cl, ok := ast.Unparen(d).(*ast.CompositeLit); ok && len(cl.Elts) == 0 {
								isSlot = true
							}
							if !isSlot {
								allSlots = false
							}
						}
						if allSlots {
							moved = true
						}
					}
					ast.Inspect(r, func(z ast.Node) bool {
						switch y := z.(type) {
						case *ast.SelectorExpr:
							if y.Sel.Name == "children" {
								moved = true
							}
						case *ast.StarExpr:
							// *child with child a result of the byte→child lookup
							if v := identVar(info, y.X); v != nil {
								if dc := c.defCallOf(u, v); dc != nil {
									moved = true
								}
							}
						}
						return true
					})
					if moved {
						return true
					}
				}
				return false
			}
			var heads []*cfg.Block
			for _, b := range g.Blocks {
				if b.Live && b.Kind == cfg.KindForLoop {
					heads = append(heads, b)
				}
				// for { if cursor.pointer == nil { break } … }: a loop without a condition has no
				// condition block; its body block is where the back edges arrive
				if fs, ok := b.Stmt.(*ast.ForStmt); ok && b.Live && b.Kind == cfg.KindForBody && fs.Cond == nil {
					heads = append(heads, b)
				}
			}
			regionOf := func(h *cfg.Block) map[*cfg.Block]bool {
				if h.Kind == cfg.KindForLoop {
					return reachableWithout(h.Succs[0], h)
				}
				out := map[*cfg.Block]bool{}
				for _, s := range h.Succs {
					for b := range reachableWithout(s, h) {
						out[b] = true
					}
				}
				return out
			}
			if len(heads) == 0 {
				continue
			}
			// the descent loop: the outermost loop whose body contains a move
			var head *cfg.Block
			for _, h := range heads {
				if len(h.Succs) == 0 {
					continue
				}
				body := regionOf(h)
				has := false
				for b := range body {
					for _, nd := range b.Nodes {
						if isMove(nd) {
							has = true
						}
					}
				}
				if has && head == nil {
					head = h
				}
			}
			if head == nil {
				continue
			}
			n++
			inLoop := regionOf(head)
			// forward dataflow from the loop head: may[b] / must[b] = "moved since the head" at block end
			may := map[*cfg.Block]bool{}
			must := map[*cfg.Block]bool{}
			visited := map[*cfg.Block]bool{}
			for b := range inLoop {
				must[b] = true // optimistic for the must-analysis
			}
			transfer := func(b *cfg.Block, in bool) bool {
				for _, nd := range b.Nodes {
					if isMove(nd) {
						in = true
					}
				}
				return in
			}
			preds := map[*cfg.Block][]*cfg.Block{}
			for _, b := range g.Blocks {
				for _, s := range b.Succs {
					preds[s] = append(preds[s], b)
				}
			}
			for changed := true; changed; {
				changed = false
				for _, b := range g.Blocks {
					if !inLoop[b] {
						continue
					}
					inMay, inMust, any := false, true, false
					for _, p := range preds[b] {
						if p == head {
							any = true
							inMust = false // fresh from the head: nothing moved yet
							continue
						}
						if !inLoop[p] || !visitedOrLoop(visited, p) {
							continue
						}
						any = true
						if may[p] {
							inMay = true
						}
						if !must[p] {
							inMust = false
						}
					}
					if !any {
						inMust = false
					}
					om, omu := transfer(b, inMay), transfer(b, inMust)
					if !visited[b] || om != may[b] || omu != must[b] {
						visited[b] = true
						may[b], must[b] = om, omu
						changed = true
					}
				}
			}
			// (a) back edges
			spin := false
			for _, p := range preds[head] {
				if inLoop[p] && !must[p] {
					spin = true
					pos := head.Stmt.Pos()
					if len(p.Nodes) > 0 {
						pos = p.Nodes[len(p.Nodes)-1].Pos()
					}
					c.r.bad("R45", fmt.Sprintf("%s.%s goes round the descent loop only after moving to a child", tk.Name, mn), m.pos(pos),
						"a path returns to the head of the descent loop without having moved the cursor to a child: the loop then examines the same node again and never ends (probing an absent key hangs)", props...)
				}
			}
			if !spin {
				c.r.ok("R45", fmt.Sprintf("%s.%s goes round the descent loop only after moving to a child", tk.Name, mn), m.pos(head.Stmt.Pos()), "every back edge is dominated by a move of the cursor", props...)
			}
			// (b) exits from the loop with a pending move
			early := false
			for b := range inLoop {
				if !may[b] {
					continue
				}
				for _, s := range b.Succs {
					if inLoop[s] || s == head {
						continue
					}
					early = true
					pos := head.Stmt.Pos()
					if len(b.Nodes) > 0 {
						pos = b.Nodes[len(b.Nodes)-1].Pos()
					}
					c.r.bad("R45", fmt.Sprintf("%s.%s examines the child it moved to", tk.Name, mn), m.pos(pos),
						"a path moves the cursor to a child and then leaves the descent loop instead of going round again: the answer is given without looking at that child (a stored key is reported absent)", props...)
				}
				if len(b.Succs) == 0 && !isPanicBlock(info, b) {
					early = true
					pos := head.Stmt.Pos()
					if len(b.Nodes) > 0 {
						pos = b.Nodes[len(b.Nodes)-1].Pos()
					}
					c.r.bad("R45", fmt.Sprintf("%s.%s examines the child it moved to", tk.Name, mn), m.pos(pos),
						"a path moves the cursor to a child and then returns instead of going round the descent loop again", props...)
				}
			}
			if !early {
				c.r.ok("R45", fmt.Sprintf("%s.%s examines the child it moved to", tk.Name, mn), m.pos(head.Stmt.Pos()), "no exit from the loop is reachable after a move without passing the loop head", props...)
			}
		}
	}
	if n < 6 {
		c.r.undecided("R45", "descent loops found", "-", fmt.Sprintf("only %d descent loops with a cursor move were recognised in Search/Delete", n), "C01")
	}
}

func visitedOrLoop(v map[*cfg.Block]bool, b *cfg.Block) bool { return v[b] }

// reachableWithout: blocks reachable from start without passing through stop.
func reachableWithout(start, stop *cfg.Block) map[*cfg.Block]bool {
	seen := map[*cfg.Block]bool{}
	var walk func(b *cfg.Block)
	walk = func(b *cfg.Block) {
		if b == stop || seen[b] {
			return
		}
		seen[b] = true
		for _, s := range b.Succs {
			walk(s)
		}
	}
	walk(start)
	return seen
}
