package main

import (
	"fmt"
	"go/ast"
	"go/token"
	"go/types"
	"strings"

	"golang.org/x/tools/go/cfg"
)

// R29 PURE (C15, C16, C17/R31) – query entry points have an empty write effect on memory that
// outlives the call: every store and every writing call reachable from them targets a local
// value or memory the function allocated itself. One named exception: the codec scratch of the
// collation tree.
func ruleR29(c *Ctx) {
	info := c.m.Info
	m := c.m
	queries := []string{"Search", "Minimum", "Maximum", "Size", "All", "Backward", "Prefix", "Range", "TopK", "BottomK"}
	// per kind reachability, to attribute C16 only to the kinds it covers (not collation)
	reachKind := map[*FuncUnit][]string{}
	for _, tk := range m.Trees {
		var roots []*FuncUnit
		for _, q := range queries {
			if u := tk.Methods[q]; u != nil {
				roots = append(roots, u)
			}
		}
		for u := range c.reachableFrom(roots) {
			reachKind[u] = append(reachKind[u], tk.Name)
		}
	}
	nStores, nCalls, nUnits := 0, 0, 0
	var seqReach map[*FuncUnit]bool
	for _, u := range c.sortedUnits() {
		kinds := reachKind[u]
		if len(kinds) == 0 {
			continue
		}
		nUnits++
		props := []string{"C15", "C17"}
		onlyCollation := true
		for _, k := range kinds {
			if !strings.Contains(strings.ToLower(k), "collat") {
				onlyCollation = false
			}
		}
		if !onlyCollation {
			props = append(props, "C16")
		}
		// state that a sequence closure keeps outside itself also breaks re-iteration (C14); so
		// does a write to tree memory by anything a pass calls (restoreKey → Restore flipping a
		// bit of the stored key in place: the second pass yields another key)
		inSeq := false
		for x := u; x != nil; x = x.Parent {
			if x.Lit != nil {
				for _, sl := range c.seqLiterals() {
					if sl == x {
						inSeq = true
					}
				}
			}
		}
		if !inSeq {
			if seqReach == nil {
				seqReach = c.reachableFrom(c.seqLiterals())
			}
			inSeq = seqReach[u]
		}
		if inSeq {
			props = append(props, "C14")
		}
		fl := c.e.flow(u)
		isCodecRecv := func(v *types.Var) bool {
			// receiver (or variable) of a codec type: the named scratch exception
			n := namedOf(v.Type())
			return n != nil && isCodecType(n) && !strings.HasPrefix(n.Obj().Name(), "Alphabetical")
		}
		localTo := func(v *types.Var) bool {
			lo, hi := u.Body.Pos(), u.Body.End()
			if u.Lit == nil {
				lo = u.Decl.Pos()
			} else {
				lo = u.Lit.Pos()
			}
			return v.Pos() >= lo && v.Pos() <= hi && !v.IsField()
		}
		// classify a written location; returns "", or the reason it is acceptable
		classify := func(target ast.Expr, fs *FactSet, elementWrite bool) (okWhy string, bad string) {
			v, through := rootVar(info, target)
			if elementWrite {
				through = true
			}
			text := display(fl.raw.canon(target))
			switch {
			case v == nil:
				return "", "store to " + text + " whose target cannot be resolved to a local"
			case !localTo(v) && v.Parent() == m.Pkg.Scope():
				return "", "store to package-level variable " + v.Name()
			case !localTo(v) && !through && c.runsWithinParent(u) && u.Parent != nil && u.Parent.Body != nil && v.Pos() >= u.Parent.Body.Pos() && v.Pos() <= u.Parent.Body.End():
				return "local value " + v.Name() + " of the enclosing function, assigned by a closure that only runs within it", ""
			case !localTo(v) && through && c.runsWithinParent(u) && alwaysFresh(m, declBody(u), v, 0):
				return "memory allocated by the enclosing call, written by a closure that runs within it (deferred / called on the spot): " + v.Name(), ""
			case !localTo(v) && !through && c.perPassFactory(u, v):
				return "variable " + v.Name() + " of one call of " + u.Parent.Name + ", which builds this closure and is called once per pass by the sequences that use it", ""
			case !localTo(v):
				return "", "store to " + text + ": variable " + v.Name() + " is captured from an enclosing function (state shared between calls of the closure)"
			case !through:
				return "local value " + v.Name(), ""
			case fs.isFresh(v) || fl.fresh[v]:
				return "memory allocated in this function (" + v.Name() + ")", ""
			case isCodecRecv(v) || c.viaCodecScratch(target):
				ex := "exception collation codec scratch: stores through the CollationOrderKey receiver (src, collate.Buffer, collator iterators) are codec scratch outside the node graph, unobservable through the Tree API (restoreKey of the collation tree never calls Restore)"
				c.r.exception(ex)
				return ex, ""
			}
			// a parameter of a helper (pushChildren(q, n)): what is written is the caller's; the
			// obligation moves to every call site, where the argument must be memory of that call
			if u.Lit == nil && u.Decl != nil {
				if id := identOfVar(u, v, info); id != nil {
					if pi := m.paramIndex(u, id); pi >= 0 || pi == -2 {
						if okAll, n := c.argFreshAtCalls(u, pi, 0); okAll && n > 0 {
							return fmt.Sprintf("parameter %s: each of the %d call sites passes memory allocated by the calling query", v.Name(), n), ""
						}
					}
				}
			}
			return "", "store through " + v.Name() + " (" + text + "), which is not memory allocated by this call: the query writes memory that outlives it"
		}
		fl.walk(func(n ast.Node, fs *FactSet, stmt ast.Node, b *cfg.Block) {
			report := func(what string, pos token.Pos, okWhy, bad string) {
				key := fmt.Sprintf("%s %s", u.Name, what)
				if bad == "" {
					c.r.ok("R29", key, m.pos(pos), okWhy, props...)
				} else {
					ps := props
					if strings.Contains(bad, "captured from an enclosing function") {
						// state kept in a closure that a query leaves behind (a predicate handed to the
						// returned sequence) survives the pass: the next pass starts from it (C14)
						ps = append(append([]string(nil), props...), "C14")
					}
					c.r.bad("R29", key, m.pos(pos), "reachable from query entry points of "+joinShort(kinds, 3)+": "+bad, ps...)
				}
			}
			switch x := n.(type) {
			case *ast.AssignStmt:
				if x.Tok == token.DEFINE {
					return
				}
				for _, l := range x.Lhs {
					if id, ok := ast.Unparen(l).(*ast.Ident); ok {
						if id.Name == "_" {
							continue
						}
						v, _ := info.ObjectOf(id).(*types.Var)
						if v == nil || localTo(v) {
							continue // plain local assignment
						}
					}
					nStores++
					okWhy, bad := classify(l, fs, false)
					report("store "+display(fl.raw.canon(l)), l.Pos(), okWhy, bad)
				}
			case *ast.IncDecStmt:
				if v := identVar(info, x.X); v != nil && localTo(v) {
					return
				}
				nStores++
				okWhy, bad := classify(x.X, fs, false)
				report("store "+display(fl.raw.canon(x.X)), x.Pos(), okWhy, bad)
			case *ast.CallExpr:
				if isConversion(info, x) {
					return
				}
				name := m.calleeName(x)
				if f := m.staticCallee(x); f != nil && f.Pkg() == m.Pkg {
					return // library callee: analysed as its own unit (reachability)
				}
				if _, isLit := ast.Unparen(x.Fun).(*ast.FuncLit); isLit {
					return // func(){…}(): the literal is a unit of its own
				}
				if v := identVar(info, x.Fun); v != nil {
					if _, isFunc := v.Type().Underlying().(*types.Signature); isFunc {
						return // func-typed parameter or local closure: closures are units of their own; yield/restore/predicate belong to the caller
					}
				}
				if w, ok := externalWrites[name]; ok {
					for i := range w {
						a := callArgFor(x, i)
						if a == nil {
							continue
						}
						nCalls++
						okWhy, bad := classify(a, fs, true)
						if bad != "" && fl.freshExpr(a, fs, 0) {
							okWhy, bad = "the written slice is memory allocated by this call", ""
						}
						if name == "builtin.append" {
							// append to a local slice variable that was built by this call
							if v := identVar(info, a); v != nil && localTo(v) && (fs.isFresh(v)) {
								okWhy, bad = "append to the function's own slice "+v.Name(), ""
							}
						}
						report(fmt.Sprintf("%s writes %s", name, display(fl.raw.canon(a))), x.Pos(), okWhy, bad)
					}
					return
				}
				if isExternalPure(name) {
					return
				}
				if strings.HasPrefix(name, "sync.Pool.") {
					nCalls++
					if _, _, isNodePool := c.poolCall(x); isNodePool {
						report("calls "+name, x.Pos(), "", "a query takes from / releases to the shared node pool")
					} else {
						report("calls "+name, x.Pos(), "a scratch pool: sync.Pool is safe for concurrent use and the object is exclusively the caller's between Get and Put (what it carries over is R49's concern)", "")
					}
					return
				}
				nCalls++
				// unknown external call: acceptable only on the codec scratch
				if sel, ok := ast.Unparen(x.Fun).(*ast.SelectorExpr); ok && c.viaCodecScratch(sel.X) {
					ex := "exception collation codec scratch: stores through the CollationOrderKey receiver (src, collate.Buffer, collator iterators) are codec scratch outside the node graph, unobservable through the Tree API (restoreKey of the collation tree never calls Restore)"
					c.r.exception(ex)
					report("calls "+name, x.Pos(), ex, "")
					return
				}
				if name == "" {
					// dynamic call through an interface of the library (Tree methods, codec)
					if sel, ok := ast.Unparen(x.Fun).(*ast.SelectorExpr); ok {
						if s := info.Selections[sel]; s != nil {
							return // resolved by the call graph (interface calls fan out to every implementation)
						}
					}
				}
				if name == "" {
					// seq()(callback): one pass of a sequence obtained from a call (t.Backward()(f)) –
					// what the pass does is the body of that sequence, which is judged as a
					// sequence of its own; the callback is a function of this package
					if inner, ok := ast.Unparen(x.Fun).(*ast.CallExpr); ok && len(x.Args) == 1 {
						if sig, ok := info.TypeOf(x.Fun).Underlying().(*types.Signature); ok && sig.Params().Len() == 1 && sig.Results().Len() == 0 {
							if _, isFn := sig.Params().At(0).Type().Underlying().(*types.Signature); isFn {
								if isel, ok := ast.Unparen(inner.Fun).(*ast.SelectorExpr); ok && info.Selections[isel] != nil || c.m.calleeUnit(inner) != nil {
									report("runs a pass of "+types.ExprString(inner.Fun), x.Pos(), "one pass of a sequence of the library, whose body is judged on its own", "")
									return
								}
							}
						}
					}
				}
				report("calls "+name, x.Pos(), "", "call to "+name+" whose effect on memory is not known to the checker")
			}
		})
	}
	c.r.note("R29: %d functions reachable from query entry points; %d stores and %d writing calls classified", nUnits, nStores, nCalls)
	if nUnits < 20 {
		c.r.undecided("R29", "coverage-floor query-reachable functions", "-", fmt.Sprintf("only %d functions reachable from the query entry points", nUnits), "C15")
	}
	// a positive statement per kind so that the property never passes vacuously
	for _, tk := range m.Trees {
		props := []string{"C15", "C17"}
		if !isCollationKind(tk) {
			props = append(props, "C16")
		}
		n := 0
		for u, ks := range reachKind {
			for _, k := range ks {
				if k == tk.Name {
					n++
					_ = u
				}
			}
		}
		c.r.ok("R29", tk.Name+" query closure analysed", tk.File, fmt.Sprintf("%d functions reachable from %d query entry points", n, len(queries)), props...)
	}
}

// viaCodecScratch: the expression reaches memory through a value of the collation codec type.
func (c *Ctx) viaCodecScratch(e ast.Expr) bool {
	info := c.m.Info
	found := false
	ast.Inspect(e, func(n ast.Node) bool {
		if x, ok := n.(ast.Expr); ok {
			if t := info.TypeOf(x); t != nil {
				if nt := namedOf(t); nt != nil && isCodecType(nt) && strings.HasPrefix(nt.Obj().Name(), "Collation") {
					found = true
				}
			}
		}
		return !found
	})
	return found
}

// identOfVar finds the declaring identifier of a parameter variable.
func identOfVar(u *FuncUnit, v *types.Var, info *types.Info) *ast.Ident {
	if u.Decl != nil && u.Lit == nil && u.Decl.Recv != nil {
		for _, f := range u.Decl.Recv.List {
			for _, nm := range f.Names {
				if info.Defs[nm] == v {
					return nm
				}
			}
		}
	}
	if u.Type == nil || u.Type.Params == nil {
		return nil
	}
	for _, f := range u.Type.Params.List {
		for _, nm := range f.Names {
			if info.Defs[nm] == v {
				return nm
			}
		}
	}
	return nil
}

// argFreshAtCalls: at every call site of helper u the argument bound to parameter pi is memory
// allocated by the caller itself (a fresh local slice/pointer), or the caller's own parameter for
// which the same holds one level up.
func (c *Ctx) argFreshAtCalls(u *FuncUnit, pi int, depth int) (bool, int) {
	info := c.m.Info
	sites := c.callSitesOf(u)
	if depth > 2 {
		return false, 0
	}
	n := 0
	for _, s := range sites {
		a := argFor(s.call, pi)
		if a == nil {
			return false, n
		}
		n++
		cfl := c.e.flow(s.u)
		var at *FactSet
		cfl.walk(func(x ast.Node, fs *FactSet, stmt ast.Node, b *cfg.Block) {
			if x == ast.Node(s.call) && at == nil {
				at = fs.clone()
			}
		})
		if at == nil {
			return false, n
		}
		if cfl.freshExpr(a, at, 0) {
			continue
		}
		if v := identVar(info, a); v != nil {
			if at.isFresh(v) || cfl.fresh[v] {
				continue
			}
			if id := identOfVar(s.u, v, info); id != nil && s.u.Lit == nil {
				if ok, _ := c.argFreshAtCalls(s.u, c.m.paramIndex(s.u, id), depth+1); ok {
					continue
				}
			}
		}
		return false, n
	}
	return true, n
}

// declBody: the body of the declaration that encloses u.
func declBody(u *FuncUnit) ast.Node {
	r := u
	for r.Parent != nil {
		r = r.Parent
	}
	return r.Body
}

// runsWithinParent: the literal of u is only ever deferred or called where it is written
// (defer func(){…}(), func(){…}()), so it runs during the call that created its captured variables.
func (c *Ctx) runsWithinParent(u *FuncUnit) bool {
	if u.Lit == nil || u.Parent == nil {
		return false
	}
	ok := false
	ast.Inspect(u.Parent.Body, func(n ast.Node) bool {
		if call, isCall := n.(*ast.CallExpr); isCall && ast.Unparen(call.Fun) == ast.Expr(u.Lit) {
			ok = true
		}
		return true
	})
	if ok {
		return true
	}
	// push := func(…) {…} bound once to a local that is only ever called
	var bound *types.Var
	for v, lu := range c.m.LitOfVar {
		if lu == u {
			bound = v
		}
	}
	if bound == nil {
		return false
	}
	onlyCalled, called := true, false
	calledIdents := map[*ast.Ident]bool{}
	ast.Inspect(u.Parent.Body, func(n ast.Node) bool {
		if call, isCall := n.(*ast.CallExpr); isCall {
			if id, isId := ast.Unparen(call.Fun).(*ast.Ident); isId && c.m.Info.ObjectOf(id) == bound {
				calledIdents[id] = true
				called = true
			}
		}
		return true
	})
	ast.Inspect(u.Parent.Body, func(n ast.Node) bool {
		if id, isId := n.(*ast.Ident); isId && c.m.Info.Uses[id] == bound && !calledIdents[id] {
			onlyCalled = false
		}
		return true
	})
	return called && onlyCalled
}

// alwaysFresh: every value the local v is ever given (anywhere in the declaration) is memory the
// library allocated – an allocation, an object taken from a sync.Pool, or an append to / reslice
// of / dereference of such a variable.
func alwaysFresh(m *Model, root ast.Node, v *types.Var, depth int) bool {
	if depth > 4 || v.IsField() || v.Pos() < root.Pos() || v.Pos() > root.End() {
		return false
	}
	info := m.Info
	if isParamOf(info, root, v) {
		return false // starts as the caller's
	}
	defs := assignedExprs(info, root, v)
	if len(defs) == 0 {
		return false
	}
	var static func(e ast.Expr) bool
	static = func(e ast.Expr) bool {
		e = ast.Unparen(e)
		if isFreshExpr(m, e) {
			return true
		}
		switch x := e.(type) {
		case *ast.CompositeLit:
			return true
		case *ast.SliceExpr:
			return static(x.X)
		case *ast.StarExpr:
			return static(x.X)
		case *ast.TypeAssertExpr:
			call, ok := ast.Unparen(x.X).(*ast.CallExpr)
			return ok && isSyncPoolCall(info, call, "Get")
		case *ast.Ident:
			if tv, ok := info.Types[x]; ok && tv.IsNil() {
				return true
			}
			w, _ := info.ObjectOf(x).(*types.Var)
			return w != nil && (w == v || alwaysFresh(m, root, w, depth+1))
		case *ast.CallExpr:
			if isBuiltinCall(info, x, "make") || isBuiltinCall(info, x, "new") {
				return true
			}
			if isBuiltinCall(info, x, "append") && len(x.Args) > 0 {
				return static(x.Args[0])
			}
			switch m.calleeName(x) {
			case "bytes.Clone", "slices.Clone":
				return true
			}
		}
		return false
	}
	for _, d := range defs {
		if !static(d) {
			return false
		}
	}
	return true
}

// isParamOf: v is declared by a parameter list of a literal inside root (the parameters of the
// declaration itself lie before its body and are excluded by position).
func isParamOf(info *types.Info, root ast.Node, v *types.Var) bool {
	found := false
	ast.Inspect(root, func(n ast.Node) bool {
		if ft, ok := n.(*ast.FuncType); ok && ft.Params != nil {
			for _, f := range ft.Params.List {
				for _, nm := range f.Names {
					if info.Defs[nm] == v {
						found = true
					}
				}
			}
		}
		return true
	})
	return found
}

// perPassFactory: u is a closure built and returned by a declared function (atMost(n, yield)
// returning a callback with its own counter), v a variable of that function, and every call of
// the function sits inside a sequence literal with its result handed straight to a call – so each
// iteration pass gets a closure, and a v, of its own.
func (c *Ctx) perPassFactory(u *FuncUnit, v *types.Var) bool {
	m := c.m
	parent := u.Parent
	if u.Lit == nil || parent == nil || parent.Lit != nil || parent.Decl == nil || parent.Body == nil {
		return false
	}
	if v.Pos() < parent.Decl.Pos() || v.Pos() > parent.Decl.End() || v.IsField() {
		return false
	}
	// the literal is what the function returns
	returned := false
	ast.Inspect(parent.Body, func(n ast.Node) bool {
		if lit, ok := n.(*ast.FuncLit); ok && lit != u.Lit {
			return false
		}
		if rs, ok := n.(*ast.ReturnStmt); ok {
			for _, r := range rs.Results {
				if ast.Unparen(r) == ast.Expr(u.Lit) {
					returned = true
				}
			}
		}
		return true
	})
	if !returned {
		return false
	}
	seq := map[*FuncUnit]bool{}
	for _, s := range c.seqLiterals() {
		seq[s] = true
	}
	sites := c.callSitesOf(parent)
	if len(sites) == 0 {
		return false
	}
	for _, s := range sites {
		inSeq := false
		for x := s.u; x != nil; x = x.Parent {
			if seq[x] {
				inSeq = true
			}
		}
		if !inSeq {
			return false
		}
		// the result is an argument of a call (consumed by the pass), not kept anywhere
		asArg := false
		ast.Inspect(s.u.Body, func(n ast.Node) bool {
			if call, ok := n.(*ast.CallExpr); ok && call != s.call {
				for _, a := range call.Args {
					if ast.Unparen(a) == ast.Expr(s.call) {
						asArg = true
					}
				}
			}
			return true
		})
		if !asArg {
			return false
		}
	}
	_ = m
	return true
}
