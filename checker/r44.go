package main

import (
	"fmt"
	"go/ast"
	"go/types"

	"golang.org/x/tools/go/cfg"
)

// R44 NILRESULT (C01, C04, C10) – a library function that answers "nothing there" with a nil
// pointer (findChild for an unregistered byte) has its result dereferenced only under a dominating
// test that it is not nil. Probing an absent key, prefix or bound otherwise faults.
func ruleR44(c *Ctx) {
	m := c.m
	info := m.Info
	mayNil := map[*types.Func]bool{}
	for _, u := range m.Units {
		if u.Lit != nil || u.Obj == nil || u.Body == nil {
			continue
		}
		sig, _ := u.Obj.Type().(*types.Signature)
		if sig == nil || sig.Results().Len() != 1 {
			continue
		}
		if _, isPtr := sig.Results().At(0).Type().Underlying().(*types.Pointer); !isPtr {
			continue
		}
		ast.Inspect(u.Body, func(n ast.Node) bool {
			if _, isLit := n.(*ast.FuncLit); isLit {
				return false
			}
			if rs, ok := n.(*ast.ReturnStmt); ok && len(rs.Results) == 1 && info.Types[rs.Results[0]].IsNil() {
				mayNil[u.Obj] = true
			}
			return true
		})
	}
	n := 0
	for _, u := range c.sortedUnits() {
		if u.Body == nil {
			continue
		}
		// variables bound to the result of such a function
		from := map[*types.Var]*types.Func{}
		ast.Inspect(u.Body, func(x ast.Node) bool {
			if lit, ok := x.(*ast.FuncLit); ok && ast.Node(lit) != ast.Node(u.Lit) {
				return false
			}
			as, ok := x.(*ast.AssignStmt)
			if !ok || len(as.Lhs) != 1 || len(as.Rhs) != 1 {
				return true
			}
			call, ok := ast.Unparen(as.Rhs[0]).(*ast.CallExpr)
			if !ok {
				return true
			}
			if f := m.staticCallee(call); f != nil && mayNil[f] {
				if v := identVar(info, as.Lhs[0]); v != nil {
					from[v] = f
				}
			}
			return true
		})
		if len(from) == 0 {
			continue
		}
		props := c.attribute(u, "C01", "C04", "C03", "C08", "C09", "C10")
		if len(props) == 0 {
			props = []string{"C01"}
		}
		fl := c.e.flow(u)
		seen := map[ast.Node]bool{}
		fl.walk(func(x ast.Node, fs *FactSet, stmt ast.Node, b *cfg.Block) {
			var base ast.Expr
			switch y := x.(type) {
			case *ast.StarExpr:
				base = y.X
			case *ast.SelectorExpr:
				if info.Selections[y] == nil {
					return
				}
				base = y.X
			default:
				return
			}
			v := identVar(info, base)
			if v == nil || from[v] == nil || seen[x] {
				return
			}
			seen[x] = true
			n++
			key := fmt.Sprintf("%s dereferences %s, a result of %s, only when it is not nil", u.Name, v.Name(), from[v].Name())
			if fs.nilness(base) == 1 {
				c.r.ok("R44", key, m.pos(x.Pos()), "under "+v.Name()+" != nil", props...)
			} else {
				c.r.bad("R44", key, m.pos(x.Pos()), fmt.Sprintf("%s returns nil when there is nothing to return (an unregistered byte); here its result is dereferenced without a dominating %s != nil: probing an absent key, prefix or bound faults", from[v].Name(), v.Name()), props...)
			}
		})
	}
	c.r.note("R44: %d dereferences of results that may be nil; functions answering with a nil pointer: %d", n, len(mayNil))
	if len(mayNil) == 0 {
		c.r.undecided("R44", "functions answering with a nil pointer", "-", "none found (findChild expected)", "C01")
	}
}
