package main

import (
	"go/ast"
	"go/token"
	"strings"

	"golang.org/x/tools/go/cfg"
)

// R43 FANOUTSYNC (C11, C10, C01) – on every path of a size class's addChild the child is stored
// and the fan-out counter incremented together (or the insertion is delegated to the next
// larger class). A counter that is skipped or saturated on some path disagrees with the real
// number of children from then on; the shrink thresholds compare against it.
func ruleR43(c *Ctx) {
	info := c.m.Info
	m := c.m
	props := []string{"C11", "C10", "C01"}
	n := 0
	for _, k := range m.Kinds {
		u := m.ByName[k.Struct.Obj().Name()+".addChild"]
		if u == nil {
			continue
		}
		n++
		var childParam string
		for _, f := range u.Decl.Type.Params.List {
			for _, nm := range f.Names {
				if v := info.Defs[nm]; v != nil && c.isNodeRefType(v.Type()) && !strings.HasPrefix(v.Type().String(), "*") {
					childParam = nm.Name
				}
			}
		}
		const (
			evSTORE = iota
			evINC
			evGROW
		)
		var evFor func(u *FuncUnit, childParam string, depth int) func(b *cfg.Block, i int, nd ast.Node) []int
		// helperEvents: a helper of the same size class that is handed the child (insertChild(b,
		// child)) counts as what every one of its paths does
		helperEvents := func(call *ast.CallExpr, childParam string, depth int) []int {
			cu := m.calleeUnit(call)
			if cu == nil || cu.Lit != nil || cu.Decl == nil || cu.Body == nil || cu.Recv != k.Struct.Obj().Name() || depth > 2 || cu.Type.Params == nil {
				return nil
			}
			var names []string
			for _, f := range cu.Type.Params.List {
				for _, nm := range f.Names {
					names = append(names, nm.Name)
				}
			}
			inner := ""
			for i, a := range call.Args {
				if id, ok := ast.Unparen(a).(*ast.Ident); ok && id.Name == childParam && i < len(names) {
					inner = names[i]
				}
			}
			if inner == "" {
				return nil
			}
			hg := m.cfgOf(cu)
			hres := runPaths(hg, []string{"STORE", "FANOUT+", "GROW"}, evFor(cu, inner, depth+1), nil)
			var first *[3]int
			for _, hb := range hg.Blocks {
				for _, hs := range hres.exits[hb] {
					if isPanicBlock(info, hb) {
						continue
					}
					cur := [3]int{int(hs.n[0]), int(hs.n[1]), int(hs.n[2])}
					if first == nil {
						first = &cur
					} else if *first != cur {
						return nil
					}
				}
			}
			if first == nil {
				return nil
			}
			var out []int
			for e, cnt := range first {
				for j := 0; j < cnt; j++ {
					out = append(out, e)
				}
			}
			return out
		}
		evFor = func(u *FuncUnit, childParam string, depth int) func(b *cfg.Block, i int, nd ast.Node) []int {
			return func(b *cfg.Block, i int, nd ast.Node) []int {
				var out []int
				switch y := nd.(type) {
				case *ast.IncDecStmt:
					if y.Tok == token.INC && strings.HasSuffix(exprText(y.X), "childrenLen") {
						out = append(out, evINC)
					}
				case *ast.AssignStmt:
					if len(y.Lhs) == 1 && len(y.Rhs) == 1 && strings.Contains(exprText(y.Lhs[0]), "children[") {
						if id, ok := ast.Unparen(y.Rhs[0]).(*ast.Ident); ok && id.Name == childParam {
							out = append(out, evSTORE)
						}
					}
					if (y.Tok == token.ADD_ASSIGN) && strings.HasSuffix(exprText(y.Lhs[0]), "childrenLen") {
						out = append(out, evINC)
					}
				case *ast.ExprStmt:
					if call, ok := y.X.(*ast.CallExpr); ok {
						if sel, ok := call.Fun.(*ast.SelectorExpr); ok && sel.Sel.Name == "addChild" {
							out = append(out, evGROW)
						} else {
							out = append(out, helperEvents(call, childParam, depth)...)
						}
					}
				}
				return out
			}
		}
		ev := evFor(u, childParam, 0)
		g := m.cfgOf(u)
		res := runPaths(g, []string{"STORE", "FANOUT+", "GROW"}, ev, nil)
		bad := false
		for _, b := range g.Blocks {
			for _, s := range res.exits[b] {
				okState := (s.n[evSTORE] == 1 && s.n[evINC] == 1 && s.n[evGROW] == 0) || (s.n[evGROW] == 1 && s.n[evSTORE] == 0 && s.n[evINC] == 0)
				if !okState && !isPanicBlock(info, b) {
					bad = true
					pos := u.Decl.Pos()
					if len(b.Nodes) > 0 {
						pos = b.Nodes[len(b.Nodes)-1].Pos()
					}
					o := c.r.bad("R43", k.Struct.Obj().Name()+".addChild stores the child and counts it on every path", m.pos(pos),
						"a path through addChild ends with "+res.describe(s)+": accepted are {STORE,FANOUT+} and {GROW} – the counter and the real number of children drift apart", props...)
					o.Path = res.witness(b, res.entryOf[pkey{b.Index, s}])
				}
			}
		}
		if !bad {
			c.r.ok("R43", k.Struct.Obj().Name()+".addChild stores the child and counts it on every path", m.pos(u.Decl.Pos()), "every path is {STORE,FANOUT+} or {GROW}", props...)
		}
	}
	if n < 3 {
		c.r.undecided("R43", "addChild methods found", "node.go", "fewer than 3", props...)
	}
}
