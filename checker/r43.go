package main

import (
	"go/ast"
	"go/token"
	"strings"

	"golang.org/x/tools/go/cfg"
)

// R43 FANOUTSYNC (C11, C10, C01) – on every path of a size class's addChild the child is stored
// and the fan-out counter incremented together (or the insertion is delegated to the next
// larger class). A counter that is skipped or saturated on some path disagrees with the real
// number of children from then on; the shrink thresholds compare against it.
func ruleR43(c *Ctx) {
	info := c.m.Info
	m := c.m
	props := []string{"C11", "C10", "C01"}
	n := 0
	for _, k := range m.Kinds {
		u := m.ByName[k.Struct.Obj().Name()+".addChild"]
		if u == nil {
			continue
		}
		n++
		var childParam string
		for _, f := range u.Decl.Type.Params.List {
			for _, nm := range f.Names {
				if v := info.Defs[nm]; v != nil && c.isNodeRefType(v.Type()) && !strings.HasPrefix(v.Type().String(), "*") {
					childParam = nm.Name
				}
			}
		}
		const (
			evSTORE = iota
			evINC
			evGROW
		)
		ev := func(b *cfg.Block, i int, nd ast.Node) []int {
			var out []int
			switch y := nd.(type) {
			case *ast.IncDecStmt:
				if y.Tok == token.INC && strings.HasSuffix(exprText(y.X), "childrenLen") {
					out = append(out, evINC)
				}
			case *ast.AssignStmt:
				if len(y.Lhs) == 1 && len(y.Rhs) == 1 && strings.Contains(exprText(y.Lhs[0]), "children[") {
					if id, ok := ast.Unparen(y.Rhs[0]).(*ast.Ident); ok && id.Name == childParam {
						out = append(out, evSTORE)
					}
				}
				if (y.Tok == token.ADD_ASSIGN) && strings.HasSuffix(exprText(y.Lhs[0]), "childrenLen") {
					out = append(out, evINC)
				}
			case *ast.ExprStmt:
				if call, ok := y.X.(*ast.CallExpr); ok {
					if sel, ok := call.Fun.(*ast.SelectorExpr); ok && sel.Sel.Name == "addChild" {
						out = append(out, evGROW)
					}
				}
			}
			return out
		}
		g := m.cfgOf(u)
		res := runPaths(g, []string{"STORE", "FANOUT+", "GROW"}, ev, nil)
		bad := false
		for _, b := range g.Blocks {
			for _, s := range res.exits[b] {
				okState := (s.n[evSTORE] == 1 && s.n[evINC] == 1 && s.n[evGROW] == 0) || (s.n[evGROW] == 1 && s.n[evSTORE] == 0 && s.n[evINC] == 0)
				if !okState && !isPanicBlock(info, b) {
					bad = true
					pos := u.Decl.Pos()
					if len(b.Nodes) > 0 {
						pos = b.Nodes[len(b.Nodes)-1].Pos()
					}
					o := c.r.bad("R43", k.Struct.Obj().Name()+".addChild stores the child and counts it on every path", m.pos(pos),
						"a path through addChild ends with "+res.describe(s)+": accepted are {STORE,FANOUT+} and {GROW} – the counter and the real number of children drift apart", props...)
					o.Path = res.witness(b, res.entryOf[pkey{b.Index, s}])
				}
			}
		}
		if !bad {
			c.r.ok("R43", k.Struct.Obj().Name()+".addChild stores the child and counts it on every path", m.pos(u.Decl.Pos()), "every path is {STORE,FANOUT+} or {GROW}", props...)
		}
	}
	if n < 3 {
		c.r.undecided("R43", "addChild methods found", "node.go", "fewer than 3", props...)
	}
}
