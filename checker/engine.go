package main

import (
	"fmt"
	"go/ast"
	"go/constant"
	"go/types"
	"golang.org/x/tools/go/cfg"
	"os"
	"regexp"
	"strings"
	"time"
)

// Engine caches per-function flows and interprocedural summaries.
type Engine struct {
	m          *Model
	ef         *effects
	flows      map[*FuncUnit]*Flow
	rb         map[string][]retBound
	rbBusy     map[string]bool
	taint      map[*types.Var]bool
	rf         map[*types.Func][]bool
	flowInProg map[*FuncUnit]bool
	degraded   int
	rfLit      map[*FuncUnit][]bool
	rfLitBusy  map[*FuncUnit]bool
	rfBusy     map[*types.Func]bool
	wt         map[*types.Func]map[int]bool
	pin        map[*types.Func]int
	flowBusy   map[*FuncUnit]bool
	sites      map[*FuncUnit][]engSite
}

func newEngine(m *Model) *Engine {
	e := &Engine{m: m, ef: computeEffects(m), flows: map[*FuncUnit]*Flow{}, rb: map[string][]retBound{}, rbBusy: map[string]bool{}}
	return e
}

func (e *Engine) flow(u *FuncUnit) *Flow {
	if f, ok := e.flows[u]; ok {
		return f
	}
	t0 := time.Now()
	// a closure starts with what its creator knew about the variables it captures, as far as
	// those can never change (captured variables that are assigned nowhere, facts that read no
	// memory through a pointer): `if root.pointer == nil { return none }` in front of the literal
	var entry func(fl *Flow) []*Fact
	if u.Lit != nil && u.Parent != nil && !e.flowBusy[u.Parent] {
		if e.flowBusy == nil {
			e.flowBusy = map[*FuncUnit]bool{}
		}
		e.flowBusy[u] = true
		pf := e.flow(u.Parent)
		delete(e.flowBusy, u)
		var at *FactSet
		pf.walk(func(n ast.Node, fs *FactSet, stmt ast.Node, b *cfg.Block) {
			if n == ast.Node(u.Lit) && at == nil {
				at = fs.clone()
			}
		})
		if at != nil {
			defs := e.m.localDefs(u.Parent)
			var keep []*Fact
			for _, k := range sortedKeys(at.m) {
				f := at.m[k]
				if f.Kind == FAlias || f.Kind == FFresh || len(f.derefs) > 0 || f.opaque || len(f.objs) == 0 {
					continue
				}
				stable := true
				for v := range f.objs {
					if v.Pos() >= u.Lit.Pos() && v.Pos() <= u.Lit.End() {
						stable = false
					}
					if d := defs[v]; d != nil && (d.bad || d.nDefs > 1) {
						stable = false
					}
					if assignedAnywhere(e.m.Info, u.Decl.Body, v) && (defs[v] == nil || defs[v].nDefs == 0) {
						stable = false // a parameter that is reassigned somewhere
					}
				}
				if stable {
					keep = append(keep, f)
				}
			}
			if len(keep) > 0 {
				entry = func(fl *Flow) []*Fact { return keep }
			}
		}
	}
	if entry == nil && u.Lit == nil {
		entry = e.callSiteEntry(u)
	}
	if e.flowInProg == nil {
		e.flowInProg = map[*FuncUnit]bool{}
	}
	e.flowInProg[u] = true
	degradedBefore := e.degraded
	f := newFlowP(e, u, entry)
	delete(e.flowInProg, u)
	if e.degraded != degradedBefore {
		// a summary this flow asked for was cut short by a cycle (the callee's own flow is being
		// computed further up): the result is sound but weaker than it can be – not kept
		return f
	}
	if os.Getenv("ARTCHECK_DEBUG") != "" {
		fmt.Fprintf(os.Stderr, "flow %-40s blocks=%d iters=%d ok=%v %v\n", u.Name, len(f.g.Blocks), f.iters, f.ok, time.Since(t0))
	}
	e.flows[u] = f
	return f
}

// retBounds derives, from the callee's own body, which slice arguments bound its integer
// result from above (result ≤ len(arg)), specialised to the constant integer arguments of this
// call site. This replaces a hand-written axiom about longestCommonPrefix.
func (e *Engine) retBounds(call *ast.CallExpr) []retBound {
	f := e.m.staticCallee(call)
	if f == nil {
		return nil
	}
	u := e.m.ByObj[f]
	if u == nil || u.Decl == nil || u.Decl.Type.Results == nil || len(u.Decl.Type.Results.List) != 1 {
		return nil
	}
	sig, _ := f.Type().(*types.Signature)
	if sig == nil || sig.Results().Len() != 1 || !isIntType(sig.Results().At(0).Type()) {
		return nil
	}
	// parameter objects in order
	var params []*types.Var
	for _, fld := range u.Decl.Type.Params.List {
		for _, nm := range fld.Names {
			v, _ := e.m.Info.Defs[nm].(*types.Var)
			params = append(params, v)
		}
	}
	if len(params) != len(call.Args) {
		return nil
	}
	key := u.Name + "("
	consts := map[int]int64{}
	for i, a := range call.Args {
		if tv, ok := e.m.Info.Types[a]; ok && tv.Value != nil && isIntType(tv.Type) {
			var c int64
			fmt.Sscan(tv.Value.ExactString(), &c)
			consts[i] = c
			key += fmt.Sprintf("%d=%d,", i, c)
		}
	}
	key += ")"
	if r, ok := e.rb[key]; ok {
		return r
	}
	if e.rbBusy[key] {
		return nil
	}
	e.rbBusy[key] = true
	defer delete(e.rbBusy, key)
	entry := func(fl *Flow) []*Fact {
		var out []*Fact
		for i, c := range consts {
			if params[i] == nil {
				continue
			}
			lv := linAtom(varID(params[i]))
			l1 := lv.clone()
			l1.c -= c
			l2 := lv.scale(-1)
			l2.c += c
			for _, l := range []Lin{l1, l2} {
				ft := &Fact{Kind: FLin, Lin: l, Origin: "constant argument at call site", objs: map[*types.Var]bool{params[i]: true}, derefs: map[*types.Var]bool{}}
				ft.raw = "lin:" + l.key()
				out = append(out, ft)
			}
		}
		return out
	}
	fl := newFlowP(e, u, entry)
	var res []retBound
	for i, p := range params {
		if p == nil {
			continue
		}
		if _, ok := p.Type().Underlying().(*types.Slice); !ok {
			continue
		}
		atom := "len(" + varID(p) + ")"
		fl.at.addSide(atom, linAtom(atom).scale(-1))
		all, any := true, false
		for _, b := range fl.g.Blocks {
			if !b.Live || fl.in[b.Index] == nil {
				continue
			}
			for k, n := range b.Nodes {
				rs, ok := n.(*ast.ReturnStmt)
				if !ok {
					continue
				}
				any = true
				if len(rs.Results) != 1 {
					all = false
					continue
				}
				lr, ok := fl.z.lin(rs.Results[0])
				if !ok {
					all = false
					continue
				}
				fs := fl.setBefore(b, k)
				if !fs.proveLin(lr.add(linAtom(atom), -1)) {
					all = false
				}
			}
		}
		if all && any {
			res = append(res, retBound{Arg: i})
		}
	}
	if os.Getenv("ARTCHECK_DEBUG") != "" {
		fmt.Fprintf(os.Stderr, "retBounds %s -> %v\n", key, res)
		for _, b := range fl.g.Blocks {
			if b.Live && fl.in[b.Index] != nil {
				fmt.Fprintf(os.Stderr, "  block %s: %v\n", b.String(), fl.in[b.Index].describe())
			}
		}
	}
	e.rb[key] = res
	return res
}

// ---------------------------------------------------------------------------------------------
// Probe keys: byte strings whose length the caller of the public API chooses.

func (e *Engine) probeKeys() map[*types.Var]bool {
	if e.taint != nil {
		return e.taint
	}
	m := e.m
	t := map[*types.Var]bool{}
	// seeds: key-typed parameters of the methods of every tree kind
	for _, tk := range m.Trees {
		for _, u := range tk.Methods {
			for _, fld := range u.Decl.Type.Params.List {
				if _, isTP := types.Unalias(m.Info.TypeOf(fld.Type)).(*types.TypeParam); !isTP {
					continue
				}
				if id, ok := fld.Type.(*ast.Ident); !ok || id.Name != "K" {
					// the key type parameter is the first type parameter of the receiver
					if !e.isKeyTypeParam(u, fld.Type) {
						continue
					}
				}
				for _, nm := range fld.Names {
					if v, _ := m.Info.Defs[nm].(*types.Var); v != nil {
						t[v] = true
					}
				}
			}
		}
	}
	byteLike := func(tp types.Type) bool {
		if tp == nil {
			return false
		}
		switch x := types.Unalias(tp).(type) {
		case *types.TypeParam:
			return true
		case *types.Tuple:
			return false
		default:
			switch u := x.Underlying().(type) {
			case *types.Slice:
				b, ok := u.Elem().Underlying().(*types.Basic)
				return ok && (b.Kind() == types.Byte || b.Kind() == types.Uint8 || b.Kind() == types.Rune || b.Kind() == types.Int32)
			case *types.Basic:
				return u.Info()&types.IsString != 0
			}
		}
		return false
	}
	var tainted func(x ast.Expr) bool
	tainted = func(x ast.Expr) bool {
		switch y := ast.Unparen(x).(type) {
		case *ast.Ident:
			v, _ := m.Info.ObjectOf(y).(*types.Var)
			return v != nil && t[v]
		case *ast.SliceExpr:
			return tainted(y.X)
		case *ast.CallExpr:
			for _, a := range y.Args {
				if tainted(a) {
					return true
				}
			}
		}
		return false
	}
	for changed := true; changed; {
		changed = false
		mark := func(v *types.Var) {
			if v != nil && !t[v] && byteLike(v.Type()) {
				t[v] = true
				changed = true
			}
		}
		for _, u := range m.Units {
			ast.Inspect(u.Body, func(n ast.Node) bool {
				switch x := n.(type) {
				case *ast.FuncLit:
					return n == ast.Node(u.Lit) // nested literals are their own units
				case *ast.AssignStmt:
					if len(x.Rhs) == 1 && len(x.Lhs) > 1 {
						if tainted(x.Rhs[0]) {
							for _, l := range x.Lhs {
								if id, ok := l.(*ast.Ident); ok {
									v, _ := m.Info.ObjectOf(id).(*types.Var)
									mark(v)
								}
							}
						}
					} else if len(x.Rhs) == len(x.Lhs) {
						for i, l := range x.Lhs {
							if id, ok := l.(*ast.Ident); ok && tainted(x.Rhs[i]) {
								v, _ := m.Info.ObjectOf(id).(*types.Var)
								mark(v)
							}
						}
					}
				case *ast.ValueSpec:
					for i, nm := range x.Names {
						if i < len(x.Values) && tainted(x.Values[i]) {
							v, _ := m.Info.ObjectOf(nm).(*types.Var)
							mark(v)
						}
					}
				case *ast.CallExpr:
					f := m.staticCallee(x)
					if f == nil {
						return true
					}
					cu := m.ByObj[f]
					if cu == nil || cu.Decl == nil {
						return true
					}
					i := 0
					for _, fld := range cu.Decl.Type.Params.List {
						for _, nm := range fld.Names {
							if i < len(x.Args) && tainted(x.Args[i]) {
								v, _ := m.Info.Defs[nm].(*types.Var)
								mark(v)
							}
							i++
						}
					}
				}
				return true
			})
		}
	}
	e.taint = t
	return t
}

func (e *Engine) isKeyTypeParam(u *FuncUnit, typ ast.Expr) bool {
	id, ok := typ.(*ast.Ident)
	if !ok || u.Decl.Recv == nil || len(u.Decl.Recv.List) == 0 {
		return false
	}
	// receiver type T[K, V]: first index is the key parameter
	rt := u.Decl.Recv.List[0].Type
	if s, ok := rt.(*ast.StarExpr); ok {
		rt = s.X
	}
	switch x := rt.(type) {
	case *ast.IndexListExpr:
		if len(x.Indices) > 0 {
			if k, ok := x.Indices[0].(*ast.Ident); ok {
				return k.Name == id.Name
			}
		}
	case *ast.IndexExpr:
		if k, ok := x.Index.(*ast.Ident); ok {
			return k.Name == id.Name
		}
	}
	return false
}

// propsFor attributes an obligation found in a unit to the properties whose behaviour the
// construct can break.
func (e *Engine) propsForUnit(u *FuncUnit, base ...string) []string {
	name := u.Name
	if i := strings.IndexByte(name, '$'); i >= 0 {
		name = name[:i]
	}
	set := map[string]bool{}
	for _, b := range base {
		set[b] = true
	}
	if u.Recv != "" {
		for _, tk := range e.m.Trees {
			if tk.Name != u.Recv {
				continue
			}
			if strings.Contains(strings.ToLower(tk.Name), "collat") {
				set["C08"] = true
			}
			if strings.Contains(strings.ToLower(tk.Name), "compound") {
				set["C09"] = true
			}
		}
	}
	out := sortedKeys(set)
	return out
}

// resultFresh: per result of a library callee, whether every return hands out memory the
// callee allocated itself (derived from the callee's own body).
func (e *Engine) resultFresh(call *ast.CallExpr) []bool {
	f := e.m.staticCallee(call)
	if f == nil {
		// a local closure bound once to a variable (bound := func(k K) []byte {…}): judged by its
		// own returns like a declared helper
		if id, ok := ast.Unparen(call.Fun).(*ast.Ident); ok {
			if v, ok := e.m.Info.ObjectOf(id).(*types.Var); ok {
				if lu := e.m.LitOfVar[v]; lu != nil && lu.Lit != nil {
					return e.litResultFresh(lu)
				}
			}
		}
		return nil
	}
	if e.rf == nil {
		e.rf, e.rfBusy = map[*types.Func][]bool{}, map[*types.Func]bool{}
	}
	if r, ok := e.rf[f]; ok {
		return r
	}
	u := e.m.ByObj[f]
	if u == nil {
		return nil
	}
	if e.rfBusy[f] {
		e.degraded++
		return nil
	}
	degradedBefore := e.degraded
	e.rfBusy[f] = true
	defer delete(e.rfBusy, f)
	sig, _ := f.Type().(*types.Signature)
	if sig == nil || sig.Results().Len() == 0 {
		e.rf[f] = nil
		return nil
	}
	fl := e.flow(u)
	res := make([]bool, sig.Results().Len())
	for i := range res {
		res[i] = true
	}
	any := false
	for _, b := range fl.g.Blocks {
		if !b.Live || fl.in[b.Index] == nil {
			continue
		}
		for k, n := range b.Nodes {
			rs, ok := n.(*ast.ReturnStmt)
			if !ok {
				continue
			}
			any = true
			fs := fl.setBefore(b, k)
			if len(rs.Results) != len(res) {
				// return t.cok.Transform(key): the results are the callee's, one for one
				if len(rs.Results) == 1 {
					if rc, isCall := ast.Unparen(rs.Results[0]).(*ast.CallExpr); isCall {
						if inner := e.resultFresh(rc); len(inner) == len(res) {
							for i := range res {
								if !inner[i] {
									res[i] = false
								}
							}
							continue
						}
					}
				}
				for i := range res {
					res[i] = false
				}
				continue
			}
			for i, r := range rs.Results {
				if !fl.freshExpr(r, fs, 0) {
					res[i] = false
				}
			}
		}
	}
	if !any {
		for i := range res {
			res[i] = false
		}
	}
	if os.Getenv("ARTCHECK_DEBUG") == "fresh" {
		fmt.Fprintf(os.Stderr, "RESFRESH %s %v\n", u.Name, res)
	}
	if e.degraded == degradedBefore {
		e.rf[f] = res
	}
	return res
}

// externalWrites: external functions that write through an argument (index → true).
var externalWrites = map[string]map[int]bool{
	"encoding/binary.bigEndian.PutUint16": {0: true}, "encoding/binary.bigEndian.PutUint32": {0: true}, "encoding/binary.bigEndian.PutUint64": {0: true},
	"encoding/binary.littleEndian.PutUint16": {0: true}, "encoding/binary.littleEndian.PutUint32": {0: true}, "encoding/binary.littleEndian.PutUint64": {0: true},
	"golang.org/x/text/collate.Collator.Key": {0: true}, "golang.org/x/text/collate.Collator.KeyFromString": {0: true},
	"golang.org/x/text/collate.Buffer.Reset": {-1: true},
	"builtin.copy":                           {0: true}, "builtin.clear": {0: true}, "builtin.append": {0: true},
	"slices.Reverse":                         {0: true},
	"encoding/binary.bigEndian.AppendUint16": {0: true}, "encoding/binary.bigEndian.AppendUint32": {0: true}, "encoding/binary.bigEndian.AppendUint64": {0: true},
}

// writesThrough: parameters (index; -1 receiver) of a library function through which it may
// write memory (directly or by passing them on).
func (e *Engine) writesThrough(f *types.Func) map[int]bool {
	if e.wt == nil {
		e.wt = map[*types.Func]map[int]bool{}
		info := e.m.Info
		paramIdx := func(u *FuncUnit) map[*types.Var]int {
			out := map[*types.Var]int{}
			if u.Decl.Recv != nil && len(u.Decl.Recv.List) == 1 && len(u.Decl.Recv.List[0].Names) == 1 {
				if v, _ := info.Defs[u.Decl.Recv.List[0].Names[0]].(*types.Var); v != nil {
					out[v] = -1
				}
			}
			i := 0
			for _, fld := range u.Decl.Type.Params.List {
				for _, nm := range fld.Names {
					if v, _ := info.Defs[nm].(*types.Var); v != nil {
						out[v] = i
					}
					i++
				}
			}
			return out
		}
		for _, u := range e.m.Units {
			if u.Lit == nil && u.Obj != nil {
				e.wt[u.Obj] = map[int]bool{}
			}
		}
		for changed := true; changed; {
			changed = false
			for _, u := range e.m.Units {
				if u.Lit != nil || u.Obj == nil {
					continue
				}
				ps := paramIdx(u)
				mark := func(x ast.Expr) {
					v, through := rootVar(info, x)
					if v == nil {
						return
					}
					i, isParam := ps[v]
					if !isParam {
						return
					}
					// writing the parameter variable itself is local; writing through it is not
					if through && !e.wt[u.Obj][i] {
						e.wt[u.Obj][i] = true
						changed = true
					}
				}
				ast.Inspect(u.Body, func(n ast.Node) bool {
					switch x := n.(type) {
					case *ast.AssignStmt:
						for _, l := range x.Lhs {
							if _, isId := ast.Unparen(l).(*ast.Ident); !isId {
								mark(l)
							}
						}
					case *ast.IncDecStmt:
						if _, isId := ast.Unparen(x.X).(*ast.Ident); !isId {
							mark(x.X)
						}
					case *ast.CallExpr:
						name := e.m.calleeName(x)
						if w, ok := externalWrites[name]; ok {
							for i := range w {
								if a := callArgFor(x, i); a != nil {
									if _, isId := ast.Unparen(a).(*ast.Ident); isId {
										// append(p, …)/copy(p, …) on the parameter itself
										if v := identVar(info, a); v != nil {
											if pi, isParam := ps[v]; isParam && !e.wt[u.Obj][pi] {
												e.wt[u.Obj][pi] = true
												changed = true
											}
										}
									} else if _, isSlice := info.TypeOf(a).Underlying().(*types.Slice); isSlice {
										// copy(p[i:], …): a reslice of the parameter shares its backing array
										if v, _ := rootVar(info, a); v != nil {
											if pi, isParam := ps[v]; isParam && !e.wt[u.Obj][pi] {
												e.wt[u.Obj][pi] = true
												changed = true
											}
										}
									} else {
										mark(a)
									}
								}
							}
						}
						if g := e.m.staticCallee(x); g != nil {
							if gw, ok := e.wt[g]; ok {
								for gi := range gw {
									if a := callArgFor(x, gi); a != nil {
										if v, _ := rootVar(info, a); v != nil {
											if pi, isParam := ps[v]; isParam && !e.wt[u.Obj][pi] {
												e.wt[u.Obj][pi] = true
												changed = true
											}
										}
									}
								}
							}
						}
					}
					return true
				})
			}
		}
	}
	return e.wt[f]
}

// preservesInner: a library function that, through the *nodeRef parameters (or receiver) it is
// given, only ever stores references with an inner-kind tag (or the empty reference), itself and in
// every library function it hands such a parameter to. After a call of such a function a
// reference known not to be a leaf is still not a leaf (it may have changed size class).
func (e *Engine) preservesInner(f *types.Func) bool {
	if e.pin == nil {
		e.pin = map[*types.Func]int{}
	}
	switch e.pin[f] {
	case 1, 3: // proven, or in progress (optimistic on recursion)
		return true
	case 2:
		return false
	}
	e.pin[f] = 3
	ok := e.computePreservesInner(f)
	if ok {
		e.pin[f] = 1
	} else {
		e.pin[f] = 2
	}
	return ok
}

func (e *Engine) isRefPtr(t types.Type) bool {
	if t == nil || e.m.NodeRef == nil {
		return false
	}
	p, ok := t.Underlying().(*types.Pointer)
	if !ok {
		return false
	}
	n := namedOf(p.Elem())
	return n != nil && n.Obj() == e.m.NodeRef.Obj()
}

func (e *Engine) computePreservesInner(f *types.Func) bool {
	m := e.m
	info := m.Info
	u := m.ByObj[f]
	if u == nil || u.Body == nil {
		return false
	}
	ok := true
	ast.Inspect(u.Body, func(n ast.Node) bool {
		if !ok {
			return false
		}
		switch x := n.(type) {
		case *ast.AssignStmt:
			for i, l := range x.Lhs {
				se, isStar := ast.Unparen(l).(*ast.StarExpr)
				if !isStar || !e.isRefPtr(info.TypeOf(se.X)) {
					// a field of the reference written alone (ref.tag = …) is not a recognised form
					if sel, isSel := ast.Unparen(l).(*ast.SelectorExpr); isSel && e.isRefPtr(info.TypeOf(sel.X)) {
						ok = false
					}
					continue
				}
				if len(x.Rhs) != len(x.Lhs) {
					ok = false
					continue
				}
				cl, isLit := ast.Unparen(x.Rhs[i]).(*ast.CompositeLit)
				if !isLit {
					if call, isCall := ast.Unparen(x.Rhs[i]).(*ast.CallExpr); isCall {
						if cu := m.calleeUnit(call); cu != nil {
							if r := simpleReturn(cu); r != nil {
								cl, isLit = ast.Unparen(r).(*ast.CompositeLit)
							}
						}
					}
				}
				if !isLit {
					ok = false
					continue
				}
				if len(cl.Elts) == 0 {
					continue // the empty reference
				}
				inner := false
				st, _ := info.TypeOf(cl).Underlying().(*types.Struct)
				for k, el := range cl.Elts {
					name, val := "", el
					if kv, isKV := el.(*ast.KeyValueExpr); isKV {
						if id, isId := kv.Key.(*ast.Ident); isId {
							name = id.Name
						}
						val = kv.Value
					} else if st != nil && k < st.NumFields() {
						name = st.Field(k).Name()
					}
					if tv, has := info.Types[val]; has && tv.Value != nil && tv.Type != nil && m.KindType != nil && types.Identical(tv.Type, m.KindType) && name != "" {
						if v, exact := constant.Int64Val(tv.Value); exact && v != m.LeafKind.Value {
							inner = true
						}
					}
				}
				if !inner {
					ok = false
				}
			}
		case *ast.CallExpr:
			if isConversion(info, x) {
				return true
			}
			passes := false
			for _, a := range x.Args {
				if e.isRefPtr(info.TypeOf(a)) {
					passes = true
				}
			}
			if sel, isSel := ast.Unparen(x.Fun).(*ast.SelectorExpr); isSel && info.Selections[sel] != nil && e.isRefPtr(info.TypeOf(sel.X)) {
				passes = true
			}
			if !passes {
				return true
			}
			cf := m.staticCallee(x)
			if cf == nil || cf.Pkg() != m.Pkg {
				ok = false
				return true
			}
			if e.ef.callPure(x) {
				return true
			}
			if !e.preservesInner(cf) {
				ok = false
			}
		}
		return true
	})
	return ok
}

// newFlowP builds the flow of u with the engine's interprocedural summaries attached.
func newFlowP(e *Engine, u *FuncUnit, entry func(fl *Flow) []*Fact) *Flow {
	preFlowHook = func(fl *Flow) {
		fl.preserves = func(call *ast.CallExpr) bool {
			f := e.m.staticCallee(call)
			return f != nil && f.Pkg() == e.m.Pkg && e.preservesInner(f)
		}
	}
	defer func() { preFlowHook = nil }()
	return newFlow(e.m, e.ef, u, entry, e.retBounds, e.resultFresh)
}

type engSite struct {
	u    *FuncUnit
	call *ast.CallExpr
}

// callSiteEntry: what every caller of an unexported helper knows about the arguments it passes –
// linear facts over plain variables and their lengths (depth <= len(key)) that hold at every call
// site – becomes what the helper may assume about its parameters. A piece of a method moved into a
// function of its own keeps the guards the method established.
func (e *Engine) callSiteEntry(u *FuncUnit) func(fl *Flow) []*Fact {
	if u.Decl == nil || u.Decl.Name.IsExported() || u.Type == nil || u.Type.Params == nil || u.Obj == nil {
		return nil
	}
	info := e.m.Info
	if e.sites == nil {
		e.sites = map[*FuncUnit][]engSite{}
		for _, cu := range e.m.Units {
			if cu.Body == nil {
				continue
			}
			cu := cu
			ast.Inspect(cu.Body, func(n ast.Node) bool {
				if lit, ok := n.(*ast.FuncLit); ok && ast.Node(lit) != ast.Node(cu.Lit) {
					return false
				}
				if call, ok := n.(*ast.CallExpr); ok {
					if t := e.m.calleeUnit(call); t != nil && t.Lit == nil {
						e.sites[t] = append(e.sites[t], engSite{cu, call})
					}
				}
				return true
			})
		}
	}
	sites := e.sites[u]
	if len(sites) == 0 {
		return nil
	}
	var params []*types.Var
	for _, f := range u.Type.Params.List {
		for _, nm := range f.Names {
			v, _ := info.Defs[nm].(*types.Var)
			params = append(params, v)
		}
	}
	if e.flowBusy == nil {
		e.flowBusy = map[*FuncUnit]bool{}
	}
	if e.flowBusy[u] {
		return nil
	}
	e.flowBusy[u] = true
	defer delete(e.flowBusy, u)
	idRe := regexp.MustCompile(`[A-Za-z_][A-Za-z0-9_]*#[0-9]+`)
	var common map[string]Lin
	for _, s := range sites {
		if s.u == u || e.flowBusy[s.u] || e.flowInProg[s.u] {
			return nil
		}
		cfl := e.flow(s.u)
		var at *FactSet
		cfl.walk(func(n ast.Node, fs *FactSet, stmt ast.Node, b *cfg.Block) {
			if n == ast.Node(s.call) && at == nil {
				at = fs.clone()
			}
		})
		if at == nil {
			return nil
		}
		rename := map[string]string{}
		for i, a := range s.call.Args {
			if i >= len(params) || params[i] == nil {
				continue
			}
			if av := identVar(info, a); av != nil {
				rename[varID(av)] = varID(params[i])
			}
		}
		here := map[string]Lin{}
		for _, f := range at.m {
			if f.Kind != FLin {
				continue
			}
			nl := Lin{c: f.Lin.c, t: map[string]int64{}}
			ok := true
			for atom, coef := range f.Lin.t {
				if strings.ContainsAny(atom, ".[*&") {
					ok = false
					break
				}
				na := idRe.ReplaceAllStringFunc(atom, func(id string) string {
					if to, has := rename[id]; has {
						return to
					}
					ok = false
					return id
				})
				if !ok {
					break
				}
				nl.t[na] += coef
			}
			if ok && len(nl.t) > 0 {
				here[nl.key()] = nl
			}
		}
		if common == nil {
			common = here
		} else {
			for k := range common {
				if _, has := here[k]; !has {
					delete(common, k)
				}
			}
		}
		if len(common) == 0 {
			return nil
		}
	}
	if len(common) == 0 {
		return nil
	}
	lins := make([]Lin, 0, len(common))
	for _, k := range sortedKeys(common) {
		lins = append(lins, common[k])
	}
	return func(fl *Flow) []*Fact {
		var out []*Fact
		for _, l := range lins {
			ft := &Fact{Kind: FLin, Lin: l, Origin: fmt.Sprintf("holds at each of the %d call sites of %s", len(sites), u.Name), objs: map[*types.Var]bool{}, derefs: map[*types.Var]bool{}}
			for _, p := range params {
				if p == nil {
					continue
				}
				for atom := range l.t {
					if strings.Contains(atom, varID(p)) {
						ft.objs[p] = true
					}
				}
			}
			ft.raw = "lin:" + l.key()
			out = append(out, ft)
		}
		return out
	}
}

// litResultFresh: per result of a function literal, whether every return hands out memory the
// literal allocated itself.
func (e *Engine) litResultFresh(lu *FuncUnit) []bool {
	if e.rfLit == nil {
		e.rfLit, e.rfLitBusy = map[*FuncUnit][]bool{}, map[*FuncUnit]bool{}
	}
	if r, ok := e.rfLit[lu]; ok {
		return r
	}
	if e.rfLitBusy[lu] || lu.Lit.Type.Results == nil {
		return nil
	}
	e.rfLitBusy[lu] = true
	defer delete(e.rfLitBusy, lu)
	n := 0
	for _, f := range lu.Lit.Type.Results.List {
		if len(f.Names) == 0 {
			n++
		} else {
			n += len(f.Names)
		}
	}
	fl := e.flow(lu)
	res := make([]bool, n)
	for i := range res {
		res[i] = true
	}
	any := false
	for _, b := range fl.g.Blocks {
		if !b.Live || fl.in[b.Index] == nil {
			continue
		}
		for k, nd := range b.Nodes {
			rs, ok := nd.(*ast.ReturnStmt)
			if !ok {
				continue
			}
			any = true
			fs := fl.setBefore(b, k)
			if len(rs.Results) != len(res) {
				for i := range res {
					res[i] = false
				}
				continue
			}
			for i, r := range rs.Results {
				if !fl.freshExpr(r, fs, 0) {
					res[i] = false
				}
			}
		}
	}
	if !any {
		for i := range res {
			res[i] = false
		}
	}
	e.rfLit[lu] = res
	return res
}
