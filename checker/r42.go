package main

import (
	"fmt"
	"go/ast"
	"go/types"
	"strings"
)

// R42 PERTREE (C12, C16, C08) – objects reachable from a tree are built per tree: a pointer
// stored into a tree (or into its codec) by a constructor or option comes from a fresh
// allocation, an external constructor call, or the caller – never from a package-level variable
// or a memoised package-level function value, which every tree would share.
func ruleR42(c *Ctx) {
	info := c.m.Info
	m := c.m
	props := []string{"C12", "C16", "C08"}
	isPkgVar := func(v *types.Var) bool { return v != nil && v.Parent() == m.Pkg.Scope() }
	// library functions that hand out a package-level object
	returnsGlobal := map[*types.Func]string{}
	for _, u := range m.Units {
		if u.Lit != nil || u.Obj == nil {
			continue
		}
		ast.Inspect(u.Body, func(n ast.Node) bool {
			if r, ok := n.(*ast.ReturnStmt); ok {
				for _, e := range r.Results {
					if v := identVar(info, e); isPkgVar(v) {
						returnsGlobal[u.Obj] = v.Name()
					}
				}
			}
			return true
		})
	}
	shared := func(e ast.Expr) string {
		e = ast.Unparen(e)
		if v := identVar(info, e); isPkgVar(v) {
			return "package-level variable " + v.Name()
		}
		if ue, ok := e.(*ast.UnaryExpr); ok {
			if v, _ := rootVar(info, ue.X); isPkgVar(v) {
				return "address inside package-level variable " + v.Name()
			}
		}
		if call, ok := e.(*ast.CallExpr); ok {
			if v := identVar(info, call.Fun); isPkgVar(v) {
				return "value handed out by the package-level function variable " + v.Name() + " (memoised: every tree gets the same object)"
			}
			if f := m.staticCallee(call); f != nil && returnsGlobal[f] != "" {
				return "result of " + f.Name() + "(), which returns package-level variable " + returnsGlobal[f]
			}
		}
		return ""
	}
	pointerLike := func(t types.Type) bool {
		if t == nil {
			return false
		}
		switch t.Underlying().(type) {
		case *types.Pointer, *types.Map, *types.Slice, *types.Chan, *types.Interface:
			return true
		}
		return false
	}
	ownedType := func(t types.Type) bool {
		n := namedOf(t)
		if n == nil {
			return false
		}
		for _, tk := range m.Trees {
			if tk.Named.Obj() == n.Obj() {
				return true
			}
		}
		return isCodecType(n)
	}
	nSites := 0
	for _, u := range c.sortedUnits() {
		base := u.Name
		if i := strings.IndexByte(base, '$'); i >= 0 {
			base = base[:i]
		}
		isCtor := u.Recv == "" && (strings.HasPrefix(base, "New") || strings.HasPrefix(base, "With"))
		check := func(field string, val ast.Expr, pos ast.Node) {
			if !pointerLike(info.TypeOf(val)) {
				return
			}
			nSites++
			key := fmt.Sprintf("%s stores a per-tree object in %s", u.Name, field)
			if why := shared(val); why != "" {
				c.r.bad("R42", key, m.pos(pos.Pos()), fmt.Sprintf("field %s of every tree built here receives the %s: independent trees share one mutable object (a collator carries iteration state), so using two trees at once – even from different goroutines, each on its own tree – interferes", field, why), props...)
			} else {
				c.r.ok("R42", key, m.pos(pos.Pos()), "fresh allocation, external constructor call or caller-supplied value", props...)
			}
		}
		ast.Inspect(u.Body, func(n ast.Node) bool {
			if lit, ok := n.(*ast.FuncLit); ok && ast.Node(lit) != ast.Node(u.Lit) {
				return false
			}
			switch x := n.(type) {
			case *ast.CompositeLit:
				if !ownedType(info.TypeOf(x)) {
					return true
				}
				for _, el := range x.Elts {
					if kv, ok := el.(*ast.KeyValueExpr); ok {
						if id, ok := kv.Key.(*ast.Ident); ok {
							if _, isLit := ast.Unparen(kv.Value).(*ast.CompositeLit); !isLit {
								check(id.Name, kv.Value, kv)
							}
						}
					}
				}
			case *ast.AssignStmt:
				if !isCtor || len(x.Lhs) != len(x.Rhs) {
					return true
				}
				for i, l := range x.Lhs {
					sel, ok := ast.Unparen(l).(*ast.SelectorExpr)
					if !ok || info.Selections[sel] == nil || !ownedType(info.TypeOf(sel.X)) {
						continue
					}
					check(sel.Sel.Name, x.Rhs[i], x)
				}
			}
			return true
		})
	}
	if nSites < 2 {
		c.r.undecided("R42", "constructor sites found", "-", fmt.Sprintf("only %d pointer fields set by constructors/options were found", nSites), props...)
	}
}
