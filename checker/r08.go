package main

import (
	"fmt"
	"go/ast"
	"go/token"
	"go/types"
	"sort"
	"strings"
)

// codecShape describes what the codec's Transform returns.
type codecShape struct {
	sameResults bool // return x, x
	identity    bool // x is []byte(k): a plain conversion of the key
	known       bool
}

func (c *Ctx) codecShapeOf(tk *TreeKind) codecShape {
	tu, _ := c.codecTransform(tk)
	if tu == nil {
		return codecShape{}
	}
	info := c.m.Info
	cs := codecShape{known: true, sameResults: true}
	nret := 0
	ast.Inspect(tu.Body, func(n ast.Node) bool {
		r, ok := n.(*ast.ReturnStmt)
		if ok && len(r.Results) == 1 {
			// return OtherCodec{}.Transform(x): the two results are what that codec returns
			if call, isCall := ast.Unparen(r.Results[0]).(*ast.CallExpr); isCall {
				if cu := c.m.calleeUnit(call); cu != nil && cu != tu && cu.Body != nil && cu.Decl != nil && cu.Decl.Name.Name == tu.Decl.Name.Name {
					nret++
					if !c.returnsSamePair(cu, 0) {
						cs.sameResults = false
					}
					return true
				}
			}
		}
		if !ok || len(r.Results) != 2 {
			return true
		}
		nret++
		a, b := identVar(info, r.Results[0]), identVar(info, r.Results[1])
		if a == nil || a != b {
			cs.sameResults = false
			return true
		}
		if def := singleDef(info, tu.Body, a); def != nil {
			if call, ok := ast.Unparen(def).(*ast.CallExpr); ok && isConversion(info, call) && len(call.Args) == 1 {
				if pv := identVar(info, call.Args[0]); pv != nil && c.enclosingParam(tu, pv) {
					cs.identity = true
				}
			}
		}
		return true
	})
	if nret == 0 {
		cs.known = false
	}
	return cs
}

// keySignature computes how variable v is derived from a key-typed parameter in unit u.
func (c *Ctx) keySignature(u *FuncUnit, v *types.Var, cs codecShape) string {
	return c.keySignature2(u, v, cs, 0)
}

func (c *Ctx) keySignature2(u *FuncUnit, v *types.Var, cs codecShape, depth int) string {
	info := c.m.Info
	type def struct {
		pos token.Pos
		op  string
	}
	var defs []def
	ast.Inspect(u.Body, func(n ast.Node) bool {
		as, ok := n.(*ast.AssignStmt)
		if !ok {
			return true
		}
		for i, l := range as.Lhs {
			if identVar(info, l) != v {
				continue
			}
			var rhs ast.Expr
			idx := 0
			if len(as.Rhs) == len(as.Lhs) {
				rhs = as.Rhs[i]
			} else if len(as.Rhs) == 1 {
				rhs, idx = as.Rhs[0], i
			}
			op := "?"
			if w := identVar(info, rhs); w != nil && w != v {
				if depth > 0 {
					continue // base derivation only
				}
				op = "=" + varID(w) // copy/swap of another key variable, resolved below
			}
			if call, ok := ast.Unparen(rhs).(*ast.CallExpr); ok {
				name := c.m.calleeName(call)
				switch {
				case strings.HasSuffix(name, ".Transform") && len(call.Args) == 1:
					op = fmt.Sprintf("T%d", idx)
					if cs.known && cs.sameResults {
						op = "T"
					}
					if cs.known && cs.identity {
						op = "conv"
					}
					if sel, ok := call.Fun.(*ast.SelectorExpr); ok {
						// the codec must be the tree's codec field
						op += "@" + display((&canonCtx{info: info}).canon(sel.X))
						if cs.known && cs.identity {
							op = "conv"
						}
					}
				case isConversion(info, call) && len(call.Args) == 1:
					op = "conv"
				case name == "terminated" && len(call.Args) == 1 && identVar(info, call.Args[0]) == v:
					op = "term"
				case isBuiltinCall(info, call, "append") && len(call.Args) == 2 && identVar(info, call.Args[0]) == v:
					if tv, has := info.Types[call.Args[1]]; has && tv.Value != nil {
						op = "term"
					}
				default:
					// a helper of the library that prepares the key (t.searchKey(key)): the
					// derivation is that of the variable it returns
					if cu := c.m.calleeUnit(call); cu != nil && cu != u && cu.Body != nil && c.sigDepth < 3 {
						if rets, all := returnExprs(cu); all && len(rets) == 1 {
							if rv := identVar(info, rets[0]); rv != nil {
								c.sigDepth++
								if sig := c.keySignature2(cu, rv, cs, 0); sig != "" {
									op = sig
								}
								c.sigDepth--
							}
							// encode(key) (text, colKey []byte) { return t.cok.Transform(key) }: the
							// results are those of Transform, in its order
							if rc, isCall := ast.Unparen(rets[0]).(*ast.CallExpr); isCall && strings.HasSuffix(c.m.calleeName(rc), ".Transform") && len(rc.Args) == 1 && len(as.Rhs) == 1 && len(as.Lhs) > 1 {
								op = fmt.Sprintf("T%d", idx)
								if cs.known && cs.sameResults {
									op = "T"
								}
								if sel, ok := rc.Fun.(*ast.SelectorExpr); ok {
									op += "@" + display((&canonCtx{info: info}).canon(sel.X))
								}
								if cs.known && cs.identity {
									op = "conv"
								}
							}
						} else if all && len(rets) == len(as.Lhs) && len(as.Rhs) == 1 && idx < len(rets) {
							// return text, sort – each result by its own derivation
							if rv := identVar(info, rets[idx]); rv != nil {
								c.sigDepth++
								if sig := c.keySignature2(cu, rv, cs, 0); sig != "" {
									op = sig
								}
								c.sigDepth--
							}
						}
					}
				}
			}
			defs = append(defs, def{as.Pos(), op})
		}
		return true
	})
	// a key that arrives as a parameter of a helper the entry point delegates to
	// (unlink(keyS, colKey)): its derivation is that of the argument at the (only) call site
	if len(defs) == 0 && u.Lit == nil && c.sigDepth < 3 {
		if id := identOfVar(u, v, info); id != nil {
			if pi := c.m.paramIndex(u, id); pi >= 0 {
				sigs := map[string]bool{}
				for _, s := range c.callSitesOf(u) {
					if c.sigKind != "" && s.u.Recv != "" && s.u.Recv != c.sigKind {
						continue // a helper shared by all tree kinds: the call site of this kind
					}
					if s.u == u {
						continue // the recursive descent hands its own parameter on
					}
					if a := argFor(s.call, pi); a != nil {
						if av := identVar(info, a); av != nil {
							c.sigDepth++
							sigs[c.keySignature2(s.u, av, cs, 0)] = true
							c.sigDepth--
						} else {
							sigs["?"] = true
						}
					}
				}
				if len(sigs) == 1 {
					for sg := range sigs {
						return sg
					}
				}
			}
		}
	}
	sort.Slice(defs, func(i, j int) bool { return defs[i].pos < defs[j].pos })
	// copies from a variable with the same derivation are neutral (start, end = end, start)
	var base []string
	for _, d := range defs {
		if !strings.HasPrefix(d.op, "=") {
			base = append(base, d.op)
		}
	}
	for i, d := range defs {
		if strings.HasPrefix(d.op, "=") {
			same := false
			ast.Inspect(u.Body, func(n ast.Node) bool {
				if id, ok := n.(*ast.Ident); ok {
					if w, _ := info.ObjectOf(id).(*types.Var); w != nil && "="+varID(w) == d.op {
						other := c.keySignature2(u, w, cs, 1)
						mine := strings.Join(dedupFirst(base), "+")
						if other == mine {
							same = true
						}
					}
				}
				return !same
			})
			if same {
				defs[i].op = ""
			} else {
				defs[i].op = "?"
			}
		}
	}
	var ops []string
	for _, d := range defs {
		if d.op == "" {
			continue
		}
		// a re-computation of an open bound (endKey = Transform(end) again) repeats the first op
		if len(ops) > 0 && d.op == ops[0] {
			continue
		}
		ops = append(ops, d.op)
	}
	return strings.Join(ops, "+")
}

func dedupFirst(ops []string) []string {
	var out []string
	for _, o := range ops {
		if len(out) > 0 && o == out[0] {
			continue
		}
		out = append(out, o)
	}
	return out
}

// R08 NORMALISE (with the collation roles of R16 and the codec plumbing of R18).
func ruleR08(c *Ctx) {
	info := c.m.Info
	m := c.m
	for _, tk := range m.Trees {
		props := []string{"C01", "C02"}
		if isCollationKind(tk) {
			props = append(props, "C08")
		}
		if isCompoundKind(tk) {
			props = append(props, "C09")
		}
		cs := c.codecShapeOf(tk)
		roleA := map[string]string{} // entry point → signature of the variable compared with getKey()
		roleB := map[string]string{} // entry point → signature of the variable driving the descent
		for _, mn := range []string{"Insert", "Search", "Delete"} {
			u := m.algorithmUnit(tk, mn)
			if u == nil {
				continue
			}
			c.sigKind = tk.Name
			for _, eg := range c.equalGuards(u) {
				roleA[mn] = c.keySignature(u, eg.probe, cs)
			}
			ast.Inspect(u.Body, func(n ast.Node) bool {
				call, ok := n.(*ast.CallExpr)
				if !ok {
					return true
				}
				name := m.calleeName(call)
				if name == "nodeRef.findChild" && len(call.Args) == 1 {
					if ie, ok := ast.Unparen(call.Args[0]).(*ast.IndexExpr); ok {
						if v := identVar(info, ie.X); v != nil {
							roleB[mn] = c.keySignature(u, v, cs)
						}
					}
				}
				if (name == "node.checkPrefix" && len(call.Args) == 2) || (name == "prefixMismatch" && len(call.Args) == 3) {
					a := call.Args[0]
					if name == "prefixMismatch" {
						a = call.Args[1]
					}
					if v := identVar(info, a); v != nil {
						s := c.keySignature(u, v, cs)
						if prev, ok := roleB[mn]; ok && prev != s {
							roleB[mn] = prev + " / " + s
						} else {
							roleB[mn] = s
						}
					}
				}
				return true
			})
			// Search inlines the lookup: b := key[depth]
			if _, ok := roleB[mn]; !ok {
				ast.Inspect(u.Body, func(n ast.Node) bool {
					if as, ok := n.(*ast.AssignStmt); ok && len(as.Lhs) == 1 && len(as.Rhs) == 1 {
						if ie, ok := ast.Unparen(as.Rhs[0]).(*ast.IndexExpr); ok {
							if v := identVar(info, ie.X); v != nil && c.e.probeKeys()[v] {
								roleB[mn] = c.keySignature(u, v, cs)
							}
						}
					}
					return true
				})
			}
		}
		if ru := tk.Methods["Range"]; ru != nil {
			// the scan is started by Range itself or by a helper of the tree it hands its bounds to
			// (between(lo, hi)): the derivation is read where the rangeScan call is
			var scanIn func(u *FuncUnit, depth int) bool
			scanIn = func(u *FuncUnit, depth int) bool {
				found := false
				ast.Inspect(u.Body, func(n ast.Node) bool {
					call, ok := n.(*ast.CallExpr)
					if !ok || found {
						return !found
					}
					if m.calleeName(call) == "rangeScan" && len(call.Args) >= 2 {
						sr := c.scanRoles()
						sig := func(p boundPath, ok bool) string {
							if !ok {
								return "?"
							}
							if v := identVar(info, c.boundArgAt(u, call, p)); v != nil {
								return c.keySignature(u, v, cs)
							}
							return "?"
						}
						roleA["Range.lower"], roleA["Range.upper"] = sig(sr.lowA, sr.okA), sig(sr.upA, sr.okA)
						roleB["Range.lower"], roleB["Range.upper"] = sig(sr.lowB, sr.okB), sig(sr.upB, sr.okB)
						found = true
						return false
					}
					// a thin wrapper of rangeScan (rangeScanSameKeys(root, lo, hi, restore)): its
					// parameters stand for the bounds
					if cu := m.calleeUnit(call); cu != nil && cu.Lit == nil && cu.Recv == "" {
						if inner, ok := ast.Unparen(simpleReturnExpr(cu)).(*ast.CallExpr); ok && m.calleeName(inner) == "rangeScan" && len(inner.Args) >= 5 {
							mp := map[int]int{}
							for i := 1; i <= 4; i++ {
								if id, ok := ast.Unparen(inner.Args[i]).(*ast.Ident); ok {
									if pi := m.paramIndex(cu, id); pi >= 0 && pi < len(call.Args) {
										mp[i] = pi
									}
								}
							}
							if len(mp) == 4 {
								sig := func(i int) string {
									if v := identVar(info, call.Args[mp[i]]); v != nil {
										return c.keySignature(u, v, cs)
									}
									return "?"
								}
								roleA["Range.lower"], roleA["Range.upper"] = sig(1), sig(2)
								roleB["Range.lower"], roleB["Range.upper"] = sig(3), sig(4)
								found = true
								return false
							}
						}
					}
					if cu := m.calleeUnit(call); cu != nil && cu.Lit == nil && cu != u && cu.Recv == ru.Recv && depth < 2 {
						if scanIn(cu, depth+1) {
							found = true
							return false
						}
					}
					return true
				})
				return found
			}
			scanIn(ru, 0)
		}
		check := func(role string, sigs map[string]string, want int) {
			key := fmt.Sprintf("%s one key normalisation for %s", tk.Name, role)
			if len(sigs) < want {
				c.r.undecided("R08", key, "-", fmt.Sprintf("found the key variable at only %d of %d entry points: %v", len(sigs), want, sigs), props...)
				return
			}
			ref := sigs["Insert"]
			var diff []string
			for _, k := range sortedKeys(sigs) {
				if sigs[k] != ref || strings.Contains(sigs[k], "?") || strings.Contains(sigs[k], "/") {
					diff = append(diff, fmt.Sprintf("%s uses %s", k, sigs[k]))
				}
			}
			pos := "-"
			if u := tk.Methods["Insert"]; u != nil {
				pos = m.pos(u.Decl.Pos())
			}
			if len(diff) == 0 {
				c.r.ok("R08", key, pos, fmt.Sprintf("%d entry points all use %s", len(sigs), ref), props...)
			} else {
				ps := props
				if strings.Contains(strings.Join(diff, " "), "Range") {
					ps = append(ps, "C03")
				}
				c.r.bad("R08", key, pos, fmt.Sprintf("Insert stores keys as %s but %s: probe and stored keys are built differently", ref, strings.Join(diff, "; ")), ps...)
			}
		}
		wantRange := 5
		check("the bytes compared with stored keys", roleA, wantRange)
		check("the bytes driving the descent", roleB, wantRange)
		// restoreKey strips exactly the terminator
		if ru := m.restoreUnit(tk); ru != nil {
			strips := false
			ast.Inspect(ru.Body, func(n ast.Node) bool {
				if se, ok := n.(*ast.SliceExpr); ok && se.High != nil {
					if be, ok := ast.Unparen(se.High).(*ast.BinaryExpr); ok && be.Op == token.SUB {
						if tv, has := info.Types[be.Y]; has && tv.Value != nil && tv.Value.ExactString() == "1" {
							strips = true
						}
					}
				}
				return true
			})
			terminated := strings.Contains(roleA["Insert"], "term")
			key := tk.Name + ".restoreKey undoes the normalisation"
			if strips == terminated {
				c.r.ok("R08", key, m.pos(ru.Decl.Pos()), fmt.Sprintf("terminator appended=%v, stripped=%v", terminated, strips), props...)
			} else {
				c.r.bad("R08", key, m.pos(ru.Decl.Pos()), fmt.Sprintf("keys are stored with terminator=%v but restoreKey strips a byte=%v: returned keys differ from the inserted ones", terminated, strips), props...)
			}
			// bytes→key conversion goes through the codec's Restore (non-collation kinds)
			if !isCollationKind(tk) {
				usesRestore := false
				ast.Inspect(ru.Body, func(n ast.Node) bool {
					if call, ok := n.(*ast.CallExpr); ok && strings.HasSuffix(m.calleeName(call), ".Restore") {
						if sel, ok := call.Fun.(*ast.SelectorExpr); ok {
							if s2, ok := ast.Unparen(sel.X).(*ast.SelectorExpr); ok && s2.Sel.Name == tk.CodecField {
								usesRestore = true
							}
						}
					}
					return true
				})
				k2 := tk.Name + ".restoreKey decodes through the tree's codec"
				if usesRestore {
					c.r.ok("R18", k2, m.pos(ru.Decl.Pos()), "t."+tk.CodecField+".Restore(stored bytes)", props...)
				} else {
					c.r.bad("R18", k2, m.pos(ru.Decl.Pos()), "stored bytes are not decoded with the codec the tree was built with", props...)
				}
			}
		}
		// createLeaf pairs pointer and length of the same slice, and role A/B variables
		if iu := tk.Methods["Insert"]; iu != nil {
			ast.Inspect(iu.Body, func(n ast.Node) bool {
				cl, ok := n.(*ast.CompositeLit)
				if !ok {
					return true
				}
				lt := namedOf(info.TypeOf(cl))
				if lt == nil || !m.isLeafType(lt) {
					return true
				}
				fields := map[string]ast.Expr{}
				for _, el := range cl.Elts {
					if kv, ok := el.(*ast.KeyValueExpr); ok {
						fields[kv.Key.(*ast.Ident).Name] = kv.Value
					}
				}
				srcOf := func(e ast.Expr) *types.Var {
					var v *types.Var
					ast.Inspect(e, func(z ast.Node) bool {
						if call, ok := z.(*ast.CallExpr); ok {
							nm := m.calleeName(call)
							if (nm == "unsafe.SliceData" || isBuiltinCall(info, call, "len")) && len(call.Args) == 1 {
								v = identVar(info, call.Args[0])
							}
						}
						return true
					})
					return v
				}
				pairs := [][2]string{{"key", "len"}, {"key", "keyLen"}, {"colKey", "colKeyLen"}}
				for _, p := range pairs {
					pe, le := fields[p[0]], fields[p[1]]
					if pe == nil || le == nil {
						continue
					}
					key := fmt.Sprintf("%s leaf field pair %s/%s", tk.Name, p[0], p[1])
					pv, lv := srcOf(pe), srcOf(le)
					if pv != nil && pv == lv {
						c.r.ok("R16", key, m.pos(cl.Pos()), "pointer and length come from the same slice "+pv.Name(), append(props, "C18")...)
					} else {
						c.r.bad("R16", key, m.pos(cl.Pos()), "pointer and length of a stored key come from different slices", append(props, "C18")...)
					}
					// role: key ↔ variable compared with getKey (role A); colKey ↔ descent variable (role B)
					if pv != nil {
						sig := c.keySignature(iu, pv, cs)
						want := roleA["Insert"]
						role := "compared with getKey()"
						if p[0] == "colKey" {
							want, role = roleB["Insert"], "driving the descent"
						}
						k2 := fmt.Sprintf("%s leaf field %s holds the bytes %s", tk.Name, p[0], role)
						if sig == want {
							c.r.ok("R16", k2, m.pos(cl.Pos()), p[0]+" ← "+sig, props...)
						} else {
							c.r.bad("R16", k2, m.pos(cl.Pos()), fmt.Sprintf("leaf field %s is filled from %s but the bytes %s are %s", p[0], sig, role, want), props...)
						}
					}
				}
				return true
			})
		}
		// the accessor methods of the leaf read the matching pair
		if tk.Leaf != nil {
			for _, an := range []string{"getKey", "getTransformKey"} {
				au := m.ByName[tk.Leaf.Obj().Name()+"."+an]
				if au == nil {
					continue
				}
				ast.Inspect(au.Body, func(n ast.Node) bool {
					call, ok := n.(*ast.CallExpr)
					if !ok || m.calleeName(call) != "unsafe.Slice" || len(call.Args) != 2 {
						return true
					}
					ps, ok1 := ast.Unparen(call.Args[0]).(*ast.SelectorExpr)
					ls, ok2 := ast.Unparen(call.Args[1]).(*ast.SelectorExpr)
					key := fmt.Sprintf("%s.%s reads a matching pointer/length pair", tk.Leaf.Obj().Name(), an)
					if !ok1 || !ok2 {
						c.r.undecided("R16", key, m.pos(call.Pos()), "not of the form unsafe.Slice(n.ptr, n.len)", append(props, "C18")...)
						return true
					}
					okPair := (ps.Sel.Name == "key" && (ls.Sel.Name == "len" || ls.Sel.Name == "keyLen")) || (ps.Sel.Name == "colKey" && ls.Sel.Name == "colKeyLen")
					wantCol := an == "getTransformKey" && isCollationKind(tk)
					if okPair && (wantCol == (ps.Sel.Name == "colKey")) {
						c.r.ok("R16", key, m.pos(call.Pos()), ps.Sel.Name+"/"+ls.Sel.Name, append(props, "C18")...)
					} else {
						c.r.bad("R16", key, m.pos(call.Pos()), fmt.Sprintf("%s returns unsafe.Slice(%s, %s): pointer and length of different keys, or the wrong key form", an, ps.Sel.Name, ls.Sel.Name), append(props, "C18")...)
					}
					return true
				})
			}
		}
	}
	// constructors plumb the codec / collator
	for _, u := range c.sortedUnits() {
		if u.Lit != nil || u.Recv != "" || !strings.HasPrefix(u.Name, "New") {
			continue
		}
		ast.Inspect(u.Body, func(n ast.Node) bool {
			cl, ok := n.(*ast.CompositeLit)
			if !ok {
				return true
			}
			nt := namedOf(info.TypeOf(cl))
			for _, tk := range m.Trees {
				if nt == nil || tk.Named.Obj() != nt.Obj() {
					continue
				}
				if _, isIface := tk.CodecType.Underlying().(*types.Interface); isIface {
					// compound: codec parameter must be stored in the codec field
					stored := false
					for _, el := range cl.Elts {
						if kv, ok := el.(*ast.KeyValueExpr); ok && kv.Key.(*ast.Ident).Name == tk.CodecField {
							if pv := identVar(info, kv.Value); pv != nil && c.enclosingParam(u, pv) {
								stored = true
							}
						}
					}
					key := u.Name + " stores the caller's codec"
					if stored {
						c.r.ok("R18", key, m.pos(cl.Pos()), "codec parameter stored in field "+tk.CodecField, "C09")
					} else {
						c.r.bad("R18", key, m.pos(cl.Pos()), "the constructor does not store the caller's codec in the field every method reads", "C09")
					}
				}
			}
			return true
		})
	}
	// WithCollator stores into the collator field that Transform reads
	if wu := m.ByName["WithCollator"]; wu != nil {
		field := ""
		if tu := m.ByName["CollationOrderKey.Transform"]; tu != nil {
			// the call of the collator may sit in a helper of Transform (cok.sortKey(b))
			var units []*FuncUnit
			for u := range c.reachableFrom([]*FuncUnit{tu}) {
				units = append(units, u)
			}
			sort.Slice(units, func(i, j int) bool { return units[i].Name < units[j].Name })
			for _, u := range units {
				if u.Body == nil {
					continue
				}
				ast.Inspect(u.Body, func(n ast.Node) bool {
					if call, ok := n.(*ast.CallExpr); ok && strings.Contains(m.calleeName(call), "collate.Collator.Key") {
						if sel, ok := call.Fun.(*ast.SelectorExpr); ok {
							if s2, ok := ast.Unparen(sel.X).(*ast.SelectorExpr); ok {
								field = s2.Sel.Name
							}
						}
					}
					return true
				})
			}
		}
		stored := false
		ast.Inspect(wu.Body, func(n ast.Node) bool {
			if as, ok := n.(*ast.AssignStmt); ok && len(as.Lhs) == 1 && len(as.Rhs) == 1 {
				if sel, ok := ast.Unparen(as.Lhs[0]).(*ast.SelectorExpr); ok && sel.Sel.Name == field && field != "" {
					if pv := identVar(info, as.Rhs[0]); pv != nil && c.enclosingParam(wu, pv) {
						stored = true
					}
				}
			}
			return true
		})
		if stored {
			c.r.ok("R16", "WithCollator stores the collator Transform reads", m.pos(wu.Decl.Pos()), "field "+field, "C08")
		} else {
			c.r.bad("R16", "WithCollator stores the collator Transform reads", m.pos(wu.Decl.Pos()), "the configured collator does not reach the field ("+field+") that sort-key generation reads", "C08")
		}
	}
	c.r.floor("R08", 12, "normalisation checks", "C01")
	c.r.floor("R16", 8, "leaf role checks", "C08")
	c.r.floor("R18", 3, "codec plumbing checks", "C09")
}

// simpleReturnExpr: the expression of a function whose body is a single return statement (nil
// expression otherwise).
func simpleReturnExpr(u *FuncUnit) ast.Expr {
	if e := simpleReturn(u); e != nil {
		return e
	}
	return &ast.BadExpr{}
}

// returnsSamePair: every return of the two-result function u hands out one variable twice
// (return b, b), directly or through a like-named method it delegates to.
func (c *Ctx) returnsSamePair(u *FuncUnit, depth int) bool {
	info := c.m.Info
	same, n := true, 0
	ast.Inspect(u.Body, func(nd ast.Node) bool {
		if _, isLit := nd.(*ast.FuncLit); isLit {
			return false
		}
		r, ok := nd.(*ast.ReturnStmt)
		if !ok {
			return true
		}
		n++
		switch len(r.Results) {
		case 2:
			a, b := identVar(info, r.Results[0]), identVar(info, r.Results[1])
			if a == nil || a != b {
				same = false
			}
		case 1:
			call, isCall := ast.Unparen(r.Results[0]).(*ast.CallExpr)
			cu := (*FuncUnit)(nil)
			if isCall {
				cu = c.m.calleeUnit(call)
			}
			if cu == nil || cu == u || cu.Body == nil || depth >= 2 || !c.returnsSamePair(cu, depth+1) {
				same = false
			}
		default:
			same = false
		}
		return true
	})
	return same && n > 0
}
