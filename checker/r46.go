package main

import (
	"fmt"
	"go/ast"
	"go/token"
	"go/types"
	"strings"
)

// R46 POSSTEP (C01, C04, C03, C08, C09) – a descent position (a variable that selects the branch
// byte handed to findChild, or the offset handed to the compressed-path comparison) advances only
// by the two steps of the algorithm: the whole compressed path of the node just passed
// (node.prefixLen) and the one branch byte (++). Advancing by the number of bytes that happened to
// match, by a clamped length or by a constant other than one desynchronises the position from the
// node for every key longer than the inline prefix.
func ruleR46(c *Ctx) {
	defer c.r46AbsoluteKeys()
	m := c.m
	info := m.Info
	n := 0
	stripConv := func(e ast.Expr) ast.Expr {
		for {
			e = ast.Unparen(e)
			if cv, ok := e.(*ast.CallExpr); ok && isConversion(info, cv) && len(cv.Args) == 1 {
				e = cv.Args[0]
				continue
			}
			return e
		}
	}
	for _, u := range c.sortedUnits() {
		if u.Body == nil {
			continue
		}
		// positions: variables d with findChild(key[d]) / checkPrefix(key, d) / prefixMismatch(n, key, d)
		pos := map[*types.Var]bool{}
		ast.Inspect(u.Body, func(x ast.Node) bool {
			if lit, ok := x.(*ast.FuncLit); ok && ast.Node(lit) != ast.Node(u.Lit) {
				return false
			}
			call, ok := x.(*ast.CallExpr)
			if !ok {
				return true
			}
			name := m.calleeName(call)
			switch {
			case strings.HasSuffix(name, ".findChild") && len(call.Args) == 1:
				if ie, ok := ast.Unparen(m.throughLocals(u, call.Args[0])).(*ast.IndexExpr); ok {
					if v := identVar(info, ie.Index); v != nil {
						pos[v] = true
					}
				}
			case strings.HasSuffix(name, ".checkPrefix") && len(call.Args) == 2:
				if v := identVar(info, call.Args[1]); v != nil {
					pos[v] = true
				}
			case name == "prefixMismatch" && len(call.Args) == 3:
				if v := identVar(info, call.Args[2]); v != nil {
					pos[v] = true
				}
			}
			return true
		})
		if len(pos) == 0 {
			continue
		}
		props := c.attribute(u, "C01", "C03", "C04", "C08", "C09")
		if len(props) == 0 {
			props = []string{"C01"}
		}
		isPathLen := func(e ast.Expr) bool {
			sel, ok := stripConv(m.throughLocals(u, e)).(*ast.SelectorExpr)
			return ok && sel.Sel.Name == "prefixLen" && info.Selections[sel] != nil
		}
		isOne := func(e ast.Expr) bool {
			tv, ok := info.Types[e]
			return ok && tv.Value != nil && tv.Value.ExactString() == "1"
		}
		ast.Inspect(u.Body, func(x ast.Node) bool {
			if lit, ok := x.(*ast.FuncLit); ok && ast.Node(lit) != ast.Node(u.Lit) {
				return false
			}
			switch y := x.(type) {
			case *ast.IncDecStmt:
				if v := identVar(info, y.X); v != nil && pos[v] {
					n++
					key := fmt.Sprintf("%s position %s steps by one branch byte or one compressed path", u.Name, v.Name())
					if y.Tok == token.INC {
						c.r.ok("R46", key, m.pos(y.Pos()), "++ (the branch byte)", props...)
					} else {
						c.r.bad("R46", key, m.pos(y.Pos()), "the descent position moves backwards", props...)
					}
				}
			case *ast.AssignStmt:
				if len(y.Lhs) != 1 || len(y.Rhs) != 1 {
					return true
				}
				v := identVar(info, y.Lhs[0])
				if v == nil || !pos[v] || y.Tok == token.DEFINE {
					return true
				}
				var step ast.Expr
				switch y.Tok {
				case token.ADD_ASSIGN:
					step = y.Rhs[0]
				case token.ASSIGN:
					if be, ok := ast.Unparen(y.Rhs[0]).(*ast.BinaryExpr); ok && be.Op == token.ADD {
						if identVar(info, be.X) == v {
							step = be.Y
						} else if identVar(info, be.Y) == v {
							step = be.X
						}
					}
				}
				n++
				key := fmt.Sprintf("%s position %s steps by one branch byte or one compressed path", u.Name, v.Name())
				switch {
				case step != nil && (isPathLen(step) || isOne(step)):
					c.r.ok("R46", key, m.pos(y.Pos()), "+= "+types.ExprString(step), props...)
				case step != nil:
					// prefixLen + 1 in one step
					if be, ok := stripConv(step).(*ast.BinaryExpr); ok && be.Op == token.ADD && ((isPathLen(be.X) && isOne(be.Y)) || (isOne(be.X) && isPathLen(be.Y))) {
						c.r.ok("R46", key, m.pos(y.Pos()), "+= path length + 1", props...)
					} else {
						c.r.bad("R46", key, m.pos(y.Pos()), fmt.Sprintf("the descent position advances by %s, which is neither the compressed-path length of the node (prefixLen) nor one branch byte: for a path longer than the inline prefix, or a partial match, position and node no longer agree", types.ExprString(step)), props...)
					}
				default:
					// position = next, where next is handed back by a helper of the node that
					// returns its position argument advanced by the node's path length
					if why := c.positionFromHelper(u, v, y.Rhs[0]); why != "" {
						c.r.ok("R46", key, m.pos(y.Pos()), why, props...)
					} else {
						c.r.bad("R46", key, m.pos(y.Pos()), fmt.Sprintf("the descent position is overwritten with %s", types.ExprString(y.Rhs[0])), props...)
					}
				}
			}
			return true
		})
	}
	c.r.note("R46: %d steps of descent positions", n)
	if n < 6 {
		c.r.undecided("R46", "descent positions found", "-", fmt.Sprintf("only %d position steps recognised", n), "C01")
	}
}

// positionFromHelper: rhs is (a local bound to) the result of a library helper called with the
// position v, and every value the helper returns in that result is its position parameter, or that
// parameter plus the compressed-path length of a node.
func (c *Ctx) positionFromHelper(u *FuncUnit, v *types.Var, rhs ast.Expr) string {
	m := c.m
	info := m.Info
	var call *ast.CallExpr
	resIdx := 0
	if cc, ok := ast.Unparen(rhs).(*ast.CallExpr); ok {
		call = cc
	} else if rv := identVar(info, rhs); rv != nil {
		// next, ok := helper(…)
		ast.Inspect(u.Body, func(n ast.Node) bool {
			as, ok := n.(*ast.AssignStmt)
			if !ok || len(as.Rhs) != 1 {
				return true
			}
			for i, l := range as.Lhs {
				if identVar(info, l) == rv {
					if cc, ok := ast.Unparen(as.Rhs[0]).(*ast.CallExpr); ok {
						call, resIdx = cc, i
					}
				}
			}
			return true
		})
	}
	if call == nil {
		return ""
	}
	cu := m.calleeUnit(call)
	if cu == nil || cu.Lit != nil || cu.Body == nil {
		return ""
	}
	// which parameter receives the position?
	pi := -1
	for i, a := range call.Args {
		if identVar(info, a) == v {
			pi = i
		}
	}
	if pi < 0 {
		return ""
	}
	okAll, any := true, false
	ast.Inspect(cu.Body, func(n ast.Node) bool {
		if _, isLit := n.(*ast.FuncLit); isLit {
			return false
		}
		rs, ok := n.(*ast.ReturnStmt)
		if !ok || resIdx >= len(rs.Results) {
			return true
		}
		any = true
		e := ast.Unparen(m.throughLocals(cu, rs.Results[resIdx]))
		isParam := func(x ast.Expr) bool {
			id, ok := ast.Unparen(x).(*ast.Ident)
			return ok && m.paramIndex(cu, id) == pi
		}
		isPath := func(x ast.Expr) bool {
			for {
				x = ast.Unparen(x)
				if cv, ok := x.(*ast.CallExpr); ok && isConversion(info, cv) && len(cv.Args) == 1 {
					x = cv.Args[0]
					continue
				}
				break
			}
			sel, ok := x.(*ast.SelectorExpr)
			return ok && sel.Sel.Name == "prefixLen"
		}
		switch {
		case isParam(e):
		default:
			be, ok := e.(*ast.BinaryExpr)
			if !ok || be.Op != token.ADD || !((isParam(be.X) && isPath(be.Y)) || (isPath(be.X) && isParam(be.Y))) {
				okAll = false
			}
		}
		return true
	})
	if any && okAll {
		return "the position handed back by " + cu.Name + ": its own position argument, advanced by the compressed-path length"
	}
	return ""
}

// r46AbsoluteKeys – second clause of R46 (C04, C01, C11): a helper that compares a key argument
// with the key of a stored leaf AT THE SAME INDEX (prefixMismatch: leafKey[depth+i] != key[depth+i])
// needs the whole key and the absolute position; a caller that consumes its key as it descends
// (rest = rest[n:]) and hands over the remainder with position 0 reads the leaf at the wrong
// offset as soon as the compressed path is longer than the bytes stored in the node.
func (c *Ctx) r46AbsoluteKeys() {
	m := c.m
	info := m.Info
	props := []string{"C04", "C01", "C11"}
	n := 0
	for _, cu := range c.sortedUnits() {
		if cu.Lit != nil || cu.Decl == nil || cu.Body == nil || cu.Type.Params == nil {
			continue
		}
		// byte-slice parameters compared with a leaf's key at one and the same index
		var keyParams []int
		var ps []*types.Var
		for _, f := range cu.Type.Params.List {
			for _, nm := range f.Names {
				v, _ := info.Defs[nm].(*types.Var)
				ps = append(ps, v)
			}
		}
		leafDerived := func(e ast.Expr) bool {
			d := ast.Unparen(m.throughLocals(cu, ast.Unparen(e)))
			call, ok := d.(*ast.CallExpr)
			if !ok {
				return false
			}
			sel, ok := ast.Unparen(call.Fun).(*ast.SelectorExpr)
			return ok && (sel.Sel.Name == "getTransformKey" || sel.Sel.Name == "getKey")
		}
		ast.Inspect(cu.Body, func(x ast.Node) bool {
			be, ok := x.(*ast.BinaryExpr)
			if !ok || (be.Op != token.NEQ && be.Op != token.EQL) {
				return true
			}
			ix, okX := ast.Unparen(be.X).(*ast.IndexExpr)
			iy, okY := ast.Unparen(be.Y).(*ast.IndexExpr)
			if !okX || !okY || exprText(ix.Index) != exprText(iy.Index) {
				return true
			}
			for _, pair := range [][2]*ast.IndexExpr{{ix, iy}, {iy, ix}} {
				if !leafDerived(pair[0].X) {
					continue
				}
				pv := identVar(info, pair[1].X)
				for i, p := range ps {
					if p != nil && p == pv && isByteSliceType(p.Type()) && !assignedAnywhere(info, cu.Body, p) {
						keyParams = append(keyParams, i)
					}
				}
			}
			return true
		})
		if len(keyParams) == 0 {
			continue
		}
		for _, site := range c.callSitesOf(cu) {
			for _, pi := range keyParams {
				if pi >= len(site.call.Args) {
					continue
				}
				n++
				arg := ast.Unparen(site.call.Args[pi])
				key := fmt.Sprintf("%s hands %s the whole key", site.u.Name, cu.Name)
				why := ""
				if se, ok := arg.(*ast.SliceExpr); ok && se.Low != nil {
					if tv, has := info.Types[se.Low]; !has || tv.Value == nil || tv.Value.ExactString() != "0" {
						why = "the argument " + types.ExprString(arg) + " starts behind the beginning of the key"
					}
				}
				if v := identVar(info, arg); v != nil && why == "" {
					ast.Inspect(site.u.Body, func(x ast.Node) bool {
						as, ok := x.(*ast.AssignStmt)
						if !ok || len(as.Lhs) != len(as.Rhs) {
							return true
						}
						for i, l := range as.Lhs {
							if identVar(info, l) != v {
								continue
							}
							if se, ok := ast.Unparen(as.Rhs[i]).(*ast.SliceExpr); ok && identVar(info, se.X) == v && se.Low != nil {
								why = fmt.Sprintf("%s is consumed from the front on the way down (%s)", v.Name(), m.pos(as.Pos()))
							}
						}
						return true
					})
				}
				if why == "" {
					c.r.ok("R46", key, m.pos(site.call.Pos()), "the key argument is never cut at the front", props...)
				} else {
					c.r.bad("R46", key, m.pos(site.call.Pos()), why+": "+cu.Name+" compares it with the key of a stored leaf at the same index, which is only right for the whole key and the absolute position – with a compressed path longer than the bytes kept in the node the leaf is read at the wrong offset", props...)
				}
			}
		}
	}
	c.r.note("R46: %d calls of helpers that compare a key argument with a stored key index by index", n)
}
