package main

import (
	"fmt"
	"go/ast"
	"go/token"
	"go/types"
	"strings"
)

// R46 POSSTEP (C01, C04, C03, C08, C09) – a descent position (a variable that selects the branch
// byte handed to findChild, or the offset handed to the compressed-path comparison) advances only
// by the two steps of the algorithm: the whole compressed path of the node just passed
// (node.prefixLen) and the one branch byte (++). Advancing by the number of bytes that happened to
// match, by a clamped length or by a constant other than one desynchronises the position from the
// node for every key longer than the inline prefix.
func ruleR46(c *Ctx) {
	m := c.m
	info := m.Info
	n := 0
	stripConv := func(e ast.Expr) ast.Expr {
		for {
			e = ast.Unparen(e)
			if cv, ok := e.(*ast.CallExpr); ok && isConversion(info, cv) && len(cv.Args) == 1 {
				e = cv.Args[0]
				continue
			}
			return e
		}
	}
	for _, u := range c.sortedUnits() {
		if u.Body == nil {
			continue
		}
		// positions: variables d with findChild(key[d]) / checkPrefix(key, d) / prefixMismatch(n, key, d)
		pos := map[*types.Var]bool{}
		ast.Inspect(u.Body, func(x ast.Node) bool {
			if lit, ok := x.(*ast.FuncLit); ok && ast.Node(lit) != ast.Node(u.Lit) {
				return false
			}
			call, ok := x.(*ast.CallExpr)
			if !ok {
				return true
			}
			name := m.calleeName(call)
			switch {
			case strings.HasSuffix(name, ".findChild") && len(call.Args) == 1:
				if ie, ok := ast.Unparen(m.throughLocals(u, call.Args[0])).(*ast.IndexExpr); ok {
					if v := identVar(info, ie.Index); v != nil {
						pos[v] = true
					}
				}
			case strings.HasSuffix(name, ".checkPrefix") && len(call.Args) == 2:
				if v := identVar(info, call.Args[1]); v != nil {
					pos[v] = true
				}
			case name == "prefixMismatch" && len(call.Args) == 3:
				if v := identVar(info, call.Args[2]); v != nil {
					pos[v] = true
				}
			}
			return true
		})
		if len(pos) == 0 {
			continue
		}
		props := c.attribute(u, "C01", "C03", "C04", "C08", "C09")
		if len(props) == 0 {
			props = []string{"C01"}
		}
		isPathLen := func(e ast.Expr) bool {
			sel, ok := stripConv(m.throughLocals(u, e)).(*ast.SelectorExpr)
			return ok && sel.Sel.Name == "prefixLen" && info.Selections[sel] != nil
		}
		isOne := func(e ast.Expr) bool {
			tv, ok := info.Types[e]
			return ok && tv.Value != nil && tv.Value.ExactString() == "1"
		}
		ast.Inspect(u.Body, func(x ast.Node) bool {
			if lit, ok := x.(*ast.FuncLit); ok && ast.Node(lit) != ast.Node(u.Lit) {
				return false
			}
			switch y := x.(type) {
			case *ast.IncDecStmt:
				if v := identVar(info, y.X); v != nil && pos[v] {
					n++
					key := fmt.Sprintf("%s position %s steps by one branch byte or one compressed path", u.Name, v.Name())
					if y.Tok == token.INC {
						c.r.ok("R46", key, m.pos(y.Pos()), "++ (the branch byte)", props...)
					} else {
						c.r.bad("R46", key, m.pos(y.Pos()), "the descent position moves backwards", props...)
					}
				}
			case *ast.AssignStmt:
				if len(y.Lhs) != 1 || len(y.Rhs) != 1 {
					return true
				}
				v := identVar(info, y.Lhs[0])
				if v == nil || !pos[v] || y.Tok == token.DEFINE {
					return true
				}
				var step ast.Expr
				switch y.Tok {
				case token.ADD_ASSIGN:
					step = y.Rhs[0]
				case token.ASSIGN:
					if be, ok := ast.Unparen(y.Rhs[0]).(*ast.BinaryExpr); ok && be.Op == token.ADD {
						if identVar(info, be.X) == v {
							step = be.Y
						} else if identVar(info, be.Y) == v {
							step = be.X
						}
					}
				}
				n++
				key := fmt.Sprintf("%s position %s steps by one branch byte or one compressed path", u.Name, v.Name())
				switch {
				case step != nil && (isPathLen(step) || isOne(step)):
					c.r.ok("R46", key, m.pos(y.Pos()), "+= "+types.ExprString(step), props...)
				case step != nil:
					// prefixLen + 1 in one step
					if be, ok := stripConv(step).(*ast.BinaryExpr); ok && be.Op == token.ADD && ((isPathLen(be.X) && isOne(be.Y)) || (isOne(be.X) && isPathLen(be.Y))) {
						c.r.ok("R46", key, m.pos(y.Pos()), "+= path length + 1", props...)
					} else {
						c.r.bad("R46", key, m.pos(y.Pos()), fmt.Sprintf("the descent position advances by %s, which is neither the compressed-path length of the node (prefixLen) nor one branch byte: for a path longer than the inline prefix, or a partial match, position and node no longer agree", types.ExprString(step)), props...)
					}
				default:
					// position = next, where next is handed back by a helper of the node that
					// returns its position argument advanced by the node's path length
					if why := c.positionFromHelper(u, v, y.Rhs[0]); why != "" {
						c.r.ok("R46", key, m.pos(y.Pos()), why, props...)
					} else {
						c.r.bad("R46", key, m.pos(y.Pos()), fmt.Sprintf("the descent position is overwritten with %s", types.ExprString(y.Rhs[0])), props...)
					}
				}
			}
			return true
		})
	}
	c.r.note("R46: %d steps of descent positions", n)
	if n < 6 {
		c.r.undecided("R46", "descent positions found", "-", fmt.Sprintf("only %d position steps recognised", n), "C01")
	}
}

// positionFromHelper: rhs is (a local bound to) the result of a library helper called with the
// position v, and every value the helper returns in that result is its position parameter, or that
// parameter plus the compressed-path length of a node.
func (c *Ctx) positionFromHelper(u *FuncUnit, v *types.Var, rhs ast.Expr) string {
	m := c.m
	info := m.Info
	var call *ast.CallExpr
	resIdx := 0
	if cc, ok := ast.Unparen(rhs).(*ast.CallExpr); ok {
		call = cc
	} else if rv := identVar(info, rhs); rv != nil {
		// next, ok := helper(…)
		ast.Inspect(u.Body, func(n ast.Node) bool {
			as, ok := n.(*ast.AssignStmt)
			if !ok || len(as.Rhs) != 1 {
				return true
			}
			for i, l := range as.Lhs {
				if identVar(info, l) == rv {
					if cc, ok := ast.Unparen(as.Rhs[0]).(*ast.CallExpr); ok {
						call, resIdx = cc, i
					}
				}
			}
			return true
		})
	}
	if call == nil {
		return ""
	}
	cu := m.calleeUnit(call)
	if cu == nil || cu.Lit != nil || cu.Body == nil {
		return ""
	}
	// which parameter receives the position?
	pi := -1
	for i, a := range call.Args {
		if identVar(info, a) == v {
			pi = i
		}
	}
	if pi < 0 {
		return ""
	}
	okAll, any := true, false
	ast.Inspect(cu.Body, func(n ast.Node) bool {
		if _, isLit := n.(*ast.FuncLit); isLit {
			return false
		}
		rs, ok := n.(*ast.ReturnStmt)
		if !ok || resIdx >= len(rs.Results) {
			return true
		}
		any = true
		e := ast.Unparen(m.throughLocals(cu, rs.Results[resIdx]))
		isParam := func(x ast.Expr) bool {
			id, ok := ast.Unparen(x).(*ast.Ident)
			return ok && m.paramIndex(cu, id) == pi
		}
		isPath := func(x ast.Expr) bool {
			for {
				x = ast.Unparen(x)
				if cv, ok := x.(*ast.CallExpr); ok && isConversion(info, cv) && len(cv.Args) == 1 {
					x = cv.Args[0]
					continue
				}
				break
			}
			sel, ok := x.(*ast.SelectorExpr)
			return ok && sel.Sel.Name == "prefixLen"
		}
		switch {
		case isParam(e):
		default:
			be, ok := e.(*ast.BinaryExpr)
			if !ok || be.Op != token.ADD || !((isParam(be.X) && isPath(be.Y)) || (isPath(be.X) && isParam(be.Y))) {
				okAll = false
			}
		}
		return true
	})
	if any && okAll {
		return "the position handed back by " + cu.Name + ": its own position argument, advanced by the compressed-path length"
	}
	return ""
}
