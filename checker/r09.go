package main

import (
	"fmt"
	"go/ast"
	"go/constant"
	"go/token"
	"go/types"
	"regexp"
	"sort"
	"strings"

	"golang.org/x/tools/go/cfg"
)

// slotSummary is how one arm of a kind switch reads the children of a node.
type slotSummary struct {
	form   string // enumerate | lookup | extreme | dispatch | other
	domain string // N.childrenLen | 256
	dir    string // asc | desc | first | last
	occ    string // occupancy test, normalised ("" = none)
	child  string // child expression, normalised
	pos    token.Pos
	why    string    // for form == other
	callee *FuncUnit // dispatch: the per-class method the arm hands the node to
	calls  bool      // dispatch: the arm calls some function of the package (which may read the slots)
}

func (s slotSummary) String() string {
	return fmt.Sprintf("%s domain=%s dir=%s occ=[%s] child=%s", s.form, s.domain, s.dir, s.occ, s.child)
}

type armNorm struct {
	c    *Ctx
	node string // variable holding the typed node
	idx  map[string]string
	post [][2]string // textual rewrites applied after the substitution (index expression → ι)
}

func (a *armNorm) norm(e ast.Expr) string {
	s := display((&canonCtx{info: a.c.m.Info}).canon(e))
	// one simultaneous substitution: replacements are already in normal form
	names := make([]string, 0, len(a.idx)+1)
	for from := range a.idx {
		names = append(names, regexp.QuoteMeta(from))
	}
	if a.node != "" {
		names = append(names, regexp.QuoteMeta(a.node))
	}
	if len(names) > 0 {
		re := regexp.MustCompile(`\b(` + strings.Join(names, "|") + `)\b`)
		s = re.ReplaceAllStringFunc(s, func(m string) string {
			if m == a.node {
				return "N"
			}
			return a.idx[m]
		})
	}
	s = strings.ReplaceAll(s, "int(N.childrenLen)", "N.childrenLen")
	s = strings.ReplaceAll(s, "uint8(0)", "0")
	for _, rw := range a.post {
		s = strings.ReplaceAll(s, rw[0], rw[1])
	}
	s = strings.ReplaceAll(s, "int(N.keys[ι])", "N.keys[ι]")
	s = slotParens.ReplaceAllString(s, "$1")
	return s
}

// (N.children[ι]).pointer → N.children[ι].pointer: the parentheses the printer puts around an
// operand whose index had spaces are noise once the index is ι
var slotParens = regexp.MustCompile(`\((N\.[A-Za-z_]+\[ι\])\)`)

// affineLin: e = coef·v + off with coef ∈ {-1,0,+1} and off a linear form (a symbolic base such as
// N.childrenLen plus a constant); conversions stripped.
func (a *armNorm) affineLin(e ast.Expr, v string) (coef int, off linForm, ok bool) {
	info := a.c.m.Info
	e = ast.Unparen(e)
	if !mentionsIdent(e, v) {
		l, ok := a.lin(e)
		return 0, l, ok
	}
	switch x := e.(type) {
	case *ast.Ident:
		if x.Name == v {
			return 1, linForm{}, true
		}
	case *ast.CallExpr:
		if isConversion(info, x) && len(x.Args) == 1 {
			return a.affineLin(x.Args[0], v)
		}
	case *ast.BinaryExpr:
		if x.Op != token.ADD && x.Op != token.SUB {
			return 0, linForm{}, false
		}
		cl, ol, ok1 := a.affineLin(x.X, v)
		cr, or, ok2 := a.affineLin(x.Y, v)
		if !ok1 || !ok2 {
			return 0, linForm{}, false
		}
		if x.Op == token.SUB {
			if or.base != "" {
				return 0, linForm{}, false
			}
			cr, or = -cr, linForm{"", -or.off}
		}
		if ol.base != "" && or.base != "" {
			return 0, linForm{}, false
		}
		coef = cl + cr
		if coef < -1 || coef > 1 {
			return 0, linForm{}, false
		}
		return coef, linForm{ol.base + or.base, ol.off + or.off}, true
	}
	return 0, linForm{}, false
}

// linForm: an expression of the form X, X±c or c (conversions and parentheses stripped), with X
// a normalised text that does not mention the loop variable.
type linForm struct {
	base string
	off  int64
}

func (l linForm) String() string {
	switch {
	case l.base == "":
		return fmt.Sprint(l.off)
	case l.off == 0:
		return l.base
	case l.off > 0:
		return fmt.Sprintf("(%s + %d)", l.base, l.off)
	}
	return fmt.Sprintf("(%s - %d)", l.base, -l.off)
}

func (a *armNorm) lin(e ast.Expr) (linForm, bool) {
	info := a.c.m.Info
	e = ast.Unparen(e)
	if tv, ok := info.Types[e]; ok && tv.Value != nil && tv.Value.Kind() == constant.Int {
		if v, exact := constant.Int64Val(tv.Value); exact {
			return linForm{"", v}, true
		}
	}
	switch x := e.(type) {
	case *ast.CallExpr:
		if isConversion(info, x) && len(x.Args) == 1 {
			return a.lin(x.Args[0])
		}
		if isBuiltinCall(info, x, "len") && len(x.Args) == 1 {
			// len(N.keys), len(N.children): the array length
			t := info.TypeOf(x.Args[0])
			if p, ok := t.Underlying().(*types.Pointer); ok {
				t = p.Elem()
			}
			if arr, ok := t.Underlying().(*types.Array); ok {
				return linForm{"", arr.Len()}, true
			}
		}
	case *ast.BinaryExpr:
		if x.Op == token.ADD || x.Op == token.SUB {
			l, ok1 := a.lin(x.X)
			r, ok2 := a.lin(x.Y)
			if ok1 && ok2 && r.base == "" {
				if x.Op == token.ADD {
					return linForm{l.base, l.off + r.off}, true
				}
				return linForm{l.base, l.off - r.off}, true
			}
			if ok1 && ok2 && l.base == "" && x.Op == token.ADD {
				return linForm{r.base, l.off + r.off}, true
			}
		}
		return linForm{}, false
	}
	return linForm{a.norm(e), 0}, true
}

// affineIn: e = coef·v + off with coef ∈ {+1,-1} (conversions stripped); ok=false otherwise.
func (a *armNorm) affineIn(e ast.Expr, v string) (coef int, off int64, ok bool) {
	info := a.c.m.Info
	e = ast.Unparen(e)
	switch x := e.(type) {
	case *ast.Ident:
		if x.Name == v {
			return 1, 0, true
		}
	case *ast.CallExpr:
		if isConversion(info, x) && len(x.Args) == 1 {
			return a.affineIn(x.Args[0], v)
		}
	case *ast.BinaryExpr:
		cst := func(z ast.Expr) (int64, bool) {
			if tv, ok := info.Types[z]; ok && tv.Value != nil && tv.Value.Kind() == constant.Int {
				return constant.Int64Val(tv.Value)
			}
			return 0, false
		}
		switch x.Op {
		case token.ADD:
			if cf, o, ok := a.affineIn(x.X, v); ok {
				if k, isC := cst(x.Y); isC {
					return cf, o + k, true
				}
			}
			if cf, o, ok := a.affineIn(x.Y, v); ok {
				if k, isC := cst(x.X); isC {
					return cf, o + k, true
				}
			}
		case token.SUB:
			if cf, o, ok := a.affineIn(x.X, v); ok {
				if k, isC := cst(x.Y); isC {
					return cf, o - k, true
				}
			}
			if cf, o, ok := a.affineIn(x.Y, v); ok {
				if k, isC := cst(x.X); isC {
					return -cf, k - o, true
				}
			}
		}
	}
	return 0, 0, false
}

// mentions: the identifier v occurs in e.
func mentionsIdent(e ast.Node, v string) bool {
	found := false
	ast.Inspect(e, func(n ast.Node) bool {
		if id, ok := n.(*ast.Ident); ok && id.Name == v {
			found = true
		}
		return !found
	})
	return found
}

// loopHeader reads what a loop over the slots of the node enumerates: the direction and the
// domain of the slot index ι, whatever the loop form – three-clause loops in either direction
// (one-based counters with [i-1], reversed indices such as [255-i]), range over an integer, over
// an array of the node or a prefix of it, over slices.All / slices.Backward of one. On success the
// normaliser maps the index expression (and the value variable) to ι.
func (a *armNorm) loopHeader(st ast.Stmt) (body *ast.BlockStmt, dir, domain, why string) {
	info := a.c.m.Info
	const ph = "§"
	keyName := func(e ast.Expr) string {
		if id, ok := e.(*ast.Ident); ok && id.Name != "_" {
			return id.Name
		}
		return ""
	}
	// arrayOf: x is N.<array> or N.<array>[:H] / [:]; returns the array text and the domain
	arrayOf := func(x ast.Expr) (arrText, dom string, ok bool) {
		x = ast.Unparen(x)
		if se, isS := x.(*ast.SliceExpr); isS && se.Low == nil && se.Max == nil {
			if se.High != nil {
				dom = a.norm(se.High)
			}
			x = ast.Unparen(se.X)
		}
		t := info.TypeOf(x)
		if t == nil {
			return "", "", false
		}
		if p, isP := t.Underlying().(*types.Pointer); isP {
			t = p.Elem()
		}
		arr, isArr := t.Underlying().(*types.Array)
		if !isArr || !strings.HasPrefix(a.norm(x), "N.") {
			return "", "", false
		}
		if dom == "" {
			dom = fmt.Sprint(arr.Len())
		}
		return a.norm(x), dom, true
	}
	var ivar string
	var first, last linForm
	step := 0
	switch f := st.(type) {
	case *ast.ForStmt:
		as, ok1 := f.Init.(*ast.AssignStmt)
		be, ok2 := f.Cond.(*ast.BinaryExpr)
		if !ok1 || !ok2 || f.Post == nil || len(as.Lhs) != 1 || len(as.Rhs) != 1 {
			return nil, "", "", "loop is not of the form for i := A; i ⋈ B; i++/--"
		}
		ivar = keyName(as.Lhs[0])
		if ivar == "" {
			return nil, "", "", "loop is not of the form for i := A; i ⋈ B; i++/--"
		}
		switch p := f.Post.(type) {
		case *ast.IncDecStmt:
			if keyName(p.X) != ivar {
				return nil, "", "", "loop condition/post do not use the induction variable"
			}
			step = 1
			if p.Tok == token.DEC {
				step = -1
			}
		case *ast.AssignStmt:
			if len(p.Lhs) == 1 && len(p.Rhs) == 1 && keyName(p.Lhs[0]) == ivar {
				if tv, ok := info.Types[p.Rhs[0]]; ok && tv.Value != nil && tv.Value.ExactString() == "1" {
					switch p.Tok {
					case token.ADD_ASSIGN:
						step = 1
					case token.SUB_ASSIGN:
						step = -1
					}
				}
			}
		}
		if step == 0 {
			return nil, "", "", "loop condition/post do not use the induction variable"
		}
		var ok bool
		if first, ok = a.lin(as.Rhs[0]); !ok {
			return nil, "", "", "unrecognised loop bounds"
		}
		op, bound := be.Op, be.Y
		if keyName(ast.Unparen(be.X)) != ivar {
			if keyName(ast.Unparen(be.Y)) != ivar {
				return nil, "", "", "loop condition/post do not use the induction variable"
			}
			bound = be.X
			op = map[token.Token]token.Token{token.LSS: token.GTR, token.GTR: token.LSS, token.LEQ: token.GEQ, token.GEQ: token.LEQ, token.NEQ: token.NEQ}[be.Op]
		}
		b, ok := a.lin(bound)
		if !ok || mentionsIdent(bound, ivar) {
			return nil, "", "", "unrecognised loop bounds"
		}
		switch {
		case step == 1 && op == token.LSS:
			last = linForm{b.base, b.off - 1}
		case step == 1 && op == token.LEQ:
			last = b
		case step == -1 && op == token.GTR:
			last = linForm{b.base, b.off + 1}
		case step == -1 && op == token.GEQ:
			last = b
		default:
			return nil, "", "", "unrecognised loop bounds"
		}
		body = f.Body
	case *ast.RangeStmt:
		x := ast.Unparen(f.X)
		switch {
		case isIntType(info.TypeOf(x)):
			if f.Key == nil || f.Value != nil || keyName(f.Key) == "" {
				return nil, "", "", "range over an integer without an index variable"
			}
			ivar = keyName(f.Key)
			b, ok := a.lin(x)
			if !ok {
				return nil, "", "", "unrecognised loop bounds"
			}
			first, last, step = linForm{"", 0}, linForm{b.base, b.off - 1}, 1
		default:
			backward := false
			if call, ok := x.(*ast.CallExpr); ok && len(call.Args) == 1 {
				switch a.c.m.calleeName(call) {
				case "slices.Backward":
					backward, x = true, ast.Unparen(call.Args[0])
				case "slices.All", "slices.Values":
					x = ast.Unparen(call.Args[0])
					if a.c.m.calleeName(call) == "slices.Values" {
						// for v := range slices.Values(s): the only variable is the value
						f = &ast.RangeStmt{Key: nil, Value: f.Key, X: f.X, Body: f.Body}
					}
				}
			}
			arrText, dom, ok := arrayOf(x)
			if !ok {
				return nil, "", "", "range loop over something that is not an array of the node"
			}
			d, _ := (&armNorm{c: a.c}).linText(dom)
			first, last, step = linForm{"", 0}, linForm{d.base, d.off - 1}, 1
			if backward {
				first, last, step = last, first, -1
			}
			if f.Key != nil && keyName(f.Key) != "" {
				ivar = keyName(f.Key)
			}
			if f.Value != nil && keyName(f.Value) != "" {
				a.idx[keyName(f.Value)] = arrText + "[ι]"
			}
			if ivar == "" {
				// only the value is used: the index is implicit
				dir = "asc"
				if backward {
					dir = "desc"
				}
				return f.Body, dir, dom, ""
			}
		}
		body = f.Body
	default:
		return nil, "", "", ""
	}
	// the index expressions into the arrays of the node that are affine in the loop variable
	coef, off, seen := 0, linForm{}, false
	conflict := false
	a.idx[ivar] = ph
	var spellings []string
	ast.Inspect(body, func(n ast.Node) bool {
		ie, ok := n.(*ast.IndexExpr)
		if !ok || !mentionsIdent(ie.Index, ivar) {
			return true
		}
		cf, o, isAff := a.affineLin(ie.Index, ivar)
		if !isAff || cf == 0 {
			return true // e.g. N.children[N.keys[i]-1]: the inner index is looked at on its own
		}
		if seen && (cf != coef || o != off) {
			conflict = true
		}
		coef, off, seen = cf, o, true
		spellings = append(spellings, a.norm(ie.Index))
		return true
	})
	if conflict {
		delete(a.idx, ivar)
		return nil, "", "", "the loop indexes the node with two different expressions of its variable"
	}
	if !seen {
		coef, off = 1, linForm{}
	}
	// ι = coef·i + off: its values at the first and the last iteration
	at := func(l linForm) (linForm, bool) {
		if coef == 1 {
			if l.base != "" && off.base != "" {
				return linForm{}, false
			}
			return linForm{l.base + off.base, l.off + off.off}, true
		}
		switch {
		case l.base == off.base:
			return linForm{"", off.off - l.off}, true
		case l.base == "":
			return linForm{off.base, off.off - l.off}, true
		}
		return linForm{}, false
	}
	lo, ok1 := at(first)
	hi, ok2 := at(last)
	if !ok1 || !ok2 {
		delete(a.idx, ivar)
		return nil, "", "", "unrecognised loop bounds"
	}
	zero := linForm{"", 0}
	switch {
	case lo == zero:
		dir = "asc"
		domain = linForm{hi.base, hi.off + 1}.String()
	case hi == zero:
		dir = "desc"
		domain = linForm{lo.base, lo.off + 1}.String()
	default:
		delete(a.idx, ivar)
		if step == -1 {
			return nil, "", "", "descending loop starts at " + first.String()
		}
		return nil, "", "", "unrecognised loop bounds"
	}
	// map the index expression to ι
	switch {
	case coef == 1 && off == (linForm{}):
		a.idx[ivar] = "ι"
	default:
		// the spellings the index actually has in the body, then the normal spellings of coef·§ + off
		for _, sp := range spellings {
			if sp != ph {
				a.post = append(a.post, [2]string{sp, "ι"})
			}
		}
		var forms []string
		switch {
		case off.base != "":
		case coef == 1 && off.off > 0:
			forms = []string{fmt.Sprintf("(%s + %d)", ph, off.off)}
		case coef == 1 && off.off < 0:
			forms = []string{fmt.Sprintf("(%s - %d)", ph, -off.off)}
		case coef == -1:
			forms = []string{fmt.Sprintf("(%d - %s)", off.off, ph)}
		}
		for _, f := range forms {
			a.post = append(a.post, [2]string{f, "ι"}, [2]string{"int" + f, "ι"}, [2]string{"uint8" + f, "ι"})
			a.post = append(a.post, [2]string{"(int(" + ph + ")" + f[len("("+ph):], "ι"})
		}
	}
	return body, dir, domain, ""
}

// linText parses a normalised domain text ("256", "N.childrenLen") back into a linear form.
func (a *armNorm) linText(s string) (linForm, bool) {
	var v int64
	if _, err := fmt.Sscanf(s, "%d", &v); err == nil && fmt.Sprint(v) == s {
		return linForm{"", v}, true
	}
	return linForm{s, 0}, true
}

// negate a skip condition into an occupancy predicate list.
func (a *armNorm) occFromSkip(cond ast.Expr) []string {
	var out []string
	for _, at := range impliedAtoms(cond, false) {
		be, ok := ast.Unparen(at.e).(*ast.BinaryExpr)
		if !ok {
			out = append(out, "?"+a.norm(at.e))
			continue
		}
		op := be.Op
		if !at.val {
			switch op {
			case token.EQL:
				op = token.NEQ
			case token.NEQ:
				op = token.EQL
			}
		}
		out = append(out, a.norm(be.X)+" "+op.String()+" "+a.norm(be.Y))
	}
	sort.Strings(out)
	return out
}

func (a *armNorm) occFromGuard(cond ast.Expr, skipVars map[string]bool) []string {
	var out []string
	for _, at := range impliedAtoms(cond, true) {
		be, ok := ast.Unparen(at.e).(*ast.BinaryExpr)
		if !ok {
			out = append(out, "?"+a.norm(at.e))
			continue
		}
		// drop tests on a search result (i != -1, i < childrenLen)
		if id, ok := ast.Unparen(be.X).(*ast.Ident); ok && skipVars[id.Name] {
			continue
		}
		op := be.Op
		if !at.val {
			switch op {
			case token.EQL:
				op = token.NEQ
			case token.NEQ:
				op = token.EQL
			}
		}
		out = append(out, a.norm(be.X)+" "+op.String()+" "+a.norm(be.Y))
	}
	sort.Strings(out)
	return out
}

// summariseArm extracts the slot summary of one case clause of a kind switch.
func (c *Ctx) summariseArm(cc *ast.CaseClause, byteVar string) slotSummary {
	s := c.summariseStmts(cc.Body, "", byteVar, cc.Pos())
	// an arm that hands the typed node to a method of its size class (n4.findChild(b)): what that
	// method does with the slots is what the arm does
	returnsRef := func(u *FuncUnit) bool {
		if u == nil || u.Obj == nil {
			return false
		}
		sig, _ := u.Obj.Type().(*types.Signature)
		if sig == nil || sig.Results().Len() != 1 {
			return false
		}
		return c.isNodeRefType(sig.Results().At(0).Type()) || isUnsafePointer(sig.Results().At(0).Type())
	}
	if s.form == "dispatch" && returnsRef(s.callee) && s.callee.Body != nil && s.callee.Decl != nil && s.callee.Decl.Recv != nil && len(s.callee.Decl.Recv.List) == 1 && len(s.callee.Decl.Recv.List[0].Names) == 1 {
		recv := s.callee.Decl.Recv.List[0].Names[0].Name
		bv := ""
		if s.callee.Type.Params != nil {
			for _, f := range s.callee.Type.Params.List {
				if b, ok := c.m.Info.TypeOf(f.Type).Underlying().(*types.Basic); ok && b.Kind() == types.Uint8 {
					for _, nm := range f.Names {
						bv = nm.Name
					}
				}
			}
		}
		if inner := c.summariseStmts(s.callee.Body.List, recv, bv, cc.Pos()); inner.form == "lookup" || inner.form == "enumerate" || inner.form == "extreme" {
			return inner
		}
	}
	return s
}

// summariseStmts summarises a statement list; nodeName names the variable that holds the typed
// node when it is not introduced by a cast in the list itself (the receiver of a per-class method).
func (c *Ctx) summariseStmts(stmts []ast.Stmt, nodeName, byteVar string, pos token.Pos) slotSummary {
	info := c.m.Info
	s := slotSummary{form: "other", pos: pos}
	a := &armNorm{c: c, idx: map[string]string{}, node: nodeName}
	var rest []ast.Stmt
	for _, st := range stmts {
		if as, ok := st.(*ast.AssignStmt); ok && as.Tok == token.DEFINE && len(as.Lhs) == 1 && len(as.Rhs) == 1 {
			if call, ok := ast.Unparen(as.Rhs[0]).(*ast.CallExpr); ok && isConversion(info, call) {
				if c.m.kindByStruct(info.TypeOf(call)) != nil {
					a.node = as.Lhs[0].(*ast.Ident).Name
					continue
				}
			}
			// n4 := ref.asNode4(): an accessor whose body is the cast
			if call, ok := ast.Unparen(as.Rhs[0]).(*ast.CallExpr); ok && !isConversion(info, call) && c.m.kindByStruct(info.TypeOf(call)) != nil {
				if cu := c.m.calleeUnit(call); cu != nil && cu.Lit == nil {
					if r := simpleReturn(cu); r != nil {
						if cv, ok := ast.Unparen(r).(*ast.CallExpr); ok && isConversion(info, cv) && c.m.kindByStruct(info.TypeOf(cv)) != nil {
							a.node = as.Lhs[0].(*ast.Ident).Name
							continue
						}
					}
				}
			}
		}
		rest = append(rest, st)
	}
	// an arm that never reads the children or the keys of the node (it only converts, returns or
	// passes the typed node on) says nothing about slot order
	{
		reads := false
		for _, st := range rest {
			ast.Inspect(st, func(n ast.Node) bool {
				if sel, ok := n.(*ast.SelectorExpr); ok && (sel.Sel.Name == "children" || sel.Sel.Name == "keys") {
					reads = true
				}
				return true
			})
		}
		if !reads {
			s.form = "dispatch"
			s.child = "(no slot access)"
			// … but it may hand the typed node to a per-class method that does
			for _, st := range rest {
				ast.Inspect(st, func(n ast.Node) bool {
					call, ok := n.(*ast.CallExpr)
					if ok && !isConversion(info, call) {
						if cu := c.m.calleeUnit(call); cu != nil {
							s.calls = true
						}
					}
					if !ok || s.callee != nil {
						return true
					}
					if sel, ok := call.Fun.(*ast.SelectorExpr); ok {
						if id, ok := sel.X.(*ast.Ident); ok && a.node != "" && id.Name == a.node {
							if cu := c.m.calleeUnit(call); cu != nil && cu.Lit == nil {
								s.callee = cu
								s.child = sel.Sel.Name
							}
						}
					}
					return true
				})
			}
			return s
		}
	}
	if a.node == "" {
		s.why = "no typed node variable"
		return s
	}
	if byteVar != "" {
		a.idx[byteVar] = "ι"
	}
	// slice-append enumeration: q = append(q, N.children[:N.childrenLen]...) – ascending; followed
	// by a reversal of the appended part – descending
	if len(rest) >= 1 {
		var appended ast.Expr
		reversed := false
		okForm := true
		for _, st := range rest {
			switch x := st.(type) {
			case *ast.AssignStmt:
				if x.Tok == token.DEFINE && len(x.Lhs) == 1 && len(x.Rhs) == 1 {
					if call, ok := ast.Unparen(x.Rhs[0]).(*ast.CallExpr); ok && isBuiltinCall(info, call, "len") {
						continue // top := len(q)
					}
				}
				if len(x.Lhs) == 1 && len(x.Rhs) == 1 {
					if call, ok := ast.Unparen(x.Rhs[0]).(*ast.CallExpr); ok && isBuiltinCall(info, call, "append") && len(call.Args) == 2 && call.Ellipsis.IsValid() {
						appended = call.Args[1]
						continue
					}
				}
				okForm = false
			case *ast.ExprStmt:
				if call, ok := x.X.(*ast.CallExpr); ok && c.m.calleeName(call) == "slices.Reverse" && len(call.Args) == 1 {
					if _, isSlice := ast.Unparen(call.Args[0]).(*ast.SliceExpr); isSlice && appended != nil {
						reversed = true
						continue
					}
				}
				okForm = false
			default:
				okForm = false
			}
		}
		if okForm && appended != nil {
			if se, ok := ast.Unparen(appended).(*ast.SliceExpr); ok && se.Low == nil && se.High != nil {
				a.idx["ι"] = "ι"
				s.form = "enumerate"
				s.domain = a.norm(se.High)
				s.child = a.norm(se.X) + "[ι]"
				s.dir = "asc"
				if reversed {
					s.dir = "desc"
				}
				return s
			}
		}
	}
	// dispatch: a single method call on the typed node
	if len(rest) == 1 {
		if es, ok := rest[0].(*ast.ExprStmt); ok {
			if call, ok := es.X.(*ast.CallExpr); ok {
				if sel, ok := call.Fun.(*ast.SelectorExpr); ok {
					if id, ok := sel.X.(*ast.Ident); ok && id.Name == a.node {
						s.form = "dispatch"
						s.child = sel.Sel.Name
						s.callee = c.m.calleeUnit(call)
						return s
					}
				}
			}
		}
	}
	// enumerate: exactly one loop that pushes
	if len(rest) == 1 {
		body, dir, domain, why := a.loopHeader(rest[0])
		if why != "" {
			s.why = why
			return s
		}
		s.dir, s.domain = dir, domain
		if body != nil {
			var occ []string
			var walkBody func(list []ast.Stmt) bool
			walkBody = func(list []ast.Stmt) bool {
				for _, st := range list {
					switch x := st.(type) {
					case *ast.AssignStmt:
						if x.Tok == token.DEFINE && len(x.Lhs) == 1 && len(x.Rhs) == 1 {
							if _, isIdx := ast.Unparen(x.Rhs[0]).(*ast.IndexExpr); isIdx {
								a.idx[x.Lhs[0].(*ast.Ident).Name] = a.norm(x.Rhs[0])
								continue
							}
						}
						// push
						if len(x.Rhs) == 1 {
							if call, ok := ast.Unparen(x.Rhs[0]).(*ast.CallExpr); ok && isBuiltinCall(info, call, "append") && len(call.Args) == 2 {
								ch := ast.Unparen(call.Args[1])
								if cl, ok := ch.(*ast.CompositeLit); ok {
									for _, el := range cl.Elts {
										e := el
										if kv, ok := el.(*ast.KeyValueExpr); ok {
											e = kv.Value
										}
										if c.isNodeRefType(info.TypeOf(e)) {
											ch = e
										}
									}
								}
								s.child = a.norm(ch)
								continue
							}
						}
						s.why = "unrecognised statement in loop body"
						return false
					case *ast.ExprStmt:
						// q.push(child)
						if _, elem, ok := c.m.pushCall(x); ok {
							// q.push(entry{ref: child, depth: d}): the reference inside the entry
							if cl, isLit := ast.Unparen(elem).(*ast.CompositeLit); isLit {
								for _, el := range cl.Elts {
									e := el
									if kv, ok := el.(*ast.KeyValueExpr); ok {
										e = kv.Value
									}
									if c.isNodeRefType(info.TypeOf(e)) {
										elem = e
									}
								}
							}
							s.child = a.norm(elem)
							continue
						}
						// push(child, depth): a local closure that appends to the stack
						if call, ok := x.X.(*ast.CallExpr); ok && len(call.Args) >= 1 && c.isNodeRefType(info.TypeOf(call.Args[0])) {
							if v := identVar(info, call.Fun); v != nil && c.m.LitOfVar[v] != nil {
								s.child = a.norm(call.Args[0])
								continue
							}
						}
						s.why = "unrecognised statement in loop body"
						return false
					case *ast.IfStmt:
						// if idx := keys[i]; idx != 0 { … }: the init binds a slot alias
						if as, ok := x.Init.(*ast.AssignStmt); ok && as.Tok == token.DEFINE && len(as.Lhs) == 1 && len(as.Rhs) == 1 {
							if _, isIdx := ast.Unparen(as.Rhs[0]).(*ast.IndexExpr); isIdx {
								a.idx[as.Lhs[0].(*ast.Ident).Name] = a.norm(as.Rhs[0])
								y := *x
								y.Init = nil
								x = &y
							}
						}
						if x.Else == nil && x.Init == nil && len(x.Body.List) == 1 {
							if br, ok := x.Body.List[0].(*ast.BranchStmt); ok && br.Tok == token.CONTINUE {
								occ = append(occ, a.occFromSkip(x.Cond)...)
								continue
							}
						}
						// if occupied { push }
						if x.Else == nil && x.Init == nil {
							occ = append(occ, a.occFromGuard(x.Cond, nil)...)
							if !walkBody(x.Body.List) {
								return false
							}
							continue
						}
						s.why = "unrecognised if in loop body"
						return false
					default:
						s.why = "unrecognised statement in loop body"
						return false
					}
				}
				return true
			}
			if !walkBody(body.List) {
				return s
			}
			if s.child == "" {
				s.why = "loop pushes nothing"
				return s
			}
			sort.Strings(occ)
			s.occ = strings.Join(occ, " && ")
			if strings.Contains(s.child, "§") || strings.Contains(s.occ, "§") {
				s.why = "the loop variable is used other than as the slot index"
				return s
			}
			s.form = "enumerate"
			if s.domain == "maxNode256" {
				s.domain = "256"
			}
			return s
		}
	}
	// lookup: if-statement guarding a use of N.children[…]
	{
		searchVars := map[string]bool{}
		var occ []string
		var use ast.Expr
		domain := "256"
		okShape := true
		for _, st := range rest {
			switch x := st.(type) {
			case *ast.AssignStmt:
				if x.Tok == token.DEFINE && len(x.Lhs) == 1 && len(x.Rhs) == 1 {
					name := x.Lhs[0].(*ast.Ident).Name
					if call, ok := ast.Unparen(x.Rhs[0]).(*ast.CallExpr); ok && (c.isLaneSearch(call) || c.searchWrapper(c.m.calleeUnit(call)) != nil) {
						searchVars[name] = true
						a.idx[name] = "ι"
						domain = "N.childrenLen"
						continue
					}
					if _, isIdx := ast.Unparen(x.Rhs[0]).(*ast.IndexExpr); isIdx {
						a.idx[name] = a.norm(x.Rhs[0])
						continue
					}
				}
				okShape = false
			case *ast.IfStmt:
				if x.Init != nil {
					if as, ok := x.Init.(*ast.AssignStmt); ok && as.Tok == token.DEFINE && len(as.Lhs) == 1 {
						name := as.Lhs[0].(*ast.Ident).Name
						if call, ok := ast.Unparen(as.Rhs[0]).(*ast.CallExpr); ok && (c.isLaneSearch(call) || c.searchWrapper(c.m.calleeUnit(call)) != nil) {
							searchVars[name] = true
							a.idx[name] = "ι"
							domain = "N.childrenLen"
						} else if _, isIdx := ast.Unparen(as.Rhs[0]).(*ast.IndexExpr); isIdx {
							a.idx[name] = a.norm(as.Rhs[0])
						} else {
							okShape = false
						}
					}
				}
				// inverted form: if <not found> { return nil / break / continue } – the use follows
				if x.Else == nil && len(x.Body.List) == 1 {
					skip := false
					switch y := x.Body.List[0].(type) {
					case *ast.ReturnStmt:
						skip = len(y.Results) >= 1 && info.Types[y.Results[0]].IsNil()
					case *ast.BranchStmt:
						skip = true
					}
					if skip {
						for _, o := range a.occFromSkip(x.Cond) {
							// drop tests on the search result itself
							drop := false
							for sv := range searchVars {
								if strings.HasPrefix(o, a.idx[sv]+" ") || strings.HasPrefix(o, sv+" ") {
									drop = true
								}
							}
							if strings.HasPrefix(o, "ι ") {
								drop = true
							}
							if !drop {
								occ = append(occ, o)
							}
						}
						continue
					}
				}
				occ = append(occ, a.occFromGuard(x.Cond, searchVars)...)
				// the guarded use: return &X  or  n = X
				ast.Inspect(x.Body, func(n ast.Node) bool {
					switch y := n.(type) {
					case *ast.ReturnStmt:
						if len(y.Results) == 1 {
							if ue, ok := ast.Unparen(y.Results[0]).(*ast.UnaryExpr); ok && ue.Op == token.AND {
								use = ue.X
							}
						}
						// return t.searchBelow(N.children[i], …): the descent continues by a call
						// that is handed the child (a recursive lookup)
						if len(y.Results) >= 1 {
							if call, ok := ast.Unparen(y.Results[0]).(*ast.CallExpr); ok && !isConversion(info, call) && c.m.calleeUnit(call) != nil {
								var refArgs []ast.Expr
								for _, a := range call.Args {
									if _, isIdx := ast.Unparen(a).(*ast.IndexExpr); isIdx && c.isNodeRefType(info.TypeOf(a)) {
										refArgs = append(refArgs, a)
									}
								}
								if len(refArgs) == 1 {
									use = refArgs[0]
								}
							}
						}
					case *ast.AssignStmt:
						if len(y.Rhs) == 1 && c.isNodeRefType(info.TypeOf(y.Rhs[0])) {
							use = y.Rhs[0]
						}
					}
					return true
				})
			case *ast.ReturnStmt:
				if len(x.Results) == 1 {
					if ue, ok := ast.Unparen(x.Results[0]).(*ast.UnaryExpr); ok && ue.Op == token.AND {
						use = ue.X
						continue
					}
					if info.Types[x.Results[0]].IsNil() {
						continue // the "not found" answer of a per-class lookup
					}
				}
				okShape = false
			default:
				okShape = false
			}
		}
		if okShape && use != nil {
			s.form = "lookup"
			s.domain = domain
			sort.Strings(occ)
			s.occ = strings.Join(occ, " && ")
			s.child = a.norm(use)
			return s
		}
	}
	// extreme: pick one child (minimum / maximum)
	{
		var target ast.Expr
		dir := ""
		preDir := "" // ref = N.children[0] / [255] ahead of a scan that carries the value read
		var occ []string
		ok := true
		for _, st := range rest {
			switch x := st.(type) {
			case *ast.AssignStmt:
				if len(x.Lhs) != 1 || len(x.Rhs) != 1 {
					ok = false
					continue
				}
				name, isId := x.Lhs[0].(*ast.Ident)
				if !isId {
					ok = false
					continue
				}
				if c.isNodeRefType(info.TypeOf(x.Rhs[0])) {
					target = x.Rhs[0]
					// ref = N.children[0] / [255] ahead of a carried scan fixes where the scan starts
					if ie, isIdx := ast.Unparen(x.Rhs[0]).(*ast.IndexExpr); isIdx && dir == "" {
						if tv, isC := info.Types[ie.Index]; isC && tv.Value != nil {
							switch tv.Value.ExactString() {
							case "0":
								preDir = "first"
							case "255":
								preDir = "last"
							}
						}
					}
					continue
				}
				r := a.norm(x.Rhs[0])
				switch {
				case x.Tok == token.DEFINE && (r == "0" || r == "255"):
					a.idx[name.Name] = "ι"
					if r == "0" {
						dir = "first"
					} else {
						dir = "last"
					}
				case x.Tok == token.ASSIGN && a.idx[name.Name] == "ι":
					// idx = int(N.keys[idx]) - 1  → child index
					a.idx[name.Name] = r
				default:
					ok = false
				}
			case *ast.DeclStmt:
				// var idx byte: the carried value of a three-clause scan starts as "not occupied"
				continue
			case *ast.ForStmt:
				// three-clause scan that carries the value read: for b := F; <w not occupied>; b±± { w = N.arr[b] }
				if x.Init != nil && x.Post != nil && x.Cond != nil && len(x.Body.List) == 1 {
					ias, ok1 := x.Init.(*ast.AssignStmt)
					post, ok2 := x.Post.(*ast.IncDecStmt)
					bas, ok3 := x.Body.List[0].(*ast.AssignStmt)
					if ok1 && ok2 && ok3 && len(ias.Lhs) == 1 && len(ias.Rhs) == 1 && len(bas.Lhs) == 1 && len(bas.Rhs) == 1 && bas.Tok == token.ASSIGN {
						bvar, _ := ias.Lhs[0].(*ast.Ident)
						wvar, _ := bas.Lhs[0].(*ast.Ident)
						ie, isIdx := ast.Unparen(bas.Rhs[0]).(*ast.IndexExpr)
						start, isConst := info.Types[ias.Rhs[0]]
						if bvar != nil && wvar != nil && isIdx && isConst && start.Value != nil && identOf(post.X).Name == bvar.Name && identOf(ie.Index).Name == bvar.Name {
							sv := start.Value.ExactString()
							switch {
							case post.Tok == token.INC && (sv == "0" || (sv == "1" && preDir == "first")):
								dir = "first"
							case post.Tok == token.DEC && (sv == "255" || (sv == "254" && preDir == "last")):
								dir = "last"
							default:
								s.why = "scan starts at " + sv
								return s
							}
							a.idx[bvar.Name] = "ι"
							a.idx[wvar.Name] = a.norm(ie)
							occ = append(occ, a.occFromSkip(x.Cond)...)
							if c.isNodeRefType(info.TypeOf(bas.Rhs[0])) {
								target = bas.Rhs[0]
							}
							continue
						}
					}
					ok = false
					continue
				}
				if x.Init != nil || x.Post != nil || len(x.Body.List) != 1 {
					ok = false
					continue
				}
				inc, isInc := x.Body.List[0].(*ast.IncDecStmt)
				if !isInc {
					ok = false
					continue
				}
				if (dir == "first" && inc.Tok != token.INC) || (dir == "last" && inc.Tok != token.DEC) {
					s.why = "scan moves away from the extreme"
					return s
				}
				occ = append(occ, a.occFromSkip(x.Cond)...)
			default:
				ok = false
			}
		}
		if ok && target != nil {
			s.form = "extreme"
			s.child = a.norm(target)
			s.occ = strings.Join(occ, " && ")
			switch {
			case dir != "":
				s.dir, s.domain = dir, "256"
			case strings.HasSuffix(s.child, "[0]"):
				s.dir, s.domain = "first", "N.childrenLen"
			case strings.HasSuffix(s.child, "[(N.childrenLen - 1)]"):
				s.dir, s.domain = "last", "N.childrenLen"
			case byteVar != "" && strings.HasSuffix(s.child, "[ι]") && len(occ) == 0:
				// child = N.children[b]: an unconditional lookup by the probed byte – the caller
				// tests the reference it gets
				s.form, s.dir, s.domain = "lookup", "", "256"
			default:
				s.form, s.why = "other", "extreme picks "+s.child
			}
			return s
		}
	}
	s.why = "arm shape not recognised"
	return s
}

// kindSwitches returns the switches over a node kind in a unit with their arms per kind.
func (c *Ctx) kindSwitches(u *FuncUnit) []*ast.SwitchStmt {
	if u.Body == nil {
		return nil
	}
	return c.kindSwitchesIn(u.Body, u.Lit)
}

func (c *Ctx) kindSwitchesIn(body ast.Node, self *ast.FuncLit) []*ast.SwitchStmt {
	var out []*ast.SwitchStmt
	ast.Inspect(body, func(n ast.Node) bool {
		if lit, ok := n.(*ast.FuncLit); ok && (self == nil || ast.Node(lit) != ast.Node(self)) {
			return false
		}
		if sw, ok := n.(*ast.SwitchStmt); ok && sw.Tag != nil {
			if t := c.m.Info.TypeOf(sw.Tag); t != nil && types.Identical(t, c.m.KindType) {
				out = append(out, sw)
			}
		}
		return true
	})
	return out
}

// R09 TRAVERSE – one slot order, read consistently; R19 FILLGUARD.
func ruleR09R19(c *Ctx) {
	info := c.m.Info
	m := c.m
	type armKey struct {
		unit string
		kind int64
	}
	sums := map[armKey]slotSummary{}
	var units []string
	specOrig := map[string]string{} // name of a specialised copy → the unit it was made from
	specRole := map[string]string{} // … → the one function that calls it with this flag value
	type swUnit struct {
		u    *FuncUnit
		name string
		sws  []*ast.SwitchStmt
	}
	var work []swUnit
	for _, u := range c.sortedUnits() {
		// a traversal merged with its mirror image behind a boolean parameter that every caller
		// sets to a constant (walk(root, restore, descending)): one copy per value (specialise.go)
		if fps := c.flagParams(u); len(fps) == 1 && len(c.kindSwitches(u)) > 0 {
			fp := fps[0]
			made := 0
			for _, val := range fp.values {
				body := c.specialiseUnit(u, map[*types.Var]bool{fp.v: val})
				if body == nil {
					continue
				}
				name := fmt.Sprintf("%s[%s=%v]", u.Name, fp.v.Name(), val)
				specOrig[name] = u.Name
				callers := map[string]bool{}
				for _, cn := range fp.byVal[val] {
					callers[cn] = true
				}
				if len(callers) == 1 {
					for cn := range callers {
						specRole[name] = cn
					}
				}
				work = append(work, swUnit{u, name, c.kindSwitchesIn(body, nil)})
				made++
			}
			if made > 0 {
				continue
			}
		}
		work = append(work, swUnit{u, u.Name, c.kindSwitches(u)})
	}
	for _, w := range work {
		u := w.u
		for _, sw := range w.sws {
			// the probed byte variable, if the function has one (findChild(b) / Search: b := key[depth])
			byteVar := ""
			ast.Inspect(u.Body, func(n ast.Node) bool {
				switch x := n.(type) {
				case *ast.AssignStmt:
					if x.Tok == token.DEFINE && len(x.Lhs) == 1 && len(x.Rhs) == 1 {
						if ie, ok := ast.Unparen(x.Rhs[0]).(*ast.IndexExpr); ok {
							if b, ok := info.TypeOf(ie).Underlying().(*types.Basic); ok && b.Kind() == types.Uint8 {
								if _, isSlice := info.TypeOf(ie.X).Underlying().(*types.Slice); isSlice && x.Pos() < sw.Pos() {
									byteVar = x.Lhs[0].(*ast.Ident).Name
								}
							}
						}
					}
				}
				return true
			})
			if byteVar == "" && u.Decl != nil && u.Lit == nil {
				for _, f := range u.Decl.Type.Params.List {
					if b, ok := info.TypeOf(f.Type).Underlying().(*types.Basic); ok && b.Kind() == types.Uint8 {
						for _, nm := range f.Names {
							byteVar = nm.Name
						}
					}
				}
			}
			for _, cl := range sw.Body.List {
				cc := cl.(*ast.CaseClause)
				for _, e := range cc.List {
					tv, ok := info.Types[e]
					if !ok || tv.Value == nil {
						continue
					}
					var kv int64
					fmt.Sscan(tv.Value.ExactString(), &kv)
					if m.kindByValue(kv) == nil {
						continue
					}
					sums[armKey{w.name, kv}] = c.summariseArm(cc, byteVar)
				}
			}
			units = append(units, w.name)
		}
	}
	// a unit that reaches the per-layout code through an interface of the package instead of a
	// switch over the tag (ref.inner().findChild(b)): the method of each layout is that kind's arm
	for _, u := range c.sortedUnits() {
		if u.Body == nil || len(c.kindSwitches(u)) > 0 {
			continue
		}
		added := false
		ast.Inspect(u.Body, func(n ast.Node) bool {
			if _, isLit := n.(*ast.FuncLit); isLit {
				return false
			}
			call, ok := n.(*ast.CallExpr)
			if !ok {
				return true
			}
			f := m.staticCallee(call)
			if f == nil || f.Pkg() != m.Pkg || m.ByObj[f] != nil {
				return true
			}
			for _, iu := range m.implementers(f) {
				if iu.Body == nil || iu.Decl == nil || iu.Decl.Recv == nil || len(iu.Decl.Recv.List) != 1 || len(iu.Decl.Recv.List[0].Names) != 1 {
					continue
				}
				rs := iu.Obj.Type().(*types.Signature).Recv().Type()
				if p, ok := rs.(*types.Pointer); ok {
					rs = p.Elem()
				}
				ki := m.kindByStruct(rs)
				if ki == nil {
					continue
				}
				if res := iu.Obj.Type().(*types.Signature).Results(); res.Len() != 1 || !(c.isNodeRefType(res.At(0).Type()) || isUnsafePointer(res.At(0).Type())) {
					continue // only what hands a child back is a lookup or an enumeration
				}
				bv := ""
				for _, fl := range iu.Decl.Type.Params.List {
					if b, ok := info.TypeOf(fl.Type).Underlying().(*types.Basic); ok && b.Kind() == types.Uint8 {
						for _, nm := range fl.Names {
							bv = nm.Name
						}
					}
				}
				inner := c.summariseStmts(iu.Body.List, iu.Decl.Recv.List[0].Names[0].Name, bv, iu.Decl.Pos())
				if inner.form == "lookup" || inner.form == "enumerate" || inner.form == "extreme" {
					if _, has := sums[armKey{u.Name, ki.Value}]; !has {
						sums[armKey{u.Name, ki.Value}] = inner
						added = true
					}
				}
			}
			return true
		})
		if added {
			units = append(units, u.Name)
		}
	}
	sort.Strings(units)
	// canonical table: findChild
	canon := map[int64]slotSummary{}
	for _, k := range m.Kinds {
		s, ok := sums[armKey{"nodeRef.findChild", k.Value}]
		if !ok || s.form != "lookup" {
			c.r.undecided("R09", "canonical byte→child table of "+k.Name, "node.go", "findChild arm not recognised as a lookup: "+s.why+" "+s.String(), "C02", "C10")
			continue
		}
		canon[k.Value] = s
		c.r.ok("R09", "canonical byte→child table of "+k.Name, m.pos(s.pos), s.String(), "C02", "C10")
	}
	orig := func(name string) string {
		if o, ok := specOrig[name]; ok {
			return o
		}
		return name
	}
	propsFor := func(name string) []string {
		u := m.ByName[orig(name)]
		if u == nil {
			return []string{"C02"}
		}
		p := c.attribute(u, "C01", "C02", "C03", "C04", "C05", "C08", "C09")
		p = append(p, "C10")
		return p
	}
	enumRef := map[int64]slotSummary{} // reference enumeration (first traversal seen: all)
	nOutside := 0
	seenUnit := map[string]bool{}
	for _, name := range units {
		if seenUnit[name] {
			continue
		}
		seenUnit[name] = true
		props := propsFor(name)
		// a traversal that no operation named by a property reaches (a new statistics or debugging
		// walk) is outside what the properties quantify over
		ordered := true
		if uu := m.ByName[orig(name)]; uu != nil && name != "nodeRef.findChild" {
			if len(c.attribute(uu, "C01", "C02", "C03", "C04", "C05", "C08", "C09")) == 0 {
				nOutside++
				continue
			}
			// the visiting order matters only to the operations that promise one
			ordered = len(c.attribute(uu, "C02", "C03", "C04", "C05")) > 0
		}
		for _, k := range m.Kinds {
			s, ok := sums[armKey{name, k.Value}]
			if !ok {
				continue // R07 reports missing arms
			}
			key := fmt.Sprintf("%s arm %s", name, k.Name)
			cn, hasCanon := canon[k.Value]
			switch s.form {
			case "dispatch":
				// an arm that reads no slot and hands the node to nobody, next to arms that
				// enumerate the children: the subtrees below nodes of this class are never visited
				if s.callee == nil && !s.calls {
					enumSiblings := 0
					for _, k2 := range m.Kinds {
						if s2, ok := sums[armKey{name, k2.Value}]; ok && s2.form == "enumerate" {
							enumSiblings++
						}
					}
					if enumSiblings >= 2 {
						c.r.bad("R09", key, m.pos(s.pos), fmt.Sprintf("the arm reads no child slot of the node while %d sibling arms enumerate theirs: the subtrees below nodes of this size class are never visited", enumSiblings), props...)
					}
				}
				continue
			case "other":
				c.r.undecided("R09", key, m.pos(s.pos), "cannot summarise how this arm reads the children: "+s.why, props...)
			case "enumerate":
				if !hasCanon {
					continue
				}
				var errs []string
				if s.domain != cn.domain {
					errs = append(errs, fmt.Sprintf("iterates over %s but lookups use %s", s.domain, cn.domain))
				}
				if s.occ != cn.occ {
					errs = append(errs, fmt.Sprintf("occupancy test [%s] differs from the lookup's [%s]", s.occ, cn.occ))
				}
				if s.child != cn.child {
					errs = append(errs, fmt.Sprintf("reads child %s but the lookup reads %s", s.child, cn.child))
				}
				// direction: stack-based traversals push in the reverse of the visiting order
				base := name
				if role, ok := specRole[name]; ok {
					base = role
				}
				if i := strings.IndexByte(base, '$'); i >= 0 {
					base = base[:i]
				}
				if i := strings.LastIndexByte(base, '.'); i >= 0 {
					base = base[i+1:] // a method of a scanner type: leafScanner.backward
				}
				wantDir := "desc"
				if base == "backward" {
					wantDir = "asc"
				}
				if s.dir != wantDir && ordered {
					errs = append(errs, fmt.Sprintf("pushes in %s order; a stack traversal visiting in %s key order must push %s", s.dir, map[string]string{"desc": "ascending", "asc": "descending"}[wantDir], wantDir))
				}
				if r, ok := enumRef[k.Value]; ok && base != "backward" {
					if r.domain != s.domain || r.occ != s.occ || r.child != s.child || (r.dir != s.dir && ordered) {
						errs = append(errs, "differs from its sibling traversal: "+r.String())
					}
				} else if base != "backward" && ordered {
					enumRef[k.Value] = s
				}
				if len(errs) == 0 {
					c.r.ok("R09", key, m.pos(s.pos), s.String(), props...)
				} else {
					c.r.bad("R09", key, m.pos(s.pos), strings.Join(errs, "; ")+" – "+s.String(), props...)
				}
			case "lookup":
				if name == "nodeRef.findChild" || !hasCanon {
					continue
				}
				if s.domain == cn.domain && s.occ == cn.occ && s.child == cn.child {
					c.r.ok("R09", key, m.pos(s.pos), "inlined lookup agrees with findChild: "+s.String(), props...)
				} else if s.domain == cn.domain && s.child == cn.child && s.occ == "" && cn.occ == s.child+".pointer != nil" {
					c.r.ok("R09", key, m.pos(s.pos), "inlined lookup hands out the slot as it is; an empty slot is the empty reference, which is what findChild's occupancy test ["+cn.occ+"] tells apart: "+s.String(), props...)
				} else {
					c.r.bad("R09", key, m.pos(s.pos), "inlined lookup "+s.String()+" disagrees with findChild "+cn.String(), props...)
				}
			case "extreme":
				if !hasCanon {
					continue
				}
				var errs []string
				roleName := name
				if role, ok := specRole[name]; ok {
					roleName = role
				}
				wantDir := map[string]string{"minimum": "first", "maximum": "last"}[roleName]
				if wantDir != "" && s.dir != wantDir {
					errs = append(errs, fmt.Sprintf("%s picks the %s occupied slot", roleName, s.dir))
				}
				if s.domain != cn.domain {
					errs = append(errs, "scans "+s.domain+" but lookups use "+cn.domain)
				}
				if cn.domain == "256" {
					if s.occ != cn.occ {
						errs = append(errs, fmt.Sprintf("occupancy test [%s] differs from the lookup's [%s]", s.occ, cn.occ))
					}
					if s.child != cn.child {
						errs = append(errs, "reads child "+s.child+" but the lookup reads "+cn.child)
					}
				}
				if len(errs) == 0 {
					c.r.ok("R09", key, m.pos(s.pos), s.String(), append(props, "C05")...)
				} else {
					c.r.bad("R09", key, m.pos(s.pos), strings.Join(errs, "; ")+" – "+s.String(), append(props, "C05")...)
				}
			}
		}
	}
	if nOutside > 0 {
		c.r.note("R09: %d functions with a kind switch are reached by no operation a property names; not examined", nOutside)
	}
	c.r.floor("R09", 20, "slot summaries", "C02")

	// ---- R19: results of the 4-lane search used as an index need the fill-count guard
	n19 := 0
	for _, u := range c.sortedUnits() {
		fl := c.e.flow(u)
		props := append(c.attribute(u, "C01", "C08", "C09"), "C10")
		searchVar := map[*types.Var]*ast.CallExpr{}
		posVar := map[*types.Var]*ast.CallExpr{}
		ast.Inspect(u.Body, func(n ast.Node) bool {
			if as, ok := n.(*ast.AssignStmt); ok && len(as.Lhs) == 1 && len(as.Rhs) == 1 {
				if call, ok := ast.Unparen(as.Rhs[0]).(*ast.CallExpr); ok && (c.isLaneSearch(call) || c.searchWrapper(c.m.calleeUnit(call)) != nil) {
					if v := identVar(info, as.Lhs[0]); v != nil {
						searchVar[v] = call
					}
				}
				// the insert-position search of a sorted size class answers the same way: -1 when
				// no lane holds a larger byte, a lane index (0 included) otherwise
				if call, ok := ast.Unparen(as.Rhs[0]).(*ast.CallExpr); ok && isInsertPosCall(m, call) {
					if v := identVar(info, as.Lhs[0]); v != nil {
						posVar[v] = call
					}
				}
			}
			return true
		})
		if len(searchVar) == 0 && len(posVar) == 0 {
			continue
		}
		// the only constant a search result is meaningfully compared with is the not-found value
		ast.Inspect(u.Body, func(n ast.Node) bool {
			be, ok := n.(*ast.BinaryExpr)
			if !ok {
				return true
			}
			switch be.Op {
			case token.EQL, token.NEQ, token.LSS, token.LEQ, token.GTR, token.GEQ:
			default:
				return true
			}
			for _, pair := range [][2]ast.Expr{{be.X, be.Y}, {be.Y, be.X}} {
				v := identVar(info, pair[0])
				if v == nil || (searchVar[v] == nil && posVar[v] == nil) {
					continue
				}
				tv, has := info.Types[pair[1]]
				if !has || tv.Value == nil || tv.Value.Kind() != constant.Int {
					continue
				}
				cst, _ := constant.Int64Val(tv.Value)
				key := fmt.Sprintf("%s search result %s compared with the not-found value", u.Name, v.Name())
				// the operator as it reads with the result on the left
				op := be.Op
				if pair[0] != be.X {
					op = map[token.Token]token.Token{token.LSS: token.GTR, token.GTR: token.LSS, token.LEQ: token.GEQ, token.GEQ: token.LEQ, token.EQL: token.EQL, token.NEQ: token.NEQ}[op]
				}
				if (cst == -1 && (op == token.EQL || op == token.NEQ || op == token.GTR || op == token.LEQ)) || (cst == 0 && (op == token.LSS || op == token.GEQ)) {
					c.r.ok("R19", key, m.pos(be.Pos()), "compared with -1 (or tested for being negative)", props...)
				} else {
					c.r.bad("R19", key, m.pos(be.Pos()), fmt.Sprintf("the result of the lane search is compared with %d: the search returns -1 when nothing matches and a lane index otherwise, so this test treats a valid lane as not found (or the not-found value as a lane)", cst), props...)
				}
			}
			return true
		})
		fl.walk(func(n ast.Node, fs *FactSet, stmt ast.Node, b *cfg.Block) {
			var base, idx ast.Expr
			switch x := n.(type) {
			case *ast.IndexExpr:
				base, idx = x.X, x.Index
			case *ast.SliceExpr:
				base, idx = x.X, x.Low
			default:
				return
			}
			v := identVar(info, idx)
			if be, ok := ast.Unparen(idxOrNil(idx)).(*ast.BinaryExpr); ok {
				v = identVar(info, be.X)
			}
			if v == nil || searchVar[v] == nil {
				return
			}
			sel, ok := ast.Unparen(base).(*ast.SelectorExpr)
			if !ok {
				return
			}
			// the search result may be the not-found value -1
			{
				key := fmt.Sprintf("%s %s indexed by search result %s only when found", u.Name, display(fl.raw.canon(base)), v.Name())
				found := fs.proveLin(linAtom(varID(v)).scale(-1)) // 0 <= v
				isMinus1 := false
				fs.eqFacts(func(l, r string, val bool, f *Fact) {
					if (l == fs.canon(idx) && r == "-1") || (r == fs.canon(idx) && l == "-1") {
						if val {
							isMinus1 = true
						} else {
							found = true
						}
					}
				})
				switch {
				case isMinus1:
					c.r.bad("R19", key, m.pos(n.Pos()), "the search result is used as an index exactly when it is the not-found value -1", props...)
				case found:
					c.r.ok("R19", key, m.pos(n.Pos()), "under "+v.Name()+" != -1", props...)
				case strings.HasSuffix(u.Name, ".deleteChild"):
					c.r.ok("R19", key, m.pos(n.Pos()), "no not-found test here; justified by the precondition checked at every call of nodeRef.deleteChild (the byte is registered: findChild(b) != nil)", props...)
				default:
					c.r.bad("R19", key, m.pos(n.Pos()), "the search returns -1 when no lane matches; its result is used as an index without a dominating test "+v.Name()+" != -1, so probing an absent byte faults", props...)
				}
			}
			wrap := c.searchWrapper(c.m.calleeUnit(searchVar[v]))
			if !c.isLaneSearch4(searchVar[v]) && (wrap == nil || !wrap.lanes4) {
				return // the 16-lane search masks unoccupied lanes itself (R20)
			}
			if wrap != nil && wrap.bounded >= 0 {
				// the wrapper only hands out results below the count it is given: that count must be
				// the fill count of the node whose array is indexed
				if a := argFor(searchVar[v], wrap.bounded); a != nil {
					if asel, ok := ast.Unparen(a).(*ast.SelectorExpr); ok && asel.Sel.Name == "childrenLen" && fl.raw.canon(asel.X) == fl.raw.canon(sel.X) {
						n19++
						c.r.ok("R19", fmt.Sprintf("%s %s indexed by 4-lane search result %s", u.Name, display(fl.raw.canon(base)), v.Name()), m.pos(n.Pos()),
							"the search helper returns a lane only when it is below the fill count it is given, here "+display(fl.raw.canon(a)), props...)
						return
					}
				}
			}
			n19++
			key := fmt.Sprintf("%s %s indexed by 4-lane search result %s", u.Name, display(fl.raw.canon(base)), v.Name())
			lenExpr := &ast.SelectorExpr{X: sel.X, Sel: ast.NewIdent("childrenLen")}
			atom := fl.raw.canon(lenExpr)
			goal := linAtom(varID(v)).add(linAtom(atom), -1)
			goal.c++
			if fs.proveLin(goal) {
				c.r.ok("R19", key, m.pos(n.Pos()), "under "+v.Name()+" < childrenLen: unoccupied lanes cannot be selected", props...)
				return
			}
			if u.Name == "node4.deleteChild" {
				// exemption with a checked precondition, see below
				c.r.ok("R19", key, m.pos(n.Pos()), "no fill-count guard here; justified by the precondition checked at every call of nodeRef.deleteChild (the byte is registered: findChild(b) != nil)", props...)
				return
			}
			c.r.bad("R19", key, m.pos(n.Pos()), "the 4-lane search compares all four lanes, occupied or not; its result is used as an index without the guard "+v.Name()+" < childrenLen", props...)
		})
	}
	// precondition of deleteChild: dominated by findChild(same byte) != nil on the synchronised reference
	nPre := 0
	for _, u := range c.sortedUnits() {
		fl := c.e.flow(u)
		props := append(c.attribute(u, "C01", "C08", "C09"), "C10")
		fl.walk(func(n ast.Node, fs *FactSet, stmt ast.Node, b *cfg.Block) {
			call, ok := n.(*ast.CallExpr)
			if !ok {
				return
			}
			sel, ok := call.Fun.(*ast.SelectorExpr)
			if !ok || sel.Sel.Name != "deleteChild" || len(call.Args) != 1 || !c.isNodeRefType(info.TypeOf(sel.X)) {
				return
			}
			if f := c.m.staticCallee(call); f == nil || c.m.ByObj[f] == nil || c.m.ByObj[f].Name != "nodeRef.deleteChild" {
				return
			}
			nPre++
			key := fmt.Sprintf("%s deleteChild(%s) only for a registered byte", u.Name, display(fl.raw.canon(call.Args[0])))
			wantByte := fs.canon(call.Args[0])
			wantRef := strings.TrimPrefix(fs.canon(sel.X), "&")
			found := ""
			ast.Inspect(u.Body, func(x ast.Node) bool {
				as, ok := x.(*ast.AssignStmt)
				if !ok || len(as.Lhs) != 1 || len(as.Rhs) != 1 {
					return true
				}
				fc, ok := ast.Unparen(as.Rhs[0]).(*ast.CallExpr)
				if !ok || len(fc.Args) != 1 {
					return true
				}
				fsel, ok := fc.Fun.(*ast.SelectorExpr)
				if !ok || fsel.Sel.Name != "findChild" {
					return true
				}
				if fs.canon(fc.Args[0]) != wantByte {
					return true
				}
				recv := strings.TrimPrefix(fs.canon(fsel.X), "*")
				if recv != wantRef && fs.canon(fsel.X) != wantRef {
					return true
				}
				if v := identVar(info, as.Lhs[0]); v != nil && fs.nilness(as.Lhs[0]) == 1 {
					found = v.Name()
				}
				return true
			})
			if found != "" {
				c.r.ok("R19", key, m.pos(call.Pos()), found+" := findChild(same byte) on the synchronised reference and "+found+" != nil dominate the call", props...)
			} else {
				c.r.bad("R19", key, m.pos(call.Pos()), "deleteChild assumes the byte is registered (its 4-slot arm has no fill-count guard, the 16-slot arm no not-found case) but no dominating findChild(same byte) != nil on the same reference was found", props...)
			}
		})
	}
	c.r.note("R19: %d guarded uses of a 4-lane search result, %d deleteChild call sites", n19, nPre)
	c.r.floor("R19", 8, "fill-guard sites", "C10")
}

func idxOrNil(e ast.Expr) ast.Expr {
	if e == nil {
		return &ast.Ident{Name: "_"}
	}
	return e
}

// searchWrapper: a library function that returns the result of a lane search (searchNode4/16 or
// another wrapper) or -1. bounded is the index of the parameter p such that every returned search
// result r satisfies r < p (the fill count), or -1.
type searchWrap struct {
	lanes4  bool // wraps the 4-lane search
	bounded int
}

func (c *Ctx) searchWrapper(u *FuncUnit) *searchWrap {
	if u == nil || u.Body == nil || u.Lit != nil {
		return nil
	}
	if c.swMemo == nil {
		c.swMemo = map[*FuncUnit]*searchWrap{}
	}
	if w, ok := c.swMemo[u]; ok {
		return w
	}
	c.swMemo[u] = nil
	info := c.m.Info
	var sv *types.Var
	lanes4 := false
	nCalls := 0
	ast.Inspect(u.Body, func(n ast.Node) bool {
		as, ok := n.(*ast.AssignStmt)
		if !ok || len(as.Lhs) != 1 || len(as.Rhs) != 1 {
			return true
		}
		call, ok := ast.Unparen(as.Rhs[0]).(*ast.CallExpr)
		if !ok {
			return true
		}
		name := c.m.calleeName(call)
		inner := c.searchWrapper(c.m.calleeUnit(call))
		if c.isLaneSearch(call) || inner != nil {
			nCalls++
			sv = identVar(info, as.Lhs[0])
			lanes4 = c.isLaneSearch4(call) || (inner != nil && inner.lanes4)
		}
		_ = name
		return true
	})
	if nCalls != 1 || sv == nil {
		return nil
	}
	g := c.m.cfgOf(u)
	guards := guardsOf(info, g)
	w := &searchWrap{lanes4: lanes4, bounded: -2}
	okAll := true
	for _, b := range g.Blocks {
		if !b.Live {
			continue
		}
		for _, n := range b.Nodes {
			rs, ok := n.(*ast.ReturnStmt)
			if !ok || len(rs.Results) != 1 {
				continue
			}
			if tv, has := info.Types[rs.Results[0]]; has && tv.Value != nil {
				if tv.Value.ExactString() != "-1" {
					okAll = false
				}
				continue
			}
			if identVar(info, rs.Results[0]) != sv {
				okAll = false
				continue
			}
			// which parameter bounds the returned result here?
			bound := -1
			for _, gd := range guards {
				if !edgeDominates(g, gd.b, gd.succ, b) {
					continue
				}
				be, ok := ast.Unparen(gd.atom.e).(*ast.BinaryExpr)
				if !ok {
					continue
				}
				op := be.Op
				if !gd.atom.val {
					op = map[token.Token]token.Token{token.LSS: token.GEQ, token.GEQ: token.LSS, token.GTR: token.LEQ, token.LEQ: token.GTR}[op]
				}
				l, r := ast.Unparen(be.X), ast.Unparen(be.Y)
				if op == token.GTR {
					l, r, op = r, l, token.LSS
				}
				if op != token.LSS || identVar(info, l) != sv {
					continue
				}
				for {
					if cv, ok := r.(*ast.CallExpr); ok && isConversion(info, cv) && len(cv.Args) == 1 {
						r = ast.Unparen(cv.Args[0])
						continue
					}
					break
				}
				if id, ok := r.(*ast.Ident); ok {
					if pi := c.m.paramIndex(u, id); pi >= 0 {
						bound = pi
					}
				}
			}
			if w.bounded == -2 {
				w.bounded = bound
			} else if w.bounded != bound {
				w.bounded = -1
			}
		}
	}
	if !okAll {
		return nil
	}
	if w.bounded == -2 {
		w.bounded = -1
	}
	c.swMemo[u] = w
	return w
}

// isLaneSearch: the call is the lane search of a size class – a function or method of the package
// whose name starts with "search" (searchNode4(keys, b), keys.search(b)), with a key byte among
// its operands and an integer result.
func (c *Ctx) isLaneSearch(call *ast.CallExpr) bool {
	f := c.m.staticCallee(call)
	if f == nil || f.Pkg() != c.m.Pkg {
		return false
	}
	if !strings.HasPrefix(strings.ToLower(f.Name()), "search") {
		return false
	}
	sig, _ := f.Type().(*types.Signature)
	if sig == nil || sig.Results().Len() != 1 || !isIntType(sig.Results().At(0).Type()) {
		return false
	}
	for i := 0; i < sig.Params().Len(); i++ {
		if b, ok := sig.Params().At(i).Type().Underlying().(*types.Basic); ok && b.Kind() == types.Uint8 {
			return true
		}
	}
	return false
}

// isLaneSearch4: … of the class that packs its key bytes into one word (no fill count among the
// operands: every lane is compared).
func (c *Ctx) isLaneSearch4(call *ast.CallExpr) bool {
	if !c.isLaneSearch(call) {
		return false
	}
	f := c.m.staticCallee(call)
	sig := f.Type().(*types.Signature)
	word := func(t types.Type) bool {
		b, ok := t.Underlying().(*types.Basic)
		return ok && (b.Kind() == types.Uint32 || b.Kind() == types.Uint64)
	}
	if sig.Recv() != nil && word(sig.Recv().Type()) {
		return true
	}
	return sig.Params().Len() > 0 && word(sig.Params().At(0).Type())
}
