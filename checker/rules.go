package main

import (
	"go/ast"
	"go/types"
	"sort"
	"strings"
)

// Ctx is what a rule sees.
type Ctx struct {
	walkerDone    map[*FuncUnit]bool
	sites         map[*FuncUnit][]callSite
	pedigreeDepth int
	sigDepth      int
	swMemo        map[*FuncUnit]*searchWrap
	lrMemo        map[*FuncUnit]int
	sigKind       string
	scanRolesMemo *scanRoles
	L             *Loaded
	m             *Model
	e             *Engine
	r             *Report
	tier          string
	cg            map[*FuncUnit]map[*FuncUnit]bool
	done          map[string]bool
	pf            map[string]prefixFreeInfo
	reach         map[string]map[*FuncUnit]bool // property → units reachable from its entry points
}

// callGraph: static callees, method values, interface calls on Tree, nested literals.
func (c *Ctx) callGraph() map[*FuncUnit]map[*FuncUnit]bool {
	if c.cg != nil {
		return c.cg
	}
	m := c.m
	g := map[*FuncUnit]map[*FuncUnit]bool{}
	add := func(a, b *FuncUnit) {
		if a == nil || b == nil {
			return
		}
		if g[a] == nil {
			g[a] = map[*FuncUnit]bool{}
		}
		g[a][b] = true
	}
	ifaceMethods := map[string]bool{}
	if it, ok := m.TreeIface.Underlying().(*types.Interface); ok {
		for i := 0; i < it.NumMethods(); i++ {
			ifaceMethods[it.Method(i).Name()] = true
		}
	}
	for _, u := range m.Units {
		ast.Inspect(u.Body, func(n ast.Node) bool {
			switch x := n.(type) {
			case *ast.FuncLit:
				if n == ast.Node(u.Lit) {
					return true
				}
				add(u, m.LitUnit[x])
				return false
			case *ast.CallExpr:
				if f := m.staticCallee(x); f != nil {
					if cu := m.ByObj[f]; cu != nil {
						add(u, cu)
					} else if f.Pkg() == m.Pkg && ifaceMethods[f.Name()] {
						// interface call: every tree kind's method of that name
						for _, tk := range m.Trees {
							add(u, tk.Methods[f.Name()])
						}
					} else if f.Pkg() == m.Pkg {
						// a call through another interface of the package (the node layouts behind
						// one): every method of that name whose receiver implements it
						for _, cu := range m.implementers(f) {
							add(u, cu)
						}
					}
				}
			case *ast.SelectorExpr:
				// method value
				if sel := m.Info.Selections[x]; sel != nil && sel.Kind() == types.MethodVal {
					if f, ok := sel.Obj().(*types.Func); ok {
						add(u, m.ByObj[f.Origin()])
					}
				}
			case *ast.Ident:
				if f, ok := m.Info.Uses[x].(*types.Func); ok {
					add(u, m.ByObj[f.Origin()])
				}
			}
			return true
		})
	}
	c.cg = g
	return g
}

func (c *Ctx) reachableFrom(roots []*FuncUnit) map[*FuncUnit]bool {
	g := c.callGraph()
	seen := map[*FuncUnit]bool{}
	var dfs func(u *FuncUnit)
	dfs = func(u *FuncUnit) {
		if u == nil || seen[u] {
			return
		}
		seen[u] = true
		for v := range g[u] {
			dfs(v)
		}
	}
	for _, r := range roots {
		dfs(r)
	}
	return seen
}

func isCollationKind(tk *TreeKind) bool { return strings.Contains(strings.ToLower(tk.Name), "collat") }
func isCompoundKind(tk *TreeKind) bool  { return strings.Contains(strings.ToLower(tk.Name), "compound") }

// entryPoints returns the API methods behind each property.
// treeAPI: the operations the properties name (the Tree interface at the pinned commit).
var treeAPI = []string{"Insert", "Search", "Delete", "Minimum", "Maximum", "Size", "All", "Backward", "Prefix", "Range", "TopK", "BottomK"}

func (c *Ctx) entryPoints(prop string) []*FuncUnit {
	var out []*FuncUnit
	pick := func(filter func(*TreeKind) bool, names ...string) {
		for _, tk := range c.m.Trees {
			if filter != nil && !filter(tk) {
				continue
			}
			if len(names) == 0 {
				for _, n := range sortedKeys(tk.Methods) {
					out = append(out, tk.Methods[n])
				}
			}
			for _, n := range names {
				if u := tk.Methods[n]; u != nil {
					out = append(out, u)
				}
			}
		}
	}
	switch prop {
	case "C01":
		pick(nil, "Insert", "Search", "Delete")
	case "C02":
		pick(nil, "All", "Backward")
	case "C03":
		pick(func(tk *TreeKind) bool { return !isCollationKind(tk) }, "Range")
	case "C04":
		pick(nil, "Prefix")
	case "C05":
		pick(nil, "Minimum", "Maximum", "TopK", "BottomK")
	case "C06":
		pick(nil, "Insert", "Delete", "Size")
	case "C08":
		pick(isCollationKind, treeAPI...)
	case "C09":
		pick(isCompoundKind, treeAPI...)
	case "C14":
		pick(nil, "All", "Backward", "Prefix", "Range", "TopK", "BottomK")
	case "C15", "C16":
		pick(nil, "Search", "Minimum", "Maximum", "Size", "All", "Backward", "Prefix", "Range", "TopK", "BottomK")
	default:
		pick(nil)
	}
	return out
}

func (c *Ctx) reachOf(prop string) map[*FuncUnit]bool {
	if c.reach == nil {
		c.reach = map[string]map[*FuncUnit]bool{}
	}
	if r, ok := c.reach[prop]; ok {
		return r
	}
	r := c.reachableFrom(c.entryPoints(prop))
	c.reach[prop] = r
	return r
}

// attribute returns those of the candidate properties from whose entry points u is reachable.
func (c *Ctx) attribute(u *FuncUnit, candidates ...string) []string {
	var out []string
	for _, p := range candidates {
		if c.reachOf(p)[u] {
			out = append(out, p)
		}
	}
	sort.Strings(out)
	return out
}

func (c *Ctx) sortedUnits() []*FuncUnit {
	us := append([]*FuncUnit(nil), c.m.Units...)
	sort.SliceStable(us, func(i, j int) bool { return us[i].Name < us[j].Name })
	return us
}
