package main

import (
	"fmt"
	"go/ast"
	"go/token"
	"go/types"

	"golang.org/x/tools/go/cfg"
)

// restoreForm returns the name of the leaf method whose bytes restoreKey of the kind hands
// back to the caller (getKey for every kind today) – the authoritative stored form.
func (c *Ctx) restoreForm(tk *TreeKind) string {
	u := c.m.restoreUnit(tk)
	if u == nil {
		return ""
	}
	form := ""
	ast.Inspect(u.Body, func(n ast.Node) bool {
		if call, ok := n.(*ast.CallExpr); ok {
			if sel, ok := call.Fun.(*ast.SelectorExpr); ok && (sel.Sel.Name == "getKey" || sel.Sel.Name == "getTransformKey") {
				if form == "" {
					form = sel.Sel.Name
				} else if form != sel.Sel.Name {
					form = "?"
				}
			}
		}
		return true
	})
	return form
}

// equalGuard describes a bytes.Equal(leaf.form(), probe) test that holds on a CFG edge.
type equalGuard struct {
	g     guard
	leaf  *types.Var
	probe *types.Var
	form  string
}

// eqTest is a recognised "the two byte strings are equal" test, in the frame of the function
// that evaluates it: the expression the leaf accessor is called on, the accessor, the other
// operand.
type eqTest struct {
	leaf  ast.Expr
	form  string
	other ast.Expr
}

// resolveEq recognises, for the outcome val of expression e,
//
//	bytes.Equal(a, b) / slices.Equal(a, b)          (true)
//	bytes.Compare(a, b) == 0                        (true; != 0 false)
//	string(a) == string(b)                          (true; != false)
//	a boolean local bound once to one of them, a negation of one of them,
//	and a library helper, method or closure whose result is one of them (leaf.hasKey(k),
//	leafHasKey(ptr, k)) – operands traced back to the caller's expressions.
func (c *Ctx) resolveEq(u *FuncUnit, e ast.Expr, val bool, depth int) []eqTest {
	info := c.m.Info
	if depth > 4 {
		return nil
	}
	e = ast.Unparen(c.m.throughLocals(u, e))
	var args []ast.Expr
	switch x := e.(type) {
	case *ast.UnaryExpr:
		if x.Op == token.NOT {
			return c.resolveEq(u, x.X, !val, depth+1)
		}
	case *ast.CallExpr:
		name := c.m.calleeName(x)
		if (name == "bytes.Equal" || name == "slices.Equal") && len(x.Args) == 2 {
			if val {
				args = x.Args
			}
			break
		}
		if isConversion(info, x) {
			break
		}
		cu := c.m.calleeUnit(x)
		if cu == nil || cu.Body == nil {
			break
		}
		rets, all := returnExprs(cu)
		if !all || len(rets) != 1 {
			break
		}
		var out []eqTest
		for _, t := range c.resolveEq(cu, rets[0], val, depth+1) {
			back := func(pe ast.Expr) ast.Expr {
				inner := ast.Unparen(c.m.throughLocals(cu, pe))
				for {
					if cv, ok := inner.(*ast.CallExpr); ok && isConversion(info, cv) && len(cv.Args) == 1 {
						inner = ast.Unparen(c.m.throughLocals(cu, cv.Args[0]))
						continue
					}
					break
				}
				if id, ok := inner.(*ast.Ident); ok {
					if a := argFor(x, c.m.paramIndex(cu, id)); a != nil {
						return a
					}
				}
				return nil
			}
			l, o := back(t.leaf), back(t.other)
			if o == nil {
				continue
			}
			out = append(out, eqTest{leaf: l, form: t.form, other: o})
		}
		return out
	case *ast.BinaryExpr:
		eq := (x.Op == token.EQL && val) || (x.Op == token.NEQ && !val)
		if !eq {
			break
		}
		if cc, ok := ast.Unparen(x.X).(*ast.CallExpr); ok && c.m.calleeName(cc) == "bytes.Compare" && len(cc.Args) == 2 {
			if tv, has := info.Types[x.Y]; has && tv.Value != nil && tv.Value.ExactString() == "0" {
				args = cc.Args
			}
		}
		lc, ok1 := ast.Unparen(x.X).(*ast.CallExpr)
		rc, ok2 := ast.Unparen(x.Y).(*ast.CallExpr)
		if ok1 && ok2 && isConversion(info, lc) && isConversion(info, rc) && len(lc.Args) == 1 && len(rc.Args) == 1 {
			if b, ok := info.TypeOf(lc).Underlying().(*types.Basic); ok && b.Info()&types.IsString != 0 {
				args = []ast.Expr{lc.Args[0], rc.Args[0]}
			}
		}
	}
	if len(args) != 2 {
		return nil
	}
	var out []eqTest
	for _, perm := range [][2]int{{0, 1}, {1, 0}} {
		st := ast.Unparen(c.m.throughLocals(u, args[perm[0]]))
		sc, ok := st.(*ast.CallExpr)
		if !ok {
			continue
		}
		sel, ok := sc.Fun.(*ast.SelectorExpr)
		if !ok || len(sc.Args) != 0 {
			continue
		}
		out = append(out, eqTest{leaf: sel.X, form: sel.Sel.Name, other: args[perm[1]]})
	}
	return out
}

func (c *Ctx) equalGuards(u *FuncUnit) []equalGuard {
	info := c.m.Info
	probe := c.e.probeKeys()
	var out []equalGuard
	for _, g := range guardsOf(info, c.m.cfgOf(u)) {
		for _, t := range c.resolveEq(u, g.atom.e, g.atom.val, 0) {
			pv := identVar(info, t.other)
			if pv == nil || !probe[pv] {
				continue
			}
			var lv *types.Var
			if t.leaf != nil {
				lv = identVar(info, t.leaf)
			}
			out = append(out, equalGuard{g: g, leaf: lv, probe: pv, form: t.form})
		}
	}
	return out
}

// R02 EQDOM – success only after the full-key comparison at the leaf.
func ruleR02(c *Ctx) {
	info := c.m.Info
	for _, tk := range c.m.Trees {
		form := c.restoreForm(tk)
		for _, mname := range []string{"Search", "Delete", "Insert"} {
			u := c.m.effectiveMethod(tk, mname)
			// a helper of the same tree that carries the loop (Insert → insert): the events are there
			if au := c.m.algorithmUnit(tk, mname); au != nil && au != u && (au.Recv == tk.Name || (au.Recv == "" && c.takesSlot(au))) {
				u = au
			}
			if u == nil {
				c.r.undecided("R02", tk.Name+"."+mname+" missing", "-", "method not found", "C01")
				continue
			}
			props := []string{"C01"}
			if isCollationKind(tk) {
				props = append(props, "C08")
			}
			if isCompoundKind(tk) {
				props = append(props, "C09")
			}
			if mname != "Insert" {
				props = append(props, "C15")
			}
			g := c.m.cfgOf(u)
			guards := c.equalGuards(u)
			nEvents := 0
			// success flags: boolean locals that are only ever assigned constants (deleted := false …
			// deleted = true … if deleted { t.size-- }; return deleted). What happens under the flag
			// happens after one of the places that set it
			flagSites := map[*types.Var][]ast.Node{}
			{
				bad := map[*types.Var]bool{}
				ast.Inspect(u.Body, func(n ast.Node) bool {
					as, ok := n.(*ast.AssignStmt)
					if !ok || len(as.Lhs) != len(as.Rhs) {
						return true
					}
					for i, l := range as.Lhs {
						v := identVar(info, l)
						if v == nil {
							continue
						}
						if b, isB := v.Type().Underlying().(*types.Basic); !isB || b.Kind() != types.Bool {
							continue
						}
						switch {
						case isConstBool(info, as.Rhs[i], true):
							flagSites[v] = append(flagSites[v], as)
						case isConstBool(info, as.Rhs[i], false):
							if _, has := flagSites[v]; !has {
								flagSites[v] = nil
							}
						default:
							bad[v] = true
						}
					}
					return true
				})
				for v := range bad {
					delete(flagSites, v)
				}
			}
			allGuards := guardsOf(info, g)
			underFlag := func(b *cfg.Block) *types.Var {
				for _, gd := range allGuards {
					if !gd.atom.val {
						continue
					}
					if v := identVar(info, ast.Unparen(gd.atom.e)); v != nil {
						if _, isFlag := flagSites[v]; isFlag && edgeDominates(g, gd.b, gd.succ, b) {
							return v
						}
					}
				}
				return nil
			}
			// wantLeaf == nil: any leaf variable accepted
			var check func(kind string, node ast.Node, wantLeaf *types.Var)
			quiet := false // inner checks of the sites of a flag: no report, result in lastOK
			lastOK := false
			check = func(kind string, node ast.Node, wantLeaf *types.Var) {
				if !quiet {
					nEvents++
				}
				key := fmt.Sprintf("%s.%s %s", tk.Name, mname, kind)
				b, _ := blockOf(g, node)
				if b == nil || !b.Live {
					lastOK = true
					return
				}
				if fv := underFlag(b); fv != nil && !quiet {
					// every place that sets the flag must itself follow the comparison
					all := len(flagSites[fv]) > 0
					quiet = true
					for _, site := range flagSites[fv] {
						lastOK = false
						check("flag", site, wantLeaf)
						if !lastOK {
							all = false
						}
					}
					quiet = false
					if all {
						c.r.ok("R02", key, c.m.pos(node.Pos()), fmt.Sprintf("runs only when the flag %s is set, and each of the %d places that set it follows the successful comparison", fv.Name(), len(flagSites[fv])), props...)
						return
					}
					c.r.bad("R02", key, c.m.pos(node.Pos()), fmt.Sprintf("success without the authoritative full-key comparison: it runs when the flag %s is set, and a place that sets it does not follow the comparison", fv.Name()), props...)
					return
				}
				var why string
				for _, eg := range guards {
					if wantLeaf != nil && eg.leaf != wantLeaf {
						why = "compares another leaf than the one acted on"
						continue
					}
					if !edgeDominates(g, eg.g.b, eg.g.succ, b) {
						if b == eg.g.b {
							continue
						}
						if why == "" {
							why = "a path reaches it without passing the successful comparison"
						}
						continue
					}
					if form != "" && eg.form != form {
						why = fmt.Sprintf("compares %s() but restoreKey hands out %s(): distinct keys with equal %s() would be merged", eg.form, form, eg.form)
						continue
					}
					// the compared variables must not change between the comparison and the event
					between := reachable(eg.g.b.Succs[eg.g.succ])
					if (eg.leaf != nil && assignedIn(info, between, eg.leaf)) || assignedIn(info, between, eg.probe) {
						why = "compared variable is reassigned after the comparison"
						continue
					}
					lastOK = true
					if !quiet {
						c.r.ok("R02", key, c.m.pos(node.Pos()),
							fmt.Sprintf("dominated by the successful comparison of the stored %s() with %s at %s", eg.form, eg.probe.Name(), c.m.pos(eg.g.atom.e.Pos())), props...)
					}
					return
				}
				if why == "" {
					why = "no bytes.Equal(leaf key, probe key) test in this function"
				}
				lastOK = false
				if !quiet {
					c.r.bad("R02", key, c.m.pos(node.Pos()), "success without the authoritative full-key comparison: "+why, props...)
				}
			}
			sizeField := c.sizeField(tk)
			for _, b := range g.Blocks {
				if !b.Live {
					continue
				}
				for _, n := range b.Nodes {
					switch x := n.(type) {
					case *ast.ReturnStmt:
						if mname == "Search" && len(x.Results) == 2 && isConstBool(info, x.Results[1], true) {
							var lv *types.Var
							if sel, ok := ast.Unparen(x.Results[0]).(*ast.SelectorExpr); ok {
								lv = identVar(info, sel.X)
							}
							if lv != nil {
								// leaf := t.findLeaf(keyS): a typed leaf handed back by a lookup helper
								if dc := c.defCallOf(u, lv); dc != nil && !isConversion(info, dc) && c.m.calleeUnit(dc) != nil {
									if why := c.foundThroughHelper(tk, u, x, form); why != "" {
										nEvents++
										c.r.ok("R02", fmt.Sprintf("%s.%s return-found", tk.Name, mname), c.m.pos(x.Pos()), why, props...)
										continue
									}
								}
							}
							if lv == nil {
								// the value of a leaf handed back by a lookup helper that returns a leaf
								// only after the full-key comparison (search(root, key, …))
								if why := c.foundThroughHelper(tk, u, x, form); why != "" {
									nEvents++
									c.r.ok("R02", fmt.Sprintf("%s.%s return-found", tk.Name, mname), c.m.pos(x.Pos()), why, props...)
									continue
								}
								c.r.bad("R02", fmt.Sprintf("%s.%s return-found", tk.Name, mname), c.m.pos(x.Pos()), "found-result is not the value of a compared leaf", props...)
								nEvents++
								continue
							}
							check("return-found", x, lv)
						}
						// the descent of Search in a helper that answers with the leaf or nil
						// (findLeaf): a leaf is handed back only after the full-key comparison
						if mname == "Search" && len(x.Results) == 1 && u.Decl != nil && u.Decl.Name.Name != "Search" && !info.Types[x.Results[0]].IsNil() {
							if _, isPtr := info.TypeOf(x.Results[0]).Underlying().(*types.Pointer); isPtr || isUnsafePointer(info.TypeOf(x.Results[0])) {
								if lv := identVar(info, ast.Unparen(x.Results[0])); lv != nil {
									check("return-found", x, lv)
								}
							}
						}
						if mname == "Delete" && len(x.Results) == 1 && isConstBool(info, x.Results[0], true) {
							check("return-true", x, nil)
						}
						// return deleted: true exactly when a place that sets the flag was passed
						if mname == "Delete" && len(x.Results) == 1 {
							if fv := identVar(info, ast.Unparen(x.Results[0])); fv != nil {
								if sites, isFlag := flagSites[fv]; isFlag {
									nEvents++
									all := len(sites) > 0
									quiet = true
									for _, site := range sites {
										lastOK = false
										check("flag", site, nil)
										if !lastOK {
											all = false
										}
									}
									quiet = false
									key := fmt.Sprintf("%s.%s return-flag", tk.Name, mname)
									if all {
										c.r.ok("R02", key, c.m.pos(x.Pos()), fmt.Sprintf("returns the flag %s, which is set only after the successful comparison (%d places)", fv.Name(), len(sites)), props...)
									} else {
										c.r.bad("R02", key, c.m.pos(x.Pos()), fmt.Sprintf("success without the authoritative full-key comparison: the result is the flag %s, and a place that sets it does not follow the comparison", fv.Name()), props...)
									}
								}
							}
						}
						// return val, found: found is a flag set only where the value of the compared leaf
						// is taken (a Search with a single exit)
						if mname == "Search" && len(x.Results) == 2 {
							if fv := identVar(info, ast.Unparen(x.Results[1])); fv != nil {
								if sites, isFlag := flagSites[fv]; isFlag {
									vv := identVar(info, ast.Unparen(x.Results[0]))
									nEvents++
									all := len(sites) > 0
									quiet = true
									for _, site := range sites {
										lastOK = false
										// the leaf whose value is taken in the same statement
										var lv *types.Var
										if as, isAs := site.(*ast.AssignStmt); isAs && len(as.Lhs) == len(as.Rhs) {
											for i, l := range as.Lhs {
												if vv != nil && identVar(info, l) == vv {
													if sel, ok := ast.Unparen(as.Rhs[i]).(*ast.SelectorExpr); ok {
														lv = identVar(info, sel.X)
													}
												}
											}
										}
										if lv == nil {
											all = false
											continue
										}
										check("flag", site, lv)
										if !lastOK {
											all = false
										}
									}
									quiet = false
									key := fmt.Sprintf("%s.%s return-flag", tk.Name, mname)
									if all {
										c.r.ok("R02", key, c.m.pos(x.Pos()), fmt.Sprintf("returns the flag %s, which is set – together with the value of the compared leaf – only after the successful comparison (%d places)", fv.Name(), len(sites)), props...)
									} else {
										c.r.bad("R02", key, c.m.pos(x.Pos()), fmt.Sprintf("success without the authoritative full-key comparison: the result is the flag %s, and a place that sets it does not take the value of the compared leaf after the comparison", fv.Name()), props...)
									}
								}
							}
						}
					case *ast.IncDecStmt:
						if mname == "Delete" && x.Tok == token.DEC && isFieldOf(info, x.X, sizeField) {
							check("size--", x, nil)
						}
					case *ast.AssignStmt:
						if mname == "Delete" && len(x.Lhs) == 1 && c.isEmptyRefLit(x.Rhs[0]) {
							check("unlink-slot", x, nil)
						}
						if mname == "Delete" && len(x.Lhs) == 1 && isConstBool(info, x.Rhs[0], true) {
							if fv := identVar(info, x.Lhs[0]); fv != nil {
								if _, isFlag := flagSites[fv]; isFlag {
									check("sets the success flag "+fv.Name(), x, nil)
								}
							}
						}
						if mname == "Insert" && len(x.Lhs) == 1 {
							if sel, ok := ast.Unparen(x.Lhs[0]).(*ast.SelectorExpr); ok && sel.Sel.Name == "value" {
								check("overwrite-value", x, identVar(info, sel.X))
							}
						}
					case *ast.ExprStmt:
						if call, ok := x.X.(*ast.CallExpr); ok && mname == "Delete" {
							if sel, ok := call.Fun.(*ast.SelectorExpr); ok && sel.Sel.Name == "deleteChild" {
								check("unlink-child", x, nil)
							}
						}
					}
				}
			}
			want := map[string]int{"Search": 1, "Delete": 4, "Insert": 1}[mname]
			if nEvents < want {
				c.r.undecided("R02", fmt.Sprintf("%s.%s events", tk.Name, mname), c.m.pos(u.Decl.Pos()),
					fmt.Sprintf("recognised %d success/mutation events, expected at least %d: the success path is not in a recognised form", nEvents, want), props...)
			}
		}
	}
	c.r.floor("R02", 24, "equality-dominated events", "C01")
}

func isConstBool(info *types.Info, e ast.Expr, want bool) bool {
	tv, ok := info.Types[e]
	if !ok || tv.Value == nil {
		return false
	}
	return tv.Value.ExactString() == fmt.Sprint(want)
}

func isFieldOf(info *types.Info, e ast.Expr, field string) bool {
	sel, ok := ast.Unparen(e).(*ast.SelectorExpr)
	return ok && field != "" && sel.Sel.Name == field && info.Selections[sel] != nil
}

// sizeField: the field Size() returns.
func (c *Ctx) sizeField(tk *TreeKind) string {
	u := tk.Methods["Size"]
	if u == nil {
		return ""
	}
	f := ""
	ast.Inspect(u.Body, func(n ast.Node) bool {
		if r, ok := n.(*ast.ReturnStmt); ok && len(r.Results) == 1 {
			if sel, ok := ast.Unparen(r.Results[0]).(*ast.SelectorExpr); ok {
				f = sel.Sel.Name
			}
		}
		return true
	})
	return f
}

// isEmptyRefLit: nodeRef{}.
func (c *Ctx) isEmptyRefLit(e ast.Expr) bool {
	cl, ok := ast.Unparen(e).(*ast.CompositeLit)
	if !ok || len(cl.Elts) != 0 {
		return false
	}
	n := namedOf(c.m.Info.TypeOf(cl))
	return n != nil && n.Obj() == c.m.NodeRef.Obj()
}

var _ = cfg.New

// foundThroughHelper: `return (*L)(p).value, true` where p is the result of a library function F,
// the return is dominated by p != nil, and F returns a non-nil pointer only under its own
// successful full-key comparison (with the stored form restoreKey hands out).
func (c *Ctx) foundThroughHelper(tk *TreeKind, u *FuncUnit, ret *ast.ReturnStmt, form string) string {
	info := c.m.Info
	sel, ok := ast.Unparen(ret.Results[0]).(*ast.SelectorExpr)
	if !ok {
		return ""
	}
	e := ast.Unparen(sel.X)
	for {
		if cv, ok := e.(*ast.CallExpr); ok && isConversion(info, cv) && len(cv.Args) == 1 {
			e = ast.Unparen(cv.Args[0])
			continue
		}
		if id, ok := e.(*ast.Ident); ok {
			// a typed local bound once to a conversion of the pointer: leaf := (*L)(p)
			if d := c.m.resolveLocal(u, id); d != nil {
				if cv, ok := ast.Unparen(d).(*ast.CallExpr); ok && isConversion(info, cv) && len(cv.Args) == 1 {
					e = ast.Unparen(cv.Args[0])
					continue
				}
			}
		}
		break
	}
	pv := identVar(info, e)
	if pv == nil {
		return ""
	}
	def := c.defCallOf(u, pv)
	if def == nil {
		return ""
	}
	fu := c.m.calleeUnit(def)
	if fu == nil || fu.Lit != nil || fu.Body == nil {
		return ""
	}
	// dominated by p != nil
	g := c.m.cfgOf(u)
	rb, _ := blockOf(g, ret)
	nonNil := false
	for _, gd := range guardsOf(info, g) {
		be, ok := ast.Unparen(gd.atom.e).(*ast.BinaryExpr)
		if !ok || rb == nil || !edgeDominates(g, gd.b, gd.succ, rb) {
			continue
		}
		isNeq := (be.Op == token.NEQ && gd.atom.val) || (be.Op == token.EQL && !gd.atom.val)
		if isNeq && ((identVar(info, be.X) == pv && info.Types[be.Y].IsNil()) || (identVar(info, be.Y) == pv && info.Types[be.X].IsNil())) {
			nonNil = true
		}
	}
	if !nonNil {
		return ""
	}
	// F: every non-nil return under a successful comparison of the right stored form
	fg := c.m.cfgOf(fu)
	guards := c.equalGuards(fu)
	okAll, any := true, false
	for _, b := range fg.Blocks {
		if !b.Live {
			continue
		}
		for _, n := range b.Nodes {
			rs, isRet := n.(*ast.ReturnStmt)
			if !isRet || len(rs.Results) != 1 || info.Types[rs.Results[0]].IsNil() {
				continue
			}
			any = true
			dominated := false
			for _, eg := range guards {
				if edgeDominates(fg, eg.g.b, eg.g.succ, b) && (form == "" || eg.form == form) {
					dominated = true
				}
			}
			if !dominated {
				okAll = false
			}
		}
	}
	if !any || !okAll {
		return ""
	}
	return fmt.Sprintf("the leaf comes from %s, which returns a leaf only under its own successful full-key comparison, and is used under %s != nil", fu.Name, pv.Name())
}
