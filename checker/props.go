package main

func init() {
	registerRule("R01", ruleR01)
	registerRule("R02", ruleR02)
	registerRule("R03", ruleR03R04)
	registerRule("R04", func(c *Ctx) { c.run("R03") })
	registerRule("R05", ruleR05)
	registerRule("R14", ruleR14)
	registerRule("R34", ruleR34)
	registerRule("R12", ruleR12)
	registerRule("R06", ruleR06R07)
	registerRule("R07", func(c *Ctx) { c.run("R06") })
	registerRule("R10", ruleR10)
	registerRule("R27", ruleR27R28)
	registerRule("R28", func(c *Ctx) { c.run("R27") })

	registerProp(&propSpec{ID: "C01", Level: "other",
		Rules: []string{"R01", "R02", "R03", "R05"},
		Explain: "Static clauses of 'exact map under any history', decided on the type-checked source of every copy of the tree code (5 generated kinds + collation): " +
			"R01 every index/slice of a caller-controlled key is dominated by the length fact it needs (so probing an absent key cannot fault on a key index); " +
			"R02 every success outcome of Search/Delete and the value overwrite of Insert is dominated by the true edge of the full-key comparison with the stored form restoreKey returns; " +
			"R03 on every CFG path of every Insert the set of link/relink/overwrite/size events is one of the accepted ones (nothing dropped, nothing double-counted); " +
			"R05 the keys of each kind are prefix-free for a structural reason, which is what makes the key-exhausted edges of Insert infeasible.",
		NotDecided: "That descent, split and merge compute the right byte positions (compressed-path arithmetic, the 10-byte inline limit), and all value-level behaviour of the SWAR/SIMD node search: these quantify over runtime values and are out of reach of a static rule."})
	registerProp(&propSpec{ID: "C06", Level: "other",
		Rules: []string{"R03", "R04", "R05", "R14"},
		Explain: "On every CFG path of every Insert/Delete copy (6 kinds) the size counter changes by one exactly when one leaf is linked/unlinked (R03/R04 path automaton over link, relink, overwrite, unlink and size events), " +
			"nobody else writes the counter and Size() returns it unmodified (R14); key-exhausted paths are infeasible where keys are prefix-free (R05).",
		NotDecided: "That linking a leaf corresponds to storing a new key (that is C01's value-level part) – the rule decides the pairing of structural events with the counter, not map semantics."})
	registerProp(&propSpec{ID: "C19", Level: "translation_validation",
		Rules: []string{"R34"},
		Explain: "Translation validation of the generated file: the checker extracts the instantiation table from the AST of cmd/go-art/main.go (constants only), executes cmd/go-art/tree.tmpl with it, formats the result with go/format and compares it byte for byte with trees.go, one comparison per instantiation plus the header; it also checks the go:generate directives and that trees.go is gofmt-stable.",
		NotDecided: "Nothing value-level remains: the property is a textual equality. Trusted: text/template and go/format of the Go release the checker is built with (assumed to agree with the release used to regenerate).",
		Technique:  "static translation validation: re-render the code-generation template from the generator's AST and diff against the checked-in file", DesignRef: "§4 C19 R34"})
}
