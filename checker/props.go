package main

import (
	"sort"
	"strings"
)

func init() {
	registerRule("R01", ruleR01)
	registerRule("R02", ruleR02)
	registerRule("R03", ruleR03R04)
	registerRule("R04", func(c *Ctx) { c.run("R03") })
	registerRule("R05", ruleR05)
	registerRule("R14", ruleR14)
	registerRule("R34", ruleR34)
	registerRule("R12", ruleR12)
	registerRule("R29", ruleR29)
	registerRule("R31", func(c *Ctx) { c.run("R29") })
	registerRule("R26", ruleR26)
	registerRule("R17", ruleR17)
	registerRule("R20", ruleR20)
	registerRule("R15", ruleR15)
	registerRule("R32", ruleR32R33)
	registerRule("R33", func(c *Ctx) { c.run("R32") })
	registerRule("R21", ruleNodeLayer)
	registerRule("R22", func(c *Ctx) { c.run("R21") })
	registerRule("R23", func(c *Ctx) { c.run("R21") })
	registerRule("R24", func(c *Ctx) { c.run("R21") })
	registerRule("R25", func(c *Ctx) { c.run("R21") })
	registerRule("R30", func(c *Ctx) { c.run("R21") })
	registerRule("R35", ruleR35)
	registerRule("R43", ruleR43)
	registerRule("R44", ruleR44)
	registerRule("R45", ruleR45)
	registerRule("R46", ruleR46)
	registerRule("R42", ruleR42)
	registerRule("R36", ruleR36)
	registerRule("R41", ruleR41)
	registerRule("R47", ruleR47)
	registerRule("R48", ruleR48)
	registerRule("R49", ruleR49)
	registerRule("R50", ruleR50)
	registerRule("R51", ruleR51)
	registerRule("R52", ruleR52)
	registerRule("R53", ruleR53)
	registerRule("R54", ruleR54)
	registerRule("R55", ruleR55)
	registerRule("R56", ruleR56)
	registerRule("R39", ruleR39R40)
	registerRule("R40", func(c *Ctx) { c.run("R39") })
	registerRule("R37", func(c *Ctx) { c.run("R21") })
	registerRule("R38", ruleR38)
	registerRule("R08", ruleR08)
	registerRule("R16", func(c *Ctx) { c.run("R08") })
	registerRule("R18", func(c *Ctx) { c.run("R08") })
	registerRule("R11", ruleR11)
	registerRule("R13", ruleR13)
	registerRule("R09", ruleR09R19)
	registerRule("R19", func(c *Ctx) { c.run("R09") })
	registerRule("R06", ruleR06R07)
	registerRule("R07", func(c *Ctx) { c.run("R06") })
	registerRule("R10", ruleR10)
	registerRule("R27", ruleR27R28)
	registerRule("R28", func(c *Ctx) { c.run("R27") })

	registerProp(&propSpec{ID: "C01", Level: "other",
		Rules: []string{"R01", "R02", "R03", "R05", "R37", "R21", "R22", "R24", "R41", "R36", "R43", "R10", "R19", "R44", "R45"},
		Explain: "Static clauses of 'exact map under any history', decided on the type-checked source of every copy of the tree code (5 generated kinds + collation): " +
			"R01 every index/slice of a caller-controlled key is dominated by the length fact it needs (so probing an absent key cannot fault on a key index); " +
			"R02 every success outcome of Search/Delete and the value overwrite of Insert is dominated by the true edge of the full-key comparison with the stored form restoreKey returns; " +
			"R03 on every CFG path of every Insert the set of link/relink/overwrite/size events is one of the accepted ones (nothing dropped, nothing double-counted); " +
			"R05 the keys of each kind are prefix-free for a structural reason, which is what makes the key-exhausted edges of Insert infeasible. R21/R22/R24/R37/R41/R43 grow/shrink and add/delete of a child keep every registered child: the replacement node receives header, keys and children, capacity guards equal the array lengths, an addChild stores exactly one child and bumps the fan-out once, a size class whose deleteChild leaves holes never takes slot childrenLen, every deleteChild path vacates the slot; R36 the hand-written collation copy agrees with the compound instantiation of the template on node-layer calls, stores and position comparisons; R10 loops over a 256-entry byte table visit all 256 entries; R19 a search result is used as an index only when it is not the not-found value and (4-lane search) below the fill count; R44 the result of findChild is dereferenced only when it is not nil; R45 the descent loop of Search/Delete goes round exactly when it has moved to a child.",
		NotDecided: "That descent, split and merge compute the right byte positions (compressed-path arithmetic, the 10-byte inline limit), and all value-level behaviour of the SWAR/SIMD node search: these quantify over runtime values and are out of reach of a static rule."})
	registerProp(&propSpec{ID: "C06", Level: "other",
		Rules: []string{"R03", "R04", "R05", "R14"},
		Explain: "On every CFG path of every Insert/Delete copy (6 kinds) the size counter changes by one exactly when one leaf is linked/unlinked (R03/R04 path automaton over link, relink, overwrite, unlink and size events), " +
			"nobody else writes the counter and Size() returns it unmodified (R14); key-exhausted paths are infeasible where keys are prefix-free (R05). R51 the dispatchers nodeRef.addChild/deleteChild hand every call on to the node layout (no path returns before the kind switch): Insert and Delete count after the call returns.",
		NotDecided: "That linking a leaf corresponds to storing a new key (that is C01's value-level part) – the rule decides the pairing of structural events with the counter, not map semantics."})
	registerProp(&propSpec{ID: "C19", Level: "translation_validation",
		Rules:      []string{"R34"},
		Explain:    "Translation validation of the generated file: the checker evaluates the generator cmd/go-art by constant folding (geneval.go: the generator has no input but its source, the embedded template and its constants; a Go-subset evaluator over abstract files, buffered writers, byte buffers, template sets and format.Source follows the error-free path, executes the templates with text/template on the data the evaluator computed, and stops undecided at any construct outside the subset – command line, environment, time), applies go/format if a go:generate gofmt directive names the output file, and compares the result byte for byte with trees.go, one comparison per instantiation plus the header; trees.go must be gofmt-stable. From the same evaluation: every byte the templates produce is in the output file when main returns (writers flushed before their file is closed, deferred calls in their real order), the error of every Execute ends the program (directly, in a helper, or in a caller it is returned to), and the output does not depend on map iteration order. None of the repository's code is run.",
		NotDecided: "Nothing value-level remains: the property is a textual equality. Trusted: text/template and go/format of the Go release the checker is built with (assumed to agree with the release used to regenerate).",
		Technique:  "static translation validation: re-render the code-generation template from the generator's AST and diff against the checked-in file", DesignRef: "§4 C19 R34"})
	registerProp(&propSpec{ID: "C02", Level: "other", DesignRef: "§4 C02",
		Rules:      []string{"R09", "R08", "R10", "R12", "R06", "R11", "R35", "R39", "R37", "R27", "R41"},
		Explain:    "Structural clauses of complete/duplicate-free/sorted iteration: R09 every traversal arm (all, backward, filter, rangeScan, minimum, maximum, the inlined lookups of Search) reads the children of each node kind through the same slot domain, occupancy test and child expression as the canonical byte→child lookup (findChild), forward traversals push in descending and backward in ascending slot order (mirror); R08 keys are restored by undoing exactly the normalisation applied at insertion; R10 constant-range indexes fit their arrays; R12 worklists are seeded only with a non-nil root; R06 popped references are cast under their tag; R11 no loop-carried key position. R35 the public sequence methods call the like-named helper and Minimum/Maximum restore the key of minimum/maximum(root); R39 a traversal ends only on an empty stack, a false yield, an empty tree or an upper bound; R27 sequence closures mutate nothing captured; R37/R41 the node layer keeps occupied slots findable.",
		NotDecided: "That children inside a 4/16-slot node are kept in ascending byte order (insertPosNode4/16: SWAR/SIMD arithmetic) and that the key encodings are monotone (C07's value-level part)."})
	registerProp(&propSpec{ID: "C03", Level: "other", DesignRef: "§4 C03",
		Rules:      []string{"R12", "R11", "R13", "R39", "R09", "R01", "R08", "R06", "R27"},
		Explain:    "Range: R12 the scan and the open-end bound are guarded against an empty tree (nil root, nil maximum); R11 the key depth is carried per stack entry, not per scan; R13 every yield is dominated by both leaf-level bound comparisons with the right argument roles, a key below the lower bound is skipped rather than ending the scan, callers normalise reversed bounds by a swap, the equal-bounds sequence yields only under a successful Search; R09 the scan enumerates children like the other traversals; R01 slicing of the bounds' common prefix is guarded; R08 the bounds get the same key normalisation as stored keys. R39 the scan ends only on an empty stack, a false yield or a key above the upper bound; R27 no captured state is mutated. R54 the pruning idiom of the scan (skip a subtree when longestCommonPrefix(node path, window of the bounds' common prefix) == 0) compares provably non-empty byte strings (linear facts: prefixLen >= 1, depth < len(search)), and every skip of an inner node in a stack traversal happens under a condition that witnesses a differing byte inside both strings (no common first byte; !HasPrefix(x, y) with len(y) <= len(x); a match length below a threshold that stays within both strings) – a one-directional prefix test or a threshold taken from the node alone is reported, any other condition is undecided; R11 every child is pushed with the position computed for the children of the popped node.",
		NotDecided: "That the window of the bounds' common prefix a node's compressed path is compared with is the one at the node's key position (the position arithmetic of the scan beyond R11's per-entry depth) – a value-level argument about byte positions."})
	registerProp(&propSpec{ID: "C04", Level: "other", DesignRef: "§4 C04",
		Rules:      []string{"R13", "R40", "R39", "R11", "R10", "R06", "R09", "R01", "R12", "R27", "R44"},
		Explain:    "Prefix: R13 every yield of the filtering scan is dominated by the predicate, which calls bytes.HasPrefix(stored key, requested prefix) in that argument order – so nothing that does not start with p is yielded; the subtree selector is a single-path descent (no worklist: R11), indexes the prefix only under a length guard (R01), never reads a leaf as an inner node (R06) and is only entered with a non-nil root (R12); R09/R10 the scan enumerates every child of every node kind with in-range indexes. R40 Prefix returns the filtering scan (or All() for the empty prefix) and nothing else; R39 the scan ends only on an empty stack or a false yield. R46 the subtree selector advances its position only by a whole compressed path or one branch byte, and hands prefixMismatch – which compares with the key of a stored leaf index by index – the whole prefix and the absolute position, never a remainder cut at the front.",
		NotDecided: "That the selector's byte-position arithmetic (prefixMismatch against compressed paths longer than the inline limit) returns a subtree containing every matching key."})
	registerProp(&propSpec{ID: "C05", Level: "other", DesignRef: "§4 C05",
		Rules:      []string{"R09", "R12", "R35", "R38", "R27", "R06", "R39"},
		Explain:    "R09 minimum/maximum pick the first/last occupied slot of the same slot domain, with the same occupancy test and child expression, that the traversals enumerate (8 arms); R12 Minimum/Maximum report 'none' exactly on a nil result; R27/R28 TopK/BottomK count per pass and stop after yield returned false, ranging over Backward/All respectively (call-target check); R06 casts under tag facts. R35 Minimum/Maximum return restoreKey(minimum/maximum(root)) on every found path; R38 every yield of TopK/BottomK is dominated by budget left on the per-pass counter; R39 scan exits.",
		NotDecided: "Nothing beyond C02's value-level remainder (sortedness inside 4/16-slot nodes)."})
	registerProp(&propSpec{ID: "C08", Level: "other", DesignRef: "§4 C08",
		Rules:      []string{"R16", "R17", "R08", "R01", "R02", "R03", "R04", "R05", "R06", "R09", "R12", "R26", "R39", "R40", "R36", "R42", "R45"},
		Explain:    "collation.go is analysed as the sixth copy of the tree algorithm by every kind-generic rule (R01 guarded key indexes, R02 equality on the ORIGINAL string – not the sort key – dominates every success, R03/R04 link/size automaton, R06 tag casts, R09 inlined lookups, R12 nil flows), plus R16: the leaf pairs (key,keyLen) with the original bytes and (colKey,colKeyLen) with the sort key, descent uses only the sort key, restoreKey returns the original, WithCollator stores into the field that sort-key generation reads; R08 one normalisation per role at all entry points. R36 sibling agreement with the compound instantiation of the template; R42 the collator/buffer/codec a tree holds are per-tree objects (fresh or caller-supplied), never package-level singletons; R26 the tree keeps no alias of a caller slice; R39/R40 scan exits and Prefix result.",
		NotDecided: "That x/text sort keys order like Collator.Compare and are prefix-free (library contract, recorded as assumption)."})
	registerProp(&propSpec{ID: "C09", Level: "other", DesignRef: "§4 C09",
		Rules:      []string{"R18", "R08", "R01", "R02", "R03", "R04", "R05", "R06", "R12", "R13", "R36", "R45"},
		Explain:    "The compound instantiation is analysed by all kind-generic rules; R18/R08: the constructor stores the caller's codec in the field every method reads, every key→bytes conversion is bck.Transform with the SAME result index at Insert, Search, Delete and both Range bounds, stored bytes are decoded with bck.Restore. R36 sibling agreement with the collation copy.",
		NotDecided: "Everything that depends on what the user's codec computes (injectivity, order, prefix-freedom are the property's premise and are recorded as assumptions)."})
	registerProp(&propSpec{ID: "C14", Level: "other", DesignRef: "§4 C14",
		Rules:      []string{"R27", "R28", "R38", "R29"},
		Explain:    "R27 no sequence closure assigns, increments or takes the address of a variable declared outside it, so a second pass starts from the same captured values; R28 every yield call decides a branch whose false outcome reaches the function exit with no further yield call reachable (go/cfg reachability), and no yield is deferred. 12 closures, all yield sites. R38 every yield of TopK/BottomK is dominated by budget left on a per-pass counter; R29 sequences write nothing that outlives a pass; a yield inside a nested closure is reported UNDECIDED.",
		NotDecided: "Nothing value-level: with the tree unchanged, the yielded elements are those of C02–C05."})
	registerProp(&propSpec{ID: "C07", Level: "other", DesignRef: "§4 C07", QuickArchs: []string{"amd64", "386"},
		Rules:      []string{"R15", "R32", "R05"},
		Explain:    "R15, per key type and target architecture (constant-folded bits.UintSize branches): (A) abstract interpretation of Transform and Restore (checker/codecinterp.go). The values of a W-bit key type are split into classes on which the sign/top bit is fixed and the remaining bits m range over an interval (floats: NaN with sign clear/set, -Inf, negative numbers, -0, +0, positive numbers, +Inf; integers: top bit clear/set). On one class every word the codec computes is an affine function a*m+b with a in {-1,0,1}; the statements are executed on that domain with exact integer arithmetic and interval checks (no enumeration of values, no solver), branching on the conditions decidable per class. From the forms per class the checker decides in closed form: the encoding has the width of the type and is stored big-endian; the codes are strictly monotone in the order the property states (NaN < -Inf < negatives < -0 < +0 < positives < +Inf, all NaNs alike; integers by value), hence injective; Restore applied to Transform's word returns the input bits (NaN for NaN). (B) pattern clauses as before (arm for every term of the type set, slice length, BigEndian accessors of the type's width, sign constant, offset and special-code table equal in both directions); where (A) has decided an arm, the clauses that look for one way of writing the sign handling are informative only. R32 every reinterpreting cast is between pointer-free types of fitting size; R05 fixed width (prefix-free, concatenable).",
		NotDecided: "What the abstract domain cannot express makes an arm UNKNOWN and leaves it to the pattern clauses: shifts other than by W-1, XOR/OR/AND with a constant whose low W-1 bits are neither all clear nor all set, arithmetic that may wrap on a class, calls outside math / encoding/binary / the library. Go's own conversion and math.Float*bits semantics and the IEEE-754 layout are trusted."})
	registerProp(&propSpec{ID: "C10", Level: "other", DesignRef: "§4 C10", QuickArchs: []string{"amd64", "arm64", "386"},
		Rules:      []string{"R19", "R09", "R10", "R22", "R20", "R37", "R41", "R43", "R44", "R56"},
		Explain:    "R19 every use of a 4-lane SWAR search result as an index is under result < fill count (the search sees all four lanes, occupied or not), and deleteChild – the one unguarded user – is only called for a byte proven registered by findChild on the same reference; the result of a lane search or of an insert-position search is compared with no constant but its not-found value (position 0 is a position); R56 the one-byte fan-out counter of a node that may be of the widest class is never tested in a way that tells 0 from 255 (a full node256 reads 0); R09 the byte→child lookup of each size class and every inlined copy of it agree; R10 constant-range indexes fit [4]/[16]/[48]/[256]; R22 capacity guards equal the array lengths and shrink thresholds fit the smaller class; R20 each architecture sibling of the 16-lane routines (amd64 asm, arm64 asm, portable Go) makes its result depend on keys, fill count and probe byte, compares unsigned, and stores nothing but the result. R37 a class whose deleteChild leaves holes never takes slot childrenLen; R41 every deleteChild path vacates the slot; R43 every addChild path stores one child and bumps the fan-out once. R47 a single-lane store into the packed node4 key word replaces the lane (the lane is cleared on every path before the byte is OR-ed in): the removal shift leaves the former top lane as it was, so lanes beyond the fill count are not zero. R53 the lane helpers of the packed key word (read a lane, store a lane, open / close a gap) are decided by a lane-wise abstract interpretation (checker/laneinterp.go): the word is four symbolic lanes, the helper is executed for every position it is called with (shifts by whole lanes, lane-aligned masks), and the resulting lanes must be those of the children array after the copy() / element store of the calling block – the top lane may keep its byte or be cleared. R11/R22/R41 clauses: pushed positions, shrink-threshold chain, the shrink test is evaluated after every decrement.",
		NotDecided: "The SWAR/SIMD *comparison* arithmetic (2^40 / 2^140 inputs): that insertPosNode4/16 return the sorted position and searchNode4 the first matching lane, in Go and in the amd64/arm64 assembly. (The lane-moving helpers are decided by R53.)"})
	registerProp(&propSpec{ID: "C11", Level: "other", DesignRef: "§4 C11",
		Rules:      []string{"R06", "R07", "R21", "R22", "R23", "R03", "R04", "R24", "R37", "R41", "R43", "R10"},
		Explain:    "R06 a reference is only ever read through the layout its tag names (120 casts under tag facts, 48 reference literals pairing pointer type and tag, pool assertions); R07 every kind switch has one arm per inner kind and a panicking default; R21 every grow/shrink copies every header field (prefixLen, childrenLen, prefix) to the replacement before releasing the old node; R22 capacity guards/thresholds are coherent with the array lengths; R23 node fields are written only by the node layer and the Insert split paths; R03/R04 the number of linked leaves moves in step with size on every path; R24 nodes are released only after the slot is relinked. R22 also: prefixLen is as wide as the leaves' key-length fields; R37/R41/R43 slot allocation, vacate-on-delete and fan-out bookkeeping of the node layer; R10 the grow/shrink loops over a byte-indexed table cover all 256 entries. R47 the packed key word registers a child under exactly its byte (lane cleared before the OR). R50 deleteChild of the smallest size class relinks the slot to the remaining child on every path on which the fan-out has dropped to one (a branch point keeps two children; a one-child node that stays linked is never collapsed later). R51 dispatchers hand every call on.",
		NotDecided: "That prefix lengths/bytes equal the common extension of the keys below a node after split and merge (byte arithmetic), and history independence of the shape."})
	registerProp(&propSpec{ID: "C12", Level: "other", DesignRef: "§4 C12",
		Rules:      []string{"R24", "R25", "R30", "R06", "R14", "R42", "R03", "R04"},
		Explain:    "Pool typestate for each of the 7 releases: the node is cleared in the statement before Put, clear() resets every field of the struct (header included), the node is not used after release, the slot referencing it was overwritten before, its type matches the pool index, and every Get is asserted to the layout of its index (R24, R06); the only per-tree state is {root, size, codec} written only by Insert/Delete, and the root-leaf delete stores the zero reference, so an emptied tree equals a new one (R25, R14); the only package-level state is the sync.Pool array used through Get/Put (R30) – hence trees share no mutable memory except cleared, unreferenced pool objects. R24 also: every replace site releases the old node by the same idiom; R42 nothing a constructor or option stores into a tree is a package-level object. R49 an object handed to a sync.Pool other than the node pool table (a pooled traversal stack) goes back empty or is emptied by every taker, and is not used after Put; R25 accepts further tree fields only when constructors and options alone write them. R03/R04: the size counter moves with every link and unlink (an Insert that links without counting leaves an emptied tree with a size other than 0).",
		NotDecided: "Nothing value-level beyond C01/C11; sync.Pool's own behaviour is trusted."})
	registerProp(&propSpec{ID: "C18", Level: "other", DesignRef: "§4 C18",
		Rules:      []string{"R32", "R33", "R06", "R16"},
		Explain:    "R32 each of the ~180 uses of package unsafe matches a pattern under which the collector sees every reference (typed pointer → unsafe.Pointer; tag-checked typed view; reinterpretation of a pointer-free local of fitting size; unsafe.Slice over a pointer/length field pair of one leaf; SliceData); no pointer↔uintptr conversion, unsafe.Add, reflect, cgo or linkname; key bytes sit behind typed *byte fields; R33 leaves read through another kind's leaf type (signed/float Range read through unsignedLeafNode) have identical field names, types, order and accessor bodies; R06 tag-checked casts; R16 pointer and length of a stored key come from the same slice.",
		NotDecided: "Behaviour of the Go collector itself (trusted as documented for unsafe.Pointer patterns (1) and (6))."})
	registerProp(&propSpec{ID: "C13", Level: "other", DesignRef: "§4 C13",
		Rules:      []string{"R26"},
		Explain:    "R26 must-dataflow of the fact 'this slice variable refers to memory the library allocated itself' (established by make/copy helpers, string→[]byte conversions, bytes.Clone, and callees whose every return is such a value – derived from their own bodies). Every write sink (append, copy, indexed store, passing to a callee that writes through that parameter) and every retention sink (unsafe.SliceData / &x[i] / storing the slice in a leaf literal or tree memory; sinks inside the leaf-creating closure are evaluated at each of its call sites) on a slice that may alias a key argument requires that fact; 64 functions reachable from Insert/Search/Delete/Prefix/Range of the byte-keyed kinds (byte-string and collation). A closure that outlives the call (the returned sequence, the filter predicate) may capture only slices carrying that fact.",
		NotDecided: "Compound codecs written by the user (out of the property's scope). One named exception, printed in evidence: CollationOrderKey.src keeps the last key slice as codec scratch that no function reachable from the Tree API reads."})
	registerProp(&propSpec{ID: "C15", Level: "other", DesignRef: "§4 C15",
		Rules:      []string{"R29", "R17", "R02", "R04", "R03", "R14", "R25", "R23"},
		Explain:    "R29 effect analysis of the 111 functions reachable (call graph incl. method values, interface fan-out, closures) from Search/Minimum/Maximum/Size/All/Backward/Prefix/Range/TopK/BottomK of every kind: every store and every call that writes through an argument targets a local value or memory the function allocated itself – no store reaches tree memory, a captured variable or a package variable; R02/R04 every mutation of Delete is dominated by the successful full-key comparison and a false return carries no tree write; R03 the overwrite path of Insert carries the value store and nothing else (no node store without a split); R14/R25/R23 only Insert/Delete write size, root and node fields.",
		NotDecided: "Named exception (printed in evidence): the collation codec scratch (CollationOrderKey.src, its collate.Buffer and the collator's iterators) is written by queries of collation trees; it is outside the node graph and unobservable through the Tree API."})
	registerProp(&propSpec{ID: "C16", Level: "other", DesignRef: "§4 C16",
		Rules:      []string{"R30", "R24", "R25", "R29", "R42"},
		Explain:    "Static race freedom = no conflicting access pair exists: R30 the only package-level variables are the sync.Pool array (used only through Get/Put) and read-only tables; R24 pooled nodes are completely cleared and unreferenced by the releasing tree; R25 per-tree state is {root, size, codec}; R29 queries of byte-string, numeric and compound trees store nothing that outlives the call, so concurrent readers of one quiescent tree only read. Collation trees are correctly not covered (their queries write codec scratch) – exactly the property's carve-out. R42 no two trees share a package-level codec/collator object.",
		NotDecided: "The Go memory model guarantees of sync.Pool (trusted); a user-supplied compound codec with shared mutable state (premise of the property)."})
	registerProp(&propSpec{ID: "C17", Level: "other", DesignRef: "§4 C17",
		Rules:      []string{"R17", "R29", "R04", "R24", "R03", "R30"},
		Explain:    "Structural content of 'no per-operation leak': R29/R31 nothing a query allocates is stored into memory that outlives the call; R17 the sort key is copied out of the tree-lifetime collate.Buffer and the buffer is reset on every path, so it neither grows with the number of operations nor is aliased by stored leaves; R03 an overwrite of a present key stores only the value; R04 a successful Delete overwrites the slot that held the leaf (the leaf and its key bytes become unreachable); R24 emptied nodes go back to the pool cleared. R30 the pool is a sync.Pool (collectable), not a hand-written free list. R48 the byte strings a key codec's Transform returns are memory it allocated or the plain conversion of the key, never an unsafe view of the caller's string (the compound tree stores them as they are, so a view pins the allocation the key was cut from). R50 no one-child inner node is left behind by a removal (dead inner nodes would accumulate with the history); R41 the fan-out counter follows every removal, so the shrink thresholds fire.",
		NotDecided: "Actual heap numbers; stale duplicates left in unoccupied child slots by copy-shifting are bounded by node capacity (noted, not flagged)."})

	// Attribution by implication: a defect of the shared node layer (a lost or misplaced child, a
	// wrong fan-out, a dereferenced nil) breaks every behavioural property of every tree kind, and
	// a defect of the traversals every property about what iteration yields. The rules below are
	// therefore run for, and their obligations attributed to, these properties as well.
	nodeLayer := []string{"R06", "R07", "R09", "R10", "R19", "R21", "R22", "R37", "R41", "R43", "R44", "R47", "R53"}
	for _, r := range nodeLayer {
		impliedProps[r] = append(impliedProps[r], "C01", "C02", "C06", "C08", "C09", "C10", "C11")
		// … and what the ordered queries return: a child that is lost, overwritten or reachable
		// under two bytes is missing from (or doubled in) Range, Prefix, Minimum/Maximum, TopK
		impliedProps[r] = append(impliedProps[r], "C03", "C04", "C05")
	}
	// a lookup that finds a child that is not registered (a stale lane, a ghost slot) lets a Delete
	// of an absent key succeed: the no-op half of C15
	for _, r := range []string{"R09", "R19", "R41", "R47", "R53"} {
		impliedProps[r] = append(impliedProps[r], "C15")
	}
	// a node that is in the pool while a tree still references it (released twice, released
	// before the relink, the wrong node released) is filled in by its next taker: stored keys and
	// values do not stay as inserted (C18)
	impliedProps["R24"] = append(impliedProps["R24"], "C18")
	impliedProps["R30"] = append(impliedProps["R30"], "C18") // an unsynchronised shared pool hands one node to two trees
	// an operation that builds its probe key differently from the stored keys (the other result
	// of Transform, a missing terminator) misses present keys and may hit another one: lookups,
	// Range bounds, Prefix, and the no-op half of C15 (Delete of an absent key)
	impliedProps["R08"] = append(impliedProps["R08"], "C01", "C03", "C04", "C15")
	// a descent position that disagrees with the node lets Insert of a present key add a second
	// leaf (C15, C06)
	impliedProps["R46"] = append(impliedProps["R46"], "C15", "C06")
	for _, r := range []string{"R09", "R10", "R35", "R39", "R12"} {
		impliedProps[r] = append(impliedProps[r], "C02", "C03", "C04", "C05", "C08", "C09")
	}
	for _, r := range []string{"R04", "R14"} { // unlink ↔ counter: an emptied tree equals a new one (C12)
		impliedProps[r] = append(impliedProps[r], "C12")
	}
	impliedProps["R06"] = append(impliedProps["R06"], "C18") // a layout read through the wrong type is also an unsafe.Pointer misuse
	impliedProps["R20"] = append(impliedProps["R20"], "C02", "C01", "C11")
	impliedProps["R45"] = append(impliedProps["R45"], "C01", "C08", "C09")
	impliedProps["R46"] = append(impliedProps["R46"], "C01", "C03", "C04", "C08", "C09", "C11")
	impliedProps["R17"] = append(impliedProps["R17"], "C14", "C08")
	impliedProps["R26"] = append(impliedProps["R26"], "C14", "C17", "C18", "C03", "C04") // a leaf that aliases the caller's buffer does not keep its key as inserted
	// an encoding that is not an order isomorphism with exact round trip merges or misorders the
	// keys of every tree built on it
	impliedProps["R15"] = append(impliedProps["R15"], "C01", "C02")
	impliedProps["R48"] = append(impliedProps["R48"], "C17")
	// stored keys that are views of shared or foreign memory do not stay as inserted (C18), and
	// neither does a leaf whose slot is taken by another child (R37) or a node cleared only in part
	// before it is pooled (R24, above)
	impliedProps["R48"] = append(impliedProps["R48"], "C18", "C13")
	impliedProps["R37"] = append(impliedProps["R37"], "C18")
	// references left in a pooled node keep what they point to alive in the node's next life: the
	// memory a tree holds then follows the history of the pool, not its content
	impliedProps["R24"] = append(impliedProps["R24"], "C17")
	impliedProps["R49"] = append(impliedProps["R49"], "C12", "C14", "C16")
	impliedProps["R50"] = append(impliedProps["R50"], "C11", "C17", "C05", "C12", "C01", "C03", "C08", "C09") // a dead node left behind: an emptied tree is not like a new one
	impliedProps["R11"] = append(impliedProps["R11"], "C09", "C08", "C02", "C04")                             // the worklists are shared by every tree kind
	impliedProps["R51"] = append(impliedProps["R51"], "C06", "C01", "C11", "C15")
	impliedProps["R52"] = append(impliedProps["R52"], "C04", "C08")
	impliedProps["R54"] = append(impliedProps["R54"], "C03", "C09")
	impliedProps["R32"] = append(impliedProps["R32"], "C01", "C02", "C07") // a value read through a pointer of another width or layout: keys and values handed back are not the stored ones
	impliedProps["R20"] = append(impliedProps["R20"], "C15", "C06")        // the lane search of the 16-class matching beyond the fill count: Delete of an absent key removes a live child
	impliedProps["R55"] = append(impliedProps["R55"], "C16", "C12", "C11", "C01", "C18", "C08")
	// a stored key that aliases the caller's buffer changes under the tree: pairs vanish from
	// lookups and iteration
	impliedProps["R26"] = append(impliedProps["R26"], "C01", "C02", "C03", "C04")
	// state that a query writes into the tree makes every later answer depend on the history
	impliedProps["R25"] = append(impliedProps["R25"], "C04", "C14", "C02", "C03")
	// a success without the full-key comparison removes or overwrites another key: the index no
	// longer matches its key set, the size no longer the number of keys
	impliedProps["R02"] = append(impliedProps["R02"], "C11", "C06")
	// a fan-out counter that no longer follows the removals keeps the shrink thresholds from firing
	impliedProps["R41"] = append(impliedProps["R41"], "C17")
	impliedProps["R29"] = append(impliedProps["R29"], "C08")
	// Insert decides between "overwrite the value" and "link a leaf and count it" by comparing the
	// new key with the stored one: bytes built differently from the stored ones (R08), a leaf field
	// that does not hold what getKey() is compared with (R16), or stored bytes the caller can still
	// change (R26) make a present key count twice – Size() drifts from the number of pairs
	impliedProps["R08"] = append(impliedProps["R08"], "C06")
	// compound keys are concatenations of the library's fixed-width numeric encodings: an encoding
	// that is not an order isomorphism misorders the tuples (C09)
	impliedProps["R15"] = append(impliedProps["R15"], "C09")
	// Minimum/Maximum/TopK/BottomK hand the stored key back through Restore: a decoding that does
	// not invert the encoding reports a key that is not the stored extreme
	impliedProps["R15"] = append(impliedProps["R15"], "C05")
	// the hand-written copy and the template disagree on how Insert or Delete place, split or
	// unlink: one of the two leaves a key where its bytes do not lead (C11)
	impliedProps["R36"] = append(impliedProps["R36"], "C11")
	// a fan-out that no longer follows the real number of children keeps the shrink and collapse
	// thresholds from firing: a tree emptied by deletions keeps inner nodes a new tree does not have
	for _, r := range []string{"R21", "R41", "R43"} {
		impliedProps[r] = append(impliedProps[r], "C12")
	}
	// a node that changes its size class through a copy of its slot is not the node the tree
	// reaches afterwards: the slot still shows the old, cleared node, and probing it finds nothing
	impliedProps["R55"] = append(impliedProps["R55"], "C10")
	// … its siblings vanish from iteration while the size still counts them
	impliedProps["R55"] = append(impliedProps["R55"], "C06", "C02")
	// a write through a key argument reaches a stored key when the argument is a slice of a key the
	// tree handed out: the leaf is then no longer on the path its bytes determine
	impliedProps["R26"] = append(impliedProps["R26"], "C11")
	// a lookup that accepts a slot beyond the fill count follows a reference into a node that has
	// gone back to the pool – and since then belongs to another tree
	impliedProps["R19"] = append(impliedProps["R19"], "C12")
	// the copies disagree on how the last leaf is unlinked: one of them leaves an emptied tree that
	// is not like a new one
	impliedProps["R36"] = append(impliedProps["R36"], "C12")
	// a conversion loop that stops short of the last table entry drops the child under 0xFF: its
	// keys and values are no longer reachable although they were never deleted (C18)
	impliedProps["R10"] = append(impliedProps["R10"], "C18")
	impliedProps["R21"] = append(impliedProps["R21"], "C18")
	impliedProps["R09"] = append(impliedProps["R09"], "C12")
	// the wrapped counter of a full node of the widest class
	impliedProps["R56"] = append(impliedProps["R56"], "C15", "C06", "C01", "C05", "C10", "C11", "C12", "C17")
	impliedProps["R16"] = append(impliedProps["R16"], "C06")
	impliedProps["R26"] = append(impliedProps["R26"], "C06")
	// … and lets a later Delete or Insert act on another key than the one it is given: the no-op
	// half of C15 (a Delete of an absent key removes a stored one)
	impliedProps["R26"] = append(impliedProps["R26"], "C15")
	for r, ps := range impliedProps {
		for _, p := range ps {
			spec := propTable[p]
			if spec == nil {
				continue
			}
			has := false
			for _, x := range spec.Rules {
				if x == r {
					has = true
				}
			}
			if !has {
				spec.Rules = append(spec.Rules, r)
				impliedFor[p] = append(impliedFor[p], r)
			}
		}
	}
	for p, rs := range impliedFor {
		sort.Strings(rs)
		propTable[p].Explain += " By implication the check also runs " + strings.Join(rs, ", ") + " (rules of the shared node layer, the traversals and the descent loops, stated under the properties they were designed for): a child lost, misplaced or miscounted there, or a faulting lookup, breaks this property as well."
	}
}

var impliedFor = map[string][]string{}

// impliedProps: rule → properties its obligations are attributed to in addition to those the rule
// names itself.
var impliedProps = map[string][]string{}
