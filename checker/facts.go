package main

// E2 – forward must-dataflow over go/cfg blocks. Facts are kept raw (as written in the
// source); aliases are applied when facts are compared.

import (
	"fmt"
	"go/ast"
	"go/constant"
	"go/token"
	"go/types"
	"os"
	"sort"
	"strings"

	"golang.org/x/tools/go/cfg"
)

type FactKind int

const (
	FLin   FactKind = iota // Lin ≤ 0
	FEq                    // (L == R) is Val
	FCond                  // boolean expression Cond is Val
	FAlias                 // variable L currently equals expression R
	FFresh                 // slice variable L refers to memory allocated by the library itself (not to caller memory)
)

type Fact struct {
	Kind   FactKind
	Lin    Lin
	L, R   ast.Expr
	Cond   ast.Expr
	Val    bool
	objs   map[*types.Var]bool
	derefs map[*types.Var]bool
	fields map[*types.Var]bool // struct fields the fact reads (type-based alias analysis)
	opaque bool                // reads memory in a way not described by fields (calls, *p of non-struct, slices)
	raw    string
	Origin string
}

func (f *Fact) String() string {
	switch f.Kind {
	case FLin:
		return f.Lin.String()
	case FAlias:
		return display(f.raw)
	}
	return display(f.raw)
}

type FactSet struct {
	fl *Flow
	m  map[string]*Fact
}

func (fs *FactSet) clone() *FactSet {
	n := &FactSet{fl: fs.fl, m: make(map[string]*Fact, len(fs.m))}
	for k, v := range fs.m {
		n.m[k] = v
	}
	return n
}

func (fs *FactSet) add(f *Fact) {
	if f == nil {
		return
	}
	fs.m[f.raw] = f
}

func (fs *FactSet) killVar(v *types.Var) {
	for k, f := range fs.m {
		if f.objs[v] {
			delete(fs.m, k)
		}
	}
}

// killHeap removes every fact that reads memory through a pointer, slice, map or interface,
// and every fact about a variable whose address escaped.
func (fs *FactSet) killHeap() {
	for k, f := range fs.m {
		if len(f.derefs) > 0 {
			delete(fs.m, k)
			continue
		}
		for v := range f.objs {
			if fs.fl.escaped[v] {
				delete(fs.m, k)
				break
			}
		}
	}
}

// killField removes the facts that read struct field fld (or read memory opaquely): a store to
// one field of a struct cannot change what another field holds.
func (fs *FactSet) killField(fld *types.Var) {
	for k, f := range fs.m {
		if len(f.derefs) == 0 {
			continue
		}
		if f.opaque || f.fields[fld.Origin()] {
			delete(fs.m, k)
		}
	}
}

// killStructType removes facts reading any field of struct type t.
func (fs *FactSet) killStructType(t types.Type) {
	st, ok := t.Underlying().(*types.Struct)
	if !ok {
		fs.killHeap()
		return
	}
	flds := map[*types.Var]bool{}
	var collect func(st *types.Struct)
	collect = func(st *types.Struct) {
		for i := 0; i < st.NumFields(); i++ {
			flds[st.Field(i).Origin()] = true
			if es, ok := st.Field(i).Type().Underlying().(*types.Struct); ok && st.Field(i).Embedded() {
				collect(es)
			}
		}
	}
	collect(st)
	for k, f := range fs.m {
		if len(f.derefs) == 0 {
			continue
		}
		hit := f.opaque
		for fl := range f.fields {
			if flds[fl] {
				hit = true
			}
		}
		if hit {
			delete(fs.m, k)
		}
	}
}

// shiftVar rewrites linear facts for v := v + k and kills the others that mention v.
func (fs *FactSet) shiftVar(v *types.Var, k int64) {
	id := varID(v)
	var shifted []*Fact
	defer func() {
		for _, f := range shifted {
			fs.m[f.raw] = f
		}
	}()
	for _, key := range sortedKeys(fs.m) {
		f := fs.m[key]
		if !f.objs[v] {
			continue
		}
		delete(fs.m, key)
		if f.Kind != FLin {
			continue
		}
		c, ok := f.Lin.t[id]
		if !ok {
			continue // v occurs inside an opaque atom
		}
		opaque := false
		for a := range f.Lin.t {
			if a != id && strings.Contains(a, id) {
				opaque = true
			}
		}
		if opaque {
			continue
		}
		nl := f.Lin.clone()
		nl.c -= c * k // old = new - k
		nf := *f
		nf.Lin = nl
		nf.raw = "lin:" + nl.key()
		shifted = append(shifted, &nf)
	}
}

// aliasOf returns the live alias of v.
func (fs *FactSet) aliasOf(v *types.Var) (ast.Expr, bool) {
	for _, f := range fs.m {
		if f.Kind == FAlias {
			if id, ok := f.L.(*ast.Ident); ok && fs.fl.info.ObjectOf(id) == v {
				return f.R, true
			}
		}
	}
	return nil, false
}

// canon renders e with the live aliases of this set substituted.
func (fs *FactSet) canon(e ast.Expr) string {
	cc := &canonCtx{info: fs.fl.info, kindT: fs.fl.m.KindType, subst: fs.aliasOf}
	return cc.canon(e)
}

func (fs *FactSet) lins() []Lin {
	keys := make([]string, 0, len(fs.m))
	for k, f := range fs.m {
		if f.Kind == FLin {
			keys = append(keys, k)
		}
	}
	sort.Strings(keys)
	out := make([]Lin, 0, len(keys))
	for _, k := range keys {
		out = append(out, fs.m[k].Lin)
	}
	return out
}

// proveLE reports whether a ≤ b + k follows from the set.
func (fs *FactSet) proveLE(a, b ast.Expr, k int64) bool {
	la, ok1 := fs.fl.z.lin(a)
	lb, ok2 := fs.fl.z.lin(b)
	if !ok1 || !ok2 {
		return false
	}
	goal := la.add(lb, -1)
	goal.c -= k
	return entails(goal, fs.lins(), fs.fl.at)
}

func (fs *FactSet) proveLin(goal Lin) bool { return entails(goal, fs.lins(), fs.fl.at) }

// eqFacts calls fn for every equality fact with both sides rendered under this set.
func (fs *FactSet) eqFacts(fn func(l, r string, val bool, f *Fact)) {
	for _, k := range sortedKeys(fs.m) {
		f := fs.m[k]
		if f.Kind == FEq {
			fn(fs.canon(f.L), fs.canon(f.R), f.Val, f)
		}
	}
}

// tagOf summarises what the set knows about X.tag: the kind it equals (known) and the kinds
// it is known to differ from.
func (fs *FactSet) tagOf(x ast.Expr) (known *int64, excluded map[int64]bool) {
	excluded = map[int64]bool{}
	want := fs.canonTag(x)
	fs.eqFacts(func(l, r string, val bool, f *Fact) {
		var other string
		switch want {
		case l:
			other = r
		case r:
			other = l
		default:
			return
		}
		var k int64
		if n, err := fmt.Sscanf(other, "K%d", &k); n != 1 || err != nil {
			return
		}
		if val {
			kk := k
			known = &kk
		} else {
			excluded[k] = true
		}
	})
	return
}

func (fs *FactSet) canonTag(x ast.Expr) string {
	s := fs.canon(x)
	s = strings.TrimPrefix(s, "*")
	if strings.HasPrefix(s, "&") {
		s = s[1:]
	}
	return s + ".tag"
}

// nilness of an expression: +1 known non-nil, -1 known nil, 0 unknown.
func (fs *FactSet) nilness(x ast.Expr) int {
	want := fs.canon(x)
	res := 0
	fs.eqFacts(func(l, r string, val bool, f *Fact) {
		if (l == want && r == "nil") || (r == want && l == "nil") {
			if val {
				res = -1
			} else {
				res = 1
			}
		}
	})
	return res
}

// condFacts calls fn for every boolean-condition fact.
func (fs *FactSet) condFacts(fn func(cond ast.Expr, val bool)) {
	for _, k := range sortedKeys(fs.m) {
		f := fs.m[k]
		if f.Kind == FCond {
			fn(f.Cond, f.Val)
		}
	}
}

func (fs *FactSet) describe() []string {
	var out []string
	for _, k := range sortedKeys(fs.m) {
		out = append(out, fs.m[k].String())
	}
	return out
}

// ---------------------------------------------------------------------------------------------

type Flow struct {
	u         *FuncUnit
	m         *Model
	ef        *effects
	info      *types.Info
	g         *cfg.CFG
	in        []*FactSet
	at        *atomTable
	z         *linearizer
	raw       *canonCtx
	escaped   map[*types.Var]bool // address taken, or assigned inside a nested literal
	rebound   map[*types.Var]bool // the variable itself is assigned inside a nested literal, or its address is taken
	fresh     map[*types.Var]bool // local pointers that only ever hold a newly obtained object
	caseTag   map[ast.Expr]ast.Expr
	entry     []*Fact
	ok        bool // fixpoint reached
	iters     int
	retBnd    func(call *ast.CallExpr) []retBound
	resFresh  func(call *ast.CallExpr) []bool  // per result: freshly allocated by the callee
	synthSel  map[*ast.SelectorExpr]*types.Var // field selections synthesised by literalFieldsInto
	preserves func(call *ast.CallExpr) bool    // callee keeps inner references inner (engine summary)
}

// retBound says: result ≤ len(arg[Arg]) - (Minus >= 0 ? arg[Minus] : 0).
type retBound struct{ Arg int }

func mayReturn(info *types.Info) func(*ast.CallExpr) bool {
	return func(c *ast.CallExpr) bool {
		if id, ok := ast.Unparen(c.Fun).(*ast.Ident); ok && id.Name == "panic" {
			if _, isB := info.Uses[id].(*types.Builtin); isB {
				return false
			}
		}
		if sel, ok := ast.Unparen(c.Fun).(*ast.SelectorExpr); ok {
			if id, ok := sel.X.(*ast.Ident); ok && (id.Name == "log" && (sel.Sel.Name == "Fatal" || sel.Sel.Name == "Fatalf")) {
				return false
			}
			if id, ok := sel.X.(*ast.Ident); ok && id.Name == "os" && sel.Sel.Name == "Exit" {
				return false
			}
		}
		return true
	}
}

func (m *Model) cfgOf(u *FuncUnit) *cfg.CFG {
	if u.cfg == nil {
		u.cfg = cfg.New(u.Body, mayReturn(m.Info))
	}
	return u.cfg
}

func newFlow(m *Model, ef *effects, u *FuncUnit, entry func(fl *Flow) []*Fact, retBnd func(call *ast.CallExpr) []retBound, resFresh func(call *ast.CallExpr) []bool) *Flow {
	fl := &Flow{u: u, m: m, ef: ef, info: m.Info, g: m.cfgOf(u), at: newAtomTable(),
		escaped: map[*types.Var]bool{}, rebound: map[*types.Var]bool{}, fresh: map[*types.Var]bool{}, caseTag: map[ast.Expr]ast.Expr{}, retBnd: retBnd, resFresh: resFresh}
	fl.raw = &canonCtx{info: m.Info, kindT: m.KindType}
	fl.z = &linearizer{info: m.Info, cc: fl.raw, at: fl.at}
	// escaped variables and switch tags
	var scan func(n ast.Node, inLit bool)
	scan = func(n ast.Node, inLit bool) {
		ast.Inspect(n, func(x ast.Node) bool {
			switch y := x.(type) {
			case *ast.FuncLit:
				if x != ast.Node(u.Lit) {
					scan(y.Body, true)
					return false
				}
			case *ast.UnaryExpr:
				if y.Op == token.AND {
					if v, through := rootVar(m.Info, y.X); v != nil && !through {
						fl.escaped[v] = true
						fl.rebound[v] = true
					}
				}
			case *ast.AssignStmt:
				if inLit {
					for _, l := range y.Lhs {
						if v, through := rootVar(m.Info, l); v != nil {
							fl.escaped[v] = true
							if !through {
								fl.rebound[v] = true // the variable itself is given another value by a closure
							}
						}
					}
				}
			case *ast.IncDecStmt:
				if inLit {
					if v, _ := rootVar(m.Info, y.X); v != nil {
						fl.escaped[v] = true
					}
				}
			case *ast.SwitchStmt:
				if y.Tag != nil {
					for _, c := range y.Body.List {
						for _, e := range c.(*ast.CaseClause).List {
							fl.caseTag[e] = y.Tag
						}
					}
				}
			}
			return true
		})
	}
	scan(u.Body, false)
	fl.findFresh()
	if preFlowHook != nil {
		preFlowHook(fl)
	}
	// a method value x.m with pointer receiver on an addressable value takes &x implicitly;
	// calls are handled at the call site (see applyCalls).
	if entry != nil {
		fl.entry = entry(fl)
	}
	fl.run()
	return fl
}

// isFreshExpr: new(T), &T{…}, <pool>.Get().(*T), or a call of a library helper whose every
// return is one of those (acquireNode4()).
func isFreshExpr(m *Model, e ast.Expr) bool { return isFreshExprDepth(m, e, 0) }

func isFreshExprDepth(m *Model, e ast.Expr, depth int) bool {
	info := m.Info
	switch x := ast.Unparen(e).(type) {
	case *ast.UnaryExpr:
		if x.Op == token.AND {
			_, ok := ast.Unparen(x.X).(*ast.CompositeLit)
			return ok
		}
	case *ast.CallExpr:
		if isBuiltinCall(info, x, "new") {
			return true
		}
		if depth < 3 && !isConversion(info, x) {
			if cu := m.calleeUnit(x); cu != nil {
				rets, all := returnExprs(cu)
				if !all {
					return false
				}
				for _, r := range rets {
					if !isFreshExprDepth(m, m.throughLocals(cu, r), depth+1) {
						return false
					}
				}
				return true
			}
		}
	case *ast.TypeAssertExpr:
		if c, ok := ast.Unparen(x.X).(*ast.CallExpr); ok {
			if sel, ok := ast.Unparen(c.Fun).(*ast.SelectorExpr); ok && sel.Sel.Name == "Get" {
				if t := info.TypeOf(sel.X); t != nil && strings.HasSuffix(t.String(), "sync.Pool") {
					return true
				}
			}
		}
	}
	return false
}

func (fl *Flow) findFresh() {
	defs := map[*types.Var]int{}
	freshDef := map[*types.Var]bool{}
	ast.Inspect(fl.u.Body, func(n ast.Node) bool {
		switch x := n.(type) {
		case *ast.AssignStmt:
			for i, l := range x.Lhs {
				id, ok := ast.Unparen(l).(*ast.Ident)
				if !ok {
					continue
				}
				v, _ := fl.info.ObjectOf(id).(*types.Var)
				if v == nil {
					continue
				}
				defs[v]++
				if len(x.Lhs) == len(x.Rhs) && isFreshExpr(fl.m, x.Rhs[i]) {
					freshDef[v] = true
				}
			}
		case *ast.IncDecStmt:
			if id, ok := ast.Unparen(x.X).(*ast.Ident); ok {
				if v, _ := fl.info.ObjectOf(id).(*types.Var); v != nil {
					defs[v] += 2
				}
			}
		}
		return true
	})
	for v := range freshDef {
		if defs[v] == 1 && !fl.escaped[v] {
			fl.fresh[v] = true
		}
	}
}

func (fl *Flow) newSet() *FactSet { return &FactSet{fl: fl, m: map[string]*Fact{}} }

func (fl *Flow) mkFact(f *Fact, exprs ...ast.Expr) *Fact {
	f.objs, f.derefs, f.fields = map[*types.Var]bool{}, map[*types.Var]bool{}, map[*types.Var]bool{}
	for _, e := range exprs {
		ast.Inspect(e, func(n ast.Node) bool {
			switch x := n.(type) {
			case *ast.SelectorExpr:
				if fv := fl.synthSel[x]; fv != nil {
					f.fields[fv.Origin()] = true
				}
				if s := fl.info.Selections[x]; s != nil && s.Kind() == types.FieldVal {
					if fv, ok := s.Obj().(*types.Var); ok {
						f.fields[fv.Origin()] = true
					}
					// promoted fields pass through the embedded field as well
					if len(s.Index()) > 1 {
						f.opaque = true
					}
				}
			case *ast.StarExpr:
				f.opaque = true
			case *ast.CallExpr:
				if !isConversion(fl.info, x) && !isBuiltinCall(fl.info, x, "len") && !isBuiltinCall(fl.info, x, "cap") && !isBuiltinCall(fl.info, x, "min") && !isBuiltinCall(fl.info, x, "max") {
					f.opaque = true
				}
			case *ast.IndexExpr:
				if t := fl.info.TypeOf(x.X); t != nil {
					if _, isSlice := t.Underlying().(*types.Slice); isSlice {
						f.opaque = true
					}
				}
			}
			return true
		})
		o, d := varsOf(fl.info, e)
		for v := range o {
			f.objs[v] = true
		}
		for v := range d {
			f.derefs[v] = true
		}
	}
	return f
}

func (fl *Flow) linFact(l Lin, origin string, exprs ...ast.Expr) *Fact {
	f := fl.mkFact(&Fact{Kind: FLin, Lin: l, Origin: origin}, exprs...)
	f.raw = "lin:" + l.key()
	return f
}

// condInto adds the facts implied by cond evaluating to val.
// predicateExpander reads a call of a one-line boolean helper (ref.isLeaf(), sortsBefore(a, b)) as
// the expression it returns; set when the rule context is built (specialise.go).
var predicateExpander func(ast.Expr) ast.Expr

func (fl *Flow) condInto(fs *FactSet, cond ast.Expr, val bool) {
	cond = ast.Unparen(cond)
	if call, isCall := cond.(*ast.CallExpr); isCall && predicateExpander != nil {
		if ex := predicateExpander(call); ex != ast.Expr(call) {
			fl.condInto(fs, ex, val)
			return
		}
	}
	origin := fl.m.pos(cond.Pos())
	switch x := cond.(type) {
	case *ast.Ident:
		// a named boolean (keyExhausted := depth >= len(keyS)): while the alias fact is alive the
		// variables of its definition are unchanged, so its outcome is the outcome of the definition
		if v, _ := fl.info.ObjectOf(x).(*types.Var); v != nil {
			if def, ok := fs.aliasOf(v); ok {
				if _, isIdent := ast.Unparen(def).(*ast.Ident); !isIdent {
					fl.condInto(fs, def, val)
				}
			}
		}
	case *ast.UnaryExpr:
		if x.Op == token.NOT {
			fl.condInto(fs, x.X, !val)
			return
		}
	case *ast.BinaryExpr:
		switch x.Op {
		case token.LAND:
			if val {
				fl.condInto(fs, x.X, true)
				fl.condInto(fs, x.Y, true)
			} else {
				// ¬(A ∧ B): kept as a fact of its own; once one conjunct is known to hold the
				// other is known to fail (resolveDisjunctions)
				f := fl.mkFact(&Fact{Kind: FCond, Cond: cond, Val: false, Origin: origin}, cond)
				f.raw = fmt.Sprintf("cond:%s=%v", fl.raw.canon(cond), false)
				fs.add(f)
			}
			return
		case token.LOR:
			if !val {
				fl.condInto(fs, x.X, false)
				fl.condInto(fs, x.Y, false)
			}
			return
		case token.EQL, token.NEQ, token.LSS, token.LEQ, token.GTR, token.GEQ:
			fl.cmpInto(fs, x.X, x.Op, x.Y, val, origin)
			return
		}
	}
	f := fl.mkFact(&Fact{Kind: FCond, Cond: cond, Val: val, Origin: origin}, cond)
	f.raw = fmt.Sprintf("cond:%s=%v", fl.raw.canon(cond), val)
	fs.add(f)
}

func (fl *Flow) cmpInto(fs *FactSet, a ast.Expr, op token.Token, b ast.Expr, val bool, origin string) {
	if !val { // negate the operator
		switch op {
		case token.EQL:
			op = token.NEQ
		case token.NEQ:
			op = token.EQL
		case token.LSS:
			op = token.GEQ
		case token.LEQ:
			op = token.GTR
		case token.GTR:
			op = token.LEQ
		case token.GEQ:
			op = token.LSS
		}
	}
	if op == token.EQL || op == token.NEQ {
		f := fl.mkFact(&Fact{Kind: FEq, L: a, R: b, Val: op == token.EQL, Origin: origin}, a, b)
		f.raw = fmt.Sprintf("eq:%s|%s=%v", fl.raw.canon(a), fl.raw.canon(b), f.Val)
		fs.add(f)
		// tag == K also as the weaker tag != K' for every other kind: these survive the join of the
		// edges of `case K1, K2:` (where neither equality does)
		if op == token.EQL && fl.m.KindType != nil {
			x, k := a, b
			if tv, ok := fl.info.Types[a]; ok && tv.Value != nil {
				x, k = b, a
			}
			if tv, ok := fl.info.Types[k]; ok && tv.Value != nil && tv.Type != nil && types.Identical(tv.Type, fl.m.KindType) {
				if kv, exact := constant.Int64Val(tv.Value); exact {
					for val, ke := range fl.m.kindConstExprs() {
						if val == kv {
							continue
						}
						g := fl.mkFact(&Fact{Kind: FEq, L: x, R: ke, Val: false, Origin: origin}, x, ke)
						g.raw = fmt.Sprintf("eq:%s|%s=%v", fl.raw.canon(x), fl.raw.canon(ke), false)
						fs.add(g)
					}
				}
			}
		}
	}
	la, ok1 := fl.z.lin(a)
	lb, ok2 := fl.z.lin(b)
	if !ok1 || !ok2 {
		return
	}
	d := la.add(lb, -1) // a - b
	addLE := func(l Lin) { fs.add(fl.linFact(l, origin, a, b)) }
	switch op {
	case token.LSS: // a - b + 1 ≤ 0
		l := d.clone()
		l.c++
		addLE(l)
	case token.LEQ:
		addLE(d)
	case token.GTR: // b - a + 1 ≤ 0
		l := d.scale(-1)
		l.c++
		addLE(l)
	case token.GEQ:
		addLE(d.scale(-1))
	case token.EQL:
		addLE(d)
		addLE(d.scale(-1))
	case token.NEQ:
		// x != 0 with x non-negative by its type (unsigned, len): x ≥ 1
		if lb.isConst() && lb.c == 0 && fl.z.nonNeg(la) {
			l := la.scale(-1)
			l.c++
			addLE(l) // 1 - a ≤ 0
		} else if la.isConst() && la.c == 0 && fl.z.nonNeg(lb) {
			l := lb.scale(-1)
			l.c++
			addLE(l)
		}
	}
}

// defineInto records v := e (after the kill of v).
func (fl *Flow) defineInto(fs *FactSet, id *ast.Ident, e ast.Expr) {
	v, _ := fl.info.ObjectOf(id).(*types.Var)
	if v == nil || fl.escaped[v] || id.Name == "_" {
		return
	}
	objs, _ := varsOf(fl.info, e)
	if objs[v] {
		return // refers to its own old value
	}
	origin := fl.m.pos(id.Pos())
	// a reference copied into a variable: what is known of the source (not a leaf, of kind K, not
	// empty) is recorded for the variable itself, so that it survives a join with a path on which
	// the variable was copied from somewhere else (cursor = root before the loop, = *child in it)
	var carry []func()
	if nn := namedOf(v.Type()); nn != nil && fl.m.NodeRef != nil && nn.Obj() == fl.m.NodeRef.Obj() && fl.pureExpr(e) {
		if _, isPtr := v.Type().Underlying().(*types.Pointer); !isPtr {
			known, excl := fs.tagOf(e)
			nilness := fs.nilnessOfField(e, "pointer")
			lc := fl.m.leafConstExpr()
			tagFld, ptrFld := fieldNamed(fl.m.NodeRef, "tag"), fieldNamed(fl.m.NodeRef, "pointer")
			mkSel := func(name string, fld *types.Var) *ast.SelectorExpr {
				sel := &ast.SelectorExpr{X: id, Sel: ast.NewIdent(name)}
				if fl.synthSel == nil {
					fl.synthSel = map[*ast.SelectorExpr]*types.Var{}
				}
				fl.synthSel[sel] = fld
				return sel
			}
			if lc != nil && tagFld != nil {
				if known != nil && *known == fl.m.LeafKind.Value {
					carry = append(carry, func() { fl.cmpInto(fs, mkSel("tag", tagFld), token.EQL, lc, true, origin) })
				} else if (known != nil && *known != fl.m.LeafKind.Value) || excl[fl.m.LeafKind.Value] {
					carry = append(carry, func() { fl.cmpInto(fs, mkSel("tag", tagFld), token.NEQ, lc, true, origin) })
				}
			}
			if ptrFld != nil && nilness != 0 {
				nilID := ast.NewIdent("nil")
				op := token.NEQ
				if nilness == -1 {
					op = token.EQL
				}
				carry = append(carry, func() { fl.cmpInto(fs, mkSel("pointer", ptrFld), op, nilID, true, origin) })
			}
		}
	}
	defer func() {
		for _, f := range carry {
			f()
		}
	}()
	// b := make([]T, n): len(b) == n
	if call, ok := ast.Unparen(e).(*ast.CallExpr); ok && isBuiltinCall(fl.info, call, "make") && len(call.Args) >= 2 {
		if _, isSlice := v.Type().Underlying().(*types.Slice); isSlice {
			if ln, ok := fl.z.lin(call.Args[1]); ok {
				atom := "len(" + fl.raw.canon(id) + ")"
				fl.at.addSide(atom, linAtom(atom).scale(-1))
				fs.add(fl.linFact(linAtom(atom).add(ln, -1), origin+" (make)", id, call.Args[1]))
				fs.add(fl.linFact(ln.add(linAtom(atom), -1), origin+" (make)", id, call.Args[1]))
			}
		}
	}
	if fl.pureExpr(e) {
		f := fl.mkFact(&Fact{Kind: FAlias, L: id, R: e, Origin: origin}, id, e)
		f.raw = fmt.Sprintf("alias:%s=%s", varID(v), fl.raw.canon(e))
		fs.add(f)
	}
	if isIntType(v.Type()) {
		// v := min(a, f(), …): v ≤ every pure operand, whatever the others are (max: v ≥ …)
		if mc, ok := ast.Unparen(e).(*ast.CallExpr); ok && (isBuiltinCall(fl.info, mc, "min") || isBuiltinCall(fl.info, mc, "max")) && !fl.pureExpr(e) {
			isMin := isBuiltinCall(fl.info, mc, "min")
			for _, a := range mc.Args {
				if !fl.pureExpr(a) {
					continue
				}
				if la, ok := fl.z.lin(a); ok {
					lv := linAtom(varID(v))
					if isMin {
						fs.add(fl.linFact(lv.add(la, -1), origin, id, a)) // v - a ≤ 0
					} else {
						fs.add(fl.linFact(la.add(lv, -1), origin, id, a))
					}
				}
			}
		}
		if le, ok := fl.z.lin(e); ok && fl.pureExpr(e) {
			lv := linAtom(varID(v))
			fs.add(fl.linFact(lv.add(le, -1), origin, id, e))
			fs.add(fl.linFact(le.add(lv, -1), origin, id, e))
		} else if call, ok := ast.Unparen(e).(*ast.CallExpr); ok && fl.retBnd != nil {
			for _, rb := range fl.retBnd(call) {
				if rb.Arg < len(call.Args) {
					atom := "len(" + fl.raw.canon(call.Args[rb.Arg]) + ")"
					fl.at.addSide(atom, linAtom(atom).scale(-1))
					fs.add(fl.linFact(linAtom(varID(v)).add(linAtom(atom), -1), origin+" (result bound of callee)", id, call.Args[rb.Arg]))
				}
			}
		}
	}
}

// pureExpr: no calls except conversions and len/cap/min/max.
func (fl *Flow) pureExpr(e ast.Expr) bool {
	pure := true
	ast.Inspect(e, func(n ast.Node) bool {
		switch x := n.(type) {
		case *ast.FuncLit:
			pure = false
			return false
		case *ast.CallExpr:
			if isConversion(fl.info, x) {
				return true
			}
			for _, b := range []string{"len", "cap", "min", "max"} {
				if isBuiltinCall(fl.info, x, b) {
					return true
				}
			}
			pure = false
		case *ast.UnaryExpr:
			if x.Op == token.ARROW {
				pure = false
			}
		}
		return pure
	})
	return pure
}

// applyNode applies the effect of one CFG node to the set.
func (fl *Flow) applyNode(fs *FactSet, n ast.Node) {
	// calls anywhere in the node
	fl.applyCalls(fs, n)
	switch x := n.(type) {
	case *ast.AssignStmt:
		fl.applyAssign(fs, x)
	case *ast.IncDecStmt:
		if id, ok := ast.Unparen(x.X).(*ast.Ident); ok {
			if v, _ := fl.info.ObjectOf(id).(*types.Var); v != nil {
				k := int64(1)
				if x.Tok == token.DEC {
					k = -1
				}
				fs.shiftVar(v, k)
			}
		} else {
			fl.applyStore(fs, x.X)
		}
	case *ast.DeclStmt, *ast.ValueSpec:
		// go/cfg adds each var ValueSpec of a declaration as a node of its own
		var specs []ast.Spec
		if ds, ok := x.(*ast.DeclStmt); ok {
			if gd, ok := ds.Decl.(*ast.GenDecl); ok && gd.Tok == token.VAR {
				specs = gd.Specs
			}
		} else {
			specs = []ast.Spec{x.(*ast.ValueSpec)}
		}
		{
			for _, sp := range specs {
				vs, ok := sp.(*ast.ValueSpec)
				if !ok {
					continue
				}
				for i, nm := range vs.Names {
					if v, _ := fl.info.ObjectOf(nm).(*types.Var); v != nil {
						fs.killVar(v)
						if len(vs.Values) == len(vs.Names) {
							fl.defineInto(fs, nm, vs.Values[i])
							if fl.freshExpr(vs.Values[i], fs, 0) {
								fl.addFresh(fs, nm)
							}
						} else if _, isSlice := v.Type().Underlying().(*types.Slice); isSlice && len(vs.Values) == 0 {
							fl.addFresh(fs, nm) // nil slice: appending to it allocates
						} else if len(vs.Values) == 0 && isIntType(v.Type()) && !fl.escaped[v] {
							lv := linAtom(varID(v))
							fs.add(fl.linFact(lv, fl.m.pos(nm.Pos()), nm))
							fs.add(fl.linFact(lv.scale(-1), fl.m.pos(nm.Pos()), nm))
						}
					}
				}
			}
		}
	}
}

func (fl *Flow) applyAssign(fs *FactSet, x *ast.AssignStmt) {
	// compound assignment
	if x.Tok != token.ASSIGN && x.Tok != token.DEFINE {
		if id, ok := ast.Unparen(x.Lhs[0]).(*ast.Ident); ok {
			if v, _ := fl.info.ObjectOf(id).(*types.Var); v != nil {
				if tv, ok := fl.info.Types[x.Rhs[0]]; ok && tv.Value != nil && (x.Tok == token.ADD_ASSIGN || x.Tok == token.SUB_ASSIGN) {
					if le, ok := fl.z.lin(x.Rhs[0]); ok && le.isConst() {
						k := le.c
						if x.Tok == token.SUB_ASSIGN {
							k = -k
						}
						fs.shiftVar(v, k)
						return
					}
				}
				fs.killVar(v)
			}
			return
		}
		fl.applyStore(fs, x.Lhs[0])
		return
	}
	// freshness of the right-hand sides, evaluated before the assigned variables are killed
	freshR := make([]bool, len(x.Lhs))
	for i := range x.Lhs {
		if len(x.Lhs) == len(x.Rhs) {
			freshR[i] = fl.freshExpr(x.Rhs[i], fs, 0)
		} else if len(x.Rhs) == 1 {
			freshR[i] = fl.freshExpr(x.Rhs[0], fs, i)
		}
	}
	defer func() {
		for i, l := range x.Lhs {
			if id, ok := ast.Unparen(l).(*ast.Ident); ok && id.Name != "_" && freshR[i] {
				fl.addFresh(fs, id)
			}
		}
	}()
	var idents []*ast.Ident
	for _, l := range x.Lhs {
		if id, ok := ast.Unparen(l).(*ast.Ident); ok {
			if id.Name == "_" {
				idents = append(idents, nil)
				continue
			}
			if v, _ := fl.info.ObjectOf(id).(*types.Var); v != nil {
				fs.killVar(v)
			}
			idents = append(idents, id)
		} else {
			idents = append(idents, nil)
			fl.applyStore(fs, l)
		}
	}
	// a struct literal stored through a pointer or into a field: its constant fields are known
	// afterwards (*ref = nodeRef{pointer: p, tag: nodeKind4}  ⇒  ref.tag == nodeKind4)
	if len(x.Lhs) == len(x.Rhs) && x.Tok == token.ASSIGN {
		for i, l := range x.Lhs {
			if _, isId := ast.Unparen(l).(*ast.Ident); isId {
				continue
			}
			fl.literalFieldsInto(fs, l, x.Rhs[i])
		}
	}
	if len(x.Lhs) == len(x.Rhs) {
		// parallel assignment: only safe to record when no RHS mentions an assigned variable
		assigned := map[*types.Var]bool{}
		for _, id := range idents {
			if id != nil {
				if v, _ := fl.info.ObjectOf(id).(*types.Var); v != nil {
					assigned[v] = true
				}
			}
		}
		for i, id := range idents {
			if id == nil {
				continue
			}
			objs, _ := varsOf(fl.info, x.Rhs[i])
			clash := false
			for v := range objs {
				if assigned[v] {
					clash = true
				}
			}
			if !clash || len(idents) == 1 {
				fl.defineInto(fs, id, x.Rhs[i])
			}
		}
	}
}

// literalFieldsInto records lhs.f == c for every constant field c of a struct literal stored into
// lhs – written in place or returned by the only return statement of a helper.
func (fl *Flow) literalFieldsInto(fs *FactSet, lhs, rhs ast.Expr) {
	rhs = ast.Unparen(rhs)
	if call, ok := rhs.(*ast.CallExpr); ok && !isConversion(fl.info, call) {
		if cu := fl.m.calleeUnit(call); cu != nil {
			if r := simpleReturn(cu); r != nil {
				rhs = ast.Unparen(r)
			} else if rs, ok := returnExprs(cu); ok && len(rs) == 1 {
				// a helper that builds the value and returns it at one place (n4.grow()): only the
				// constant fields of the literal are used below, and they do not depend on what
				// the helper did before
				rhs = ast.Unparen(rs[0])
			}
		}
	}
	cl, ok := rhs.(*ast.CompositeLit)
	if !ok {
		return
	}
	t := fl.info.TypeOf(cl)
	if t == nil {
		return
	}
	st, ok := t.Underlying().(*types.Struct)
	if !ok {
		return
	}
	if v, through := rootVar(fl.info, lhs); v == nil || (!through && fl.escaped[v]) {
		return
	}
	for i, el := range cl.Elts {
		name := ""
		val := el
		if kv, isKV := el.(*ast.KeyValueExpr); isKV {
			if id, isId := kv.Key.(*ast.Ident); isId {
				name = id.Name
			}
			val = kv.Value
		} else if i < st.NumFields() {
			name = st.Field(i).Name()
		}
		tv, has := fl.info.Types[val]
		if name == "" || !has {
			continue
		}
		if tv.Value == nil {
			// tag: kind with kind a variable of the kind type (a parameter of a publishing helper):
			// the equality itself is recorded, what the variable holds is the callers' business
			vid, isId := ast.Unparen(val).(*ast.Ident)
			if !isId || fl.m.KindType == nil || tv.Type == nil || !types.Identical(tv.Type, fl.m.KindType) {
				continue
			}
			if _, isVar := fl.info.ObjectOf(vid).(*types.Var); !isVar {
				continue
			}
		}
		base := lhs
		if se, isStar := ast.Unparen(lhs).(*ast.StarExpr); isStar {
			base = se.X // ref.tag reads the same memory as (*ref).tag
		}
		var fld *types.Var
		for k := 0; k < st.NumFields(); k++ {
			if st.Field(k).Name() == name {
				fld = st.Field(k)
			}
		}
		if fld == nil {
			continue
		}
		sel := &ast.SelectorExpr{X: base, Sel: ast.NewIdent(name)}
		if fl.synthSel == nil {
			fl.synthSel = map[*ast.SelectorExpr]*types.Var{}
		}
		fl.synthSel[sel] = fld
		fl.cmpInto(fs, sel, token.EQL, val, true, fl.m.pos(cl.Pos()))
		if tv.Value == nil {
			continue
		}
		// tag == <inner kind> also as the weaker tag != leaf, which survives a join with a path on
		// which the node changed size class
		if fl.m.KindType != nil && types.Identical(tv.Type, fl.m.KindType) {
			if k, exact := constant.Int64Val(tv.Value); exact && k != fl.m.LeafKind.Value {
				if lc := fl.m.leafConstExpr(); lc != nil {
					fl.cmpInto(fs, sel, token.NEQ, lc, true, fl.m.pos(cl.Pos()))
				}
			}
		}
	}
}

// applyStore handles a store to a non-identifier location.
func (fl *Flow) applyStore(fs *FactSet, lhs ast.Expr) {
	// a local that holds a copy of the reference being overwritten (n := *ref … *ref = X) keeps
	// what was known about the old content: "not a leaf" is carried over to the copy before the
	// alias is forgotten
	var carry, carryNonNil []*ast.Ident
	if t := fl.info.TypeOf(lhs); t != nil && fl.m.NodeRef != nil && types.Identical(t, fl.m.NodeRef) {
		want := fs.canon(lhs)
		leafV := fl.m.LeafKind.Value
		for _, f := range fs.m {
			if f.Kind != FAlias {
				continue
			}
			id, ok := ast.Unparen(f.L).(*ast.Ident)
			if !ok {
				continue
			}
			cv, _ := fl.info.ObjectOf(id).(*types.Var)
			if cv == nil || fl.escaped[cv] || !types.Identical(cv.Type(), fl.m.NodeRef) || fs.canon(id) != want {
				continue
			}
			if known, excl := fs.tagOf(id); (known != nil && *known != leafV) || excl[leafV] {
				carry = append(carry, id)
			}
			if fs.nilnessOfField(id, "pointer") == 1 {
				carryNonNil = append(carryNonNil, id)
			}
		}
	}
	fl.applyStoreInner(fs, lhs)
	for _, id := range carry {
		lc := fl.m.leafConstExpr()
		st, _ := fl.m.NodeRef.Underlying().(*types.Struct)
		if lc == nil || st == nil {
			break
		}
		var fld *types.Var
		for k := 0; k < st.NumFields(); k++ {
			if st.Field(k).Name() == "tag" {
				fld = st.Field(k)
			}
		}
		if fld == nil {
			break
		}
		sel := &ast.SelectorExpr{X: id, Sel: ast.NewIdent("tag")}
		if fl.synthSel == nil {
			fl.synthSel = map[*ast.SelectorExpr]*types.Var{}
		}
		fl.synthSel[sel] = fld
		fl.cmpInto(fs, sel, token.NEQ, lc, true, fl.m.pos(lhs.Pos()))
	}
	for _, id := range carryNonNil {
		st, _ := fl.m.NodeRef.Underlying().(*types.Struct)
		if st == nil {
			break
		}
		var fld *types.Var
		for k := 0; k < st.NumFields(); k++ {
			if st.Field(k).Name() == "pointer" {
				fld = st.Field(k)
			}
		}
		if fld == nil {
			break
		}
		sel := &ast.SelectorExpr{X: id, Sel: ast.NewIdent("pointer")}
		if fl.synthSel == nil {
			fl.synthSel = map[*ast.SelectorExpr]*types.Var{}
		}
		fl.synthSel[sel] = fld
		fl.cmpInto(fs, sel, token.NEQ, ast.NewIdent("nil"), true, fl.m.pos(lhs.Pos()))
	}
}

func (fl *Flow) applyStoreInner(fs *FactSet, lhs ast.Expr) {
	v, through := rootVar(fl.info, lhs)
	if v != nil && !through {
		fs.killVar(v) // a field or element of a local value: the variable itself changes
	}
	if v != nil && through {
		// the store goes through a pointer/slice held in v: v itself is unchanged, but facts
		// that read memory through v are no longer valid
		for k, f := range fs.m {
			if f.derefs[v] {
				delete(fs.m, k)
			}
		}
	}
	if v != nil && fl.fresh[v] {
		return // a newly obtained object is not reachable through any other name
	}
	if through || v == nil || fl.escaped[v] {
		// type-based alias analysis: which memory does the store change?
		e := ast.Unparen(lhs)
		for {
			switch x := e.(type) {
			case *ast.IndexExpr:
				if t := fl.info.TypeOf(x.X); t != nil {
					if _, isArr := t.Underlying().(*types.Array); isArr {
						e = ast.Unparen(x.X)
						continue
					}
					if p, isPtr := t.Underlying().(*types.Pointer); isPtr {
						if _, isArr := p.Elem().Underlying().(*types.Array); isArr {
							e = ast.Unparen(x.X)
							continue
						}
					}
					// an element of arr[a:b]: the memory is that of arr
					if _, isSlice := t.Underlying().(*types.Slice); isSlice {
						if se, isSE := ast.Unparen(x.X).(*ast.SliceExpr); isSE {
							e = se
							continue
						}
					}
				}
			case *ast.SliceExpr:
				e = ast.Unparen(x.X)
				continue
			}
			break
		}
		switch x := e.(type) {
		case *ast.SelectorExpr:
			if s := fl.info.Selections[x]; s != nil && s.Kind() == types.FieldVal {
				if fv, ok := s.Obj().(*types.Var); ok {
					fs.killField(fv)
					// storing a whole struct into a field also changes the fields of that struct
					if _, isStruct := fv.Type().Underlying().(*types.Struct); isStruct {
						fs.killStructType(fv.Type())
					}
					if arr, isArr := fv.Type().Underlying().(*types.Array); isArr {
						if _, isStruct := arr.Elem().Underlying().(*types.Struct); isStruct {
							fs.killStructType(arr.Elem())
						}
					}
					return
				}
			}
		case *ast.StarExpr:
			if t := fl.info.TypeOf(x); t != nil {
				if _, isStruct := t.Underlying().(*types.Struct); isStruct {
					fs.killStructType(t)
					return
				}
			}
		}
		fs.killHeap()
	}
}

// preFlowHook lets the engine attach its summaries to a flow before the fixpoint runs.
var preFlowHook func(fl *Flow)

// leafConstExpr: some expression of the package that denotes the leaf tag constant (for facts
// the engine synthesises).
// kindConstExprs: for every kind value (inner kinds and the leaf kind) an identifier of the source
// that denotes it.
func (m *Model) kindConstExprs() map[int64]ast.Expr {
	if m.kindConsts != nil {
		return m.kindConsts
	}
	m.kindConsts = map[int64]ast.Expr{}
	want := map[string]int64{m.LeafKind.Name: m.LeafKind.Value}
	for _, k := range m.Kinds {
		want[k.Name] = k.Value
	}
	first := map[int64]*ast.Ident{}
	for id, obj := range m.Info.Uses {
		if cst, ok := obj.(*types.Const); ok && cst.Pkg() == m.Pkg {
			if v, isKind := want[cst.Name()]; isKind && m.KindType != nil && types.Identical(cst.Type(), m.KindType) {
				if first[v] == nil || id.Pos() < first[v].Pos() {
					first[v] = id
				}
			}
		}
	}
	for v, id := range first {
		m.kindConsts[v] = id
	}
	return m.kindConsts
}

func (m *Model) leafConstExpr() ast.Expr {
	if m.leafConst != nil {
		return m.leafConst
	}
	for id, obj := range m.Info.Uses {
		if cst, ok := obj.(*types.Const); ok && cst.Name() == m.LeafKind.Name && cst.Pkg() == m.Pkg {
			if m.leafConst == nil || id.Pos() < m.leafConst.Pos() {
				m.leafConst = id
			}
		}
	}
	return m.leafConst
}

func (fl *Flow) applyCalls(fs *FactSet, n ast.Node) {
	ast.Inspect(n, func(x ast.Node) bool {
		switch c := x.(type) {
		case *ast.FuncLit:
			return false
		case *ast.CallExpr:
			if fl.ef.callPure(c) {
				return true
			}
			if (isBuiltinCall(fl.info, c, "copy") || isBuiltinCall(fl.info, c, "clear")) && len(c.Args) > 0 {
				// copy/clear write the elements behind their first argument
				fl.applyStore(fs, &ast.IndexExpr{X: c.Args[0], Index: &ast.BasicLit{Kind: token.INT, Value: "0"}})
				return true
			}
			// references known not to be leaves stay so across a callee that only stores inner
			// references through the *nodeRef it is given
			var keepInner []ast.Expr
			if fl.preserves != nil && fl.preserves(c) {
				cands := append([]ast.Expr{}, c.Args...)
				if sel, ok := ast.Unparen(c.Fun).(*ast.SelectorExpr); ok && fl.info.Selections[sel] != nil {
					cands = append(cands, sel.X)
				}
				for _, a := range cands {
					t := fl.info.TypeOf(a)
					if t == nil {
						continue
					}
					if p, isPtr := t.Underlying().(*types.Pointer); isPtr {
						if nn := namedOf(p.Elem()); nn != nil && fl.m.NodeRef != nil && nn.Obj() == fl.m.NodeRef.Obj() {
							known, excl := fs.tagOf(a)
							if (known != nil && *known != fl.m.LeafKind.Value) || excl[fl.m.LeafKind.Value] {
								if _, isId := ast.Unparen(a).(*ast.Ident); isId {
									keepInner = append(keepInner, a)
								}
							}
						}
					}
				}
			}
			defer func() {
				if lc := fl.m.leafConstExpr(); lc != nil {
					for _, a := range keepInner {
						fld := fieldNamed(fl.m.NodeRef, "tag")
						if fld == nil {
							continue
						}
						sel := &ast.SelectorExpr{X: a, Sel: ast.NewIdent("tag")}
						if fl.synthSel == nil {
							fl.synthSel = map[*ast.SelectorExpr]*types.Var{}
						}
						fl.synthSel[sel] = fld
						fl.cmpInto(fs, sel, token.NEQ, lc, true, fl.m.pos(c.Pos())+" (callee keeps inner references inner)")
					}
				}
			}()
			if os.Getenv("ARTCHECK_DEBUG") == "calls" {
				fmt.Fprintf(os.Stderr, "IMPURE %s %s keep=%d\n", fl.m.pos(c.Pos()), types.ExprString(c.Fun), len(keepInner))
			}
			fs.killHeap()
			// variables whose address is passed explicitly or as a pointer receiver
			for _, a := range c.Args {
				if u, ok := ast.Unparen(a).(*ast.UnaryExpr); ok && u.Op == token.AND {
					if v, _ := rootVar(fl.info, u.X); v != nil {
						fs.killVar(v)
					}
				}
			}
			if sel, ok := ast.Unparen(c.Fun).(*ast.SelectorExpr); ok {
				if s := fl.info.Selections[sel]; s != nil && s.Kind() == types.MethodVal {
					if sig, ok := s.Obj().Type().(*types.Signature); ok && sig.Recv() != nil {
						if _, isPtr := sig.Recv().Type().(*types.Pointer); isPtr {
							if _, recvIsPtr := fl.info.TypeOf(sel.X).Underlying().(*types.Pointer); !recvIsPtr {
								if v, _ := rootVar(fl.info, sel.X); v != nil {
									// q.push(x) / q.pop() on a stack the function built itself: the
									// slice is still memory of this call afterwards
									keepFresh := false
									if fs.isFresh(v) {
										if _, _, isPush := fl.m.pushCall(c); isPush {
											keepFresh = true
										} else if _, isPop := fl.m.popCall(c); isPop {
											keepFresh = true
										}
									}
									fs.killVar(v)
									if keepFresh {
										if id, ok := ast.Unparen(sel.X).(*ast.Ident); ok {
											fl.addFresh(fs, id)
										}
									}
								}
							}
						}
					}
				}
			}
		case *ast.RangeStmt:
			return true
		}
		return true
	})
}

// edgeInto adds the facts of taking the i-th successor of b.
func (fl *Flow) edgeInto(fs *FactSet, b *cfg.Block, i int) {
	if len(b.Succs) != 2 {
		return
	}
	if b.Kind == cfg.KindRangeLoop {
		if rs, ok := b.Stmt.(*ast.RangeStmt); ok {
			for _, e := range []ast.Expr{rs.Key, rs.Value} {
				if e == nil {
					continue
				}
				if v, _ := rootVar(fl.info, e); v != nil {
					fs.killVar(v)
				}
			}
			if _, isFunc := fl.info.TypeOf(rs.X).Underlying().(*types.Signature); isFunc {
				fs.killHeap()
			}
			if i == 0 {
				if id, ok := rs.Key.(*ast.Ident); ok && id.Name != "_" {
					if v, _ := fl.info.ObjectOf(id).(*types.Var); v != nil && isIntType(fl.info.TypeOf(rs.X)) {
						if lx, ok := fl.z.lin(rs.X); ok {
							lv := linAtom(varID(v))
							l := lv.add(lx, -1)
							l.c++
							fs.add(fl.linFact(l, fl.m.pos(rs.Pos()), id, rs.X)) // key < N
							fs.add(fl.linFact(lv.scale(-1), fl.m.pos(rs.Pos()), id))
						}
					}
				}
			}
		}
		return
	}
	if len(b.Nodes) == 0 {
		return
	}
	last, ok := b.Nodes[len(b.Nodes)-1].(ast.Expr)
	if !ok {
		return
	}
	if tag, ok := fl.caseTag[last]; ok {
		fl.cmpInto(fs, tag, token.EQL, last, i == 0, fl.m.pos(last.Pos()))
		return
	}
	if t := fl.info.TypeOf(last); t != nil {
		if bt, ok := t.Underlying().(*types.Basic); ok && bt.Info()&types.IsBoolean != 0 {
			fl.condInto(fs, last, i == 0)
			fl.resolveDisjunctions(fs)
		}
	}
}

// meet keeps the facts of a that b entails and vice versa.
func (fl *Flow) meet(a, b *FactSet) *FactSet {
	out := fl.newSet()
	keep := func(x, y *FactSet) {
		ylins := y.lins()
		var yEq, yCond, yAlias map[string]bool
		for _, k := range sortedKeys(x.m) {
			f := x.m[k]
			if _, same := y.m[k]; same {
				out.m[k] = f
				continue
			}
			switch f.Kind {
			case FLin:
				if entails(f.Lin, ylins, fl.at) {
					out.m[k] = f
				}
			case FEq:
				if yEq == nil {
					yEq = map[string]bool{}
					for _, g := range y.m {
						if g.Kind == FEq {
							l, r := y.canon(g.L), y.canon(g.R)
							yEq[fmt.Sprintf("%s|%s=%v", l, r, g.Val)] = true
							yEq[fmt.Sprintf("%s|%s=%v", r, l, g.Val)] = true
						}
					}
				}
				if yEq[fmt.Sprintf("%s|%s=%v", y.canon(f.L), y.canon(f.R), f.Val)] {
					out.m[k] = f
				}
			case FCond:
				if yCond == nil {
					yCond = map[string]bool{}
					for _, g := range y.m {
						if g.Kind == FCond {
							yCond[fmt.Sprintf("%s=%v", y.canon(g.Cond), g.Val)] = true
						}
					}
				}
				if yCond[fmt.Sprintf("%s=%v", y.canon(f.Cond), f.Val)] {
					out.m[k] = f
				}
			case FFresh:
				// only identical facts survive (handled above)
			case FAlias:
				_ = yAlias
				if y.canon(f.L) == y.canon(f.R) {
					out.m[k] = f
				}
			}
		}
	}
	keep(a, b)
	keep(b, a)
	return out
}

// restrict returns the facts of old that acc entails.
func (fl *Flow) restrict(old, acc *FactSet) *FactSet {
	m := fl.meet(old, acc)
	out := fl.newSet()
	for k, f := range m.m {
		if _, ok := old.m[k]; ok {
			out.m[k] = f
		}
	}
	return out
}

func (fl *Flow) equalSets(a, b *FactSet) bool {
	if len(a.m) != len(b.m) {
		return false
	}
	for k := range a.m {
		if _, ok := b.m[k]; !ok {
			return false
		}
	}
	return true
}

func (fl *Flow) run() {
	g := fl.g
	fl.in = make([]*FactSet, len(g.Blocks))
	if len(g.Blocks) == 0 {
		fl.ok = true
		return
	}
	entry := fl.newSet()
	for _, f := range fl.entry {
		entry.add(f)
	}
	fl.in[0] = entry
	preds := make([][][2]int, len(g.Blocks)) // (pred block, succ index)
	for _, b := range g.Blocks {
		for i, s := range b.Succs {
			preds[s.Index] = append(preds[s.Index], [2]int{int(b.Index), i})
		}
	}
	outCache := map[[2]int]*FactSet{}
	computeOut := func(bi int) {
		b := g.Blocks[bi]
		fs := fl.in[bi].clone()
		for _, n := range b.Nodes {
			fl.applyNode(fs, n)
		}
		for i := range b.Succs {
			e := fs
			if len(b.Succs) == 2 {
				e = fs.clone()
				fl.edgeInto(e, b, i)
			}
			outCache[[2]int{bi, i}] = e
		}
	}
	visits := make([]int, len(g.Blocks))
	work := []int{0}
	inWork := map[int]bool{0: true}
	iter := 0
	for len(work) > 0 {
		iter++
		if iter > 4000 {
			// no fixpoint: drop all facts (sound)
			for i := range fl.in {
				fl.in[i] = fl.newSet()
			}
			return
		}
		bi := work[0]
		work = work[1:]
		inWork[bi] = false
		computeOut(bi)
		for _, s := range g.Blocks[bi].Succs {
			si := int(s.Index)
			var acc *FactSet
			for _, p := range preds[si] {
				o := outCache[p]
				if o == nil {
					continue // predecessor not reached yet (⊤)
				}
				if acc == nil {
					acc = o.clone()
				} else {
					acc = fl.meet(acc, o)
				}
			}
			if si == 0 {
				continue
			}
			if acc == nil {
				continue
			}
			visits[si]++
			if fl.in[si] != nil && visits[si] > 8 {
				// widening: from now on the set can only lose facts it already had
				acc = fl.restrict(fl.in[si], acc)
			}
			if fl.in[si] == nil || !fl.equalSets(fl.in[si], acc) {
				fl.in[si] = acc
				if !inWork[si] {
					work = append(work, si)
					inWork[si] = true
				}
			}
		}
	}
	fl.ok = true
	fl.iters = iter
}

// Visitor is called for every AST node evaluated in a live block with the facts that hold
// just before the enclosing CFG node (refined by the left operand inside && and ||).
type Visitor func(n ast.Node, fs *FactSet, stmt ast.Node, b *cfg.Block)

func (fl *Flow) walk(v Visitor) {
	for _, b := range fl.g.Blocks {
		if !b.Live || fl.in[b.Index] == nil {
			continue
		}
		fs := fl.in[b.Index].clone()
		for _, n := range b.Nodes {
			fl.visit(n, fs, n, b, v)
			fl.applyNode(fs, n)
		}
	}
}

func childrenOf(n ast.Node) []ast.Node {
	var out []ast.Node
	first := true
	ast.Inspect(n, func(c ast.Node) bool {
		if c == nil {
			return false
		}
		if first {
			first = false
			return true
		}
		out = append(out, c)
		return false
	})
	return out
}

func (fl *Flow) visit(n ast.Node, fs *FactSet, stmt ast.Node, b *cfg.Block, v Visitor) {
	v(n, fs, stmt, b)
	switch x := n.(type) {
	case *ast.FuncLit:
		return
	case *ast.BinaryExpr:
		if x.Op == token.LAND || x.Op == token.LOR {
			fl.visit(x.X, fs, stmt, b, v)
			fs2 := fs.clone()
			fl.condInto(fs2, x.X, x.Op == token.LAND)
			fl.visit(x.Y, fs2, stmt, b, v)
			return
		}
	}
	for _, c := range childrenOf(n) {
		fl.visit(c, fs, stmt, b, v)
	}
}

// factsAtExit returns, for every return statement / fall-off block, the facts holding there.
func (fl *Flow) exits() []*cfg.Block {
	var out []*cfg.Block
	for _, b := range fl.g.Blocks {
		if b.Live && len(b.Succs) == 0 {
			out = append(out, b)
		}
	}
	return out
}

// setBefore returns the fact set holding just before node index k of block b.
func (fl *Flow) setBefore(b *cfg.Block, k int) *FactSet {
	fs := fl.in[b.Index].clone()
	for i := 0; i < k && i < len(b.Nodes); i++ {
		fl.applyNode(fs, b.Nodes[i])
	}
	return fs
}

// setAtEdge returns the facts on the i-th outgoing edge of b.
func (fl *Flow) setAtEdge(b *cfg.Block, i int) *FactSet {
	fs := fl.setBefore(b, len(b.Nodes))
	fl.edgeInto(fs, b, i)
	return fs
}

func (fl *Flow) addFresh(fs *FactSet, id *ast.Ident) {
	v, _ := fl.info.ObjectOf(id).(*types.Var)
	// which memory a variable refers to changes only when the variable itself is assigned (a store
	// THROUGH it in a closure does not rebind it)
	if v == nil || fl.rebound[v] {
		return
	}
	f := &Fact{Kind: FFresh, L: id, Origin: fl.m.pos(id.Pos()), objs: map[*types.Var]bool{v: true}, derefs: map[*types.Var]bool{}}
	f.raw = "fresh:" + varID(v)
	fs.add(f)
}

// isFresh: the variable currently refers to memory the library allocated itself.
func (fs *FactSet) isFresh(v *types.Var) bool {
	_, ok := fs.m["fresh:"+varID(v)]
	return ok
}

// freshExpr: e evaluates to a slice (or string) that cannot alias memory of the caller.
// resIdx selects the result of a multi-value call.
func (fl *Flow) freshExpr(e ast.Expr, fs *FactSet, resIdx int) bool {
	e = ast.Unparen(e)
	if t := fl.info.TypeOf(e); t != nil {
		if b, ok := t.Underlying().(*types.Basic); ok && b.Info()&types.IsString != 0 {
			return true // strings are immutable
		}
		if _, isNil := t.(*types.Basic); isNil && t == types.Typ[types.UntypedNil] {
			return true
		}
	}
	switch x := e.(type) {
	case *ast.CompositeLit:
		return true
	case *ast.Ident:
		if v, _ := fl.info.ObjectOf(x).(*types.Var); v != nil {
			return fs.isFresh(v)
		}
		return x.Name == "nil"
	case *ast.SliceExpr:
		return fl.freshExpr(x.X, fs, 0)
	case *ast.StarExpr:
		// the slice behind a pointer to memory of this call
		return fl.freshExpr(x.X, fs, 0)
	case *ast.TypeAssertExpr:
		// pool.Get().(*T): the object is exclusively this call's until it is Put back
		if call, ok := ast.Unparen(x.X).(*ast.CallExpr); ok && isSyncPoolCall(fl.info, call, "Get") {
			return true
		}
		return false
	case *ast.CallExpr:
		if isBuiltinCall(fl.info, x, "make") || isBuiltinCall(fl.info, x, "new") {
			return true
		}
		if isBuiltinCall(fl.info, x, "append") && len(x.Args) > 0 {
			return fl.freshExpr(x.Args[0], fs, 0)
		}
		if isConversion(fl.info, x) && len(x.Args) == 1 {
			at := fl.info.TypeOf(x.Args[0])
			if b, ok := at.Underlying().(*types.Basic); ok && b.Info()&types.IsString != 0 {
				return true // string → []byte copies
			}
			return fl.freshExpr(x.Args[0], fs, 0)
		}
		switch fl.m.calleeName(x) {
		case "bytes.Clone", "slices.Clone", "bytes.Repeat":
			return true
		case "encoding/binary.bigEndian.AppendUint16", "encoding/binary.bigEndian.AppendUint32", "encoding/binary.bigEndian.AppendUint64",
			"encoding/binary.littleEndian.AppendUint16", "encoding/binary.littleEndian.AppendUint32", "encoding/binary.littleEndian.AppendUint64",
			"slices.Grow", "slices.Insert", "slices.Delete", "bytes.TrimSuffix", "bytes.TrimPrefix", "bytes.TrimRight", "bytes.TrimLeft":
			// append-like: the result is (a reslice of / grown copy of) the first argument
			return len(x.Args) > 0 && fl.freshExpr(x.Args[0], fs, 0)
		}
		if fl.resFresh != nil {
			if r := fl.resFresh(x); resIdx < len(r) && r[resIdx] {
				return true
			}
		}
		// a helper that hands back (an append to / a reslice of) one of its own slice parameters:
		// as fresh as the argument
		if cu := fl.m.calleeUnit(x); cu != nil && cu.Lit == nil && resIdx == 0 {
			if pi := passThroughParam(fl.m, cu); pi >= 0 && pi < len(x.Args) {
				return fl.freshExpr(x.Args[pi], fs, 0)
			}
		}
	}
	return false
}

// passThroughParam: the index of the slice parameter p such that every return of u returns p and
// every assignment to p is `p = append(p, …)` or a reslice of p (-1 if there is none).
func passThroughParam(m *Model, u *FuncUnit) int {
	if m.ptMemo == nil {
		m.ptMemo = map[*FuncUnit]int{}
	}
	if v, ok := m.ptMemo[u]; ok {
		return v
	}
	m.ptMemo[u] = -1
	info := m.Info
	rets, all := returnExprs(u)
	if !all {
		return -1
	}
	var pv *types.Var
	var pid *ast.Ident
	for _, r := range rets {
		id, ok := ast.Unparen(r).(*ast.Ident)
		if !ok {
			return -1
		}
		v, _ := info.ObjectOf(id).(*types.Var)
		if v == nil || (pv != nil && v != pv) {
			return -1
		}
		pv, pid = v, id
	}
	if pv == nil {
		return -1
	}
	if _, isSlice := pv.Type().Underlying().(*types.Slice); !isSlice {
		return -1
	}
	pi := m.paramIndex(u, pid)
	if pi < 0 {
		return -1
	}
	ok := true
	ast.Inspect(u.Body, func(n ast.Node) bool {
		as, isAs := n.(*ast.AssignStmt)
		if !isAs || len(as.Lhs) != len(as.Rhs) {
			return true
		}
		for i, l := range as.Lhs {
			if identVar(info, l) != pv {
				continue
			}
			r := ast.Unparen(as.Rhs[i])
			for {
				if se, isSE := r.(*ast.SliceExpr); isSE {
					r = ast.Unparen(se.X)
					continue
				}
				break
			}
			if call, isCall := r.(*ast.CallExpr); isCall && isBuiltinCall(info, call, "append") && len(call.Args) > 0 && identVar(info, call.Args[0]) == pv {
				continue
			}
			if identVar(info, r) == pv {
				continue
			}
			ok = false
		}
		return true
	})
	if !ok {
		return -1
	}
	m.ptMemo[u] = pi
	return pi
}

func fieldNamed(n *types.Named, name string) *types.Var {
	if n == nil {
		return nil
	}
	st, ok := n.Underlying().(*types.Struct)
	if !ok {
		return nil
	}
	for i := 0; i < st.NumFields(); i++ {
		if st.Field(i).Name() == name {
			return st.Field(i)
		}
	}
	return nil
}

// evalAtom: is the comparison e known to hold (1), known to fail (0) or unknown (-1) under fs?
// Only equalities against nil and kind constants are looked up (the facts tag and nil tests leave).
func (fs *FactSet) evalAtom(e ast.Expr) int {
	be, ok := ast.Unparen(e).(*ast.BinaryExpr)
	if !ok || (be.Op != token.EQL && be.Op != token.NEQ) {
		return -1
	}
	l, r := fs.canon(be.X), fs.canon(be.Y)
	res := -1
	fs.eqFacts(func(fl, fr string, val bool, f *Fact) {
		if (fl == l && fr == r) || (fl == r && fr == l) {
			if val == (be.Op == token.EQL) {
				res = 1
			} else {
				res = 0
			}
		}
	})
	return res
}

// resolveDisjunctions: from ¬(A ∧ B) and A derive ¬B (and symmetrically).
func (fl *Flow) resolveDisjunctions(fs *FactSet) {
	for round := 0; round < 3; round++ {
		changed := false
		for _, k := range sortedKeys(fs.m) {
			f := fs.m[k]
			if f == nil || f.Kind != FCond || f.Val {
				continue
			}
			be, ok := ast.Unparen(f.Cond).(*ast.BinaryExpr)
			if !ok || be.Op != token.LAND {
				continue
			}
			a, b := fs.evalAtom(be.X), fs.evalAtom(be.Y)
			switch {
			case a == 1 && b == -1:
				fl.condInto(fs, be.Y, false)
				changed = true
			case b == 1 && a == -1:
				fl.condInto(fs, be.X, false)
				changed = true
			}
		}
		if !changed {
			return
		}
	}
}

// isSyncPoolCall: call is X.<name>(…) with X of type sync.Pool (or *sync.Pool).
func isSyncPoolCall(info *types.Info, call *ast.CallExpr, name string) bool {
	sel, ok := ast.Unparen(call.Fun).(*ast.SelectorExpr)
	if !ok || sel.Sel.Name != name {
		return false
	}
	t := info.TypeOf(sel.X)
	if t == nil {
		return false
	}
	if p, ok := t.Underlying().(*types.Pointer); ok {
		t = p.Elem()
	}
	n := namedOf(t)
	return n != nil && n.Obj().Pkg() != nil && n.Obj().Pkg().Path() == "sync" && n.Obj().Name() == "Pool"
}
