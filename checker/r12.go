package main

import (
	"fmt"
	"go/ast"
	"go/constant"
	"go/token"
	"go/types"
	"strings"

	"golang.org/x/tools/go/cfg"
)

func (c *Ctx) isNodeRefType(t types.Type) bool {
	n := namedOf(t)
	return n != nil && n.Obj() == c.m.NodeRef.Obj()
}

// enclosingParam reports whether v is a parameter of the unit or of a unit enclosing it.
func (c *Ctx) enclosingParam(u *FuncUnit, v *types.Var) bool {
	for x := u; x != nil; x = x.Parent {
		if x.Type.Params == nil {
			continue
		}
		for _, f := range x.Type.Params.List {
			for _, nm := range f.Names {
				if c.m.Info.Defs[nm] == v {
					return true
				}
			}
		}
	}
	return false
}

// R12 NILROOT – (a) worklists are seeded with a non-nil reference; helpers that dereference a
// reference parameter without testing it are only called with non-nil references;
// (b) a possibly-nil result of minimum/maximum is tested before it is used.
func ruleR12(c *Ctx) {
	info := c.m.Info
	minmax := map[*types.Func]bool{}
	for _, n := range []string{"minimum", "maximum"} {
		if u := c.m.unitByBase(n); u != nil && u.Obj != nil {
			minmax[u.Obj] = true
		}
	}
	// helpers requiring a non-nil reference parameter: dereference (node() / cast of .pointer) of
	// a nodeRef parameter at a point where it is not known non-nil
	requires := map[*types.Func]map[int]bool{}
	for _, u := range c.sortedUnits() {
		if u.Lit != nil || u.Obj == nil || u.Decl.Type.Params == nil {
			continue
		}
		idx := 0
		params := map[*types.Var]int{}
		for _, f := range u.Decl.Type.Params.List {
			for _, nm := range f.Names {
				if v, _ := info.Defs[nm].(*types.Var); v != nil && c.isNodeRefType(v.Type()) {
					if _, isPtr := v.Type().(*types.Pointer); !isPtr {
						params[v] = idx
					}
				}
				idx++
			}
		}
		if len(params) == 0 {
			continue
		}
		fl := c.e.flow(u)
		fl.walk(func(n ast.Node, fs *FactSet, stmt ast.Node, b *cfg.Block) {
			var target ast.Expr
			switch x := n.(type) {
			case *ast.CallExpr:
				if sel, ok := x.Fun.(*ast.SelectorExpr); ok && sel.Sel.Name == "node" && len(x.Args) == 0 {
					target = sel.X
				}
				// (*node4)(ref.pointer): a typed view that is dereferenced right away
				if isConversion(info, x) && len(x.Args) == 1 {
					if pt, ok := info.TypeOf(x).Underlying().(*types.Pointer); ok && c.m.kindByStruct(pt.Elem()) != nil {
						if psel, ok := ast.Unparen(x.Args[0]).(*ast.SelectorExpr); ok && psel.Sel.Name == "pointer" {
							target = psel.X
						}
					}
				}
			}
			if target == nil {
				return
			}
			v := identVar(info, target)
			if v == nil {
				return
			}
			if pi, ok := params[v]; ok && fs.nilnessOfField(target, "pointer") != 1 {
				if requires[u.Obj] == nil {
					requires[u.Obj] = map[int]bool{}
				}
				requires[u.Obj][pi] = true
			}
		})
	}
	nSeeds := 0
	for _, u := range c.sortedUnits() {
		fl := c.e.flow(u)
		props := c.attribute(u, "C01", "C02", "C03", "C04", "C05", "C08", "C09")
		if len(props) == 0 {
			continue
		}
		// possibly-nil results bound to variables
		maybeNil := map[*types.Var]string{}
		fl.walk(func(n ast.Node, fs *FactSet, stmt ast.Node, b *cfg.Block) {
			// the seed of a worklist: q = append(q, X), q.push(X), q := []T{X} – X a reference
			// parameter of the traversal (not inside the push helper itself, whose parameter is
			// whatever its callers push)
			checkSeed := func(seedExpr ast.Expr, at ast.Node) {
				seed := ast.Unparen(seedExpr)
				if cl, ok := seed.(*ast.CompositeLit); ok {
					for _, el := range cl.Elts {
						e := el
						if kv, ok := el.(*ast.KeyValueExpr); ok {
							e = kv.Value
						}
						if c.isNodeRefType(info.TypeOf(e)) {
							seed = ast.Unparen(e)
						}
					}
				}
				if v := identVar(info, seed); v != nil && c.isNodeRefType(v.Type()) && c.enclosingParam(u, v) {
					nSeeds++
					key := fmt.Sprintf("%s worklist seeded with %s", u.Name, v.Name())
					if fs.nilnessOfField(seed, "pointer") == 1 {
						c.r.ok("R12", key, c.m.pos(at.Pos()), v.Name()+".pointer != nil dominates the traversal", props...)
					} else {
						c.r.bad("R12", key, c.m.pos(at.Pos()), "the traversal dereferences every popped reference but its seed "+v.Name()+" is not tested for an empty tree ("+v.Name()+".pointer == nil); the sibling traversals test it", props...)
					}
				}
			}
			isPushHelper := (u.Decl != nil && u.Lit == nil && u.Decl.Recv != nil && len(u.Body.List) == 1) || c.isPushClosure(u)
			switch x := n.(type) {
			case *ast.ExprStmt:
				if _, elem, ok := c.m.pushCall(x); ok && !isPushHelper {
					checkSeed(elem, x)
				}
				// push(X, depth) through a local closure that appends to the stack
				if call, ok := x.X.(*ast.CallExpr); ok && len(call.Args) >= 1 {
					if v := identVar(info, call.Fun); v != nil && c.isPushClosure(c.m.LitOfVar[v]) {
						checkSeed(call.Args[0], x)
					}
				}
			case *ast.AssignStmt:
				// q := []T{X}
				if len(x.Rhs) == 1 && x.Tok == token.DEFINE {
					if cl, ok := ast.Unparen(x.Rhs[0]).(*ast.CompositeLit); ok && len(cl.Elts) == 1 {
						if _, isSlice := info.TypeOf(cl).Underlying().(*types.Slice); isSlice {
							checkSeed(cl.Elts[0], x)
						}
					}
				}
				// (a) worklist seed: q = append(q, X) / append(q, T{…: X})
				if len(x.Rhs) == 1 && !isPushHelper {
					if call, ok := ast.Unparen(x.Rhs[0]).(*ast.CallExpr); ok && isBuiltinCall(info, call, "append") && len(call.Args) == 2 {
						checkSeed(call.Args[1], x)
					}
				}
				if false {
					if call, ok := ast.Unparen(x.Rhs[0]).(*ast.CallExpr); ok && isBuiltinCall(info, call, "append") && len(call.Args) == 2 {
						seed := ast.Unparen(call.Args[1])
						if cl, ok := seed.(*ast.CompositeLit); ok {
							for _, el := range cl.Elts {
								e := el
								if kv, ok := el.(*ast.KeyValueExpr); ok {
									e = kv.Value
								}
								if c.isNodeRefType(info.TypeOf(e)) {
									seed = ast.Unparen(e)
								}
							}
						}
						if v := identVar(info, seed); v != nil && c.isNodeRefType(v.Type()) && c.enclosingParam(u, v) {
							nSeeds++
							key := fmt.Sprintf("%s worklist seeded with %s", u.Name, v.Name())
							if fs.nilnessOfField(seed, "pointer") == 1 {
								c.r.ok("R12", key, c.m.pos(x.Pos()), v.Name()+".pointer != nil dominates the traversal", props...)
							} else {
								c.r.bad("R12", key, c.m.pos(x.Pos()), "the traversal dereferences every popped reference but its seed "+v.Name()+" is not tested for an empty tree ("+v.Name()+".pointer == nil); the sibling traversals test it", props...)
							}
						}
					}
				}
				// (b) bind results of minimum/maximum
				if len(x.Lhs) == 1 && len(x.Rhs) == 1 {
					if call, ok := ast.Unparen(x.Rhs[0]).(*ast.CallExpr); ok {
						if f := c.m.staticCallee(call); f != nil && minmax[f] && len(call.Args) == 1 {
							if fs.nilnessOfField(call.Args[0], "pointer") != 1 {
								if v := identVar(info, x.Lhs[0]); v != nil {
									maybeNil[v] = f.Name()
								}
							}
						}
					}
				}
			}
		})
		fl.walk(func(n ast.Node, fs *FactSet, stmt ast.Node, b *cfg.Block) {
			call, ok := n.(*ast.CallExpr)
			if !ok {
				return
			}
			// uses of a possibly-nil leaf pointer
			useOf := func(arg ast.Expr, how string) {
				arg = ast.Unparen(arg)
				if inner, ok := arg.(*ast.CallExpr); ok {
					if f := c.m.staticCallee(inner); f != nil && minmax[f] && len(inner.Args) == 1 {
						key := fmt.Sprintf("%s result of %s %s", u.Name, f.Name(), how)
						if fs.nilnessOfField(inner.Args[0], "pointer") == 1 {
							c.r.ok("R12", key, c.m.pos(call.Pos()), "called on a reference known to be non-nil; inner nodes have at least one child, so the result is a leaf", props...)
						} else if c.isTreeRoot(inner.Args[0]) {
							c.r.bad("R12", key, c.m.pos(call.Pos()), f.Name()+"() returns nil for an empty tree and its result is used without a nil test", props...)
						} else {
							// reference of unknown nilness that is not a tree root: an inner position reached by descent
							c.r.ok("R12", key, c.m.pos(call.Pos()), "called on a reference reached by descent (not a tree root)", props...)
						}
					}
					return
				}
				if v := identVar(info, arg); v != nil {
					if fn, ok := maybeNil[v]; ok {
						key := fmt.Sprintf("%s result of %s (%s) %s", u.Name, fn, v.Name(), how)
						if fs.nilness(arg) == 1 {
							c.r.ok("R12", key, c.m.pos(call.Pos()), v.Name()+" != nil dominates the use", props...)
						} else {
							c.r.bad("R12", key, c.m.pos(call.Pos()), fn+"() returns nil for an empty tree; "+v.Name()+" is used here without a dominating nil test", props...)
						}
					}
				}
			}
			if isConversion(info, call) && len(call.Args) == 1 {
				if _, isPtr := info.TypeOf(call).Underlying().(*types.Pointer); isPtr {
					useOf(call.Args[0], "cast to a leaf")
				} else if _, isTP := types.Unalias(info.TypeOf(call)).(*types.TypeParam); isTP {
					useOf(call.Args[0], "cast to a leaf")
				}
				return
			}
			if c.m.isRestoreCall(call) && len(call.Args) == 1 {
				useOf(call.Args[0], "passed to restoreKey")
			}
			// helpers that need a non-nil reference
			if f := c.m.staticCallee(call); f != nil && requires[f] != nil {
				for pi := range requires[f] {
					if pi < len(call.Args) {
						key := fmt.Sprintf("%s calls %s with reference %s", u.Name, f.Name(), display(fl.raw.canon(call.Args[pi])))
						popped := false
						if av := identVar(info, call.Args[pi]); av != nil {
							if d := c.m.resolveLocal(u, identOf(call.Args[pi])); d != nil {
								switch y := ast.Unparen(d).(type) {
								case *ast.IndexExpr:
									popped = true // an element of the worklist or of a children array
									_ = y
								case *ast.CallExpr:
									if _, isPop := c.m.popCall(y); isPop {
										popped = true
									}
								case *ast.SelectorExpr:
									// q[len(q)-1].ref
									if _, isIdx := ast.Unparen(y.X).(*ast.IndexExpr); isIdx {
										popped = true
									}
								}
							}
						}
						if fs.nilnessOfField(call.Args[pi], "pointer") == 1 {
							c.r.ok("R12", key, c.m.pos(call.Pos()), "argument known non-nil", props...)
						} else if popped {
							c.r.ok("R12", key, c.m.pos(call.Pos()), "a reference taken from the worklist: its seed is tested for the empty tree and only occupied slots are pushed (R09)", props...)
						} else {
							c.r.bad("R12", key, c.m.pos(call.Pos()), f.Name()+" dereferences its reference parameter without a test and is called here with a reference not known to be non-nil", props...)
						}
					}
				}
			}
		})
	}
	c.r.note("R12: %d worklist seeds; helpers requiring a non-nil reference: %d", nSeeds, len(requires))
	c.r.floor("R12", 10, "seeds and nil-flow uses", "C03")
}

// isTreeRoot: expression is the root field of a tree (t.root).
func (c *Ctx) isTreeRoot(e ast.Expr) bool {
	sel, ok := ast.Unparen(e).(*ast.SelectorExpr)
	if !ok || c.m.Info.Selections[sel] == nil {
		return false
	}
	rt := namedOf(c.m.Info.TypeOf(sel.X))
	if rt == nil {
		return false
	}
	for _, tk := range c.m.Trees {
		if tk.Named.Obj() == rt.Obj() {
			return true
		}
	}
	return false
}

// R10 ARRBOUND – constant-range induction variables fit the arrays they index.
func ruleR10(c *Ctx) {
	info := c.m.Info
	n := 0
	constOf := func(e ast.Expr) (int64, bool) {
		if tv, ok := info.Types[e]; ok && tv.Value != nil && tv.Value.Kind() == constant.Int {
			return constant.Int64Val(tv.Value)
		}
		return 0, false
	}
	for _, u := range c.sortedUnits() {
		props := c.attribute(u, "C01", "C02", "C03", "C04", "C05", "C10", "C11")
		var visit func(node ast.Node, ranges map[*types.Var][2]int64)
		checkBody := func(body ast.Node, ranges map[*types.Var][2]int64) {
			ast.Inspect(body, func(x ast.Node) bool {
				switch y := x.(type) {
				case *ast.FuncLit:
					return false
				case *ast.ForStmt, *ast.RangeStmt:
					visit(y, ranges)
					return false
				case *ast.IndexExpr:
					t := info.TypeOf(y.X)
					if t == nil {
						return true
					}
					if p, ok := t.Underlying().(*types.Pointer); ok {
						t = p.Elem()
					}
					arr, ok := t.Underlying().(*types.Array)
					if !ok {
						return true
					}
					// index = i + k
					idx := ast.Unparen(y.Index)
					var off int64
					if be, ok := idx.(*ast.BinaryExpr); ok && (be.Op == token.ADD || be.Op == token.SUB) {
						if k, isC := constOf(be.Y); isC {
							off = k
							if be.Op == token.SUB {
								off = -k
							}
							idx = ast.Unparen(be.X)
						}
					}
					if call, ok := idx.(*ast.CallExpr); ok && isConversion(info, call) && len(call.Args) == 1 {
						idx = ast.Unparen(call.Args[0])
					}
					v := identVar(info, idx)
					r, ok := ranges[v]
					if v == nil || !ok {
						return true
					}
					n++
					key := fmt.Sprintf("%s %s with %s in [%d,%d]", u.Name, display((&canonCtx{info: info}).canon(y)), v.Name(), r[0], r[1])
					if r[0]+off >= 0 && r[1]+off < arr.Len() {
						c.r.ok("R10", key, c.m.pos(y.Pos()), fmt.Sprintf("index range [%d,%d] fits array of length %d", r[0]+off, r[1]+off, arr.Len()), props...)
						// a table indexed by a byte value (256 entries) is enumerated completely: a loop
						// that stops at 254 or starts at 1 silently skips one branch byte
						if off == 0 && arr.Len() >= 16 {
							k2 := fmt.Sprintf("%s enumerates all of %s", u.Name, display((&canonCtx{info: info}).canon(y.X)))
							if r[0] == 0 && r[1] == arr.Len()-1 {
								c.r.ok("R10", k2, c.m.pos(y.Pos()), fmt.Sprintf("induction range [0,%d] covers the array", r[1]), props...)
							} else {
								c.r.bad("R10", k2, c.m.pos(y.Pos()), fmt.Sprintf("the loop visits entries [%d,%d] of an array of %d (one entry per byte value or lane): the children or lanes at the other positions are never seen", r[0], r[1], arr.Len()), props...)
							}
						}
					} else {
						c.r.bad("R10", key, c.m.pos(y.Pos()), fmt.Sprintf("index range [%d,%d] does not fit the array of length %d it indexes", r[0]+off, r[1]+off, arr.Len()), props...)
					}
				}
				return true
			})
		}
		visit = func(node ast.Node, ranges map[*types.Var][2]int64) {
			nr := map[*types.Var][2]int64{}
			for k, v := range ranges {
				nr[k] = v
			}
			switch y := node.(type) {
			case *ast.ForStmt:
				if v, lo, hi, ok := c.constLoop(y); ok && !assignedInBody(info, y.Body, v) {
					nr[v] = [2]int64{lo, hi}
				}
				checkBody(y.Body, nr)
			case *ast.RangeStmt:
				if k, isC := constOf(y.X); isC && y.Key != nil {
					if v := identVar(info, y.Key); v != nil && !assignedInBody(info, y.Body, v) {
						nr[v] = [2]int64{0, k - 1}
					}
				}
				checkBody(y.Body, nr)
			}
		}
		checkBody(u.Body, map[*types.Var][2]int64{})
	}
	c.r.note("R10: %d array indexes by constant-range induction variables", n)
	c.r.floor("R10", 8, "constant-range array indexes", "C10")
}

func assignedInBody(info *types.Info, body ast.Node, v *types.Var) bool {
	found := false
	ast.Inspect(body, func(x ast.Node) bool {
		switch y := x.(type) {
		case *ast.AssignStmt:
			for _, l := range y.Lhs {
				if identVar(info, l) == v {
					found = true
				}
			}
		case *ast.IncDecStmt:
			if identVar(info, y.X) == v {
				found = true
			}
		case *ast.UnaryExpr:
			if y.Op == token.AND && identVar(info, y.X) == v {
				found = true
			}
		}
		return true
	})
	return found
}

// constLoop recognises for i := A; i ⋈ B; i++/-- with constant A and B.
func (c *Ctx) constLoop(f *ast.ForStmt) (v *types.Var, lo, hi int64, ok bool) {
	info := c.m.Info
	as, isAs := f.Init.(*ast.AssignStmt)
	if !isAs || len(as.Lhs) != 1 || len(as.Rhs) != 1 {
		return
	}
	v = identVar(info, as.Lhs[0])
	if v == nil {
		return
	}
	cv := func(e ast.Expr) (int64, bool) {
		if tv, has := info.Types[e]; has && tv.Value != nil && tv.Value.Kind() == constant.Int {
			return constant.Int64Val(tv.Value)
		}
		return 0, false
	}
	a, okA := cv(as.Rhs[0])
	be, isBe := f.Cond.(*ast.BinaryExpr)
	if !okA || !isBe || identVar(info, be.X) != v {
		return
	}
	b, okB := cv(be.Y)
	inc, isInc := f.Post.(*ast.IncDecStmt)
	if !okB || !isInc || identVar(info, inc.X) != v {
		return
	}
	switch {
	case inc.Tok == token.INC && be.Op == token.LSS:
		return v, a, b - 1, a <= b-1
	case inc.Tok == token.INC && be.Op == token.LEQ:
		return v, a, b, a <= b
	case inc.Tok == token.DEC && be.Op == token.GEQ:
		return v, b, a, b <= a
	case inc.Tok == token.DEC && be.Op == token.GTR:
		return v, b + 1, a, b+1 <= a
	}
	return
}

var _ = strings.TrimSpace

// isPushClosure: a function literal bound to a local variable whose whole body appends (an entry
// built from) its reference parameter to a slice of the enclosing function.
func (c *Ctx) isPushClosure(u *FuncUnit) bool {
	if u == nil || u.Lit == nil || u.Body == nil || len(u.Body.List) != 1 || u.Type.Params == nil {
		return false
	}
	info := c.m.Info
	hasRef := false
	for _, f := range u.Type.Params.List {
		if c.isNodeRefType(info.TypeOf(f.Type)) {
			hasRef = true
		}
	}
	if !hasRef {
		return false
	}
	as, ok := u.Body.List[0].(*ast.AssignStmt)
	if !ok || len(as.Lhs) != 1 || len(as.Rhs) != 1 {
		return false
	}
	call, ok := ast.Unparen(as.Rhs[0]).(*ast.CallExpr)
	if !ok || !isBuiltinCall(info, call, "append") || len(call.Args) != 2 {
		return false
	}
	lv := identVar(info, as.Lhs[0])
	return lv != nil && lv == identVar(info, call.Args[0]) && !(lv.Pos() >= u.Lit.Pos() && lv.Pos() <= u.Lit.End())
}
