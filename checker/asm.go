package main

// E5 – reader for the Plan 9 assembly of the 16-lane routines, and a syntactic dependence
// analysis of their Go siblings. Forward-only code; unknown mnemonic ⇒ fail closed.

import (
	"fmt"
	"go/ast"
	"go/parser"
	"go/token"
	"os"
	"path/filepath"
	"regexp"
	"sort"
	"strings"
)

type asmInsn struct {
	mn   string
	ops  []string
	line int
	raw  string
}

type asmFunc struct {
	name  string
	file  string
	insns []asmInsn
	label map[string]int // label → index of next instruction
}

type depset map[string]bool

func (d depset) add(o depset) {
	for k := range o {
		d[k] = true
	}
}
func (d depset) list() []string {
	out := make([]string, 0, len(d))
	for k := range d {
		out = append(out, k)
	}
	sort.Strings(out)
	return out
}

type asmSummary struct {
	name        string
	arch        string
	retDeps     depset   // parameters the result depends on
	otherStores []string // stores to memory other than the result slot
	signedCmp   []string // signed ordered compares whose operands are not both biased
	roles       []string // ordered compares with swapped operand roles
	fillCmp     []string // a lane index compared with the fill count so that lane == count passes for occupied
	fillCmpSeen int      // comparisons of a lane index with the fill count
	eqSearch    bool     // the routine compares lanes for equality (a search, not an insert position)
	unknown     []string // unknown mnemonics (fail closed)
	frame       []string // frame-offset mismatches
	params      map[string]int
}

var asmDefine = regexp.MustCompile(`^#define\s+(\w+)\s+(\S+)`)
var asmText = regexp.MustCompile(`^TEXT\s+·(\w+)\(SB\)`)
var asmFP = regexp.MustCompile(`^(\w+)\+(\d+)\(FP\)$`)

func parseAsm(path string, src []byte) ([]*asmFunc, error) {
	defs := map[string]string{}
	var funcs []*asmFunc
	var cur *asmFunc
	for i, line := range strings.Split(string(src), "\n") {
		if j := strings.Index(line, "//"); j >= 0 {
			line = line[:j]
		}
		line = strings.TrimSpace(line)
		if line == "" {
			continue
		}
		if m := asmDefine.FindStringSubmatch(line); m != nil {
			defs[m[1]] = m[2]
			continue
		}
		if strings.HasPrefix(line, "#") {
			continue
		}
		if m := asmText.FindStringSubmatch(line); m != nil {
			cur = &asmFunc{name: m[1], file: filepath.Base(path), label: map[string]int{}}
			funcs = append(funcs, cur)
			continue
		}
		if cur == nil {
			return nil, fmt.Errorf("%s:%d: instruction outside TEXT", path, i+1)
		}
		if strings.HasSuffix(line, ":") && !strings.ContainsAny(line, " \t") {
			cur.label[strings.TrimSuffix(line, ":")] = len(cur.insns)
			continue
		}
		fields := strings.Fields(line)
		mn := fields[0]
		rest := strings.TrimSpace(line[len(mn):])
		var ops []string
		depth := 0
		start := 0
		for k, ch := range rest {
			switch ch {
			case '(', '[':
				depth++
			case ')', ']':
				depth--
			case ',':
				if depth == 0 {
					ops = append(ops, strings.TrimSpace(rest[start:k]))
					start = k + 1
				}
			}
		}
		if strings.TrimSpace(rest[start:]) != "" {
			ops = append(ops, strings.TrimSpace(rest[start:]))
		}
		for k, o := range ops {
			// macro substitution on identifiers
			ops[k] = regexp.MustCompile(`[A-Za-z_]\w*`).ReplaceAllStringFunc(o, func(id string) string {
				if v, ok := defs[id]; ok {
					return v
				}
				return id
			})
		}
		cur.insns = append(cur.insns, asmInsn{mn: mn, ops: ops, line: i + 1, raw: line})
	}
	return funcs, nil
}

// location normalises an operand to a storage location name ("" for immediates).
func asmLoc(op string) (loc string, isMem bool, isImm bool) {
	op = strings.TrimSpace(op)
	if strings.HasPrefix(op, "$") {
		return "", false, true
	}
	if m := asmFP.FindStringSubmatch(op); m != nil {
		return "fp:" + m[1], true, false
	}
	op = strings.Trim(op, "[]")
	if strings.HasPrefix(op, "(") && strings.HasSuffix(op, ")") {
		return "mem:" + strings.Trim(op, "()"), true, false
	}
	if i := strings.IndexByte(op, '.'); i > 0 { // V0.B16, V0.D[0]
		op = op[:i]
	}
	// arm64 F0 aliases V0; x86 CL is part of CX
	if len(op) >= 2 && op[0] == 'F' && op[1] >= '0' && op[1] <= '9' {
		op = "V" + op[1:]
	}
	return op, false, false
}

// analyseAsm computes the dependence summary of one routine.
// fillCompare: a CMP of a lane index with the fill count, waiting for its conditional jump.
type fillCompare struct {
	idxFirst bool
	insn     asmInsn
}

func analyseAsm(f *asmFunc, arch string, wantOffsets map[string]int) *asmSummary {
	s := &asmSummary{name: f.name, arch: arch, retDeps: depset{}, params: wantOffsets}
	deps := map[string]depset{}
	imm := map[string]map[string]bool{} // registers holding values computed from immediates only → set of immediates
	biased := map[string]bool{}
	ctrl := depset{}
	get := func(op string) depset {
		loc, isMem, isImm := asmLoc(op)
		d := depset{}
		if isImm {
			return d
		}
		if strings.HasPrefix(loc, "fp:") {
			name := strings.TrimPrefix(loc, "fp:")
			d[name] = true
			return d
		}
		if isMem {
			// memory behind a register: depends on the register (the pointer parameter)
			base := strings.TrimPrefix(loc, "mem:")
			d.add(deps[base])
			return d
		}
		d.add(deps[loc])
		return d
	}
	set := func(op string, d depset, insn asmInsn) {
		loc, isMem, _ := asmLoc(op)
		if strings.HasPrefix(loc, "fp:") {
			name := strings.TrimPrefix(loc, "fp:")
			if name == "ret" {
				s.retDeps.add(d)
				s.retDeps.add(ctrl)
			} else {
				s.otherStores = append(s.otherStores, fmt.Sprintf("%s:%d %s", f.file, insn.line, insn.raw))
			}
			return
		}
		if isMem {
			s.otherStores = append(s.otherStores, fmt.Sprintf("%s:%d %s", f.file, insn.line, insn.raw))
			return
		}
		nd := depset{}
		nd.add(d)
		nd.add(ctrl)
		deps[loc] = nd
	}
	immOf := func(op string) (map[string]bool, bool) {
		loc, _, isImm := asmLoc(op)
		if isImm {
			return map[string]bool{strings.ToLower(strings.TrimPrefix(strings.TrimSpace(op), "$")): true}, true
		}
		if v, ok := imm[loc]; ok && len(deps[loc]) == 0 {
			return v, true
		}
		return nil, false
	}
	// frame offsets
	for _, in := range f.insns {
		for _, op := range in.ops {
			if m := asmFP.FindStringSubmatch(strings.TrimSpace(op)); m != nil {
				var off int
				fmt.Sscan(m[2], &off)
				if want, ok := wantOffsets[m[1]]; !ok {
					s.frame = append(s.frame, fmt.Sprintf("%s:%d unknown frame name %s", f.file, in.line, m[1]))
				} else if want != off {
					s.frame = append(s.frame, fmt.Sprintf("%s:%d %s is at offset %d in the Go prototype, assembly uses %d", f.file, in.line, m[1], want, off))
				}
			}
		}
	}
	var lastCmp *fillCompare
	for _, in := range f.insns {
		ops := in.ops
		last := ""
		if len(ops) > 0 {
			last = ops[len(ops)-1]
		}
		union := func(os ...string) depset {
			d := depset{}
			for _, o := range os {
				d.add(get(o))
			}
			return d
		}
		mergeImm := func(dst string, srcs ...string) {
			loc, _, _ := asmLoc(dst)
			out := map[string]bool{}
			all := true
			for _, sop := range srcs {
				v, ok := immOf(sop)
				if !ok {
					all = false
					break
				}
				for k := range v {
					out[k] = true
				}
			}
			if all {
				imm[loc] = out
			} else {
				delete(imm, loc)
			}
		}
		dstLoc, _, _ := asmLoc(last)
		switch in.mn {
		// ---- moves / loads (src, dst)
		case "MOVQ", "MOVB", "MOVD", "MOVW", "MOVL", "VMOVDQU", "MOVOU", "FMOVD", "VMOV", "VLD1", "VDUP":
			if len(ops) != 2 {
				s.unknown = append(s.unknown, in.raw)
				continue
			}
			set(last, union(ops[0]), in)
			mergeImm(last, ops[0])
			delete(biased, dstLoc)
		// ---- two-operand ALU: dst = dst op src
		case "PXOR", "XORQ", "XORL":
			a, _, _ := asmLoc(ops[0])
			if a == dstLoc { // zeroing idiom
				set(last, depset{}, in)
				imm[dstLoc] = map[string]bool{"0": true}
				delete(biased, dstLoc)
				continue
			}
			if v, ok := immOf(ops[0]); ok && v["0x80"] && len(v) <= 2 {
				biased[dstLoc] = true
			} else {
				delete(biased, dstLoc)
			}
			set(last, union(ops[0], last), in)
			mergeImm(last, ops[0], last)
		case "PSHUFB", "SALW", "SHLW", "SUBW", "ANDW", "ANDQ", "ANDL", "ADDW", "SUBQ", "ORW", "PAND", "POR":
			set(last, union(append([]string{}, ops...)...), in)
			mergeImm(last, ops...)
			if in.mn != "PSHUFB" {
				delete(biased, dstLoc)
			}
		case "PCMPEQB":
			s.eqSearch = true
			set(last, union(ops...), in)
			delete(imm, dstLoc)
		case "PCMPGTB":
			// dst = dst > src lane-wise: "key greater than probe" needs the keys in dst, the probe in src
			if !get(last)["keys"] || get(last)["b"] || !get(ops[0])["b"] || get(ops[0])["keys"] {
				s.roles = append(s.roles, fmt.Sprintf("%s:%d %s: ordered compare must be keys > probe (keys in the destination, broadcast probe byte in the source); here destination depends on %v and source on %v", f.file, in.line, in.raw, get(last).list(), get(ops[0]).list()))
			}
			a, _, _ := asmLoc(ops[0])
			if !biased[a] || !biased[dstLoc] {
				s.signedCmp = append(s.signedCmp, fmt.Sprintf("%s:%d %s: PCMPGTB is a signed compare and its operands are not both XOR-biased with a broadcast 0x80", f.file, in.line, in.raw))
			}
			set(last, union(ops...), in)
			delete(imm, dstLoc)
		case "PMOVMSKB", "TZCNTW", "TZCNTL", "TZCNTQ", "BSFW", "BSFL", "RBIT", "CLZ":
			set(last, union(ops[0]), in)
			delete(imm, dstLoc)
		case "CMPW", "CMPQ", "CMPL", "CMPB", "TESTW", "TESTQ":
			deps["flags"] = union(ops...)
			lastCmp = nil
			if strings.HasPrefix(in.mn, "CMP") && len(ops) == 2 {
				// a lane index (derived from the keys) against the fill count
				da, db := get(ops[0]), get(ops[1])
				onlyLen := func(d depset) bool { return len(d) == 1 && d["childrenLen"] }
				switch {
				case da["keys"] && onlyLen(db):
					lastCmp = &fillCompare{idxFirst: true, insn: in}
				case db["keys"] && onlyLen(da):
					lastCmp = &fillCompare{idxFirst: false, insn: in}
				}
			}
		case "JEQ", "JNE", "JZ", "JNZ", "JLT", "JGE", "JHI", "JLS", "JCC", "JCS", "JAE", "JHS", "JLO", "JB", "JBE", "JA", "JGT", "JLE":
			ctrl.add(deps["flags"])
			if lastCmp != nil {
				s.fillCmpSeen++
				// occupied lanes are 0 … count-1: the test has to separate index < count from
				// index >= count; one that separates index <= count from index > count takes the
				// first unoccupied lane for an occupied one
				var good map[string]bool
				if lastCmp.idxFirst { // CMP index, count: flags of index - count
					good = map[string]bool{"JCS": true, "JLO": true, "JB": true, "JCC": true, "JHS": true, "JAE": true, "JLT": true, "JGE": true}
				} else { // CMP count, index
					good = map[string]bool{"JHI": true, "JA": true, "JLS": true, "JBE": true, "JGT": true, "JLE": true}
				}
				if !good[in.mn] {
					s.fillCmp = append(s.fillCmp, fmt.Sprintf("%s:%d %s after %s: the lane index is tested against the fill count so that index == count does not count as beyond the occupied lanes (occupied are 0 … count-1): the byte left in the first unoccupied lane – 0x00 in a fresh node, the byte of a removed child after a delete – is found", f.file, in.line, in.raw, lastCmp.insn.raw))
				}
				lastCmp = nil
			}
		case "CBNZ", "CBZ":
			ctrl.add(get(ops[0]))
		case "JMP", "B":
			// forward jump: nothing to add for dependence
		// ---- arm64 three-operand forms (src…, dst)
		case "AND", "ORR", "EOR", "ADD", "SUB", "LSL", "LSR", "ASR", "VCMEQ", "VCMHI", "VAND":
			set(last, union(ops...), in)
			delete(imm, dstLoc)
		case "WORD":
			switch strings.ToLower(strings.TrimPrefix(ops[0], "$")) {
			case "0x6e213400": // cmhi v0.16b, v0.16b, v1.16b  (unsigned higher)
				d := depset{}
				d.add(deps["V0"])
				d.add(deps["V1"])
				d.add(ctrl)
				deps["V0"] = d
			case "0x0f0c8400": // shrn v0.8b, v0.8h, #4
				d := depset{}
				d.add(deps["V0"])
				d.add(ctrl)
				deps["V0"] = d
			default:
				s.unknown = append(s.unknown, in.raw+" (raw encoding not in the table)")
			}
		case "RET":
		default:
			s.unknown = append(s.unknown, in.raw)
		}
	}
	return s
}

// goDepSummary: which parameters the result of a Go function depends on, flow-insensitively
// (data dependence through assignments plus control dependence on enclosing conditions).
// callee summaries map a callee name to the parameter indices its result depends on.
func goDepSummary(fd *ast.FuncDecl, callee map[string][]int) depset {
	params := map[string]bool{}
	for _, f := range fd.Type.Params.List {
		for _, nm := range f.Names {
			params[nm.Name] = true
		}
	}
	deps := map[string]depset{}
	for p := range params {
		deps[p] = depset{p: true}
	}
	var exprDeps func(e ast.Node) depset
	exprDeps = func(e ast.Node) depset {
		d := depset{}
		if e == nil {
			return d
		}
		ast.Inspect(e, func(n ast.Node) bool {
			switch x := n.(type) {
			case *ast.CallExpr:
				if id, ok := x.Fun.(*ast.Ident); ok {
					if idxs, ok := callee[id.Name]; ok {
						for _, i := range idxs {
							if i < len(x.Args) {
								d.add(exprDeps(x.Args[i]))
							}
						}
						return false
					}
				}
			case *ast.Ident:
				d.add(deps[x.Name])
			}
			return true
		})
		return d
	}
	ret := depset{}
	for iter := 0; iter < 8; iter++ {
		var walk func(n ast.Node, ctrl depset)
		walk = func(n ast.Node, ctrl depset) {
			switch x := n.(type) {
			case *ast.BlockStmt:
				for _, s := range x.List {
					walk(s, ctrl)
				}
			case *ast.IfStmt:
				if x.Init != nil {
					walk(x.Init, ctrl)
				}
				c2 := depset{}
				c2.add(ctrl)
				c2.add(exprDeps(x.Cond))
				walk(x.Body, c2)
				if x.Else != nil {
					walk(x.Else, c2)
				}
				// code after an if with a return inside is control dependent too: approximate by
				// adding the condition to the function-wide control set
				ctrl.add(exprDeps(x.Cond))
			case *ast.ForStmt:
				c2 := depset{}
				c2.add(ctrl)
				c2.add(exprDeps(x.Cond))
				if x.Init != nil {
					walk(x.Init, ctrl)
				}
				walk(x.Body, c2)
				if x.Post != nil {
					walk(x.Post, c2)
				}
			case *ast.RangeStmt:
				c2 := depset{}
				c2.add(ctrl)
				c2.add(exprDeps(x.X))
				if id, ok := x.Key.(*ast.Ident); ok {
					if deps[id.Name] == nil {
						deps[id.Name] = depset{}
					}
					deps[id.Name].add(exprDeps(x.X))
				}
				walk(x.Body, c2)
			case *ast.AssignStmt:
				for i, l := range x.Lhs {
					id, ok := l.(*ast.Ident)
					if !ok {
						continue
					}
					d := depset{}
					d.add(ctrl)
					if len(x.Rhs) == len(x.Lhs) {
						d.add(exprDeps(x.Rhs[i]))
					} else {
						for _, r := range x.Rhs {
							d.add(exprDeps(r))
						}
					}
					if x.Tok != token.ASSIGN && x.Tok != token.DEFINE {
						d.add(deps[id.Name])
					}
					if deps[id.Name] == nil {
						deps[id.Name] = depset{}
					}
					deps[id.Name].add(d)
				}
			case *ast.ReturnStmt:
				ret.add(ctrl)
				for _, r := range x.Results {
					ret.add(exprDeps(r))
				}
			}
		}
		walk(fd.Body, depset{})
	}
	out := depset{}
	for k := range ret {
		if params[k] {
			out[k] = true
		}
	}
	return out
}

// R20 ASMDEP.
func ruleR20(c *Ctx) {
	props := []string{"C10", "C01", "C02"}
	routines := []string{"insertPosNode16", "searchNode16"}
	wantParams := []string{"keys", "childrenLen", "b"}
	offsets := map[string]int{"keys": 0, "childrenLen": 8, "b": 9, "ret": 16} // (ptr, uint8, byte) int on 64-bit targets
	type impl struct {
		arch string
		deps map[string]depset
		pos  map[string]string
		how  map[string]string
	}
	var impls []impl
	// every file of the package directory, regardless of build tags
	entries, err := os.ReadDir(repoDir)
	if err != nil {
		c.r.undecided("R20", "package directory readable", "-", err.Error(), props...)
		return
	}
	asmSums := map[string]map[string]*asmSummary{} // arch → routine → summary
	goFiles := map[string]*ast.File{}
	fset := token.NewFileSet()
	for _, e := range entries {
		name := e.Name()
		path := filepath.Join(repoDir, name)
		switch {
		case strings.HasSuffix(name, ".s"):
			arch := strings.TrimSuffix(name[strings.LastIndexByte(name, '_')+1:], ".s")
			src, err := c.L.readFile(path)
			if err != nil {
				c.r.undecided("R20", name+" readable", name, err.Error(), props...)
				continue
			}
			funcs, err := parseAsm(path, src)
			if err != nil {
				c.r.undecided("R20", name+" parses", name, err.Error(), props...)
				continue
			}
			asmSums[arch] = map[string]*asmSummary{}
			for _, f := range funcs {
				asmSums[arch][f.name] = analyseAsm(f, arch, offsets)
			}
		case strings.HasPrefix(name, "node16") && strings.HasSuffix(name, ".go") && !strings.HasSuffix(name, "_test.go"):
			src, err := c.L.readFile(path)
			if err != nil {
				continue
			}
			if af, err := parser.ParseFile(fset, path, src, parser.ParseComments); err == nil {
				goFiles[name] = af
			} else {
				c.r.undecided("R20", name+" parses", name, err.Error(), props...)
			}
		}
	}
	// build constraints of the Go files decide which arch each belongs to
	archOf := func(name string, f *ast.File) []string {
		cons := ""
		for _, cg := range f.Comments {
			for _, cm := range cg.List {
				if strings.HasPrefix(cm.Text, "//go:build ") && cm.Pos() < f.Package {
					cons = strings.TrimPrefix(cm.Text, "//go:build ")
				}
			}
		}
		var out []string
		for _, a := range []string{"amd64", "arm64", "other"} {
			match := false
			switch {
			case strings.HasSuffix(name, "_amd64.go"):
				match = a == "amd64"
			case strings.HasSuffix(name, "_arm64.go"):
				match = a == "arm64"
			case cons == "":
				match = true
			default:
				match = evalBuildExpr(cons, a)
			}
			if match {
				out = append(out, a)
			}
		}
		return out
	}
	for _, arch := range []string{"amd64", "arm64", "other"} {
		im := impl{arch: arch, deps: map[string]depset{}, pos: map[string]string{}, how: map[string]string{}}
		// assembly summaries for this arch as callee summaries
		callee := map[string][]int{}
		for rn, s := range asmSums[arch] {
			var idxs []int
			for i, p := range wantParams {
				if s.retDeps[p] {
					idxs = append(idxs, i)
				}
			}
			callee[rn] = idxs
		}
		for _, fname := range sortedKeys(goFiles) {
			f := goFiles[fname]
			applies := false
			for _, a := range archOf(fname, f) {
				if a == arch {
					applies = true
				}
			}
			if !applies {
				continue
			}
			for _, d := range f.Decls {
				fd, ok := d.(*ast.FuncDecl)
				if !ok {
					continue
				}
				for _, rn := range routines {
					if fd.Name.Name != rn {
						continue
					}
					im.pos[rn] = fmt.Sprintf("%s:%d", fname, fset.Position(fd.Pos()).Line)
					if fd.Body == nil {
						if s := asmSums[arch][rn]; s != nil {
							im.deps[rn] = s.retDeps
							im.how[rn] = "assembly " + "node16_" + arch + ".s"
						}
					} else {
						im.deps[rn] = goDepSummary(fd, callee)
						im.how[rn] = "Go body in " + fname
					}
				}
			}
		}
		impls = append(impls, im)
	}
	for _, im := range impls {
		for _, rn := range routines {
			key := fmt.Sprintf("%s on %s depends on keys, fill count and probe byte", rn, im.arch)
			d, ok := im.deps[rn]
			if !ok {
				c.r.undecided("R20", key, "-", "no implementation of "+rn+" found for this architecture class", props...)
				continue
			}
			var missing []string
			for _, p := range wantParams {
				if !d[p] {
					missing = append(missing, p)
				}
			}
			if len(missing) == 0 {
				c.r.ok("R20", key, im.pos[rn], im.how[rn]+": result depends on "+strings.Join(d.list(), ", "), props...)
			} else {
				c.r.bad("R20", key, im.pos[rn], fmt.Sprintf("%s: the result never depends on %s – it cannot equal a scalar scan over the occupied slots when unoccupied slots hold the probed byte (result depends on %v)", im.how[rn], strings.Join(missing, ", "), d.list()), props...)
			}
		}
	}
	// per assembly routine: stores, signed compares, frame, unknown mnemonics
	for _, arch := range sortedKeys(asmSums) {
		for _, rn := range sortedKeys(asmSums[arch]) {
			s := asmSums[arch][rn]
			pos := "node16_" + arch + ".s"
			key := fmt.Sprintf("%s (%s asm)", rn, arch)
			if len(s.unknown) > 0 {
				c.r.undecided("R20", key+" instruction table", pos, "unknown instructions (fail closed): "+strings.Join(s.unknown, "; "), props...)
			} else {
				c.r.ok("R20", key+" instruction table", pos, "every instruction is in the reader's def/use table", props...)
			}
			if len(s.otherStores) > 0 {
				c.r.bad("R20", key+" stores only its result", pos, "writes memory other than the result slot: "+strings.Join(s.otherStores, "; "), props...)
			} else {
				c.r.ok("R20", key+" stores only its result", pos, "no store except ret+16(FP)", props...)
			}
			if len(s.signedCmp) > 0 {
				c.r.bad("R20", key+" ordered compare is unsigned", pos, strings.Join(s.signedCmp, "; ")+" – bytes ≥ 0x80 order before bytes < 0x80", props...)
			} else {
				c.r.ok("R20", key+" ordered compare is unsigned", pos, "no signed ordered compare, or both operands biased by 0x80 (arm64: CMHI)", props...)
			}
			if len(s.roles) > 0 {
				c.r.bad("R20", key+" compares keys > probe", pos, strings.Join(s.roles, "; "), props...)
			} else {
				c.r.ok("R20", key+" compares keys > probe", pos, "operand roles of every ordered compare: keys in the destination, probe in the source (or no ordered compare)", props...)
			}
			if s.eqSearch && s.fillCmpSeen > 0 {
				if len(s.fillCmp) > 0 {
					c.r.bad("R20", key+" takes lane == fill count for unoccupied", pos, strings.Join(s.fillCmp, "; "), props...)
				} else {
					c.r.ok("R20", key+" takes lane == fill count for unoccupied", pos, fmt.Sprintf("%d comparison(s) of a lane index with the fill count separate index < count from index >= count", s.fillCmpSeen), props...)
				}
			}
			if len(s.frame) > 0 {
				c.r.bad("R20", key+" frame offsets match the Go prototype", pos, strings.Join(s.frame, "; "), props...)
			} else {
				c.r.ok("R20", key+" frame offsets match the Go prototype", pos, "keys+0 childrenLen+8 b+9 ret+16", props...)
			}
		}
	}
	c.r.floor("R20", 8, "assembly/Go sibling checks", "C10")
}

// evalBuildExpr evaluates a //go:build expression over {amd64, arm64, other}.
func evalBuildExpr(expr, arch string) bool {
	expr = strings.TrimSpace(expr)
	// tiny evaluator: ||, &&, !, identifiers, parentheses
	p := &bexpr{toks: regexp.MustCompile(`\|\||&&|!|\(|\)|\w+`).FindAllString(expr, -1), arch: arch}
	return p.or()
}

type bexpr struct {
	toks []string
	i    int
	arch string
}

func (p *bexpr) peek() string {
	if p.i < len(p.toks) {
		return p.toks[p.i]
	}
	return ""
}
func (p *bexpr) or() bool {
	v := p.and()
	for p.peek() == "||" {
		p.i++
		w := p.and()
		v = v || w
	}
	return v
}
func (p *bexpr) and() bool {
	v := p.not()
	for p.peek() == "&&" {
		p.i++
		w := p.not()
		v = v && w
	}
	return v
}
func (p *bexpr) not() bool {
	if p.peek() == "!" {
		p.i++
		return !p.not()
	}
	if p.peek() == "(" {
		p.i++
		v := p.or()
		p.i++
		return v
	}
	t := p.peek()
	p.i++
	switch t {
	case "amd64", "arm64":
		return t == p.arch
	case "linux", "gc":
		return true
	}
	return false
}
