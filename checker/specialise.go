package main

// Specialisation on mode flags (used by R09).
//
// Two traversals that differ only in direction are often merged into one function with a boolean
// parameter (outermost(ref, last), walk(root, restore, descending)); every call passes a constant.
// The rules that read the *shape* of a traversal then see one body that is both traversals at
// once. This file rebuilds the body for one value of the flag, syntactically and without running
// anything:
//   - an if whose condition is decided by the flag is replaced by the branch taken, statements
//     after a return are dropped;
//   - `x := a` directly followed by `x = b` becomes `x := b`; `a, b := x, y` is split;
//   - a local defined once by a pure arithmetic expression is replaced by its definition
//     (i := slot(k, 256) … children[i] → children[255-k]);
//   - a local closure whose specialised body is a single return is expanded at its calls;
//   - `x += step` with step a local constant ±1 becomes x++ / x--; loop-invariant extra variables
//     of a for-clause (`for k, n := 0, int(N.childrenLen); …`) are replaced by their definitions;
//   - constant subexpressions of rebuilt expressions are folded.
// Expression nodes are shared with the original tree wherever they are unchanged, and every rebuilt
// node gets the type (and constant value) of the node it replaces, so the result can be read with
// the package's types.Info like source code.

import (
	"go/ast"
	"go/constant"
	"go/token"
	"go/types"
)

type simpleClosure struct {
	params []*types.Var
	ret    ast.Expr
}

type specialiser struct {
	c        *Ctx
	info     *types.Info
	flags    map[*types.Var]bool
	subst    map[*types.Var]ast.Expr
	closures map[*types.Var]*simpleClosure
	scope    ast.Node // the function whose locals are judged "assigned once"
	unit     ast.Node // original body of the unit being rebuilt
	rebuilt  ast.Node // phase 2: the unit's body after phase 1 (its locals are judged there)
	phase    int      // 1: decide ifs, drop dead code, merge definitions; 2: expand and inline
	changed  bool
}

// flagParam describes one boolean mode parameter of the function enclosing a unit.
type flagParam struct {
	v      *types.Var
	root   *FuncUnit         // the declared function that has the parameter
	byVal  map[bool][]string // value → names of the calling units
	values []bool
}

// flagParams: the boolean parameters of u (or of the declared function u is a literal of) that are
// never assigned and receive a constant at every call site.
func (c *Ctx) flagParams(u *FuncUnit) []flagParam {
	root := u
	for root.Parent != nil {
		root = root.Parent
	}
	if root.Decl == nil || root.Obj == nil || root.Decl.Type.Params == nil {
		return nil
	}
	info := c.m.Info
	var out []flagParam
	i := -1
	for _, f := range root.Decl.Type.Params.List {
		for _, nm := range f.Names {
			i++
			v, _ := info.Defs[nm].(*types.Var)
			if v == nil {
				continue
			}
			b, ok := v.Type().Underlying().(*types.Basic)
			if !ok || b.Kind() != types.Bool || assignedAnywhere(info, root.Body, v) {
				continue
			}
			used := false
			ast.Inspect(u.Body, func(n ast.Node) bool {
				if id, ok := n.(*ast.Ident); ok && info.Uses[id] == v {
					used = true
				}
				return !used
			})
			if !used && u != root {
				// the literal may use it through a sibling closure (slot := func…{ if descending … })
				ast.Inspect(root.Body, func(n ast.Node) bool {
					if id, ok := n.(*ast.Ident); ok && info.Uses[id] == v {
						used = true
					}
					return !used
				})
			}
			if !used {
				continue
			}
			sites := c.callSitesOf(root)
			if len(sites) == 0 {
				continue
			}
			fp := flagParam{v: v, root: root, byVal: map[bool][]string{}}
			okAll := true
			for _, s := range sites {
				a := argFor(s.call, i)
				tv, has := info.Types[a]
				if a == nil || !has || tv.Value == nil || tv.Value.Kind() != constant.Bool {
					okAll = false
					break
				}
				val := constant.BoolVal(tv.Value)
				caller := s.u
				for caller.Parent != nil {
					caller = caller.Parent
				}
				fp.byVal[val] = append(fp.byVal[val], caller.Name)
			}
			if !okAll {
				continue
			}
			for _, val := range []bool{false, true} {
				if len(fp.byVal[val]) > 0 {
					fp.values = append(fp.values, val)
				}
			}
			out = append(out, fp)
		}
	}
	return out
}

// specialiseUnit returns the body of u under the given flag values (nil if nothing changed).
func (c *Ctx) specialiseUnit(u *FuncUnit, flags map[*types.Var]bool) *ast.BlockStmt {
	root := u
	for root.Parent != nil {
		root = root.Parent
	}
	sp := &specialiser{c: c, info: c.m.Info, flags: flags, subst: map[*types.Var]ast.Expr{}, closures: map[*types.Var]*simpleClosure{}, scope: root.Body, unit: u.Body, phase: 1}
	bodyA := sp.stmts(u.Body.List)
	any := sp.changed
	// local closures of the enclosing function(s) whose specialised body is one return
	if root.Body != nil {
		ast.Inspect(root.Body, func(n ast.Node) bool {
			as, ok := n.(*ast.AssignStmt)
			if !ok || as.Tok != token.DEFINE || len(as.Lhs) != 1 || len(as.Rhs) != 1 {
				return true
			}
			lit, ok := ast.Unparen(as.Rhs[0]).(*ast.FuncLit)
			if !ok || ast.Node(lit) == ast.Node(u.Lit) {
				return true
			}
			v := identVarDef(sp.info, as.Lhs[0])
			if v == nil || sp.assignedTwice(v) || lit.Type.Results == nil || len(lit.Type.Results.List) != 1 {
				return true
			}
			body := sp.stmts(lit.Body.List)
			if len(body) != 1 {
				return true
			}
			rs, ok := body[0].(*ast.ReturnStmt)
			if !ok || len(rs.Results) != 1 || !sp.pure(rs.Results[0]) {
				return true
			}
			cl := &simpleClosure{ret: rs.Results[0]}
			for _, f := range lit.Type.Params.List {
				for _, nm := range f.Names {
					pv, _ := sp.info.Defs[nm].(*types.Var)
					if pv == nil {
						return true
					}
					cl.params = append(cl.params, pv)
				}
			}
			sp.closures[v] = cl
			return false
		})
	}
	sp.phase = 2
	sp.rebuilt = &ast.BlockStmt{List: bodyA}
	sp.changed = false
	bodyB := sp.stmts(bodyA)
	if !any && !sp.changed {
		return nil
	}
	return &ast.BlockStmt{Lbrace: u.Body.Lbrace, List: bodyB, Rbrace: u.Body.Rbrace}
}

// assignedTwice: v is written anywhere but at its definition (or its address is taken).
func (sp *specialiser) assignedTwice(v *types.Var) bool {
	found := false
	scope := sp.scope
	if sp.rebuilt != nil && sp.unit != nil && v.Pos() >= sp.unit.Pos() && v.Pos() <= sp.unit.End() {
		scope = sp.rebuilt // a local of the unit: what the rebuilt body does with it
	}
	ast.Inspect(scope, func(n ast.Node) bool {
		switch x := n.(type) {
		case *ast.AssignStmt:
			for _, l := range x.Lhs {
				if id, ok := ast.Unparen(l).(*ast.Ident); ok {
					if sp.info.Uses[id] == v || (x.Tok != token.DEFINE && sp.info.Defs[id] == v) {
						found = true
					}
				}
			}
		case *ast.IncDecStmt:
			if identVar(sp.info, x.X) == v {
				found = true
			}
		case *ast.UnaryExpr:
			if x.Op == token.AND && identVar(sp.info, x.X) == v {
				found = true
			}
		case *ast.RangeStmt:
			if x.Tok == token.ASSIGN && (identVar(sp.info, x.Key) == v || (x.Value != nil && identVar(sp.info, x.Value) == v)) {
				found = true
			}
		}
		return !found
	})
	return found
}

// pure: e reads locals, fields, constants and arithmetic only (conversions, len, and calls of
// expanded closures allowed).
func (sp *specialiser) pure(e ast.Expr) bool {
	ok := true
	ast.Inspect(e, func(n ast.Node) bool {
		switch x := n.(type) {
		case *ast.CallExpr:
			if isConversion(sp.info, x) || isBuiltinCall(sp.info, x, "len") || isBuiltinCall(sp.info, x, "min") || isBuiltinCall(sp.info, x, "max") {
				return true
			}
			if v := identVar(sp.info, x.Fun); v != nil && sp.closures[v] != nil {
				return true
			}
			ok = false
		case *ast.FuncLit, *ast.CompositeLit:
			ok = false
		case *ast.UnaryExpr:
			if x.Op == token.AND || x.Op == token.ARROW {
				ok = false
			}
		}
		return ok
	})
	return ok
}

// arithmetic: e is built from identifiers, constants, field reads, conversions and + - only – the
// kind of expression that computes a slot index (index expressions stay with the reader's own
// handling of slot aliases).
func (sp *specialiser) arithmetic(e ast.Expr) bool {
	ok := true
	ast.Inspect(e, func(n ast.Node) bool {
		switch x := n.(type) {
		case *ast.Ident, *ast.BasicLit, *ast.ParenExpr, *ast.SelectorExpr:
		case *ast.BinaryExpr:
			if x.Op != token.ADD && x.Op != token.SUB {
				ok = false
			}
		case *ast.CallExpr:
			if isConversion(sp.info, x) {
				return true
			}
			if v := identVar(sp.info, x.Fun); v != nil && sp.closures[v] != nil {
				return true
			}
			ok = false
		default:
			if _, isExpr := n.(ast.Expr); isExpr {
				ok = false
			}
		}
		return ok
	})
	return ok
}

func (sp *specialiser) copyType(n, orig ast.Expr) {
	if tv, ok := sp.info.Types[orig]; ok {
		sp.info.Types[n] = tv
	}
}

func (sp *specialiser) fold(n *ast.BinaryExpr) {
	l, ok1 := sp.info.Types[n.X]
	r, ok2 := sp.info.Types[n.Y]
	if !ok1 || !ok2 || l.Value == nil || r.Value == nil || l.Value.Kind() != constant.Int || r.Value.Kind() != constant.Int {
		return
	}
	switch n.Op {
	case token.ADD, token.SUB, token.MUL:
		tv := sp.info.Types[n]
		t := tv.Type
		if t == nil {
			t = l.Type
		}
		sp.info.Types[n] = types.TypeAndValue{Type: t, Value: constant.BinaryOp(l.Value, n.Op, r.Value)}
	}
}

// condValue: the value of a condition the flags decide.
func (sp *specialiser) condValue(e ast.Expr) (val, known bool) {
	switch x := ast.Unparen(e).(type) {
	case *ast.Ident:
		if v := identVar(sp.info, x); v != nil {
			if b, ok := sp.flags[v]; ok {
				return b, true
			}
		}
		if tv, ok := sp.info.Types[x]; ok && tv.Value != nil && tv.Value.Kind() == constant.Bool {
			return constant.BoolVal(tv.Value), true
		}
	case *ast.UnaryExpr:
		if x.Op == token.NOT {
			if b, ok := sp.condValue(x.X); ok {
				return !b, true
			}
		}
	case *ast.BinaryExpr:
		l, lk := sp.condValue(x.X)
		r, rk := sp.condValue(x.Y)
		switch x.Op {
		case token.LAND:
			if (lk && !l) || (rk && !r) {
				return false, true
			}
			if lk && rk {
				return true, true
			}
		case token.LOR:
			if (lk && l) || (rk && r) {
				return true, true
			}
			if lk && rk {
				return false, true
			}
		case token.EQL:
			if lk && rk {
				return l == r, true
			}
		case token.NEQ:
			if lk && rk {
				return l != r, true
			}
		}
	}
	return false, false
}

func (sp *specialiser) exprs(list []ast.Expr) ([]ast.Expr, bool) {
	var out []ast.Expr
	ch := false
	for _, e := range list {
		n := sp.expr(e)
		if n != e {
			ch = true
		}
		out = append(out, n)
	}
	return out, ch
}

// expr rebuilds e with the current substitutions; the same node comes back if nothing changed.
func (sp *specialiser) expr(e ast.Expr) ast.Expr {
	if e == nil {
		return nil
	}
	switch x := e.(type) {
	case *ast.Ident:
		if v, _ := sp.info.Uses[x].(*types.Var); v != nil {
			if r, ok := sp.subst[v]; ok {
				sp.changed = true
				return r
			}
		}
		return x
	case *ast.ParenExpr:
		in := sp.expr(x.X)
		if in == x.X {
			return x
		}
		n := &ast.ParenExpr{Lparen: x.Lparen, X: in, Rparen: x.Rparen}
		sp.copyType(n, x)
		if tv, ok := sp.info.Types[in]; ok && tv.Value != nil {
			sp.info.Types[n] = tv
		}
		return n
	case *ast.BinaryExpr:
		l, r := sp.expr(x.X), sp.expr(x.Y)
		if l == x.X && r == x.Y {
			return x
		}
		n := &ast.BinaryExpr{X: l, OpPos: x.OpPos, Op: x.Op, Y: r}
		sp.copyType(n, x)
		sp.fold(n)
		return n
	case *ast.UnaryExpr:
		in := sp.expr(x.X)
		if in == x.X {
			return x
		}
		n := &ast.UnaryExpr{OpPos: x.OpPos, Op: x.Op, X: in}
		sp.copyType(n, x)
		return n
	case *ast.StarExpr:
		in := sp.expr(x.X)
		if in == x.X {
			return x
		}
		n := &ast.StarExpr{Star: x.Star, X: in}
		sp.copyType(n, x)
		return n
	case *ast.SelectorExpr:
		in := sp.expr(x.X)
		if in == x.X {
			return x
		}
		n := &ast.SelectorExpr{X: in, Sel: x.Sel}
		sp.copyType(n, x)
		if s, ok := sp.info.Selections[x]; ok {
			sp.info.Selections[n] = s
		}
		return n
	case *ast.IndexExpr:
		b, i := sp.expr(x.X), sp.expr(x.Index)
		if b == x.X && i == x.Index {
			return x
		}
		n := &ast.IndexExpr{X: b, Lbrack: x.Lbrack, Index: i, Rbrack: x.Rbrack}
		sp.copyType(n, x)
		return n
	case *ast.SliceExpr:
		b, lo, hi, mx := sp.expr(x.X), sp.expr(x.Low), sp.expr(x.High), sp.expr(x.Max)
		if b == x.X && lo == x.Low && hi == x.High && mx == x.Max {
			return x
		}
		n := &ast.SliceExpr{X: b, Lbrack: x.Lbrack, Low: lo, High: hi, Max: mx, Slice3: x.Slice3, Rbrack: x.Rbrack}
		sp.copyType(n, x)
		return n
	case *ast.CallExpr:
		if v := identVar(sp.info, x.Fun); v != nil {
			if cl := sp.closures[v]; cl != nil && len(cl.params) == len(x.Args) && sp.phase == 2 {
				args, _ := sp.exprs(x.Args)
				allPure := true
				for _, a := range args {
					if !sp.pure(a) {
						allPure = false
					}
				}
				if allPure {
					saved := map[*types.Var]ast.Expr{}
					for i, p := range cl.params {
						if old, had := sp.subst[p]; had {
							saved[p] = old
						}
						a := args[i]
						if _, isBin := ast.Unparen(a).(*ast.BinaryExpr); isBin {
							if _, isParen := a.(*ast.ParenExpr); !isParen {
								pa := &ast.ParenExpr{Lparen: a.Pos(), X: a, Rparen: a.End()}
								sp.copyType(pa, a)
								a = pa
							}
						}
						sp.subst[p] = a
					}
					res := sp.expr(cl.ret)
					for _, p := range cl.params {
						delete(sp.subst, p)
						if old, had := saved[p]; had {
							sp.subst[p] = old
						}
					}
					sp.changed = true
					if _, isBin := ast.Unparen(res).(*ast.BinaryExpr); isBin {
						if _, isParen := res.(*ast.ParenExpr); !isParen {
							pr := &ast.ParenExpr{Lparen: x.Pos(), X: res, Rparen: x.End()}
							sp.copyType(pr, res)
							return pr
						}
					}
					return res
				}
			}
		}
		fun := x.Fun
		if _, isId := ast.Unparen(fun).(*ast.Ident); !isId {
			fun = sp.expr(fun)
		}
		args, ch := sp.exprs(x.Args)
		if !ch && fun == x.Fun {
			return x
		}
		n := &ast.CallExpr{Fun: fun, Lparen: x.Lparen, Args: args, Ellipsis: x.Ellipsis, Rparen: x.Rparen}
		sp.copyType(n, x)
		if tv, ok := sp.info.Types[n]; ok && isConversion(sp.info, x) && len(args) == 1 {
			// a conversion of a folded constant keeps its value
			if av, ok2 := sp.info.Types[args[0]]; ok2 && av.Value != nil && tv.Value == nil {
				if b, isB := tv.Type.Underlying().(*types.Basic); isB && b.Info()&types.IsInteger != 0 {
					sp.info.Types[n] = types.TypeAndValue{Type: tv.Type, Value: av.Value}
				}
			}
		}
		return n
	case *ast.CompositeLit:
		elts, ch := sp.exprs(x.Elts)
		if !ch {
			return x
		}
		n := &ast.CompositeLit{Type: x.Type, Lbrace: x.Lbrace, Elts: elts, Rbrace: x.Rbrace}
		sp.copyType(n, x)
		return n
	case *ast.KeyValueExpr:
		v := sp.expr(x.Value)
		if v == x.Value {
			return x
		}
		return &ast.KeyValueExpr{Key: x.Key, Colon: x.Colon, Value: v}
	case *ast.TypeAssertExpr:
		in := sp.expr(x.X)
		if in == x.X {
			return x
		}
		n := &ast.TypeAssertExpr{X: in, Lparen: x.Lparen, Type: x.Type, Rparen: x.Rparen}
		sp.copyType(n, x)
		return n
	}
	return e
}

func (sp *specialiser) block(b *ast.BlockStmt) *ast.BlockStmt {
	if b == nil {
		return nil
	}
	before := sp.changed
	sp.changed = false
	list := sp.stmts(b.List)
	ch := sp.changed
	sp.changed = before || ch
	if !ch {
		return b
	}
	return &ast.BlockStmt{Lbrace: b.Lbrace, List: list, Rbrace: b.Rbrace}
}

// localConst: v is a local defined once by a constant (after the merging done so far).
func (sp *specialiser) localConst(list []ast.Stmt, v *types.Var) (int64, bool) {
	for _, st := range list {
		as, ok := st.(*ast.AssignStmt)
		if !ok || as.Tok != token.DEFINE || len(as.Lhs) != len(as.Rhs) {
			continue
		}
		for i, l := range as.Lhs {
			if id, ok := l.(*ast.Ident); ok && sp.info.Defs[id] == v {
				if tv, ok := sp.info.Types[as.Rhs[i]]; ok && tv.Value != nil && tv.Value.Kind() == constant.Int {
					k, exact := constant.Int64Val(tv.Value)
					return k, exact
				}
			}
		}
	}
	return 0, false
}

// stmts rebuilds a statement list.
func (sp *specialiser) stmts(list []ast.Stmt) []ast.Stmt {
	// pass 1: fold ifs, rebuild nested statements
	var flat []ast.Stmt
	for _, st := range list {
		flat = append(flat, sp.stmt(st)...)
	}
	// statements after a return / branch at this level are dead
	for i, st := range flat {
		switch st.(type) {
		case *ast.ReturnStmt, *ast.BranchStmt:
			if i+1 < len(flat) {
				flat = flat[:i+1]
				sp.changed = true
			}
		}
		if i >= len(flat)-1 {
			break
		}
	}
	// pass 2: split constant multi-defines, merge define + reassign
	var merged []ast.Stmt
	for _, st := range flat {
		as, ok := st.(*ast.AssignStmt)
		if sp.phase != 1 {
			ok = false
		}
		if ok && as.Tok == token.ASSIGN && len(merged) > 0 && len(as.Lhs) == len(as.Rhs) {
			// x = b directly after x := a (every assigned name defined by the statement(s) just before)
			done := 0
			for i, l := range as.Lhs {
				v := identVar(sp.info, l)
				if v == nil {
					break
				}
				mentions := false
				for _, r := range as.Rhs {
					ast.Inspect(r, func(n ast.Node) bool {
						if id, ok := n.(*ast.Ident); ok && sp.info.Uses[id] == v {
							mentions = true
						}
						return !mentions
					})
				}
				if mentions {
					break
				}
				hit := false
				for k := len(merged) - 1; k >= 0 && k >= len(merged)-len(as.Lhs); k-- {
					d, ok := merged[k].(*ast.AssignStmt)
					if !ok || d.Tok != token.DEFINE || len(d.Lhs) != 1 || len(d.Rhs) != 1 {
						break
					}
					if id, ok := d.Lhs[0].(*ast.Ident); ok && sp.info.Defs[id] == v {
						merged[k] = &ast.AssignStmt{Lhs: d.Lhs, TokPos: d.TokPos, Tok: token.DEFINE, Rhs: []ast.Expr{as.Rhs[i]}}
						hit = true
						break
					}
				}
				if !hit {
					break
				}
				done++
			}
			if done == len(as.Lhs) {
				sp.changed = true
				continue
			}
		}
		if ok && as.Tok == token.DEFINE && len(as.Lhs) > 1 && len(as.Lhs) == len(as.Rhs) {
			allConst := true
			for _, r := range as.Rhs {
				if tv, has := sp.info.Types[r]; !has || tv.Value == nil {
					allConst = false
				}
			}
			if allConst {
				for i := range as.Lhs {
					merged = append(merged, &ast.AssignStmt{Lhs: []ast.Expr{as.Lhs[i]}, TokPos: as.TokPos, Tok: token.DEFINE, Rhs: []ast.Expr{as.Rhs[i]}})
				}
				sp.changed = true
				continue
			}
		}
		merged = append(merged, st)
	}
	if sp.phase == 1 {
		return merged
	}
	// pass 3: x += step with step a local constant ±1 never written again
	for i, st := range merged {
		as, ok := st.(*ast.AssignStmt)
		_ = as
		_ = ok
		merged[i] = sp.stepRewrite(merged, st)
	}
	// pass 4: drop defines of locals that are no longer used (a step expanded into ++/--)
	var out []ast.Stmt
	for _, st := range merged {
		if as, ok := st.(*ast.AssignStmt); ok && as.Tok == token.DEFINE && len(as.Lhs) == 1 && len(as.Rhs) == 1 {
			if v := identVarDef(sp.info, as.Lhs[0]); v != nil {
				if _, isConst := sp.localConst([]ast.Stmt{st}, v); isConst && !usedIn(sp.info, merged, v) {
					sp.changed = true
					continue
				}
			}
		}
		out = append(out, st)
	}
	// pass 5: inline arithmetic single-definition locals
	var fin []ast.Stmt
	for i, st := range out {
		if as, ok := st.(*ast.AssignStmt); ok && as.Tok == token.DEFINE && len(as.Lhs) == 1 && len(as.Rhs) == 1 {
			v := identVarDef(sp.info, as.Lhs[0])
			if v != nil && isIntType(v.Type()) && sp.inlineWanted(as.Rhs[0]) && sp.arithmetic(as.Rhs[0]) && !sp.assignedTwice(v) && sp.operandsStable(as.Rhs[0]) {
				sp.subst[v] = parenIfBinary(sp, as.Rhs[0])
				rest := sp.stmts(out[i+1:])
				delete(sp.subst, v)
				sp.changed = true
				return append(fin, rest...)
			}
		}
		fin = append(fin, st)
	}
	return fin
}

// inlineWanted: only definitions this file produced something in (a closure expanded, a constant
// folded) or plain arithmetic on a loop variable are inlined; `idx := 255` style counters that a
// loop then steps are not (they are assigned again and fail assignedTwice anyway).
func (sp *specialiser) inlineWanted(e ast.Expr) bool { return true }

func parenIfBinary(sp *specialiser, e ast.Expr) ast.Expr {
	if _, isBin := ast.Unparen(e).(*ast.BinaryExpr); isBin {
		if _, isParen := e.(*ast.ParenExpr); !isParen {
			p := &ast.ParenExpr{Lparen: e.Pos(), X: e, Rparen: e.End()}
			sp.copyType(p, e)
			return p
		}
	}
	return e
}

// operandsStable: the variables e reads are not written again in the function, except loop
// variables (whose definition precedes e in every iteration); fields are taken as stable in the
// read-only traversals this is used on when no statement of the function stores to a field of
// that name.
func (sp *specialiser) operandsStable(e ast.Expr) bool {
	ok := true
	ast.Inspect(e, func(n ast.Node) bool {
		switch x := n.(type) {
		case *ast.SelectorExpr:
			stored := false
			ast.Inspect(sp.scope, func(m ast.Node) bool {
				switch s := m.(type) {
				case *ast.AssignStmt:
					for _, l := range s.Lhs {
						if sel, isSel := ast.Unparen(l).(*ast.SelectorExpr); isSel && sel.Sel.Name == x.Sel.Name {
							stored = true
						}
					}
				case *ast.IncDecStmt:
					if sel, isSel := ast.Unparen(s.X).(*ast.SelectorExpr); isSel && sel.Sel.Name == x.Sel.Name {
						stored = true
					}
				}
				return !stored
			})
			if stored {
				ok = false
			}
		case *ast.Ident:
			v, _ := sp.info.Uses[x].(*types.Var)
			if v == nil || v.IsField() {
				return true
			}
			if sp.loopVar(v) {
				return true
			}
			if sp.assignedTwice(v) {
				ok = false
			}
		}
		return ok
	})
	return ok
}

// loopVar: v is defined by the init clause of a for statement or by a range clause.
func (sp *specialiser) loopVar(v *types.Var) bool {
	found := false
	ast.Inspect(sp.scope, func(n ast.Node) bool {
		switch x := n.(type) {
		case *ast.ForStmt:
			if as, ok := x.Init.(*ast.AssignStmt); ok && as.Tok == token.DEFINE {
				for _, l := range as.Lhs {
					if id, ok := l.(*ast.Ident); ok && sp.info.Defs[id] == v {
						found = true
					}
				}
			}
		case *ast.RangeStmt:
			if x.Tok == token.DEFINE {
				for _, l := range []ast.Expr{x.Key, x.Value} {
					if id, ok := l.(*ast.Ident); ok && sp.info.Defs[id] == v {
						found = true
					}
				}
			}
		}
		return !found
	})
	return found
}

func identVarDef(info *types.Info, e ast.Expr) *types.Var {
	if id, ok := e.(*ast.Ident); ok {
		if v, ok := info.Defs[id].(*types.Var); ok {
			return v
		}
	}
	return nil
}

func usedIn(info *types.Info, list []ast.Stmt, v *types.Var) bool {
	used := false
	for _, st := range list {
		ast.Inspect(st, func(n ast.Node) bool {
			if id, ok := n.(*ast.Ident); ok && info.Uses[id] == v {
				used = true
			}
			return !used
		})
	}
	return used
}

// stepRewrite: x += step / x -= step with step a local constant ±1 → x++ / x--, anywhere below st.
func (sp *specialiser) stepRewrite(scope []ast.Stmt, st ast.Stmt) ast.Stmt {
	rewrite := func(as *ast.AssignStmt) ast.Stmt {
		if (as.Tok != token.ADD_ASSIGN && as.Tok != token.SUB_ASSIGN) || len(as.Lhs) != 1 || len(as.Rhs) != 1 {
			return nil
		}
		v := identVar(sp.info, as.Rhs[0])
		if v == nil {
			return nil
		}
		k, ok := sp.localConst(scope, v)
		if !ok || (k != 1 && k != -1) || sp.assignedTwice(v) {
			return nil
		}
		if as.Tok == token.SUB_ASSIGN {
			k = -k
		}
		tok := token.INC
		if k == -1 {
			tok = token.DEC
		}
		return &ast.IncDecStmt{X: as.Lhs[0], TokPos: as.TokPos, Tok: tok}
	}
	switch x := st.(type) {
	case *ast.AssignStmt:
		if n := rewrite(x); n != nil {
			sp.changed = true
			return n
		}
	case *ast.ForStmt:
		body := sp.rewriteBlockSteps(scope, x.Body)
		post := x.Post
		if as, ok := post.(*ast.AssignStmt); ok {
			if n := rewrite(as); n != nil {
				post = n
				sp.changed = true
			}
		}
		if body != x.Body || post != x.Post {
			return &ast.ForStmt{For: x.For, Init: x.Init, Cond: x.Cond, Post: post, Body: body}
		}
	case *ast.BlockStmt:
		return sp.rewriteBlockSteps(scope, x)
	case *ast.IfStmt:
		body := sp.rewriteBlockSteps(scope, x.Body)
		if body != x.Body {
			return &ast.IfStmt{If: x.If, Init: x.Init, Cond: x.Cond, Body: body, Else: x.Else}
		}
	}
	return st
}

func (sp *specialiser) rewriteBlockSteps(scope []ast.Stmt, b *ast.BlockStmt) *ast.BlockStmt {
	if b == nil {
		return nil
	}
	ch := false
	out := make([]ast.Stmt, len(b.List))
	for i, st := range b.List {
		out[i] = sp.stepRewrite(scope, st)
		if out[i] != st {
			ch = true
		}
	}
	if !ch {
		return b
	}
	return &ast.BlockStmt{Lbrace: b.Lbrace, List: out, Rbrace: b.Rbrace}
}

// stmt rebuilds one statement (an if decided by the flags yields the statements of its branch).
func (sp *specialiser) stmt(st ast.Stmt) []ast.Stmt {
	switch x := st.(type) {
	case *ast.IfStmt:
		if val, known := sp.condValue(x.Cond); known {
			sp.changed = true
			var out []ast.Stmt
			if x.Init != nil {
				out = append(out, sp.stmt(x.Init)...)
			}
			if val {
				return append(out, sp.stmts(x.Body.List)...)
			}
			switch e := x.Else.(type) {
			case nil:
				return out
			case *ast.BlockStmt:
				return append(out, sp.stmts(e.List)...)
			default:
				return append(out, sp.stmt(e)...)
			}
		}
		init := x.Init
		if init != nil {
			if r := sp.stmt(init); len(r) == 1 {
				init = r[0]
			}
		}
		cond := sp.expr(x.Cond)
		body := sp.block(x.Body)
		els := x.Else
		if els != nil {
			if r := sp.stmt(els); len(r) == 1 {
				els = r[0]
			} else {
				els = &ast.BlockStmt{List: r}
			}
		}
		if init == x.Init && cond == x.Cond && body == x.Body && els == x.Else {
			return []ast.Stmt{x}
		}
		return []ast.Stmt{&ast.IfStmt{If: x.If, Init: init, Cond: cond, Body: body, Else: els}}
	case *ast.BlockStmt:
		return []ast.Stmt{sp.block(x)}
	case *ast.ExprStmt:
		e := sp.expr(x.X)
		if e == x.X {
			return []ast.Stmt{x}
		}
		return []ast.Stmt{&ast.ExprStmt{X: e}}
	case *ast.AssignStmt:
		lhs := make([]ast.Expr, len(x.Lhs))
		ch := false
		for i, l := range x.Lhs {
			lhs[i] = l
			if _, isId := ast.Unparen(l).(*ast.Ident); !isId {
				lhs[i] = sp.expr(l)
				if lhs[i] != l {
					ch = true
				}
			}
		}
		rhs, ch2 := sp.exprs(x.Rhs)
		if !ch && !ch2 {
			return []ast.Stmt{x}
		}
		return []ast.Stmt{&ast.AssignStmt{Lhs: lhs, TokPos: x.TokPos, Tok: x.Tok, Rhs: rhs}}
	case *ast.ReturnStmt:
		res, ch := sp.exprs(x.Results)
		if !ch {
			return []ast.Stmt{x}
		}
		return []ast.Stmt{&ast.ReturnStmt{Return: x.Return, Results: res}}
	case *ast.ForStmt:
		// loop-invariant extra variables of the init clause are replaced by their definitions
		init := x.Init
		var added []*types.Var
		if as, ok := init.(*ast.AssignStmt); ok && sp.phase == 2 && as.Tok == token.DEFINE && len(as.Lhs) > 1 && len(as.Lhs) == len(as.Rhs) {
			var keepL, keepR []ast.Expr
			for i, l := range as.Lhs {
				v := identVarDef(sp.info, l)
				r := sp.expr(as.Rhs[i])
				if v != nil && sp.pure(r) && !sp.assignedTwice(v) && !sp.usedInPost(x, v) && sp.operandsStable(r) {
					sp.subst[v] = parenIfBinary(sp, r)
					added = append(added, v)
					continue
				}
				keepL, keepR = append(keepL, l), append(keepR, r)
			}
			if len(added) > 0 && len(keepL) >= 1 {
				init = &ast.AssignStmt{Lhs: keepL, TokPos: as.TokPos, Tok: token.DEFINE, Rhs: keepR}
				sp.changed = true
			} else {
				for _, v := range added {
					delete(sp.subst, v)
				}
				added = nil
			}
		} else if init != nil {
			if r := sp.stmt(init); len(r) == 1 {
				init = r[0]
			}
		}
		cond := sp.expr(x.Cond)
		post := x.Post
		if post != nil {
			if r := sp.stmt(post); len(r) == 1 {
				post = r[0]
			}
		}
		body := sp.block(x.Body)
		for _, v := range added {
			delete(sp.subst, v)
		}
		if init == x.Init && cond == x.Cond && post == x.Post && body == x.Body {
			return []ast.Stmt{x}
		}
		return []ast.Stmt{&ast.ForStmt{For: x.For, Init: init, Cond: cond, Post: post, Body: body}}
	case *ast.RangeStmt:
		xx := sp.expr(x.X)
		body := sp.block(x.Body)
		if xx == x.X && body == x.Body {
			return []ast.Stmt{x}
		}
		return []ast.Stmt{&ast.RangeStmt{For: x.For, Key: x.Key, Value: x.Value, TokPos: x.TokPos, Tok: x.Tok, Range: x.Range, X: xx, Body: body}}
	case *ast.SwitchStmt:
		tag := sp.expr(x.Tag)
		body := x.Body
		ch := false
		var clauses []ast.Stmt
		for _, cl := range x.Body.List {
			cc := cl.(*ast.CaseClause)
			before := sp.changed
			sp.changed = false
			nb := sp.stmts(cc.Body)
			if sp.changed {
				ch = true
				clauses = append(clauses, &ast.CaseClause{Case: cc.Case, List: cc.List, Colon: cc.Colon, Body: nb})
			} else {
				clauses = append(clauses, cc)
			}
			sp.changed = before || sp.changed
		}
		if ch {
			body = &ast.BlockStmt{Lbrace: x.Body.Lbrace, List: clauses, Rbrace: x.Body.Rbrace}
		}
		if tag == x.Tag && !ch {
			return []ast.Stmt{x}
		}
		return []ast.Stmt{&ast.SwitchStmt{Switch: x.Switch, Init: x.Init, Tag: tag, Body: body}}
	case *ast.LabeledStmt:
		r := sp.stmt(x.Stmt)
		if len(r) == 1 && r[0] == x.Stmt {
			return []ast.Stmt{x}
		}
		if len(r) == 1 {
			return []ast.Stmt{&ast.LabeledStmt{Label: x.Label, Colon: x.Colon, Stmt: r[0]}}
		}
		return append([]ast.Stmt{&ast.LabeledStmt{Label: x.Label, Colon: x.Colon, Stmt: &ast.EmptyStmt{}}}, r...)
	case *ast.IncDecStmt:
		if _, isId := ast.Unparen(x.X).(*ast.Ident); isId {
			return []ast.Stmt{x}
		}
		e := sp.expr(x.X)
		if e == x.X {
			return []ast.Stmt{x}
		}
		return []ast.Stmt{&ast.IncDecStmt{X: e, TokPos: x.TokPos, Tok: x.Tok}}
	}
	return []ast.Stmt{st}
}

func (sp *specialiser) usedInPost(f *ast.ForStmt, v *types.Var) bool {
	if f.Post == nil {
		return false
	}
	assigned := false
	ast.Inspect(f.Post, func(n ast.Node) bool {
		switch x := n.(type) {
		case *ast.AssignStmt:
			for _, l := range x.Lhs {
				if identVar(sp.info, l) == v {
					assigned = true
				}
			}
		case *ast.IncDecStmt:
			if identVar(sp.info, x.X) == v {
				assigned = true
			}
		}
		return !assigned
	})
	return assigned
}

// expandPredicate: a condition that is a call of a declared helper whose body is a single
// `return <boolean expression>` (sortsBefore(key, bound) = bytes.Compare(key, bound) < 0) is read
// as that expression with the arguments in place of the parameters. Anything else comes back
// unchanged.
func (c *Ctx) expandPredicate(e ast.Expr) ast.Expr {
	info := c.m.Info
	call, ok := ast.Unparen(e).(*ast.CallExpr)
	if !ok || isConversion(info, call) {
		return e
	}
	cu := c.m.calleeUnit(call)
	if cu == nil || cu.Lit != nil || cu.Decl == nil || cu.Body == nil {
		return e
	}
	if cu.Decl.Recv != nil {
		// a method: only on a receiver that is a plain variable or field path (ref.isLeaf(),
		// t.root.isEmpty()), which can stand in the returned expression as it is
		sel, ok := ast.Unparen(call.Fun).(*ast.SelectorExpr)
		if !ok {
			return e
		}
		plain := true
		ast.Inspect(sel.X, func(n ast.Node) bool {
			switch n.(type) {
			case *ast.CallExpr, *ast.FuncLit:
				plain = false
			}
			return plain
		})
		if !plain {
			return e
		}
	}
	ret := simpleReturn(cu)
	if ret == nil {
		return e
	}
	if b, ok := info.TypeOf(ret).Underlying().(*types.Basic); !ok || b.Info()&types.IsBoolean == 0 {
		return e
	}
	return c.expandSimpleCall(e)
}

// expandSimpleCall: a call of a declared function or method whose body is a single `return <expr>`
// is read as that expression with the arguments (and the receiver) in place of the parameters.
func (c *Ctx) expandSimpleCall(e ast.Expr) ast.Expr {
	info := c.m.Info
	call, ok := ast.Unparen(e).(*ast.CallExpr)
	if !ok || isConversion(info, call) {
		return e
	}
	cu := c.m.calleeUnit(call)
	if cu == nil || cu.Lit != nil || cu.Decl == nil || cu.Body == nil {
		return e
	}
	ret := simpleReturn(cu)
	if ret == nil {
		return e
	}
	var recvVar *types.Var
	var recvArg ast.Expr
	if cu.Decl.Recv != nil {
		if len(cu.Decl.Recv.List) != 1 || len(cu.Decl.Recv.List[0].Names) != 1 {
			return e
		}
		recvVar, _ = info.Defs[cu.Decl.Recv.List[0].Names[0]].(*types.Var)
		sel, ok := ast.Unparen(call.Fun).(*ast.SelectorExpr)
		if !ok || recvVar == nil {
			return e
		}
		recvArg = sel.X
	}
	var params []*types.Var
	for _, f := range cu.Decl.Type.Params.List {
		for _, nm := range f.Names {
			pv, _ := info.Defs[nm].(*types.Var)
			if pv == nil {
				return e
			}
			params = append(params, pv)
		}
	}
	if len(params) != len(call.Args) || call.Ellipsis.IsValid() {
		return e
	}
	sp := &specialiser{c: c, info: info, flags: map[*types.Var]bool{}, subst: map[*types.Var]ast.Expr{}, closures: map[*types.Var]*simpleClosure{}, scope: cu.Body, phase: 2}
	for i, p := range params {
		sp.subst[p] = parenIfBinary(sp, call.Args[i])
	}
	if recvVar != nil {
		sp.subst[recvVar] = parenIfBinary(sp, recvArg)
	}
	return sp.expr(ret)
}
