package main

// Mutants (Appendix A of DESIGN.md) and behaviour-preserving variants (Appendix B), applied to
// the real files through the loader overlay. Anchors are exact text of today's tree; a variant
// whose anchor vanished is skipped and listed, never a failure.

const tG = "trees.go"

var catalogue = []variant{
	// ------------------------------------------------------------------ C01
	{ID: "M01", Prop: "C01", Expect: "R02", Note: "Search of one kind returns the leaf without the full-key comparison",
		Edits: []edit{{File: tG, Occ: 2, Old: "\t\tleaf := (*unsignedLeafNode[V])(n.pointer)\n\n\t\tif bytes.Equal(leaf.getKey(), keyS) {\n\t\t\treturn leaf.value, true\n\t\t}\n\t\treturn notFound, false",
			New: "\t\tleaf := (*unsignedLeafNode[V])(n.pointer)\n\n\t\treturn leaf.value, true"}}},
	{ID: "M02", Prop: "C01", Expect: "R02", Note: "Delete drops the comparison on the child-is-leaf shortcut",
		Edits: []edit{{File: tG, Occ: 1, Old: "\t\t\tif bytes.Equal(leaf.getKey(), keyS) {\n\t\t\t\tref.deleteChild(keyS[depth])\n\t\t\t\tt.size--\n\t\t\t\treturn true\n\t\t\t}\n\n\t\t\treturn false",
			New: "\t\t\tref.deleteChild(keyS[depth])\n\t\t\tt.size--\n\t\t\treturn true"}}},
	{ID: "M03", Prop: "C01", Expect: "R01", Note: "Insert loses its depth >= len(keyS) guard (float kind)",
		Edits: []edit{{File: tG, Occ: 4, Old: "\tCONTINUE_SEARCH:\n\t\t\tif depth >= len(keyS) {\n\t\t\t\treturn\n\t\t\t}\n", New: "\tCONTINUE_SEARCH:\n"}}},
	{ID: "M04", Prop: "C01", Expect: "R01", Note: "checkPrefix bounds the loop by len(key) instead of len(key)-depth",
		Edits: []edit{{File: "tree.go", Old: "maxCmp := min(int(min(n.prefixLen, maxPrefixLen)), len(key)-depth)", New: "maxCmp := min(int(min(n.prefixLen, maxPrefixLen)), len(key))"}}},
	{ID: "M05", Prop: "C01", Expect: "R01", Note: "the F1 guard removed again from Search of the float kind",
		Edits: []edit{{File: tG, Occ: 4, Old: "\t\t\tif depth >= len(keyS) {\n\t\t\t\treturn notFound, false\n\t\t\t}\n", New: ""}}},
	{ID: "M05b", Prop: "C08", Expect: "R01", Note: "the F1 guard removed from collation Delete",
		Edits: []edit{{File: "collation.go", Old: "\t\tif depth >= len(colKey) {\n\t\t\treturn false\n\t\t}\n", New: ""}}},
	{ID: "M23", Prop: "C08", Expect: "R02", Note: "collation Search compares sort keys instead of original strings",
		Edits: []edit{{File: "collation.go", Old: "\t\t\tif bytes.Equal(leaf.getKey(), keyS) {\n\t\t\t\treturn leaf.value, true\n\t\t\t}", New: "\t\t\tif bytes.Equal(leaf.getTransformKey(), colKey) {\n\t\t\t\treturn leaf.value, true\n\t\t\t}"}}},
	// ------------------------------------------------------------------ C06
	{ID: "M16", Prop: "C06", Expect: "R03", Note: "signed kind: size++ dropped on the plain child-add path",
		Edits: []edit{{File: tG, Occ: 3, Old: "\t\t\tref.addChild(keyS[depth], leafRef)\n\t\t\tt.size++\n", New: "\t\t\tref.addChild(keyS[depth], leafRef)\n"}}},
	{ID: "M16b", Prop: "C06", Expect: "R03", Note: "F7 again: size++ dropped on the compressed-path split (compound kind)",
		Edits: []edit{{File: tG, Occ: 5, Old: "\t\t\t\tnewNode.addChild(ref, keyS[depth+prefixDiff], leafRef)\n\t\t\t\tt.size++\n", New: "\t\t\t\tnewNode.addChild(ref, keyS[depth+prefixDiff], leafRef)\n"}}},
	{ID: "M17", Prop: "C06", Expect: "R04", Note: "float kind: size-- dropped on the root-leaf delete",
		Edits: []edit{{File: tG, Occ: 4, Old: "\t\t\t\t*ref = nodeRef{}\n\t\t\t\tt.size--\n", New: "\t\t\t\t*ref = nodeRef{}\n"}}},
	{ID: "M18", Prop: "C06", Expect: "R03", Note: "size++ on the value-overwrite path",
		Edits: []edit{{File: tG, Occ: 1, Old: "\t\t\tnl.value = val\n\t\t\treturn", New: "\t\t\tnl.value = val\n\t\t\tt.size++\n\t\t\treturn"}}},
	{ID: "M18b", Prop: "C06", Expect: "R03", Note: "relink of the old subtree dropped in the compressed-path split",
		Edits: []edit{{File: "collation.go", Old: "\t\t\t\tnewNode.addChild(ref, node.prefix[prefixDiff], n)\n", New: ""}}},
	{ID: "M18c", Prop: "C06", Expect: "R14", Note: "Search bumps the size counter",
		Edits: []edit{{File: "collation.go", Old: "\tvar notFound V\n\n\tn := t.root", New: "\tvar notFound V\n\tt.size += 0\n\n\tn := t.root"}}},
	// ------------------------------------------------------------------ variants (must stay silent)
	{ID: "V01", Prop: "C01", Note: "guard written as if !(depth < len(keyS))",
		Edits: []edit{{File: tG, Occ: -1, Old: "\t\t\tif depth >= len(keyS) {\n\t\t\t\treturn notFound, false\n\t\t\t}\n", New: "\t\t\tif !(depth < len(keyS)) {\n\t\t\t\treturn notFound, false\n\t\t\t}\n"}}},
	{ID: "V02", Prop: "C01", Note: "Delete guard folded into the loop condition",
		Edits: []edit{{File: "collation.go", Old: "\t\tif depth >= len(colKey) {\n\t\t\treturn false\n\t\t}\n\n\t\tchild := n.findChild(colKey[depth])", New: "\t\tif len(colKey) <= depth {\n\t\t\tbreak\n\t\t}\n\n\t\tchild := n.findChild(colKey[depth])"}}},
	{ID: "V09", Prop: "C01", Note: "bytes.Equal operands swapped",
		Edits: []edit{{File: tG, Occ: -1, Old: "if bytes.Equal(leaf.getKey(), keyS) {", New: "if bytes.Equal(keyS, leaf.getKey()) {"}}},
	{ID: "V13", Prop: "C06", Note: "size++ moved before the addChild call",
		Edits: []edit{{File: tG, Occ: -1, Old: "\t\t\tref.addChild(keyS[depth], leafRef)\n\t\t\tt.size++\n", New: "\t\t\tt.size++\n\t\t\tref.addChild(keyS[depth], leafRef)\n"}}},
	{ID: "V14", Prop: "C01", Note: "Search success test inverted: if !Equal { return notFound } return value",
		Edits: []edit{{File: "collation.go", Old: "\t\t\tif bytes.Equal(leaf.getKey(), keyS) {\n\t\t\t\treturn leaf.value, true\n\t\t\t}\n\t\t\treturn notFound, false", New: "\t\t\tif !bytes.Equal(leaf.getKey(), keyS) {\n\t\t\t\treturn notFound, false\n\t\t\t}\n\t\t\treturn leaf.value, true"}}},
}
