package main

// Name independence. The rules speak about the library in its own vocabulary (childrenLen,
// findChild, rangeScan …). A consistent renaming of unexported identifiers does not change any
// property, so before the rules run the identifiers the rules rely on are found by STRUCTURE
// (types, signatures, who calls whom starting from the exported Tree methods) and, where the tree
// calls them differently, the sources are renamed to the canonical vocabulary in the loader
// overlay (never on disk) and loaded again. Line numbers are unchanged; a note lists the mapping.

import (
	"fmt"
	"go/ast"
	"go/token"
	"go/types"
	"os"
	"sort"
	"strings"
)

type renameSet struct {
	want  map[types.Object]string
	notes []string
}

func (rs *renameSet) add(o types.Object, name string) {
	if o == nil || name == "" {
		return
	}
	switch x := o.(type) {
	case *types.Func:
		if x == nil {
			return
		}
	case *types.Var:
		if x == nil {
			return
		}
	case *types.TypeName:
		if x == nil {
			return
		}
	case *types.Const:
		if x == nil {
			return
		}
	}
	if o.Name() == name || o.Name() == "_" {
		return
	}
	if prev, ok := rs.want[o]; ok && prev != name {
		return
	}
	rs.want[o] = name
}

func isUnsafePointer(t types.Type) bool {
	b, ok := t.Underlying().(*types.Basic)
	return ok && b.Kind() == types.UnsafePointer
}

func isByteSliceT(t types.Type) bool {
	s, ok := t.Underlying().(*types.Slice)
	if !ok {
		return false
	}
	b, ok := s.Elem().Underlying().(*types.Basic)
	return ok && b.Kind() == types.Uint8
}

func isByteT(t types.Type) bool {
	b, ok := t.Underlying().(*types.Basic)
	return ok && b.Kind() == types.Uint8
}

func isIntT(t types.Type) bool {
	b, ok := t.Underlying().(*types.Basic)
	return ok && b.Kind() == types.Int
}

func sameNamed(t types.Type, n *types.Named) bool {
	x := namedOf(t)
	return x != nil && n != nil && x.Origin().Obj() == n.Origin().Obj()
}

func ptrTo(t types.Type, n *types.Named) bool {
	p, ok := t.(*types.Pointer)
	return ok && sameNamed(p.Elem(), n)
}

// discoverNames finds the objects behind the canonical vocabulary.
func discoverNames(l *Loaded) *renameSet {
	rs := &renameSet{want: map[types.Object]string{}}
	pkg := l.Art.Types
	info := l.Art.TypesInfo
	scope := pkg.Scope()
	treeIface := scope.Lookup("Tree")
	if treeIface == nil {
		return rs
	}
	iface, _ := treeIface.Type().Underlying().(*types.Interface)
	if iface == nil {
		return rs
	}
	// declarations by object
	decls := map[*types.Func]*ast.FuncDecl{}
	for _, f := range l.artFiles() {
		for _, d := range f.Decls {
			if fd, ok := d.(*ast.FuncDecl); ok {
				if o, _ := info.Defs[fd.Name].(*types.Func); o != nil {
					decls[o] = fd
				}
			}
		}
	}
	methodsOf := func(n *types.Named) []*types.Func {
		var out []*types.Func
		for i := 0; i < n.NumMethods(); i++ {
			out = append(out, n.Method(i))
		}
		return out
	}
	calleesOf := func(f *types.Func) []*types.Func {
		var out []*types.Func
		fd := decls[f]
		if fd == nil || fd.Body == nil {
			return nil
		}
		ast.Inspect(fd.Body, func(n ast.Node) bool {
			call, ok := n.(*ast.CallExpr)
			if !ok {
				return true
			}
			fun := ast.Unparen(call.Fun)
			switch x := fun.(type) {
			case *ast.IndexExpr:
				fun = ast.Unparen(x.X)
			case *ast.IndexListExpr:
				fun = ast.Unparen(x.X)
			}
			var obj types.Object
			switch x := fun.(type) {
			case *ast.Ident:
				obj = info.Uses[x]
			case *ast.SelectorExpr:
				obj = info.Uses[x.Sel]
			}
			if cf, ok := obj.(*types.Func); ok && cf.Pkg() == pkg {
				out = append(out, cf.Origin())
			}
			return true
		})
		return out
	}
	sigOf := func(f *types.Func) *types.Signature { s, _ := f.Type().(*types.Signature); return s }

	// ---- tree kinds
	var trees []*types.Named
	for _, name := range scope.Names() {
		tn, ok := scope.Lookup(name).(*types.TypeName)
		if !ok {
			continue
		}
		named := namedOf(tn.Type())
		if named == nil {
			continue
		}
		if _, ok := named.Underlying().(*types.Struct); !ok {
			continue
		}
		have := map[string]bool{}
		for _, mf := range methodsOf(named) {
			have[mf.Name()] = true
		}
		all := true
		for i := 0; i < iface.NumMethods(); i++ {
			if !have[iface.Method(i).Name()] {
				all = false
			}
		}
		if all {
			trees = append(trees, named)
		}
	}
	if len(trees) == 0 {
		return rs
	}
	// ---- the reference type: a struct {unsafe.Pointer; named integer} held by every tree
	var refT, kindT *types.Named
	for _, tk := range trees {
		st := tk.Underlying().(*types.Struct)
		for i := 0; i < st.NumFields(); i++ {
			fn := namedOf(st.Field(i).Type())
			if fn == nil || fn.Obj().Pkg() != pkg {
				continue
			}
			fs, ok := fn.Underlying().(*types.Struct)
			if !ok || fs.NumFields() != 2 {
				continue
			}
			var pf, tf *types.Var
			for k := 0; k < 2; k++ {
				ft := fs.Field(k).Type()
				if isUnsafePointer(ft) {
					pf = fs.Field(k)
				} else if kn := namedOf(ft); kn != nil && kn.Obj().Pkg() == pkg {
					if b, ok := kn.Underlying().(*types.Basic); ok && b.Info()&types.IsInteger != 0 {
						tf = fs.Field(k)
					}
				}
			}
			if pf != nil && tf != nil {
				refT, kindT = fn, namedOf(tf.Type())
				rs.add(fn.Obj(), "nodeRef")
				rs.add(pf, "pointer")
				rs.add(tf, "tag")
				// the root: the only field of the reference type (a second one – a cache, a
				// cursor – is none of the vocabulary)
				nRef, hasRoot := 0, false
				for k := 0; k < st.NumFields(); k++ {
					if sameNamed(st.Field(k).Type(), fn) {
						nRef++
						if st.Field(k).Name() == "root" {
							hasRoot = true
						}
					}
				}
				if nRef == 1 && !hasRoot {
					rs.add(st.Field(i), "root")
				}
			}
		}
	}
	if refT == nil {
		return rs
	}
	_ = kindT
	// ---- methods of the reference type
	var header *types.Named
	for _, mf := range methodsOf(refT) {
		sg := sigOf(mf)
		p, r := sg.Params(), sg.Results()
		switch {
		case p.Len() == 1 && isByteT(p.At(0).Type()) && r.Len() == 1 && ptrTo(r.At(0).Type(), refT):
			rs.add(mf, "findChild")
		case p.Len() == 2 && isByteT(p.At(0).Type()) && sameNamed(p.At(1).Type(), refT) && r.Len() == 0:
			rs.add(mf, "addChild")
		case p.Len() == 1 && isByteT(p.At(0).Type()) && r.Len() == 0:
			rs.add(mf, "deleteChild")
		case p.Len() == 0 && r.Len() == 1:
			if pt, ok := r.At(0).Type().(*types.Pointer); ok {
				if hn := namedOf(pt.Elem()); hn != nil && hn.Obj().Pkg() == pkg {
					if _, isStruct := hn.Underlying().(*types.Struct); isStruct {
						header = hn
						rs.add(mf, "node")
						rs.add(hn.Obj(), "node")
					}
				}
			}
		}
	}
	// ---- header fields
	if header != nil {
		hs := header.Underlying().(*types.Struct)
		var ints []*types.Var
		for i := 0; i < hs.NumFields(); i++ {
			f := hs.Field(i)
			if arr, ok := f.Type().Underlying().(*types.Array); ok && isByteT(arr.Elem()) {
				rs.add(f, "prefix")
				continue
			}
			if b, ok := f.Type().Underlying().(*types.Basic); ok && b.Info()&types.IsInteger != 0 {
				ints = append(ints, f)
			}
		}
		if len(ints) == 2 {
			// the fan-out counter is the one that is stepped with ++ / --
			stepped := map[*types.Var]int{}
			for _, f := range l.artFiles() {
				ast.Inspect(f, func(n ast.Node) bool {
					if inc, ok := n.(*ast.IncDecStmt); ok {
						if sel, ok := ast.Unparen(inc.X).(*ast.SelectorExpr); ok {
							if v, _ := info.Uses[sel.Sel].(*types.Var); v != nil {
								stepped[v]++
							}
						}
					}
					return true
				})
			}
			a, b := ints[0], ints[1]
			if stepped[b] > stepped[a] {
				a, b = b, a
			}
			if stepped[a] > 0 {
				rs.add(a, "childrenLen")
				rs.add(b, "prefixLen")
			}
		}
		for _, mf := range methodsOf(header) {
			sg := sigOf(mf)
			if sg.Params().Len() == 2 && isByteSliceT(sg.Params().At(0).Type()) && isIntT(sg.Params().At(1).Type()) && sg.Results().Len() == 1 && isIntT(sg.Results().At(0).Type()) {
				rs.add(mf, "checkPrefix")
			}
		}
		// the constant that sizes the inline prefix
		for _, f := range l.artFiles() {
			ast.Inspect(f, func(n ast.Node) bool {
				ts, ok := n.(*ast.TypeSpec)
				if !ok || info.Defs[ts.Name] != types.Object(header.Obj()) {
					return true
				}
				ast.Inspect(ts.Type, func(z ast.Node) bool {
					if at, ok := z.(*ast.ArrayType); ok && at.Len != nil {
						if id, ok := ast.Unparen(at.Len).(*ast.Ident); ok {
							if cst, ok := info.Uses[id].(*types.Const); ok {
								rs.add(cst, "maxPrefixLen")
							}
						}
					}
					return true
				})
				return false
			})
		}
	}
	// ---- inner node layouts: structs embedding the header
	var layouts []*types.Named
	if header != nil {
		for _, name := range scope.Names() {
			tn, ok := scope.Lookup(name).(*types.TypeName)
			if !ok {
				continue
			}
			named := namedOf(tn.Type())
			if named == nil {
				continue
			}
			st, ok := named.Underlying().(*types.Struct)
			if !ok {
				continue
			}
			emb := false
			for i := 0; i < st.NumFields(); i++ {
				if st.Field(i).Embedded() && sameNamed(st.Field(i).Type(), header) {
					emb = true
				}
			}
			if !emb {
				continue
			}
			layouts = append(layouts, named)
			for i := 0; i < st.NumFields(); i++ {
				f := st.Field(i)
				if f.Embedded() {
					rs.add(f, "node")
					continue
				}
				if arr, ok := f.Type().Underlying().(*types.Array); ok && sameNamed(arr.Elem(), refT) {
					rs.add(f, "children")
				} else {
					rs.add(f, "keys")
				}
			}
			// clear(): the only method without parameters and results, or the one already so called
			var noArg []*types.Func
			for _, mf := range methodsOf(named) {
				if sg := sigOf(mf); sg.Params().Len() == 0 && sg.Results().Len() == 0 {
					noArg = append(noArg, mf)
				}
			}
			for _, mf := range methodsOf(named) {
				sg := sigOf(mf)
				p, r := sg.Params(), sg.Results()
				switch {
				case p.Len() == 0 && r.Len() == 0:
					if len(noArg) == 1 {
						rs.add(mf, "clear")
					}
				case p.Len() == 3 && ptrTo(p.At(0).Type(), refT) && isByteT(p.At(1).Type()) && sameNamed(p.At(2).Type(), refT) && r.Len() == 0:
					rs.add(mf, "addChild")
				case p.Len() == 2 && ptrTo(p.At(0).Type(), refT) && isByteT(p.At(1).Type()) && r.Len() == 0:
					rs.add(mf, "deleteChild")
				case p.Len() == 2 && isByteT(p.At(0).Type()) && sameNamed(p.At(1).Type(), refT) && r.Len() == 0:
					rs.add(mf, "addChild") // the largest class never grows: no slot parameter
				}
			}
		}
	}
	// ---- functions reached from the exported methods
	byResult := func(fs []*types.Func, pred func(*types.Signature) bool) *types.Func {
		for _, f := range fs {
			if sg := sigOf(f); sg != nil && sg.Recv() == nil && pred(sg) {
				return f
			}
		}
		return nil
	}
	// a helper over one reference: function f(ref) or method ref.f()
	refHelper := func(fs []*types.Func, res func(types.Type) bool) *types.Func {
		for _, f := range fs {
			sg := sigOf(f)
			if sg == nil || sg.Results().Len() != 1 || !res(sg.Results().At(0).Type()) {
				continue
			}
			if sg.Recv() == nil && sg.Params().Len() == 1 && sameNamed(sg.Params().At(0).Type(), refT) {
				return f
			}
			if sg.Recv() != nil && sg.Params().Len() == 0 && sameNamed(sg.Recv().Type(), refT) {
				return f
			}
		}
		return nil
	}
	isSeq := func(t types.Type) bool {
		_, ok := t.Underlying().(*types.Signature)
		return ok
	}
	method := func(tk *types.Named, name string) *types.Func {
		for _, mf := range methodsOf(tk) {
			if mf.Name() == name {
				return mf
			}
		}
		return nil
	}
	for _, tk := range trees {
		if f := method(tk, "All"); f != nil {
			rs.add(byResult(calleesOf(f), func(s *types.Signature) bool { return s.Results().Len() == 1 && isSeq(s.Results().At(0).Type()) }), "all")
		}
		if f := method(tk, "Backward"); f != nil {
			rs.add(byResult(calleesOf(f), func(s *types.Signature) bool { return s.Results().Len() == 1 && isSeq(s.Results().At(0).Type()) }), "backward")
		}
		if f := method(tk, "TopK"); f != nil {
			rs.add(byResult(calleesOf(f), func(s *types.Signature) bool { return s.Results().Len() == 1 && isSeq(s.Results().At(0).Type()) }), "topK")
		}
		if f := method(tk, "BottomK"); f != nil {
			rs.add(byResult(calleesOf(f), func(s *types.Signature) bool { return s.Results().Len() == 1 && isSeq(s.Results().At(0).Type()) }), "bottomK")
		}
		if f := method(tk, "Range"); f != nil {
			rs.add(byResult(calleesOf(f), func(s *types.Signature) bool {
				return s.Results().Len() == 1 && isSeq(s.Results().At(0).Type()) && s.Params().Len() >= 3 && sameNamed(s.Params().At(0).Type(), refT)
			}), "rangeScan")
		}
		if f := method(tk, "Prefix"); f != nil {
			cs := calleesOf(f)
			rs.add(byResult(cs, func(s *types.Signature) bool {
				return s.Results().Len() == 1 && isSeq(s.Results().At(0).Type()) && s.Params().Len() == 3
			}), "filter")
			rs.add(byResult(cs, func(s *types.Signature) bool {
				return s.Results().Len() == 1 && sameNamed(s.Results().At(0).Type(), refT) && s.Params().Len() == 2
			}), "lowestCommonParent")
		}
		extreme := func(s *types.Signature) bool {
			return s.Params().Len() == 1 && sameNamed(s.Params().At(0).Type(), refT) && s.Results().Len() == 1 && isUnsafePointer(s.Results().At(0).Type())
		}
		_ = extreme
		if f := method(tk, "Minimum"); f != nil {
			rs.add(refHelper(calleesOf(f), isUnsafePointer), "minimum")
		}
		if f := method(tk, "Maximum"); f != nil {
			rs.add(refHelper(calleesOf(f), isUnsafePointer), "maximum")
		}
		// restoreKey: the unexported method taking the leaf pointer
		for _, mf := range methodsOf(tk) {
			sg := sigOf(mf)
			if !mf.Exported() && sg.Params().Len() == 1 && isUnsafePointer(sg.Params().At(0).Type()) && sg.Results().Len() == 2 {
				rs.add(mf, "restoreKey")
				// the accessor it calls is the authoritative stored form
				for _, cf := range calleesOf(mf) {
					if cs := sigOf(cf); cs != nil && cs.Recv() != nil && cs.Params().Len() == 0 && cs.Results().Len() == 1 && isByteSliceT(cs.Results().At(0).Type()) {
						rs.add(cf, "getKey")
						if ln := namedOf(cs.Recv().Type()); ln != nil {
							for _, lm := range methodsOf(ln.Origin()) {
								ls := sigOf(lm)
								if lm != cf && lm.Origin() != cf && ls.Params().Len() == 0 && ls.Results().Len() == 1 && isByteSliceT(ls.Results().At(0).Type()) {
									rs.add(lm, "getTransformKey")
								}
							}
							if lst, ok := ln.Underlying().(*types.Struct); ok {
								for i := 0; i < lst.NumFields(); i++ {
									if _, isTP := types.Unalias(lst.Field(i).Type()).(*types.TypeParam); isTP {
										rs.add(lst.Field(i).Origin(), "value")
									}
								}
							}
						}
					}
				}
			}
		}
		// helpers of Insert
		if f := method(tk, "Insert"); f != nil {
			cs := calleesOf(f)
			rs.add(byResult(cs, func(s *types.Signature) bool {
				return s.Params().Len() == 1 && isByteSliceT(s.Params().At(0).Type()) && s.Results().Len() == 1 && isByteSliceT(s.Results().At(0).Type())
			}), "terminated")
			rs.add(byResult(cs, func(s *types.Signature) bool {
				return s.Params().Len() == 3 && sameNamed(s.Params().At(0).Type(), refT) && isByteSliceT(s.Params().At(1).Type()) && isIntT(s.Params().At(2).Type()) && s.Results().Len() == 1 && isIntT(s.Results().At(0).Type())
			}), "prefixMismatch")
			rs.add(byResult(cs, func(s *types.Signature) bool {
				return s.Params().Len() == 3 && isByteSliceT(s.Params().At(0).Type()) && isByteSliceT(s.Params().At(1).Type()) && isIntT(s.Params().At(2).Type()) && s.Results().Len() == 1 && isIntT(s.Results().At(0).Type())
			}), "longestCommonPrefix")
		}
	}
	// ---- the leaf constraint: an interface whose type set is a union of pointers
	for _, name := range scope.Names() {
		tn, ok := scope.Lookup(name).(*types.TypeName)
		if !ok {
			continue
		}
		it, ok := tn.Type().Underlying().(*types.Interface)
		if !ok || it.NumEmbeddeds() == 0 {
			continue
		}
		if u, ok := it.EmbeddedType(0).(*types.Union); ok && u.Len() >= 2 {
			allPtr := true
			for i := 0; i < u.Len(); i++ {
				if _, isPtr := u.Term(i).Type().(*types.Pointer); !isPtr {
					allPtr = false
				}
			}
			if allPtr {
				rs.add(tn, "nodeLeaf")
			}
		}
	}
	// drop renames that would collide with an existing different object of the same scope
	for o, name := range rs.want {
		if o.Parent() == scope {
			if other := scope.Lookup(name); other != nil && other != o {
				if _, renamedAway := rs.want[other]; !renamedAway {
					delete(rs.want, o)
				}
			}
		}
	}
	for o, name := range rs.want {
		rs.notes = append(rs.notes, fmt.Sprintf("%s is called %s in this tree", name, o.Name()))
	}
	sort.Strings(rs.notes)
	return rs
}

// renamedSources rewrites every identifier that refers to an object of rs to its canonical name
// and returns the changed files (absolute path → content).
func renamedSources(l *Loaded, rs *renameSet) map[string][]byte {
	type edit struct {
		off, end int
		name     string
	}
	edits := map[string][]edit{}
	add := func(id *ast.Ident, o types.Object) {
		if o == nil || id == nil {
			return
		}
		if f, ok := o.(*types.Func); ok {
			o = f.Origin()
		}
		if v, ok := o.(*types.Var); ok {
			o = v.Origin()
		}
		name, ok := rs.want[o]
		if !ok || id.Name == name {
			return
		}
		pos := l.Fset.Position(id.Pos())
		edits[pos.Filename] = append(edits[pos.Filename], edit{pos.Offset, pos.Offset + len(id.Name), name})
	}
	for _, p := range l.Pkgs {
		if p.TypesInfo == nil {
			continue
		}
		for id, o := range p.TypesInfo.Defs {
			add(id, o)
		}
		for id, o := range p.TypesInfo.Uses {
			add(id, o)
		}
	}
	out := map[string][]byte{}
	for file, es := range edits {
		src, err := l.readFile(file)
		if err != nil {
			src, err = os.ReadFile(file)
			if err != nil {
				continue
			}
		}
		sort.Slice(es, func(i, j int) bool { return es[i].off > es[j].off })
		b := append([]byte{}, src...)
		last := -1
		for _, e := range es {
			if e.off == last {
				continue
			}
			last = e.off
			if e.end > len(b) {
				continue
			}
			b = append(b[:e.off:e.off], append([]byte(e.name), b[e.end:]...)...)
		}
		out[file] = b
	}
	return out
}

var _ = token.NoPos
var _ = strings.TrimSpace
