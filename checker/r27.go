package main

import (
	"fmt"
	"go/ast"
	"go/token"
	"go/types"

	"golang.org/x/tools/go/cfg"
)

// seqLiterals: function literals with the shape func(yield func(...) bool).
func (c *Ctx) seqLiterals() []*FuncUnit {
	var out []*FuncUnit
	for _, u := range c.sortedUnits() {
		if u.Lit == nil || u.Type.Params == nil || len(u.Type.Params.List) != 1 || len(u.Type.Params.List[0].Names) != 1 {
			continue
		}
		if u.Type.Results != nil && len(u.Type.Results.List) > 0 {
			continue
		}
		sig, ok := c.m.Info.TypeOf(u.Type.Params.List[0].Type).Underlying().(*types.Signature)
		if !ok || sig.Results().Len() != 1 {
			continue
		}
		if b, ok := sig.Results().At(0).Type().Underlying().(*types.Basic); !ok || b.Kind() != types.Bool {
			continue
		}
		out = append(out, u)
	}
	return out
}

// R27 ITERSTATE – a sequence closure keeps no state across passes.
// R28 YIELD – after yield returned false no further yield call is reachable.
func ruleR27R28(c *Ctx) {
	info := c.m.Info
	lits := c.seqLiterals()
	for _, u := range lits {
		props := c.attribute(u, "C14")
		if len(props) == 0 {
			props = []string{"C14"}
		}
		base := u.Name
		for p := u.Parent; p != nil; p = p.Parent {
			base = p.Name
		}
		if base == "topK" || base == "bottomK" {
			props = append(props, "C05")
		}
		outside := func(e ast.Expr) *types.Var {
			v, _ := rootVar(info, e)
			if v == nil || v.IsField() {
				return nil
			}
			if v.Pos() >= u.Lit.Pos() && v.Pos() <= u.Lit.End() {
				return nil
			}
			return v
		}
		nState := 0
		ast.Inspect(u.Body, func(n ast.Node) bool {
			report := func(e ast.Expr, how string) {
				if v := outside(e); v != nil {
					nState++
					c.r.bad("R27", fmt.Sprintf("%s %s captured %s", u.Name, how, v.Name()), c.m.pos(e.Pos()),
						fmt.Sprintf("the sequence closure %s variable %s declared outside it: the change survives the pass, so ranging over the same sequence value again does not restart from the same state", how, v.Name()), props...)
				}
			}
			switch x := n.(type) {
			case *ast.AssignStmt:
				if x.Tok == token.DEFINE {
					return true
				}
				for _, l := range x.Lhs {
					report(l, "assigns")
				}
			case *ast.IncDecStmt:
				report(x.X, "modifies")
			case *ast.UnaryExpr:
				if x.Op == token.AND {
					if v, through := rootVar(info, x.X); v != nil && !through {
						report(x.X, "takes the address of")
					}
				}
			case *ast.RangeStmt:
				if x.Tok == token.ASSIGN {
					for _, l := range []ast.Expr{x.Key, x.Value} {
						if l != nil {
							report(l, "assigns")
						}
					}
				}
			}
			return true
		})
		if nState == 0 {
			c.r.ok("R27", u.Name+" keeps no state across passes", c.m.pos(u.Lit.Pos()), "no assignment, ++/--, or address-taking of a variable declared outside the closure", props...)
		}
		// ---- R28
		yv, _ := info.Defs[u.Type.Params.List[0].Names[0]].(*types.Var)
		g := c.m.cfgOf(u)
		isYieldCall := func(n ast.Node) *ast.CallExpr {
			call, ok := n.(*ast.CallExpr)
			if ok && identVar(info, call.Fun) == yv {
				return call
			}
			return nil
		}
		hasYield := func(b *cfg.Block) bool {
			found := false
			for _, n := range b.Nodes {
				ast.Inspect(n, func(x ast.Node) bool {
					if _, isLit := x.(*ast.FuncLit); isLit {
						return false
					}
					if isYieldCall(x) != nil {
						found = true
					}
					return true
				})
			}
			return found
		}
		// every yield call must be the atom of a guard
		guarded := map[*ast.CallExpr]bool{}
		for _, gd := range guardsOf(info, g) {
			call := isYieldCall(ast.Unparen(gd.atom.e))
			if call == nil || gd.atom.val {
				continue
			}
			// edge (b,succ) is taken when yield returned false
			guarded[call] = true
			key := fmt.Sprintf("%s stop after yield returned false", u.Name)
			bad := false
			for b := range reachable(gd.b.Succs[gd.succ]) {
				if hasYield(b) {
					bad = true
				}
			}
			if bad {
				c.r.bad("R28", key, c.m.pos(call.Pos()), "a yield call is reachable after this yield call returned false", props...)
			} else {
				c.r.ok("R28", key, c.m.pos(call.Pos()), "the false outcome reaches the function exit without another yield call", props...)
			}
		}
		for _, b := range g.Blocks {
			if !b.Live {
				continue
			}
			for _, n := range b.Nodes {
				ast.Inspect(n, func(x ast.Node) bool {
					if _, isLit := x.(*ast.FuncLit); isLit {
						return false
					}
					if call := isYieldCall(x); call != nil && !guarded[call] {
						c.r.bad("R28", fmt.Sprintf("%s yield result unused", u.Name), c.m.pos(call.Pos()), "the result of yield does not decide a branch: the sequence keeps calling back after the consumer stopped", props...)
					}
					if d, ok := x.(*ast.DeferStmt); ok {
						if isYieldCall(d.Call) != nil {
							c.r.bad("R28", fmt.Sprintf("%s deferred yield", u.Name), c.m.pos(d.Pos()), "yield is called from a deferred function", props...)
						}
					}
					return true
				})
			}
		}
		// the yield function must not escape into another call (except passing it on as the
		// consumer of an inner sequence is not done in this code base)
	}
	c.r.note("R27/R28: %d sequence closures", len(lits))
	c.r.floor("R27", 6, "sequence closures", "C14")
	c.r.floor("R28", 6, "yield call sites", "C14")
}

// R35 CALLTARGET (C05) – the bounded wrappers range over the right iteration and the methods
// call the like-named helper.
func ruleR35(c *Ctx) {
	m := c.m
	want := map[string]string{"topK": "Backward", "bottomK": "All"}
	for _, name := range []string{"bottomK", "topK"} {
		u := m.ByName[name]
		if u == nil {
			c.r.undecided("R35", name+" exists", "-", "helper not found", "C05")
			continue
		}
		for _, lu := range m.unitsOf(u)[1:] {
			found := ""
			var pos ast.Node = lu.Lit
			ast.Inspect(lu.Body, func(n ast.Node) bool {
				if rs, ok := n.(*ast.RangeStmt); ok {
					if call, ok := ast.Unparen(rs.X).(*ast.CallExpr); ok {
						if sel, ok := call.Fun.(*ast.SelectorExpr); ok {
							found = sel.Sel.Name
							pos = rs
						}
					}
				}
				return true
			})
			key := fmt.Sprintf("%s ranges over %s", name, want[name])
			if found == want[name] {
				c.r.ok("R35", key, m.pos(pos.Pos()), "first k of "+found+"()", "C05")
			} else {
				c.r.bad("R35", key, m.pos(pos.Pos()), fmt.Sprintf("%s ranges over %q; the first k elements of %s iteration are wanted", name, found, map[string]string{"topK": "descending", "bottomK": "ascending"}[name]), "C05")
			}
		}
	}
	for _, tk := range m.Trees {
		for meth, helper := range map[string]string{"TopK": "topK", "BottomK": "bottomK", "All": "all", "Backward": "backward"} {
			u := tk.Methods[meth]
			if u == nil {
				continue
			}
			called := ""
			ast.Inspect(u.Body, func(n ast.Node) bool {
				if call, ok := n.(*ast.CallExpr); ok && called == "" {
					called = m.calleeName(call)
				}
				return true
			})
			key := fmt.Sprintf("%s.%s calls %s", tk.Name, meth, helper)
			props := []string{"C05"}
			if meth == "All" || meth == "Backward" {
				props = []string{"C02"}
			}
			if called == helper {
				c.r.ok("R35", key, m.pos(u.Decl.Pos()), "like-named helper", props...)
			} else {
				c.r.bad("R35", key, m.pos(u.Decl.Pos()), fmt.Sprintf("%s calls %s instead of %s", meth, called, helper), props...)
			}
		}
	}
	c.r.floor("R35", 8, "call targets", "C05")
}
