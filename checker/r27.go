package main

import (
	"fmt"
	"go/ast"
	"go/token"
	"go/types"
	"strings"

	"golang.org/x/tools/go/cfg"
)

// seqLiterals: function literals with the shape func(yield func(...) bool).
func (c *Ctx) seqLiterals() []*FuncUnit {
	var out []*FuncUnit
	for _, u := range c.sortedUnits() {
		if u.Lit == nil || u.Type.Params == nil || len(u.Type.Params.List) != 1 || len(u.Type.Params.List[0].Names) != 1 {
			continue
		}
		if u.Type.Results != nil && len(u.Type.Results.List) > 0 {
			continue
		}
		sig, ok := c.m.Info.TypeOf(u.Type.Params.List[0].Type).Underlying().(*types.Signature)
		if !ok || sig.Results().Len() != 1 {
			continue
		}
		if b, ok := sig.Results().At(0).Type().Underlying().(*types.Basic); !ok || b.Kind() != types.Bool {
			continue
		}
		out = append(out, u)
	}
	return out
}

// R27 ITERSTATE – a sequence closure keeps no state across passes.
// R28 YIELD – after yield returned false no further yield call is reachable.
func ruleR27R28(c *Ctx) {
	info := c.m.Info
	lits := c.seqLiterals()
	for _, u := range lits {
		props := append([]string{"C14"}, c.attribute(u, "C02", "C03", "C04")...)
		base := u.Name
		for p := u.Parent; p != nil; p = p.Parent {
			base = p.Name
		}
		if base == "topK" || base == "bottomK" {
			props = append(props, "C05")
		}
		outside := func(e ast.Expr) *types.Var {
			v, _ := rootVar(info, e)
			if v == nil || v.IsField() {
				return nil
			}
			if v.Pos() >= u.Lit.Pos() && v.Pos() <= u.Lit.End() {
				return nil
			}
			return v
		}
		nState := 0
		ast.Inspect(u.Body, func(n ast.Node) bool {
			report := func(e ast.Expr, how string) {
				if v := outside(e); v != nil {
					nState++
					c.r.bad("R27", fmt.Sprintf("%s %s captured %s", u.Name, how, v.Name()), c.m.pos(e.Pos()),
						fmt.Sprintf("the sequence closure %s variable %s declared outside it: the change survives the pass, so ranging over the same sequence value again does not restart from the same state", how, v.Name()), props...)
				}
			}
			switch x := n.(type) {
			case *ast.AssignStmt:
				if x.Tok == token.DEFINE {
					return true
				}
				for _, l := range x.Lhs {
					report(l, "assigns")
				}
			case *ast.IncDecStmt:
				report(x.X, "modifies")
			case *ast.UnaryExpr:
				if x.Op == token.AND {
					if v, through := rootVar(info, x.X); v != nil && !through {
						report(x.X, "takes the address of")
					}
				}
			case *ast.RangeStmt:
				if x.Tok == token.ASSIGN {
					for _, l := range []ast.Expr{x.Key, x.Value} {
						if l != nil {
							report(l, "assigns")
						}
					}
				}
			}
			return true
		})
		if nState == 0 {
			c.r.ok("R27", u.Name+" keeps no state across passes", c.m.pos(u.Lit.Pos()), "no assignment, ++/--, or address-taking of a variable declared outside the closure", props...)
		}
		// ---- R28
		yv, _ := info.Defs[u.Type.Params.List[0].Names[0]].(*types.Var)
		visitors := c.yieldVisitors(u, yv)
		c.r28Stop(u, yv, props, func(call *ast.CallExpr) bool { return visitors[call] != nil })
		for _, vs := range visitors {
			c.r28Visitor(u, yv, vs, props)
		}
		// yield called from a nested closure (a recursive walk): the stop discipline then depends on how
		// every caller of that closure treats its result, which this rule does not follow
		isYieldCall := func(n ast.Node) *ast.CallExpr {
			call, ok := n.(*ast.CallExpr)
			if ok && identVar(info, call.Fun) == yv {
				return call
			}
			return nil
		}
		ast.Inspect(u.Body, func(x ast.Node) bool {
			lit, ok := x.(*ast.FuncLit)
			if !ok {
				return true
			}
			for _, vs := range visitors {
				if vs.lit == lit {
					return false
				}
			}
			ast.Inspect(lit.Body, func(z ast.Node) bool {
				if call := isYieldCall(z); call != nil {
					c.r.undecided("R28", fmt.Sprintf("%s yield called from a nested closure", u.Name), c.m.pos(call.Pos()),
						"yield is called inside a nested (recursive) closure: whether every loop around the recursive calls stops once yield returned false is not decided by this rule – an explicit stack in the sequence closure itself is the form the rule can follow", props...)
				}
				return true
			})
			return false
		})
		// the yield function must not escape into another call (except passing it on as the
		// consumer of an inner sequence is not done in this code base)
	}
	c.r.note("R27/R28: %d sequence closures", len(lits))
	c.r.floor("R27", 6, "sequence closures", "C14")
	c.r.floor("R28", 6, "yield call sites", "C14")
}

// R35 CALLTARGET (C05) – the bounded wrappers range over the right iteration and the methods
// call the like-named helper.
func ruleR35(c *Ctx) {
	m := c.m
	info := m.Info
	// ---- TopK takes the first k of the DESCENDING enumeration, BottomK of the ASCENDING one:
	// every sequence the method (or a helper it calls, through parameters) ranges over must
	// resolve to the Backward / All method of the tree.
	var sourcesOf func(u *FuncUnit, bind map[*types.Var]ast.Expr, bindU *FuncUnit, depth int, out map[string]bool)
	resolve := func(u *FuncUnit, e ast.Expr, bind map[*types.Var]ast.Expr, bindU *FuncUnit) string {
		for i := 0; i < 6; i++ {
			e = ast.Unparen(e)
			if call, ok := e.(*ast.CallExpr); ok && len(call.Args) == 0 {
				e = call.Fun // t.Backward()  /  seq()
				continue
			}
			if sel, ok := e.(*ast.SelectorExpr); ok {
				return sel.Sel.Name
			}
			if id, ok := e.(*ast.Ident); ok {
				if v, _ := info.ObjectOf(id).(*types.Var); v != nil {
					if a, has := bind[v]; has {
						e, u, bind = a, bindU, nil
						continue
					}
					if d := m.resolveLocal(u, id); d != nil {
						e = d
						continue
					}
				}
			}
			break
		}
		return "?"
	}
	sourcesOf = func(u *FuncUnit, bind map[*types.Var]ast.Expr, bindU *FuncUnit, depth int, out map[string]bool) {
		if u == nil || u.Body == nil || depth > 3 {
			return
		}
		ast.Inspect(u.Body, func(n ast.Node) bool {
			switch x := n.(type) {
			case *ast.RangeStmt:
				if _, isFunc := info.TypeOf(x.X).Underlying().(*types.Signature); isFunc {
					out[resolve(u, x.X, bind, bindU)] = true
					// the sequence must be built when the pass starts, not when TopK was called:
					// All()/Backward() bind the root reference of the moment they are called
					var encl *ast.FuncLit // the innermost function literal holding the loop
					ast.Inspect(u.Body, func(z ast.Node) bool {
						if lit, ok := z.(*ast.FuncLit); ok && lit.Pos() <= x.Pos() && x.End() <= lit.End() {
							encl = lit
						}
						return true
					})
					if encl == nil {
						encl = u.Lit
					}
					if id, ok := ast.Unparen(x.X).(*ast.Ident); ok && encl != nil {
						if v, _ := info.ObjectOf(id).(*types.Var); v != nil && (v.Pos() < encl.Pos() || v.Pos() > encl.End()) {
							if d := m.resolveLocal(u, id); d != nil {
								if _, isCall := ast.Unparen(d).(*ast.CallExpr); isCall {
									out["hoisted:"+v.Name()+"@"+m.pos(d.Pos())] = true
								}
							}
						}
					}
				}
			case *ast.CallExpr:
				// seq()(callback): the sequence is run directly instead of ranged over
				if inner, ok := ast.Unparen(x.Fun).(*ast.CallExpr); ok && len(x.Args) == 1 {
					if sig, ok := info.TypeOf(x.Fun).Underlying().(*types.Signature); ok && sig.Params().Len() == 1 && sig.Results().Len() == 0 {
						if _, isFn := sig.Params().At(0).Type().Underlying().(*types.Signature); isFn {
							out[resolve(u, inner, bind, bindU)] = true
						}
					}
				}
				cu := m.calleeUnit(x)
				if cu == nil || cu == u || cu.Lit != nil {
					return true
				}
				if f := m.staticCallee(x); f != nil && (f.Name() == "All" || f.Name() == "Backward") {
					return true // the enumeration itself is checked by R09
				}
				// bind the callee's parameters to the caller's argument expressions
				nb := map[*types.Var]ast.Expr{}
				i := 0
				if cu.Type.Params != nil {
					for _, f := range cu.Type.Params.List {
						for _, nm := range f.Names {
							if v, _ := info.Defs[nm].(*types.Var); v != nil && i < len(x.Args) {
								a := x.Args[i]
								// an argument that is itself a bound parameter stays bound to the outer expression
								if id, ok := ast.Unparen(a).(*ast.Ident); ok {
									if pv, _ := info.ObjectOf(id).(*types.Var); pv != nil {
										if outer, has := bind[pv]; has {
											a = outer
										}
									}
								}
								nb[v] = a
							}
							i++
						}
					}
				}
				sourcesOf(cu, nb, u, depth+1, out)
			}
			return true
		})
	}
	for _, tk := range m.Trees {
		for meth, want := range map[string]string{"TopK": "Backward", "BottomK": "All"} {
			u := tk.Methods[meth]
			if u == nil {
				continue
			}
			srcs := map[string]bool{}
			sourcesOf(u, nil, nil, 0, srcs)
			key := fmt.Sprintf("%s.%s takes the first k of %s()", tk.Name, meth, want)
			hoisted := ""
			for k := range srcs {
				if strings.HasPrefix(k, "hoisted:") {
					hoisted = strings.TrimPrefix(k, "hoisted:")
					delete(srcs, k)
				}
			}
			if hoisted != "" {
				c.r.bad("R35", fmt.Sprintf("%s.%s builds its sequence when it is ranged over", tk.Name, meth), m.pos(u.Decl.Pos()), fmt.Sprintf("the sequence ranged over is %s, built outside the returned closure: %s() copies the root reference when it is called, so a %s sequence kept across an Insert or Delete that replaces the root walks the tree of that moment (after a grow or shrink: a node that went back to the pool)", hoisted, want, meth), "C05", "C14")
			}
			switch {
			case len(srcs) == 1 && srcs[want]:
				c.r.ok("R35", key, m.pos(u.Decl.Pos()), "the only sequence ranged over, directly or in the helper it calls, is "+want+"()", "C05")
			case len(srcs) == 0:
				c.r.bad("R35", key, m.pos(u.Decl.Pos()), fmt.Sprintf("%s does not range over %s(): the first k elements of %s iteration are wanted, and an enumeration of its own can disagree with it", meth, want, map[string]string{"TopK": "descending", "BottomK": "ascending"}[meth]), "C05")
			default:
				c.r.bad("R35", key, m.pos(u.Decl.Pos()), fmt.Sprintf("%s ranges over %v; the first k elements of %s iteration are wanted", meth, sortedKeys(srcs), map[string]string{"TopK": "descending", "BottomK": "ascending"}[meth]), "C05")
			}
		}
	}
	// ---- Minimum/Maximum return exactly the leaf found by minimum/maximum(t.root)
	for _, tk := range m.Trees {
		for meth, helper := range map[string]string{"Minimum": "minimum", "Maximum": "maximum"} {
			u := tk.Methods[meth]
			if u == nil {
				continue
			}
			key := fmt.Sprintf("%s.%s returns the leaf found by %s(root)", tk.Name, meth, helper)
			// delegation: `return leafEntry(minimum(t.root), t.restoreKey)` – the helper is analysed
			// with its parameters bound to the method's arguments
			u0 := u
			env := map[*types.Var]ast.Expr{}
			if r := simpleReturn(u); r != nil {
				if call, ok := ast.Unparen(r).(*ast.CallExpr); ok && !m.isRestoreCall(call) {
					if cu := m.calleeUnit(call); cu != nil && cu.Lit == nil && cu.Body != nil && cu.Type.Params != nil {
						i := 0
						for _, f := range cu.Type.Params.List {
							for _, nm := range f.Names {
								if v, _ := info.Defs[nm].(*types.Var); v != nil && i < len(call.Args) {
									env[v] = call.Args[i]
								}
								i++
							}
						}
						u = cu
					}
				}
			}
			// named results
			var named []*types.Var
			if u.Type.Results != nil {
				for _, f := range u.Type.Results.List {
					for _, nm := range f.Names {
						if v, _ := info.Defs[nm].(*types.Var); v != nil {
							named = append(named, v)
						}
					}
				}
			}
			okAll, any := true, false
			why := ""
			checkKeyCall := func(rk *ast.CallExpr) {
				isRestore := rk != nil && m.isRestoreCall(rk)
				if rk != nil && !isRestore {
					// a call through a function parameter bound to the restore method
					if pv := identVar(info, rk.Fun); pv != nil {
						if bound, ok := env[pv]; ok {
							var obj types.Object
							switch x := ast.Unparen(bound).(type) {
							case *ast.Ident:
								obj = info.Uses[x]
							case *ast.SelectorExpr:
								obj = info.Uses[x.Sel]
							}
							if f, ok := obj.(*types.Func); ok && m.isRestoreUnit(m.ByObj[f.Origin()]) {
								isRestore = true
							}
						}
					}
				}
				if rk == nil || !isRestore || len(rk.Args) != 1 {
					okAll, why = false, "the found key is not the result of restoreKey"
					return
				}
				arg := ast.Unparen(m.throughLocals(u, rk.Args[0]))
				frame := u
				if pv := identVar(info, arg); pv != nil {
					if bound, ok := env[pv]; ok {
						arg, frame = ast.Unparen(m.throughLocals(u0, bound)), u0
					}
				}
				hc, _ := arg.(*ast.CallExpr)
				if hc == nil {
					if lv := identVar(info, arg); lv != nil {
						hc = c.defCallOf(frame, lv)
					}
				}
				// descend(t.root) with descend a function parameter bound to minimum / maximum at the
				// delegating call (outermost(minimum[V]))
				if hc != nil && len(hc.Args) == 1 {
					if pv := identVar(info, hc.Fun); pv != nil {
						if bound, ok := env[pv]; ok {
							be := ast.Unparen(bound)
							for {
								if ix, isIx := be.(*ast.IndexExpr); isIx {
									be = ast.Unparen(ix.X)
									continue
								}
								if ix, isIx := be.(*ast.IndexListExpr); isIx {
									be = ast.Unparen(ix.X)
									continue
								}
								break
							}
							var obj types.Object
							switch x := be.(type) {
							case *ast.Ident:
								obj = info.Uses[x]
							case *ast.SelectorExpr:
								obj = info.Uses[x.Sel]
							}
							if f, isF := obj.(*types.Func); isF && unitBase(f.Name()) == helper && c.isTreeRoot(hc.Args[0]) {
								return
							}
						}
					}
				}
				if hc == nil {
					okAll, why = false, "the restored leaf is not the result of "+helper+"(t.root)"
				} else if op, ok := m.helperOperand(hc, helper); !ok || !c.isTreeRoot(op) {
					okAll, why = false, "the restored leaf is not the result of "+helper+"(t.root)"
				}
			}
			// every assignment to the key result (named result or the variable returned first)
			keyVars := map[*types.Var]bool{}
			if len(named) == 3 {
				keyVars[named[0]] = true
			}
			ast.Inspect(u.Body, func(n ast.Node) bool {
				switch x := n.(type) {
				case *ast.ReturnStmt:
					if len(x.Results) == 3 {
						if isConstBool(info, x.Results[2], true) || (len(named) == 3 && identVar(info, x.Results[2]) == named[2]) {
							if isConstBool(info, x.Results[2], true) {
								any = true
							}
							if kv := identVar(info, x.Results[0]); kv != nil {
								keyVars[kv] = true
								if isConstBool(info, x.Results[2], true) && c.defCallOf(u, kv) == nil {
									okAll, why = false, "a key is reported as found that is not the result of restoreKey"
								}
							} else if call, ok := ast.Unparen(x.Results[0]).(*ast.CallExpr); ok {
								checkKeyCall(call)
							}
						}
					}
				case *ast.AssignStmt:
					if len(named) == 3 {
						for i, l := range x.Lhs {
							if identVar(info, l) == named[2] && len(x.Rhs) == len(x.Lhs) && isConstBool(info, x.Rhs[i], true) {
								any = true
							}
						}
					}
				}
				return true
			})
			ast.Inspect(u.Body, func(n ast.Node) bool {
				as, ok := n.(*ast.AssignStmt)
				if !ok {
					return true
				}
				for i, l := range as.Lhs {
					v := identVar(info, l)
					if v == nil || !keyVars[v] {
						continue
					}
					if len(as.Rhs) == 1 {
						call, _ := ast.Unparen(as.Rhs[0]).(*ast.CallExpr)
						if call == nil && len(as.Lhs) == 1 {
							if tv, has := info.Types[as.Rhs[0]]; has && tv.Value == nil {
								okAll, why = false, "the found key is not the result of restoreKey"
							}
							continue
						}
						checkKeyCall(call)
					} else if i < len(as.Rhs) {
						call, _ := ast.Unparen(as.Rhs[i]).(*ast.CallExpr)
						checkKeyCall(call)
					}
				}
				return true
			})
			switch {
			case !any:
				c.r.bad("R35", key, m.pos(u0.Decl.Pos()), meth+" never reports a key as found", "C05")
			case okAll:
				c.r.ok("R35", key, m.pos(u0.Decl.Pos()), "restoreKey("+helper+"(t.root))", "C05")
			default:
				c.r.bad("R35", key, m.pos(u0.Decl.Pos()), why+": the reported extreme can disagree with the first/last element of iteration (a cache, another descent)", "C05")
			}
		}
	}
	// ---- minimum/maximum answer "no leaf" only for an empty reference: a non-empty (sub)tree
	// always has a least and a greatest leaf, so any other nil result makes Minimum/Maximum
	// disagree with the first/last element of iteration
	for _, name := range []string{"minimum", "maximum"} {
		u := m.unitByBase(name)
		if u == nil {
			continue
		}
		fl := c.e.flow(u)
		fl.walk(func(n ast.Node, fs *FactSet, stmt ast.Node, b *cfg.Block) {
			rs, ok := n.(*ast.ReturnStmt)
			if !ok || len(rs.Results) != 1 || !info.Types[rs.Results[0]].IsNil() {
				return
			}
			key := name + " returns no leaf only for an empty reference"
			okNil := false
			fs.eqFacts(func(l, r string, val bool, f *Fact) {
				if val && ((strings.HasSuffix(l, ".pointer") && r == "nil") || (strings.HasSuffix(r, ".pointer") && l == "nil")) {
					okNil = true
				}
			})
			if okNil {
				c.r.ok("R35", key, m.pos(rs.Pos()), "the nil result is returned under <reference>.pointer == nil", "C05", "C02")
			} else {
				c.r.bad("R35", key, m.pos(rs.Pos()), name+" reports \"no leaf\" for a reference that is not known to be empty (a fan-out counter that reads 0, a missing child …): Minimum/Maximum then report an empty tree or a wrong extreme while iteration still yields keys", "C05", "C02")
			}
		})
	}
	for _, tk := range m.Trees {
		for meth, helper := range map[string]string{"All": "all", "Backward": "backward"} {
			u := tk.Methods[meth]
			if u == nil {
				continue
			}
			called := ""
			ast.Inspect(u.Body, func(n ast.Node) bool {
				if call, ok := n.(*ast.CallExpr); ok && called == "" {
					called = m.calleeName(call)
				}
				return true
			})
			key := fmt.Sprintf("%s.%s calls %s", tk.Name, meth, helper)
			if unitBase(called) == helper {
				c.r.ok("R35", key, m.pos(u.Decl.Pos()), "like-named helper", "C02")
			} else {
				c.r.bad("R35", key, m.pos(u.Decl.Pos()), fmt.Sprintf("%s calls %s instead of %s", meth, called, helper), "C02")
			}
		}
	}
	c.r.floor("R35", 8, "call targets", "C05")
}

// R38 BUDGET (C05, C14) – in a bounded sequence every yield is dominated by "budget left".
func ruleR38(c *Ctx) {
	info := c.m.Info
	m := c.m
	n := 0
	for _, u := range c.seqLiterals() {
		// the literal must capture an integer parameter of an enclosing function (the bound k)
		var bound *types.Var
		for p := u.Parent; p != nil && bound == nil; p = p.Parent {
			if p.Type.Params == nil {
				continue
			}
			for _, f := range p.Type.Params.List {
				for _, nm := range f.Names {
					if v, _ := info.Defs[nm].(*types.Var); v != nil && isIntType(v.Type()) {
						used := false
						ast.Inspect(u.Body, func(x ast.Node) bool {
							if id, ok := x.(*ast.Ident); ok && info.ObjectOf(id) == v {
								used = true
							}
							return true
						})
						if used {
							bound = v
						}
					}
				}
			}
		}
		if bound == nil {
			continue
		}
		n++
		props := []string{"C05", "C14"}
		// counters: integer variables local to the literal that are stepped inside it
		type ctr struct {
			v    *types.Var
			down bool
		}
		var ctrs []ctr
		ast.Inspect(u.Body, func(x ast.Node) bool {
			if inc, ok := x.(*ast.IncDecStmt); ok {
				if v := identVar(info, inc.X); v != nil && v.Pos() >= u.Lit.Pos() && v.Pos() <= u.Lit.End() {
					ctrs = append(ctrs, ctr{v, inc.Tok == token.DEC})
				}
			}
			if as, ok := x.(*ast.AssignStmt); ok && (as.Tok == token.SUB_ASSIGN || as.Tok == token.ADD_ASSIGN) && len(as.Lhs) == 1 {
				if v := identVar(info, as.Lhs[0]); v != nil && v.Pos() >= u.Lit.Pos() && v.Pos() <= u.Lit.End() {
					ctrs = append(ctrs, ctr{v, as.Tok == token.SUB_ASSIGN})
				}
			}
			return true
		})
		yv, _ := info.Defs[u.Type.Params.List[0].Names[0]].(*types.Var)
		fl := c.e.flow(u)
		nY := 0
		fl.walk(func(node ast.Node, fs *FactSet, stmt ast.Node, b *cfg.Block) {
			call, ok := node.(*ast.CallExpr)
			if !ok || identVar(info, call.Fun) != yv {
				return
			}
			nY++
			key := fmt.Sprintf("%s yield only while the budget %s is not used up", u.Name, bound.Name())
			if len(ctrs) == 0 {
				c.r.undecided("R38", key, m.pos(call.Pos()), "bounded sequence without a per-pass counter that is stepped inside the closure", props...)
				return
			}
			okAny := false
			why := ""
			for _, ct := range ctrs {
				id := &ast.Ident{Name: ct.v.Name()}
				_ = id
				cv := linAtom(varID(ct.v))
				if ct.down {
					// counter ≥ 1: -c + 1 ≤ 0, or the equality fact c != 0 for an unsigned counter
					g := cv.scale(-1)
					g.c = 1
					if fs.proveLin(g) {
						okAny, why = true, ct.v.Name()+" >= 1"
					}
					want := varID(ct.v)
					fs.eqFacts(func(l, r string, val bool, f *Fact) {
						if !val && ((l == want && r == "0") || (r == want && l == "0")) && isUnsigned(ct.v.Type()) {
							okAny, why = true, ct.v.Name()+" != 0"
						}
					})
				} else {
					// counter < bound: c - k + 1 ≤ 0
					g := cv.add(linAtom(varID(bound)), -1)
					g.c = 1
					if fs.proveLin(g) {
						okAny, why = true, ct.v.Name()+" < "+bound.Name()
					}
				}
			}
			if okAny {
				c.r.ok("R38", key, m.pos(call.Pos()), "dominated by "+why, props...)
			} else {
				c.r.bad("R38", key, m.pos(call.Pos()), fmt.Sprintf("a pair is yielded at a point where nothing establishes that fewer than %s pairs were delivered in this pass (with %s == 0, or after the %s-th pair, the sequence keeps yielding)", bound.Name(), bound.Name(), bound.Name()), props...)
			}
		})
		if nY == 0 {
			c.r.ok("R38", u.Name+" bounded sequence yields nothing itself", m.pos(u.Lit.Pos()), "no yield call", props...)
		}
	}
	if n == 0 {
		c.r.undecided("R38", "bounded sequences found", "tree.go", "no sequence closure capturing an integer bound was found (TopK/BottomK)", "C05")
	}
}

// r28Stop: the stop discipline of one function with respect to one callback variable yv (the yield
// of a sequence closure, or the visitor parameter of a walker): after a call of yv returned false
// no further call of yv – nor any call for which asYield holds – is reachable.
func (c *Ctx) r28Stop(u *FuncUnit, yv *types.Var, props []string, asYield func(*ast.CallExpr) bool) {
	info := c.m.Info
	g := c.m.cfgOf(u)
	isYieldCall := func(n ast.Node) *ast.CallExpr {
		call, ok := n.(*ast.CallExpr)
		if ok && (identVar(info, call.Fun) == yv || (asYield != nil && asYield(call))) {
			return call
		}
		return nil
	}
	hasYield := func(b *cfg.Block) bool {
		found := false
		for _, n := range b.Nodes {
			ast.Inspect(n, func(x ast.Node) bool {
				if _, isLit := x.(*ast.FuncLit); isLit {
					return false
				}
				if isYieldCall(x) != nil {
					found = true
				}
				return true
			})
		}
		return found
	}
	// every yield call must be the atom of a guard
	guarded := map[*ast.CallExpr]bool{}
	// a yield call inside a larger condition (`left == 0 || !yield(k, v)`): with yield = false
	// the condition may still have a definite value, which names the edge taken
	for _, b := range g.Blocks {
		if !b.Live || len(b.Succs) != 2 {
			continue
		}
		cond := condOf(info, b)
		if cond == nil {
			continue
		}
		var ycall *ast.CallExpr
		ast.Inspect(cond, func(z ast.Node) bool {
			if call := isYieldCall(z); call != nil {
				ycall = call
			}
			return true
		})
		if ycall == nil || isYieldCall(ast.Unparen(c.m.throughLocals(u, cond))) != nil {
			continue // the plain form is handled below
		}
		if be, ok := ast.Unparen(cond).(*ast.UnaryExpr); ok && be.Op == token.NOT && isYieldCall(ast.Unparen(be.X)) != nil {
			continue
		}
		// three-valued evaluation with yield() = false
		var eval func(e ast.Expr) int // 1 true, 0 false, -1 unknown
		eval = func(e ast.Expr) int {
			e = ast.Unparen(e)
			if isYieldCall(e) == ycall {
				return 0
			}
			switch x := e.(type) {
			case *ast.UnaryExpr:
				if x.Op == token.NOT {
					switch eval(x.X) {
					case 1:
						return 0
					case 0:
						return 1
					}
				}
			case *ast.BinaryExpr:
				l, r := eval(x.X), eval(x.Y)
				switch x.Op {
				case token.LOR:
					if l == 1 || r == 1 {
						return 1
					}
					if l == 0 && r == 0 {
						return 0
					}
				case token.LAND:
					if l == 0 || r == 0 {
						return 0
					}
					if l == 1 && r == 1 {
						return 1
					}
				}
			}
			return -1
		}
		v := eval(cond)
		if v == -1 {
			continue
		}
		succ := 0
		if v == 0 {
			succ = 1
		}
		guarded[ycall] = true
		key := fmt.Sprintf("%s stop after yield returned false", u.Name)
		bad := false
		for rb := range reachable(b.Succs[succ]) {
			if hasYield(rb) {
				bad = true
			}
		}
		if bad {
			c.r.bad("R28", key, c.m.pos(ycall.Pos()), "a yield call is reachable after this yield call returned false", props...)
		} else {
			c.r.ok("R28", key, c.m.pos(ycall.Pos()), "with yield = false the enclosing condition is decided and its edge reaches the function exit without another yield call", props...)
		}
	}
	for _, gd := range guardsOf(info, g) {
		call := isYieldCall(ast.Unparen(c.m.throughLocals(u, gd.atom.e)))
		if call == nil || gd.atom.val {
			continue
		}
		// edge (b,succ) is taken when yield returned false
		guarded[call] = true
		key := fmt.Sprintf("%s stop after yield returned false", u.Name)
		bad := false
		for b := range reachable(gd.b.Succs[gd.succ]) {
			if hasYield(b) {
				bad = true
			}
		}
		if bad {
			c.r.bad("R28", key, c.m.pos(call.Pos()), "a yield call is reachable after this yield call returned false", props...)
		} else {
			c.r.ok("R28", key, c.m.pos(call.Pos()), "the false outcome reaches the function exit without another yield call", props...)
		}
	}
	for _, b := range g.Blocks {
		if !b.Live {
			continue
		}
		for _, n := range b.Nodes {
			ast.Inspect(n, func(x ast.Node) bool {
				if _, isLit := x.(*ast.FuncLit); isLit {
					return false
				}
				if call := isYieldCall(x); call != nil && !guarded[call] {
					// an unused result is harmless when nothing can call yield again afterwards
					// (the last action of the pass)
					again := false
					after := false
					for _, later := range b.Nodes {
						if later == n {
							after = true
							continue
						}
						if after {
							ast.Inspect(later, func(z ast.Node) bool {
								if isYieldCall(z) != nil {
									again = true
								}
								return true
							})
						}
					}
					for _, sc := range b.Succs {
						for rb := range reachable(sc) {
							if hasYield(rb) {
								again = true
							}
						}
					}
					key := fmt.Sprintf("%s yield result unused", u.Name)
					if again {
						c.r.bad("R28", key, c.m.pos(call.Pos()), "the result of yield does not decide a branch: the sequence keeps calling back after the consumer stopped", props...)
					} else {
						c.r.ok("R28", key, c.m.pos(call.Pos()), "no yield call is reachable after this one: the pass ends whatever the consumer answered", props...)
					}
				}
				if d, ok := x.(*ast.DeferStmt); ok {
					if isYieldCall(d.Call) != nil {
						c.r.bad("R28", fmt.Sprintf("%s deferred yield", u.Name), c.m.pos(d.Pos()), "yield is called from a deferred function", props...)
					}
				}
				return true
			})
		}
	}
}

// yieldVisitor: a literal that calls yield and is handed, as a func-typed argument, to a declared
// walker that does nothing with that parameter but call it.
type yieldVisitor struct {
	lit    *ast.FuncLit
	unit   *FuncUnit
	walker *FuncUnit
	param  *types.Var
}

// yieldVisitors maps the walker calls in sequence closure u to the visitor they receive.
func (c *Ctx) yieldVisitors(u *FuncUnit, yv *types.Var) map[*ast.CallExpr]*yieldVisitor {
	info := c.m.Info
	out := map[*ast.CallExpr]*yieldVisitor{}
	ast.Inspect(u.Body, func(n ast.Node) bool {
		if lit, ok := n.(*ast.FuncLit); ok && ast.Node(lit) != ast.Node(u.Lit) {
			return false
		}
		call, ok := n.(*ast.CallExpr)
		if !ok {
			return true
		}
		for i, a := range call.Args {
			lit, ok := ast.Unparen(a).(*ast.FuncLit)
			if !ok {
				continue
			}
			calls := false
			ast.Inspect(lit.Body, func(z ast.Node) bool {
				if cl, ok := z.(*ast.CallExpr); ok && identVar(info, cl.Fun) == yv {
					calls = true
				}
				return true
			})
			if !calls {
				continue
			}
			lu := c.m.LitUnit[lit]
			if lu == nil {
				continue
			}
			w, wcalls := c.visitorSites(lu)
			if w == nil || len(wcalls) == 0 {
				continue
			}
			var pv *types.Var
			k := 0
			for _, f := range w.Type.Params.List {
				for _, nm := range f.Names {
					if k == i {
						pv, _ = info.Defs[nm].(*types.Var)
					}
					k++
				}
			}
			if pv == nil {
				continue
			}
			out[call] = &yieldVisitor{lit: lit, unit: lu, walker: w, param: pv}
		}
		return true
	})
	return out
}

// r28Visitor: (1) inside the visitor a false from yield becomes the visitor's own false –
// `return yield(…)` or `if !yield(…) { return false }`; (2) the walker stops calling its visitor
// parameter once a call returned false.
func (c *Ctx) r28Visitor(u *FuncUnit, yv *types.Var, vs *yieldVisitor, props []string) {
	info := c.m.Info
	key := fmt.Sprintf("%s visitor hands yield's false to %s", u.Name, vs.walker.Name)
	okAll, n := true, 0
	var parents []ast.Node
	ast.Inspect(vs.lit.Body, func(x ast.Node) bool {
		if x == nil {
			parents = parents[:len(parents)-1]
			return true
		}
		parents = append(parents, x)
		call, ok := x.(*ast.CallExpr)
		if !ok || identVar(info, call.Fun) != yv {
			return true
		}
		n++
		up := func(k int) ast.Node {
			if len(parents)-1-k < 0 {
				return nil
			}
			return parents[len(parents)-1-k]
		}
		p1 := up(1)
		if rs, ok := p1.(*ast.ReturnStmt); ok && len(rs.Results) == 1 {
			return true
		}
		if ue, ok := p1.(*ast.UnaryExpr); ok && ue.Op == token.NOT {
			if is, ok := up(2).(*ast.IfStmt); ok && ast.Unparen(is.Cond) == ast.Expr(ue) && len(is.Body.List) == 1 {
				if rs, ok := is.Body.List[0].(*ast.ReturnStmt); ok && len(rs.Results) == 1 {
					if tv, ok := info.Types[rs.Results[0]]; ok && tv.Value != nil && tv.Value.ExactString() == "false" {
						return true
					}
				}
			}
		}
		okAll = false
		return true
	})
	if okAll && n > 0 {
		c.r.ok("R28", key, c.m.pos(vs.lit.Pos()), "every yield call in the visitor is returned, or its false makes the visitor return false", props...)
	} else {
		c.r.undecided("R28", key, c.m.pos(vs.lit.Pos()), "yield is called inside a closure handed to a walker and its result is neither returned nor turned into `return false`: whether the walk stops once yield returned false is not decided by this rule", props...)
	}
	if c.walkerDone == nil {
		c.walkerDone = map[*FuncUnit]bool{}
	}
	if !c.walkerDone[vs.walker] {
		c.walkerDone[vs.walker] = true
		c.r28Stop(vs.walker, vs.param, props, nil)
	}
}
