package main

// E3 – path automaton: product of a CFG with saturating event counters. Every block keeps the
// set of automaton states reachable at its entry, so co-occurrence of events on one path is
// not lost at joins.

import (
	"fmt"
	"go/ast"
	"go/token"
	"go/types"
	"sort"
	"strings"

	"golang.org/x/tools/go/cfg"
)

const maxEvents = 10

type pstate struct {
	n      [maxEvents]uint8
	flags  uint8
	ret    int8      // result of the last inlined callee: 0 unknown, 1 true, 2 false
	retVar token.Pos // variable the result was assigned to (0: it is the value of the call itself)
	// boolean locals that were last assigned a constant on this path (deleted := false … deleted =
	// true): a branch on one of them is taken the one way the path allows
	bools [2]boolTrack
}

type boolTrack struct {
	v   token.Pos // position of the variable's declaration (0: unused slot)
	val int8      // 1 true, 2 false
}

func (s *pstate) setBool(v token.Pos, val int8) {
	for i := range s.bools {
		if s.bools[i].v == v {
			s.bools[i].val = val
			return
		}
	}
	for i := range s.bools {
		if s.bools[i].v == 0 {
			s.bools[i] = boolTrack{v, val}
			return
		}
	}
}

func (s *pstate) boolOf(v token.Pos) int8 {
	for _, b := range s.bools {
		if b.v == v && v != 0 {
			return b.val
		}
	}
	return 0
}

func (s *pstate) forgetBool(v token.Pos) {
	for i := range s.bools {
		if s.bools[i].v == v {
			s.bools[i] = boolTrack{}
		}
	}
}

// summary is one way an inlined callee can end: its events and its constant boolean result.
type summary struct {
	n     [maxEvents]uint8
	flags uint8
	ret   int8
}

type pathOpts struct {
	info   *types.Info
	inline func(n ast.Node) ([]summary, *ast.CallExpr) // summaries of a library callee called in node n
	// boolReturn: the events of `return x` when x is a tracked boolean local with the given value
	boolReturn func(val bool) []int
}

// trackBools updates the tracked boolean locals for one CFG node.
func trackBools(info *types.Info, s *pstate, n ast.Node) {
	isBoolVar := func(e ast.Expr) types.Object {
		id, ok := ast.Unparen(e).(*ast.Ident)
		if !ok {
			return nil
		}
		v, _ := info.ObjectOf(id).(*types.Var)
		if v == nil || v.IsField() || v.Parent() == nil || v.Parent() == v.Pkg().Scope() {
			return nil
		}
		if b, ok := v.Type().Underlying().(*types.Basic); !ok || b.Kind() != types.Bool {
			return nil
		}
		return v
	}
	switch x := n.(type) {
	case *ast.AssignStmt:
		if len(x.Lhs) != len(x.Rhs) {
			for _, l := range x.Lhs {
				if v := isBoolVar(l); v != nil {
					s.forgetBool(v.Pos())
				}
			}
			return
		}
		for i, l := range x.Lhs {
			v := isBoolVar(l)
			if v == nil {
				continue
			}
			switch {
			case isConstBool(info, x.Rhs[i], true):
				s.setBool(v.Pos(), 1)
			case isConstBool(info, x.Rhs[i], false):
				s.setBool(v.Pos(), 2)
			default:
				s.forgetBool(v.Pos())
			}
		}
	case *ast.ValueSpec:
		for i, nm := range x.Names {
			v := isBoolVar(nm)
			if v == nil {
				continue
			}
			switch {
			case i >= len(x.Values):
				s.setBool(v.Pos(), 2)
			case isConstBool(info, x.Values[i], true):
				s.setBool(v.Pos(), 1)
			case isConstBool(info, x.Values[i], false):
				s.setBool(v.Pos(), 2)
			}
		}
	case *ast.DeclStmt:
		if gd, ok := x.Decl.(*ast.GenDecl); ok {
			for _, sp := range gd.Specs {
				if vs, ok := sp.(*ast.ValueSpec); ok {
					trackBools(info, s, vs)
				}
			}
		}
	}
}

type pathResult struct {
	names   []string
	exits   map[*cfg.Block][]pstate // states at the end of each exit block
	pred    map[pkey]pkey
	g       *cfg.CFG
	entryOf map[pkey]pstate
}

type pkey struct {
	b int32
	s pstate
}

func (p *pathResult) describe(s pstate) string {
	var parts []string
	for i, nm := range p.names {
		if s.n[i] > 0 {
			c := fmt.Sprint(s.n[i])
			if s.n[i] >= 2 {
				c = "2+"
			}
			parts = append(parts, nm+"×"+c)
		}
	}
	if len(parts) == 0 {
		return "{}"
	}
	return "{" + strings.Join(parts, ",") + "}"
}

// witness reconstructs one block sequence reaching (b, s-at-entry).
func (p *pathResult) witness(b *cfg.Block, entry pstate) []string {
	var out []string
	k := pkey{b.Index, entry}
	for i := 0; i < 200; i++ {
		out = append(out, p.g.Blocks[k.b].String())
		pk, ok := p.pred[k]
		if !ok {
			break
		}
		k = pk
	}
	for i, j := 0, len(out)-1; i < j; i, j = i+1, j-1 {
		out[i], out[j] = out[j], out[i]
	}
	return out
}

// runPaths explores the product. events(b, i) returns the events raised by node i of block b;
// edgeFlag(b, succ) returns flag bits set when that edge is taken.
func runPaths(g *cfg.CFG, names []string, events func(b *cfg.Block, i int, n ast.Node) []int, edgeFlag func(b *cfg.Block, succ int) uint8) *pathResult {
	return runPathsOpt(g, names, events, edgeFlag, nil)
}

// runPathsOpt additionally inlines the exit summaries of library callees (opts.inline) and
// correlates a callee's constant boolean result with the branch that tests it.
func runPathsOpt(g *cfg.CFG, names []string, events func(b *cfg.Block, i int, n ast.Node) []int, edgeFlag func(b *cfg.Block, succ int) uint8, opts *pathOpts) *pathResult {
	res := &pathResult{names: names, exits: map[*cfg.Block][]pstate{}, pred: map[pkey]pkey{}, g: g}
	if len(g.Blocks) == 0 {
		return res
	}
	in := make([]map[pstate]bool, len(g.Blocks))
	entryOf := map[pkey]pstate{} // exit-state → the entry state it came from (for witnesses)
	type item struct {
		b int32
		s pstate
	}
	work := []item{{0, pstate{}}}
	in[0] = map[pstate]bool{{}: true}
	sat := func(a, b uint8) uint8 {
		if a+b >= 2 {
			return 2
		}
		return a + b
	}
	for len(work) > 0 {
		it := work[0]
		work = work[1:]
		b := g.Blocks[it.b]
		states := []pstate{it.s}
		for i, n := range b.Nodes {
			evs := events(b, i, n)
			var sums []summary
			var call *ast.CallExpr
			if opts != nil && opts.inline != nil {
				sums, call = opts.inline(n)
				if len(sums) > 0 {
					evs = nil // the callee's summaries stand for the whole call statement
				}
			}
			var next []pstate
			for _, s := range states {
				evs := evs
				if opts != nil && opts.info != nil {
					trackBools(opts.info, &s, n)
					// return x with x a tracked boolean: the constant it holds on this path
					if rs, ok := n.(*ast.ReturnStmt); ok && len(rs.Results) == 1 && opts.boolReturn != nil {
						if id, ok := ast.Unparen(rs.Results[0]).(*ast.Ident); ok {
							if v := opts.info.ObjectOf(id); v != nil {
								if val := s.boolOf(v.Pos()); val != 0 {
									evs = opts.boolReturn(val == 1)
								}
							}
						}
					}
				}
				for _, ev := range evs {
					if s.n[ev] < 2 {
						s.n[ev]++
					}
				}
				if len(sums) == 0 {
					next = append(next, s)
					continue
				}
				for _, sm := range sums {
					ns := s
					for k := range ns.n {
						ns.n[k] = sat(ns.n[k], sm.n[k])
					}
					ns.flags |= sm.flags
					ns.ret, ns.retVar = sm.ret, 0
					if as, ok := n.(*ast.AssignStmt); ok && len(as.Lhs) >= 1 && len(as.Rhs) == 1 && ast.Unparen(as.Rhs[0]) == ast.Expr(call) {
						if id, ok := as.Lhs[0].(*ast.Ident); ok && opts.info != nil {
							if v := opts.info.ObjectOf(id); v != nil {
								ns.retVar = v.Pos()
							}
						}
					}
					next = append(next, ns)
				}
			}
			states = next
		}
		for _, s := range states {
			if len(b.Succs) == 0 {
				s.ret, s.retVar = 0, 0
				dup := false
				for _, x := range res.exits[b] {
					if x == s {
						dup = true
					}
				}
				if !dup {
					res.exits[b] = append(res.exits[b], s)
					entryOf[pkey{b.Index, s}] = it.s
				}
				continue
			}
			// does the branch condition test the inlined callee's result?
			condVal := int8(0) // 1: edge 0 needs ret==true; 2: edge 0 needs ret==false
			if s.ret != 0 && len(b.Succs) == 2 && len(b.Nodes) > 0 && opts != nil && opts.info != nil {
				if cond, ok := b.Nodes[len(b.Nodes)-1].(ast.Expr); ok {
					neg := false
					e := ast.Unparen(cond)
					if ue, ok := e.(*ast.UnaryExpr); ok && ue.Op == token.NOT {
						neg, e = true, ast.Unparen(ue.X)
					}
					match := false
					if s.retVar == 0 {
						_, match = e.(*ast.CallExpr)
					} else if id, ok := e.(*ast.Ident); ok {
						if v := opts.info.ObjectOf(id); v != nil && v.Pos() == s.retVar {
							match = true
						}
					}
					if match {
						condVal = 1
						if neg {
							condVal = 2
						}
					}
				}
			}
			// … or a tracked boolean local?
			boolCond := int8(0) // the value the condition has on this path: 1 true, 2 false
			if len(b.Succs) == 2 && len(b.Nodes) > 0 && opts != nil && opts.info != nil && condVal == 0 {
				if cond, ok := b.Nodes[len(b.Nodes)-1].(ast.Expr); ok {
					neg := false
					e := ast.Unparen(cond)
					if ue, ok := e.(*ast.UnaryExpr); ok && ue.Op == token.NOT {
						neg, e = true, ast.Unparen(ue.X)
					}
					if id, ok := e.(*ast.Ident); ok {
						if v := opts.info.ObjectOf(id); v != nil {
							if val := s.boolOf(v.Pos()); val != 0 {
								boolCond = val
								if neg {
									boolCond = 3 - val
								}
							}
						}
					}
				}
			}
			for si, succ := range b.Succs {
				if boolCond != 0 && ((boolCond == 1 && si == 1) || (boolCond == 2 && si == 0)) {
					continue // the flag has the other value on this path
				}
				if condVal != 0 {
					wantTrue := (condVal == 1) == (si == 0)
					if (wantTrue && s.ret == 2) || (!wantTrue && s.ret == 1) {
						continue // the callee returned the other constant on this path
					}
				}
				ns := s
				if len(b.Succs) == 2 {
					ns.ret, ns.retVar = 0, 0
				}
				if edgeFlag != nil {
					ns.flags |= edgeFlag(b, si)
				}
				if in[succ.Index] == nil {
					in[succ.Index] = map[pstate]bool{}
				}
				if !in[succ.Index][ns] {
					in[succ.Index][ns] = true
					res.pred[pkey{succ.Index, ns}] = pkey{b.Index, it.s}
					work = append(work, item{succ.Index, ns})
				}
			}
		}
	}
	for b := range res.exits {
		sort.Slice(res.exits[b], func(i, j int) bool { return fmt.Sprint(res.exits[b][i]) < fmt.Sprint(res.exits[b][j]) })
	}
	res.entryOf = entryOf
	return res
}

// constBoolReturn: the block ends in `return true` / `return false` (1 / 2), else 0.
func constBoolReturn(info *types.Info, b *cfg.Block) int8 {
	if len(b.Nodes) == 0 {
		return 0
	}
	rs, ok := b.Nodes[len(b.Nodes)-1].(*ast.ReturnStmt)
	if !ok || len(rs.Results) != 1 {
		return 0
	}
	if isConstBool(info, rs.Results[0], true) {
		return 1
	}
	if isConstBool(info, rs.Results[0], false) {
		return 2
	}
	return 0
}
