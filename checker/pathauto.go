package main

// E3 – path automaton: product of a CFG with saturating event counters. Every block keeps the
// set of automaton states reachable at its entry, so co-occurrence of events on one path is
// not lost at joins.

import (
	"fmt"
	"go/ast"
	"sort"
	"strings"

	"golang.org/x/tools/go/cfg"
)

const maxEvents = 10

type pstate struct {
	n     [maxEvents]uint8
	flags uint8
}

type pathResult struct {
	names   []string
	exits   map[*cfg.Block][]pstate // states at the end of each exit block
	pred    map[pkey]pkey
	g       *cfg.CFG
	entryOf map[pkey]pstate
}

type pkey struct {
	b int32
	s pstate
}

func (p *pathResult) describe(s pstate) string {
	var parts []string
	for i, nm := range p.names {
		if s.n[i] > 0 {
			c := fmt.Sprint(s.n[i])
			if s.n[i] >= 2 {
				c = "2+"
			}
			parts = append(parts, nm+"×"+c)
		}
	}
	if len(parts) == 0 {
		return "{}"
	}
	return "{" + strings.Join(parts, ",") + "}"
}

// witness reconstructs one block sequence reaching (b, s-at-entry).
func (p *pathResult) witness(b *cfg.Block, entry pstate) []string {
	var out []string
	k := pkey{b.Index, entry}
	for i := 0; i < 200; i++ {
		out = append(out, p.g.Blocks[k.b].String())
		pk, ok := p.pred[k]
		if !ok {
			break
		}
		k = pk
	}
	for i, j := 0, len(out)-1; i < j; i, j = i+1, j-1 {
		out[i], out[j] = out[j], out[i]
	}
	return out
}

// runPaths explores the product. events(b, i) returns the events raised by node i of block b;
// edgeFlag(b, succ) returns flag bits set when that edge is taken.
func runPaths(g *cfg.CFG, names []string, events func(b *cfg.Block, i int, n ast.Node) []int, edgeFlag func(b *cfg.Block, succ int) uint8) *pathResult {
	res := &pathResult{names: names, exits: map[*cfg.Block][]pstate{}, pred: map[pkey]pkey{}, g: g}
	if len(g.Blocks) == 0 {
		return res
	}
	in := make([]map[pstate]bool, len(g.Blocks))
	entryOf := map[pkey]pstate{} // exit-state → the entry state it came from (for witnesses)
	type item struct {
		b int32
		s pstate
	}
	work := []item{{0, pstate{}}}
	in[0] = map[pstate]bool{{}: true}
	for len(work) > 0 {
		it := work[0]
		work = work[1:]
		b := g.Blocks[it.b]
		s := it.s
		for i, n := range b.Nodes {
			for _, ev := range events(b, i, n) {
				if s.n[ev] < 2 {
					s.n[ev]++
				}
			}
		}
		if len(b.Succs) == 0 {
			dup := false
			for _, x := range res.exits[b] {
				if x == s {
					dup = true
				}
			}
			if !dup {
				res.exits[b] = append(res.exits[b], s)
				entryOf[pkey{b.Index, s}] = it.s
			}
			continue
		}
		for si, succ := range b.Succs {
			ns := s
			if edgeFlag != nil {
				ns.flags |= edgeFlag(b, si)
			}
			if in[succ.Index] == nil {
				in[succ.Index] = map[pstate]bool{}
			}
			if !in[succ.Index][ns] {
				in[succ.Index][ns] = true
				res.pred[pkey{succ.Index, ns}] = pkey{b.Index, it.s}
				work = append(work, item{succ.Index, ns})
			}
		}
	}
	for b := range res.exits {
		sort.Slice(res.exits[b], func(i, j int) bool { return fmt.Sprint(res.exits[b][i]) < fmt.Sprint(res.exits[b][j]) })
	}
	res.entryOf = entryOf
	return res
}
