package main

// Abstract interpretation of the numeric key codecs (C07).
//
// A key of a W-bit numeric type is split into its sign/top bit s and the remaining W-1 bits m. The
// values of the type fall into a handful of classes on which s is fixed and m ranges over an
// interval (floats: NaN±, ±Inf, negative, -0, +0, positive; integers: top bit clear / set). On one
// class every word the codec computes is an affine function a·m + b of m with a ∈ {-1, 0, +1}: the
// sign flip, the complement, the mask built from the sign, the +2 offset and the special codes
// are all of that form. The interpreter executes the statements of Transform and Restore for one
// type-switch arm on that domain (exact integer arithmetic on (a, b) with interval checks, no
// enumeration of values, no solver), branching on conditions it can decide per class. From the forms it obtains
// per class it decides, in closed form: the encoding has the width of the type and is big-endian;
// it is strictly monotone in the order the property states (NaN < -Inf < negatives < -0 < +0 <
// positives < +Inf; integers by value); Restore applied to Transform's word returns the input bits.
// Whatever it cannot follow (a shift by another amount, a possible wrap-around, a call it does
// not know) makes the arm UNKNOWN, and R15 falls back to its pattern clauses.

import (
	"fmt"
	"go/ast"
	"go/constant"
	"go/token"
	"go/types"
	"math"
	"math/big"
	"os"
	"strings"
)

type avKind int

const (
	avUnknown avKind = iota
	avWord           // a·m + b as a w-bit pattern
	avKey            // the key argument itself (or a same-valued float/integer copy of it)
	avBool
	avBytes   // a byte slice holding a word
	avKeyBits // a value of the key type rebuilt from a word
	avFloat   // a float special: inf+, inf-, nan, or a finite constant
	avTuple   // the results of a multi-value call
	avLanes   // a word put together from bytes of other words (hand-written byte order)
)

// laneSrc: one byte of a value – byte k (0 = least significant) of word, or zero.
type laneSrc struct {
	word *aval
	k    int
	zero bool
}

func (l laneSrc) same(o laneSrc) bool {
	if l.zero || o.zero {
		return l.zero == o.zero
	}
	return l.k == o.k && l.word.String() == o.word.String() && l.word.w == o.word.w
}

type aval struct {
	kind   avKind
	w      int
	a      int
	b      *big.Int
	known  bool // avBool
	val    bool
	word   *aval // avBytes, avKeyBits
	blen   int64
	order  string  // avBytes: "big", "little", ""
	fclass string  // avFloat
	tuple  []*aval // avTuple
	fconst float64
	why    string    // avUnknown
	lanes  []laneSrc // avLanes: most significant byte first; avBytes: the bytes by index (nil entries = not written)
	set    []bool    // avBytes with lanes: which indices have been written
}

func unknown(format string, args ...any) *aval {
	return &aval{kind: avUnknown, why: fmt.Sprintf(format, args...)}
}
func constWord(w int, v *big.Int) *aval {
	return &aval{kind: avWord, w: w, a: 0, b: new(big.Int).Set(v)}
}
func boolVal(v bool) *aval { return &aval{kind: avBool, known: true, val: v} }

type keyClass struct {
	parent *keyClass // the class this one was split from (same place in the order)
	name   string
	s      int
	lo, hi *big.Int
	float  bool
	nan    bool
	inf    bool
	signed bool // integer classes of a signed type
}

func (v *aval) String() string {
	switch v.kind {
	case avWord:
		switch {
		case v.a == 0:
			return "0x" + v.b.Text(16)
		case v.a == 1:
			return "m+0x" + v.b.Text(16)
		default:
			return "0x" + v.b.Text(16) + "-m"
		}
	case avKey:
		return "key"
	case avBool:
		if !v.known {
			return "bool?"
		}
		return fmt.Sprint(v.val)
	case avBytes:
		if v.word != nil {
			return fmt.Sprintf("[%d]byte{%s %s}", v.blen, v.order, v.word)
		}
		if v.lanes != nil {
			var parts []string
			for i, l := range v.lanes {
				switch {
				case i < len(v.set) && !v.set[i]:
					parts = append(parts, "??")
				case l.zero:
					parts = append(parts, "00")
				default:
					parts = append(parts, fmt.Sprintf("%s.byte%d", l.word, l.k))
				}
			}
			return fmt.Sprintf("[%d]byte{%s}", v.blen, strings.Join(parts, " "))
		}
		return fmt.Sprintf("[%d]byte", v.blen)
	case avKeyBits:
		return "bits(" + v.word.String() + ")"
	case avFloat:
		if v.fclass != "" {
			return v.fclass
		}
		return fmt.Sprint(v.fconst)
	case avLanes:
		var parts []string
		for _, l := range v.lanes {
			if l.zero {
				parts = append(parts, "00")
			} else {
				parts = append(parts, fmt.Sprintf("%s.byte%d", l.word, l.k))
			}
		}
		return "lanes[" + strings.Join(parts, " ") + "]"
	case avTuple:
		var parts []string
		for _, t := range v.tuple {
			parts = append(parts, t.String())
		}
		return "(" + strings.Join(parts, ", ") + ")"
	}
	return "unknown(" + v.why + ")"
}

// rng: the value range of a word on class cl.
func (v *aval) rng(cl *keyClass) (lo, hi *big.Int) {
	x := new(big.Int).Add(new(big.Int).Mul(big.NewInt(int64(v.a)), cl.lo), v.b)
	y := new(big.Int).Add(new(big.Int).Mul(big.NewInt(int64(v.a)), cl.hi), v.b)
	if x.Cmp(y) > 0 {
		x, y = y, x
	}
	return x, y
}

func pow2(n int) *big.Int { return new(big.Int).Lsh(big.NewInt(1), uint(n)) }

// lanesOf: v as w/8 bytes, most significant first (nil if v has no byte structure).
func lanesOf(v *aval, w int) []laneSrc {
	if w <= 0 || w%8 != 0 {
		return nil
	}
	n := w / 8
	var src []laneSrc
	switch v.kind {
	case avLanes:
		src = v.lanes
	case avWord:
		vw := v.w
		if vw == 0 {
			vw = w
		}
		if vw%8 != 0 {
			return nil
		}
		if v.a == 0 {
			// a constant word: each byte is a constant of its own
			for k := vw/8 - 1; k >= 0; k-- {
				bv := new(big.Int).And(new(big.Int).Rsh(v.b, uint(8*k)), big.NewInt(0xff))
				if bv.Sign() == 0 {
					src = append(src, laneSrc{zero: true})
				} else {
					src = append(src, laneSrc{word: constWord(8, bv), k: 0})
				}
			}
		} else {
			vv := v
			if v.w == 0 {
				vv = &aval{kind: avWord, w: vw, a: v.a, b: v.b}
			}
			for k := vw/8 - 1; k >= 0; k-- {
				src = append(src, laneSrc{word: vv, k: k})
			}
		}
	default:
		return nil
	}
	// zero-extend or truncate at the top
	for len(src) < n {
		src = append([]laneSrc{{zero: true}}, src...)
	}
	return src[len(src)-n:]
}

// canonLanes: the lanes as a plain word when they are the bytes of one word in order (possibly
// zero-extended), the lane value otherwise.
func (it *codecInterp) canonLanes(l []laneSrc, w int) *aval {
	z := 0
	for z < len(l) && l[z].zero {
		z++
	}
	if z == len(l) {
		return constWord(w, new(big.Int))
	}
	// constant bytes only: the constant word
	allConst := true
	val := new(big.Int)
	for _, ln := range l {
		val.Lsh(val, 8)
		switch {
		case ln.zero:
		case ln.word != nil && ln.word.kind == avWord && ln.word.a == 0 && ln.word.w == 8 && ln.k == 0:
			val.Or(val, ln.word.b)
		default:
			allConst = false
		}
	}
	if allConst {
		return constWord(w, val)
	}
	rest := l[z:]
	W := rest[0].word
	ok := W != nil
	for i, ln := range rest {
		if ln.zero || ln.word != W && !(ln.word.String() == W.String() && ln.word.w == W.w) || ln.k != len(rest)-1-i {
			ok = false
		}
	}
	if ok && (W.w == 8*len(rest) || it.fits(W, 8*len(rest))) {
		return &aval{kind: avWord, w: w, a: W.a, b: W.b}
	}
	// constant lanes of constant words fold
	return &aval{kind: avLanes, w: w, lanes: l}
}

// fits: every value the word takes on the current class is below 2^bits (its higher bytes are zero).
func (it *codecInterp) fits(W *aval, bits int) bool {
	if it == nil || it.cl == nil || W == nil || W.kind != avWord || bits >= W.w {
		return false
	}
	lo, hi := W.rng(it.cl)
	return lo.Sign() >= 0 && hi.Cmp(pow2(bits)) < 0
}

// bytesLanes: the bytes of a slice value by index.
func bytesLanes(v *aval) ([]laneSrc, []bool) {
	n := int(v.blen)
	if v.lanes != nil {
		return v.lanes, v.set
	}
	if v.blen < 0 || v.blen > 64 {
		return nil, nil // a length the byte model does not follow
	}
	out := make([]laneSrc, n)
	set := make([]bool, n)
	if v.word == nil {
		return out, set
	}
	for i := 0; i < n; i++ {
		k := n - 1 - i
		if v.order == "little" {
			k = i
		}
		out[i] = laneSrc{word: v.word, k: k}
		if v.word.a == 0 {
			// a constant word: the byte is a constant of its own
			bv := new(big.Int).And(new(big.Int).Rsh(v.word.b, uint(8*k)), big.NewInt(0xff))
			if bv.Sign() == 0 {
				out[i] = laneSrc{zero: true}
			} else {
				out[i] = laneSrc{word: constWord(8, bv), k: 0}
			}
		}
		set[i] = true
	}
	return out, set
}

// canonBytes: a slice whose bytes are all written and are the bytes of one word in big- or
// little-endian order becomes that word with its order.
func (it *codecInterp) canonBytes(lanes []laneSrc, set []bool) *aval {
	n := len(lanes)
	res := &aval{kind: avBytes, blen: int64(n), lanes: lanes, set: set}
	for _, s := range set {
		if !s {
			return res
		}
	}
	if n == 0 {
		return res
	}
	for _, order := range []string{"big", "little"} {
		var W *aval
		ok := true
		for i, ln := range lanes {
			k := n - 1 - i
			if order == "little" {
				k = i
			}
			if ln.zero || ln.k != k || (ln.word.w != 8*n && !it.fits(ln.word, 8*n)) {
				ok = false
				break
			}
			if W == nil {
				W = ln.word // the word of the first byte examined; the others must agree with it on their byte
			} else if W.String() != ln.word.String() || W.w != ln.word.w {
				// another word that differs from W by a constant whose low 8(k+1) bits are zero has
				// the same byte k (a sign flip applied to the top byte only)
				if W.w != ln.word.w || W.a != ln.word.a || W.kind != avWord || ln.word.kind != avWord {
					ok = false
					break
				}
				d := new(big.Int).Sub(W.b, ln.word.b)
				d.Mod(d, pow2(W.w))
				if new(big.Int).Mod(d, pow2(8*(ln.k+1))).Sign() != 0 {
					ok = false
					break
				}
				// W must be the word that carries the change: keep the one whose higher bytes were examined first
			}
		}
		if ok {
			if W.w != 8*n {
				W = &aval{kind: avWord, w: 8 * n, a: W.a, b: W.b} // the low bytes of a wider word whose value fits
			}
			return &aval{kind: avBytes, blen: int64(n), word: W, order: order}
		}
	}
	return res
}

// top: the top bit of the word on the class, if it is the same for every m (-1 otherwise).
func (v *aval) top(cl *keyClass) int {
	lo, hi := v.rng(cl)
	half := pow2(v.w - 1)
	if lo.Sign() < 0 || hi.Cmp(pow2(v.w)) >= 0 {
		return -1
	}
	switch {
	case hi.Cmp(half) < 0:
		return 0
	case lo.Cmp(half) >= 0:
		return 1
	}
	return -1
}

type istate struct {
	env  map[*types.Var]*aval
	ret  []*aval
	done bool
	note []string // conditions assumed on this path
}

func (s *istate) clone() *istate {
	n := &istate{env: map[*types.Var]*aval{}, done: s.done, ret: s.ret, note: append([]string(nil), s.note...)}
	for k, v := range s.env {
		n.env[k] = v
	}
	return n
}

type codecInterp struct {
	c       *Ctx
	info    *types.Info
	term    types.Type // the key type of the arm
	W       int        // bits
	cl      *keyClass
	keyV    *types.Var // the key parameter (Transform)
	paths   int
	defect  string // a defect the interpreter saw on the way (decided, whatever else it could follow)
	fail    string // first reason the interpreter gave up
	depth   int
	tparams map[*types.TypeParam]types.Type // type parameters of inlined generic helpers
	// splitAt: the magnitude at which the top bit of some word changes inside the class; the
	// driver splits the class there and runs both halves again
	splitAt *big.Int
}

// topOf: the top bit of v on the class; when it changes inside the class the split point is noted.
func (it *codecInterp) topOf(v *aval) int {
	t := v.top(it.cl)
	if t >= 0 || v.a == 0 || v.w == 0 {
		return t
	}
	lo, hi := v.rng(it.cl)
	if lo.Sign() < 0 || hi.Cmp(pow2(v.w)) >= 0 {
		return -1
	}
	half := pow2(v.w - 1)
	var sp *big.Int
	if v.a == 1 {
		sp = new(big.Int).Sub(half, v.b) // first m with the top bit set
	} else {
		sp = new(big.Int).Add(new(big.Int).Sub(v.b, half), big.NewInt(1)) // first m with the top bit clear
	}
	if it.splitAt == nil && sp.Cmp(it.cl.lo) > 0 && sp.Cmp(it.cl.hi) <= 0 {
		it.splitAt = sp
	}
	return -1
}

func (cl *keyClass) root() *keyClass {
	for cl.parent != nil {
		cl = cl.parent
	}
	return cl
}

// splitClass cuts cl at magnitude sp into [lo, sp-1] and [sp, hi].
func splitClass(cl *keyClass, sp *big.Int) (*keyClass, *keyClass) {
	a, b := *cl, *cl
	a.parent, b.parent = cl, cl
	a.hi = new(big.Int).Sub(sp, big.NewInt(1))
	b.lo = new(big.Int).Set(sp)
	a.name = fmt.Sprintf("%s with m in [0x%s, 0x%s]", cl.root().name, a.lo.Text(16), a.hi.Text(16))
	b.name = fmt.Sprintf("%s with m in [0x%s, 0x%s]", cl.root().name, b.lo.Text(16), b.hi.Text(16))
	return &a, &b
}

func (cl *keyClass) depth() int {
	d := 0
	for c := cl; c.parent != nil; c = c.parent {
		d++
	}
	return d
}

func (it *codecInterp) giveUp(format string, args ...any) *aval {
	if it.fail == "" {
		it.fail = fmt.Sprintf(format, args...)
	}
	return unknown(format, args...)
}

// typeOf: the static type of e with the type parameter replaced by the arm's term.
func (it *codecInterp) typeOf(e ast.Expr) types.Type {
	t := it.info.TypeOf(e)
	if t == nil {
		return nil
	}
	return it.subst(t)
}
func (it *codecInterp) subst(t types.Type) types.Type {
	if tp, ok := types.Unalias(t).(*types.TypeParam); ok {
		if b, bound := it.tparams[tp]; bound {
			return b
		}
		return it.term
	}
	return t
}

func basicOf(t types.Type) *types.Basic {
	if t == nil {
		return nil
	}
	b, _ := t.Underlying().(*types.Basic)
	return b
}

func (it *codecInterp) bitsOf(t types.Type) int {
	if t == nil {
		return 0
	}
	b := basicOf(t)
	if b == nil {
		return 0
	}
	if b.Info()&types.IsUntyped != 0 {
		return 0
	}
	return int(8 * it.c.L.Sizes.Sizeof(t))
}

func isSignedInt(t types.Type) bool {
	b := basicOf(t)
	return b != nil && b.Info()&types.IsInteger != 0 && b.Info()&types.IsUnsigned == 0
}
func isUnsignedInt(t types.Type) bool {
	b := basicOf(t)
	return b != nil && b.Info()&types.IsInteger != 0 && b.Info()&types.IsUnsigned != 0
}
func isFloatT(t types.Type) bool {
	b := basicOf(t)
	return b != nil && b.Info()&types.IsFloat != 0
}

// inputBits: the bit pattern of the key on the current class.
func (it *codecInterp) inputBits() *aval {
	b := new(big.Int)
	if it.cl.s == 1 {
		b = pow2(it.W - 1)
	}
	return &aval{kind: avWord, w: it.W, a: 1, b: b}
}

// wrapConst reduces a constant to the w-bit pattern of its type.
func wrapConst(v *big.Int, w int) *big.Int {
	if w <= 0 {
		return v
	}
	m := pow2(w)
	r := new(big.Int).Mod(v, m)
	if r.Sign() < 0 {
		r.Add(r, m)
	}
	return r
}

func (it *codecInterp) eval(e ast.Expr, st *istate) *aval {
	e = ast.Unparen(e)
	info := it.info
	// constants (typed or untyped) are folded by the type checker
	if tv, ok := info.Types[e]; ok && tv.Value != nil {
		switch tv.Value.Kind() {
		case constant.Bool:
			return boolVal(constant.BoolVal(tv.Value))
		case constant.Int:
			bi := bigOf(tv.Value)
			if bi == nil {
				return it.giveUp("constant %s", tv.Value)
			}
			t := it.subst(tv.Type)
			if isFloatT(t) {
				f, _ := constant.Float64Val(tv.Value)
				return &aval{kind: avFloat, fconst: f}
			}
			return constWord(it.bitsOf(t), wrapConst(bi, it.bitsOf(t)))
		case constant.Float:
			f, _ := constant.Float64Val(tv.Value)
			return &aval{kind: avFloat, fconst: f}
		}
	}
	switch x := e.(type) {
	case *ast.Ident:
		if v, ok := info.ObjectOf(x).(*types.Var); ok {
			if val, has := st.env[v]; has {
				return val
			}
			return it.giveUp("variable %s has no tracked value", x.Name)
		}
		return it.giveUp("identifier %s", x.Name)
	case *ast.UnaryExpr:
		switch x.Op {
		case token.NOT:
			v := it.eval(x.X, st)
			if v.kind == avBool {
				if !v.known {
					return v
				}
				return boolVal(!v.val)
			}
			return it.giveUp("! of %s", v)
		case token.XOR:
			v := it.eval(x.X, st)
			if v.kind != avWord {
				return it.giveUp("^ of %s", v)
			}
			return it.bitop(token.XOR, v, constWord(v.w, new(big.Int).Sub(pow2(v.w), big.NewInt(1))))
		case token.SUB:
			v := it.eval(x.X, st)
			if v.kind == avWord && v.a == 0 {
				w := it.bitsOf(it.typeOf(e))
				if w == 0 {
					w = v.w
				}
				return constWord(w, wrapConst(new(big.Int).Neg(v.b), w))
			}
			return it.giveUp("unary minus of %s", v)
		case token.ADD:
			return it.eval(x.X, st)
		}
	case *ast.StarExpr:
		// *(*T)(unsafe.Pointer(&x))
		if conv, ok := ast.Unparen(x.X).(*ast.CallExpr); ok && isConversion(info, conv) && len(conv.Args) == 1 {
			if pt, ok := it.typeOf(conv).Underlying().(*types.Pointer); ok {
				if up, ok := ast.Unparen(conv.Args[0]).(*ast.CallExpr); ok && isConversion(info, up) && len(up.Args) == 1 {
					if addr, ok := ast.Unparen(up.Args[0]).(*ast.UnaryExpr); ok && addr.Op == token.AND {
						src := it.eval(addr.X, st)
						return it.reinterpret(src, it.typeOf(addr.X), it.subst(pt.Elem()))
					}
				}
			}
		}
		return it.giveUp("dereference %s", types.ExprString(e))
	case *ast.BinaryExpr:
		switch x.Op {
		case token.LAND, token.LOR:
			l := it.eval(x.X, st)
			if l.kind != avBool {
				return it.giveUp("operand of %s", x.Op)
			}
			if l.known && ((x.Op == token.LAND && !l.val) || (x.Op == token.LOR && l.val)) {
				return l
			}
			r := it.eval(x.Y, st)
			if r.kind != avBool {
				return it.giveUp("operand of %s", x.Op)
			}
			if l.known {
				return r
			}
			if r.known && ((x.Op == token.LAND && !r.val) || (x.Op == token.LOR && r.val)) {
				return r
			}
			return &aval{kind: avBool}
		case token.EQL, token.NEQ, token.LSS, token.LEQ, token.GTR, token.GEQ:
			l, r := it.eval(x.X, st), it.eval(x.Y, st)
			return it.compare(x.Op, l, r, it.typeOf(x.X), it.typeOf(x.Y))
		}
		l, r := it.eval(x.X, st), it.eval(x.Y, st)
		if res := it.laneOp(x.Op, l, r, it.bitsOf(it.typeOf(e))); res != nil {
			return res
		}
		if l.kind != avWord || r.kind != avWord {
			return it.giveUp("%s %s %s", l, x.Op, r)
		}
		w := it.bitsOf(it.typeOf(e))
		if w == 0 {
			w = max(l.w, r.w)
		}
		switch x.Op {
		case token.SHR, token.SHL:
			if r.a != 0 {
				return it.giveUp("shift by a non-constant")
			}
			n := int(r.b.Int64())
			if l.w == 0 {
				l = &aval{kind: avWord, w: w, a: l.a, b: l.b}
			}
			if l.a == 0 {
				if x.Op == token.SHR {
					return constWord(l.w, new(big.Int).Rsh(l.b, uint(n)))
				}
				return constWord(l.w, wrapConst(new(big.Int).Lsh(l.b, uint(n)), l.w))
			}
			if x.Op == token.SHR && n == l.w-1 {
				if isSignedInt(it.typeOf(x.X)) {
					return it.giveUp("arithmetic shift of a signed word")
				}
				t := it.topOf(l)
				if t < 0 {
					return it.giveUp("top bit of %s not fixed on class %s", l, it.cl.name)
				}
				return constWord(l.w, big.NewInt(int64(t)))
			}
			return it.giveUp("shift of %s by %d (only the shift by width-1 is followed)", l, n)
		case token.ADD, token.SUB:
			if l.w == 0 {
				l = &aval{kind: avWord, w: w, a: l.a, b: l.b}
			}
			if r.w == 0 {
				r = &aval{kind: avWord, w: w, a: r.a, b: r.b}
			}
			res := &aval{kind: avWord, w: w}
			if x.Op == token.ADD {
				res.a, res.b = l.a+r.a, new(big.Int).Add(l.b, r.b)
			} else {
				res.a, res.b = l.a-r.a, new(big.Int).Sub(l.b, r.b)
			}
			if res.a < -1 || res.a > 1 {
				return it.giveUp("%s %s %s leaves the affine domain", l, x.Op, r)
			}
			if res.a == 0 {
				res.b = wrapConst(res.b, w)
				return res
			}
			return it.wrapAffine(res, fmt.Sprintf("%s %s %s", l, x.Op, r))
		case token.MUL, token.QUO, token.REM:
			if l.a != 0 || r.a != 0 {
				return it.giveUp("%s of a non-constant word", x.Op)
			}
			z := new(big.Int)
			switch x.Op {
			case token.MUL:
				z.Mul(l.b, r.b)
			case token.QUO:
				if r.b.Sign() == 0 {
					return it.giveUp("division by zero")
				}
				z.Quo(l.b, r.b)
			default:
				if r.b.Sign() == 0 {
					return it.giveUp("division by zero")
				}
				z.Rem(l.b, r.b)
			}
			return constWord(w, wrapConst(z, w))
		case token.XOR, token.OR, token.AND, token.AND_NOT:
			if l.w == 0 {
				l = &aval{kind: avWord, w: w, a: l.a, b: l.b}
			}
			if r.w == 0 {
				r = &aval{kind: avWord, w: w, a: r.a, b: r.b}
			}
			if x.Op == token.AND_NOT {
				if r.a != 0 {
					return it.giveUp("&^ with a non-constant")
				}
				r = constWord(r.w, new(big.Int).Xor(r.b, new(big.Int).Sub(pow2(r.w), big.NewInt(1))))
				return it.bitop(token.AND, l, r)
			}
			return it.bitop(x.Op, l, r)
		}
		return it.giveUp("operator %s", x.Op)
	case *ast.IndexExpr:
		if tv := it.tableLookup(x, st); tv != nil {
			return tv
		}
		v := it.eval(x.X, st)
		if v.kind == avBytes && v.word != nil && v.blen == 1 {
			if tv, ok := info.Types[x.Index]; ok && tv.Value != nil && tv.Value.ExactString() == "0" {
				return v.word
			}
		}
		if v.kind == avBytes && (v.word != nil || v.lanes != nil) {
			if iv := it.eval(x.Index, st); iv.kind == avWord && iv.a == 0 && iv.b.IsInt64() {
				i := iv.b.Int64()
				lanes, set := bytesLanes(v)
				if i >= 0 && i < int64(len(lanes)) && set[i] {
					return it.canonLanes([]laneSrc{lanes[i]}, 8)
				}
				return it.giveUp("index %d into %s", i, v)
			}
		}
		return it.giveUp("index into %s", v)
	case *ast.SliceExpr:
		v := it.eval(x.X, st)
		if v.kind == avBytes && x.Max == nil {
			lo, hi := int64(0), v.blen
			okB := true
			if x.Low != nil {
				if b := it.eval(x.Low, st); b.kind == avWord && b.a == 0 && b.b.IsInt64() {
					lo = b.b.Int64()
				} else {
					okB = false
				}
			}
			if x.High != nil {
				if b := it.eval(x.High, st); b.kind == avWord && b.a == 0 && b.b.IsInt64() {
					hi = b.b.Int64()
				} else {
					okB = false
				}
			}
			if okB && lo == 0 && hi == v.blen {
				return v
			}
			if okB && 0 <= lo && lo <= hi && hi <= v.blen && hi <= 64 {
				lanes, set := bytesLanes(v)
				return it.canonBytes(append([]laneSrc(nil), lanes[lo:hi]...), append([]bool(nil), set[lo:hi]...))
			}
		}
		return it.giveUp("slice of %s", v)
	case *ast.CompositeLit:
		if _, ok := it.typeOf(x).Underlying().(*types.Slice); ok && len(x.Elts) == 1 {
			v := it.eval(x.Elts[0], st)
			if v.kind == avWord && v.w == 8 {
				return &aval{kind: avBytes, blen: 1, word: v, order: "big"}
			}
			return it.giveUp("byte literal of %s", v)
		}
		if _, ok := it.typeOf(x).Underlying().(*types.Slice); ok {
			return &aval{kind: avBytes, blen: int64(len(x.Elts))}
		}
	case *ast.CallExpr:
		return it.call(x, st)
	}
	return it.giveUp("expression %s", types.ExprString(e))
}

// laneOp: byte-wise operations of hand-written byte order code – shifts by whole bytes, OR of values
// whose non-zero bytes do not overlap, AND with a mask of whole bytes. nil when the operands are
// not of that kind (the affine domain decides then).
func (it *codecInterp) laneOp(op token.Token, l, r *aval, w int) *aval {
	if (l.kind != avWord && l.kind != avLanes) || (r.kind != avWord && r.kind != avLanes) {
		return nil
	}
	if w == 0 {
		w = max(l.w, r.w)
	}
	if w == 0 || w%8 != 0 {
		return nil
	}
	switch op {
	case token.SHL, token.SHR:
		if r.kind != avWord || r.a != 0 || !r.b.IsInt64() {
			return nil
		}
		n := r.b.Int64()
		if n%8 != 0 || n < 0 {
			return nil
		}
		if l.kind == avWord && (l.a == 0 || n == 0) {
			return nil // constants and no-ops stay words
		}
		lw := l.w
		if lw == 0 {
			lw = w
		}
		ll := lanesOf(l, lw)
		if ll == nil {
			return nil
		}
		k := int(n / 8)
		out := make([]laneSrc, len(ll))
		for i := range out {
			out[i] = laneSrc{zero: true}
		}
		for i := range ll {
			j := i - k // SHL moves a byte towards the top (lower index)
			if op == token.SHR {
				j = i + k
			}
			if j >= 0 && j < len(ll) {
				out[j] = ll[i]
			}
		}
		return it.canonLanes(out, lw)
	case token.OR, token.XOR, token.ADD:
		if l.kind != avLanes && r.kind != avLanes {
			return nil
		}
		// one byte of a word combined with a constant (b[0] ^ 0x80): that byte of the word with the
		// constant applied at the byte's place – the other bytes of the new word are those of the old
		if op != token.ADD && w == 8 {
			v, k := l, r
			if v.kind != avLanes {
				v, k = r, l
			}
			if v.kind == avLanes && len(v.lanes) == 1 && !v.lanes[0].zero && k.kind == avWord && k.a == 0 {
				src := v.lanes[0]
				W := src.word
				if W.kind == avWord && W.w > 0 {
					shifted := new(big.Int).Lsh(new(big.Int).And(k.b, big.NewInt(0xff)), uint(8*src.k))
					if nw := it.bitop(op, W, constWord(W.w, shifted)); nw != nil && nw.kind == avWord {
						return &aval{kind: avLanes, w: 8, lanes: []laneSrc{{word: nw, k: src.k}}}
					}
					return it.giveUp("%s %s %s", l, op, r)
				}
			}
		}
		ll, rl := lanesOf(l, w), lanesOf(r, w)
		if ll == nil || rl == nil {
			return it.giveUp("%s %s %s", l, op, r)
		}
		out := make([]laneSrc, len(ll))
		for i := range ll {
			switch {
			case ll[i].zero:
				out[i] = rl[i]
			case rl[i].zero:
				out[i] = ll[i]
			default:
				return it.giveUp("%s %s %s: two non-zero bytes meet", l, op, r)
			}
		}
		return it.canonLanes(out, w)
	case token.AND:
		var v, mask *aval
		switch {
		case r.kind == avWord && r.a == 0 && (l.kind == avLanes || l.a != 0):
			v, mask = l, r
		case l.kind == avWord && l.a == 0 && (r.kind == avLanes || r.a != 0):
			v, mask = r, l
		default:
			return nil
		}
		vl := lanesOf(v, w)
		if vl == nil {
			return nil
		}
		out := make([]laneSrc, len(vl))
		whole := true
		for i := range vl {
			byteK := len(vl) - 1 - i
			mb := new(big.Int).And(new(big.Int).Rsh(mask.b, uint(8*byteK)), big.NewInt(0xff)).Int64()
			switch mb {
			case 0:
				out[i] = laneSrc{zero: true}
			case 0xff:
				out[i] = vl[i]
			default:
				whole = false
			}
		}
		if !whole {
			if v.kind == avLanes {
				return it.giveUp("%s & %s: the mask cuts through a byte", v, mask)
			}
			return nil
		}
		return it.canonLanes(out, w)
	}
	if l.kind == avLanes || r.kind == avLanes {
		return it.giveUp("%s %s %s", l, op, r)
	}
	return nil
}

// bitop: l op r on the class; one side must be a constant whose low W-1 bits are all 0 or all 1
// (or both sides constants).
func (it *codecInterp) bitop(op token.Token, l, r *aval) *aval {
	w := max(l.w, r.w)
	if l.a == 0 && r.a == 0 {
		var z *big.Int
		switch op {
		case token.XOR:
			z = new(big.Int).Xor(l.b, r.b)
		case token.OR:
			z = new(big.Int).Or(l.b, r.b)
		case token.AND:
			z = new(big.Int).And(l.b, r.b)
		}
		return constWord(w, z)
	}
	if l.a == 0 {
		l, r = r, l
	}
	if r.a != 0 {
		return it.giveUp("%s of two non-constant words", op)
	}
	if l.w != r.w && r.w != 0 && l.w != 0 {
		return it.giveUp("%s of words of different width", op)
	}
	t := it.topOf(l)
	if t < 0 {
		return it.giveUp("top bit of %s not fixed on class %s", l, it.cl.name)
	}
	half := pow2(w - 1)
	ones := new(big.Int).Sub(half, big.NewInt(1))
	cTop := 0
	if r.b.Cmp(half) >= 0 {
		cTop = 1
	}
	cLow := new(big.Int).Mod(r.b, half)
	lowOnes := cLow.Cmp(ones) == 0
	if cLow.Sign() != 0 && !lowOnes {
		return it.giveUp("%s with constant 0x%s: low bits neither all clear nor all set", op, r.b.Text(16))
	}
	// low part of l: a·m + (b - t·half)
	la, lb := l.a, new(big.Int).Sub(l.b, new(big.Int).Mul(big.NewInt(int64(t)), half))
	var nt int
	switch op {
	case token.XOR:
		nt = t ^ cTop
		if lowOnes {
			la, lb = -la, new(big.Int).Sub(ones, lb)
		}
	case token.OR:
		nt = t | cTop
		if lowOnes {
			la, lb = 0, ones
		}
	case token.AND:
		nt = t & cTop
		if !lowOnes {
			la, lb = 0, new(big.Int)
		}
	}
	return &aval{kind: avWord, w: w, a: la, b: new(big.Int).Add(lb, new(big.Int).Mul(big.NewInt(int64(nt)), half))}
}

// reinterpret: the bits of src (of static type from) read through type to.
func (it *codecInterp) reinterpret(src *aval, from, to types.Type) *aval {
	fw, tw := it.bitsOf(from), it.bitsOf(to)
	if fw != tw && fw != 0 && tw != 0 && it.defect == "" {
		it.defect = fmt.Sprintf("a %d-bit value is reinterpreted through unsafe.Pointer as a %d-bit one: only part of the word is read (which part depends on the byte order of the machine), or memory beyond it", fw, tw)
	}
	if fw != tw || fw == 0 {
		return it.giveUp("reinterpretation between %d and %d bits", fw, tw)
	}
	switch src.kind {
	case avKey:
		if isFloatT(to) {
			return src
		}
		return it.inputBits()
	case avWord:
		if isFloatT(to) {
			return &aval{kind: avKeyBits, word: src}
		}
		return &aval{kind: avWord, w: tw, a: src.a, b: src.b}
	case avKeyBits:
		if isFloatT(to) {
			return src
		}
		return src.word
	}
	return it.giveUp("reinterpretation of %s", src)
}

func (it *codecInterp) compare(op token.Token, l, r *aval, lt, rt types.Type) *aval {
	// comparisons of the key (or a float copy of it) with a float constant
	if l.kind == avFloat && r.kind == avKey {
		l, r = r, l
		op = map[token.Token]token.Token{token.LSS: token.GTR, token.GTR: token.LSS, token.LEQ: token.GEQ, token.GEQ: token.LEQ, token.EQL: token.EQL, token.NEQ: token.NEQ}[op]
	}
	if l.kind == avKey && r.kind == avKey {
		// k != k  /  k == k
		if it.cl.float {
			switch op {
			case token.NEQ:
				return boolVal(it.cl.nan)
			case token.EQL:
				return boolVal(!it.cl.nan)
			}
		}
		return it.giveUp("comparison of the key with itself (%s)", op)
	}
	if l.kind == avKey && (r.kind == avFloat || (r.kind == avWord && r.a == 0)) {
		return it.compareKey(op, r)
	}
	if l.kind != avWord || r.kind != avWord {
		return it.giveUp("comparison %s %s %s", l, op, r)
	}
	if l.a == r.a && l.b.Cmp(r.b) == 0 {
		switch op {
		case token.EQL, token.LEQ, token.GEQ:
			return boolVal(true)
		default:
			return boolVal(false)
		}
	}
	signed := isSignedInt(lt) || (basicOf(lt) != nil && basicOf(lt).Info()&types.IsUntyped != 0 && isSignedInt(rt))
	conv := func(v *aval) (lo, hi *big.Int, ok bool) {
		lo, hi = v.rng(it.cl)
		if !signed {
			return lo, hi, true
		}
		w := v.w
		if w == 0 {
			return lo, hi, true
		}
		t := it.topOf(v)
		if t < 0 {
			it.giveUp("top bit of %s not fixed on class %s (signed comparison)", v, it.cl.name)
			return nil, nil, false
		}
		if t == 1 {
			lo, hi = new(big.Int).Sub(lo, pow2(w)), new(big.Int).Sub(hi, pow2(w))
		}
		return lo, hi, true
	}
	llo, lhi, ok1 := conv(l)
	rlo, rhi, ok2 := conv(r)
	if !ok1 || !ok2 {
		return &aval{kind: avBool}
	}
	decide := func(lt, ge bool) *aval { // lt: l<r surely, ge: l>=r surely
		switch {
		case lt:
			return boolVal(true)
		case ge:
			return boolVal(false)
		}
		return &aval{kind: avBool}
	}
	switch op {
	case token.LSS:
		return decide(lhi.Cmp(rlo) < 0, llo.Cmp(rhi) >= 0)
	case token.GEQ:
		v := decide(lhi.Cmp(rlo) < 0, llo.Cmp(rhi) >= 0)
		if v.known {
			v.val = !v.val
		}
		return v
	case token.GTR:
		return decide(llo.Cmp(rhi) > 0, lhi.Cmp(rlo) <= 0)
	case token.LEQ:
		v := decide(llo.Cmp(rhi) > 0, lhi.Cmp(rlo) <= 0)
		if v.known {
			v.val = !v.val
		}
		return v
	case token.EQL, token.NEQ:
		var v *aval
		switch {
		case lhi.Cmp(rlo) < 0 || llo.Cmp(rhi) > 0:
			v = boolVal(false)
		case llo.Cmp(lhi) == 0 && rlo.Cmp(rhi) == 0 && llo.Cmp(rlo) == 0:
			v = boolVal(true)
		default:
			return &aval{kind: avBool}
		}
		if op == token.NEQ {
			v.val = !v.val
		}
		return v
	}
	return &aval{kind: avBool}
}

// compareKey: key <op> constant, decided from the class of the key.
func (it *codecInterp) compareKey(op token.Token, r *aval) *aval {
	cl := it.cl
	var c float64
	if r.kind == avFloat {
		if r.fclass != "" {
			return it.giveUp("comparison of the key with %s", r.fclass)
		}
		c = r.fconst
	} else {
		f, _ := new(big.Float).SetInt(r.b).Float64()
		c = f
	}
	if !cl.float {
		// integer key: only the comparison with 0 of a signed type is followed
		if c == 0 && cl.signed {
			neg := cl.s == 1
			switch op {
			case token.LSS:
				return boolVal(neg)
			case token.GEQ:
				return boolVal(!neg)
			}
		}
		return &aval{kind: avBool}
	}
	if cl.nan {
		return boolVal(op == token.NEQ)
	}
	// range of the class as floats
	maxF := math.MaxFloat64
	if it.W == 32 {
		maxF = math.MaxFloat32
	}
	var lo, hi float64
	loOpen, hiOpen := false, false
	switch {
	case cl.inf && cl.s == 0:
		lo, hi = math.Inf(1), math.Inf(1)
	case cl.inf:
		lo, hi = math.Inf(-1), math.Inf(-1)
	case cl.lo.Sign() == 0 && cl.hi.Sign() == 0:
		lo, hi = 0, 0 // ±0 compare equal to 0
	case cl.s == 0:
		lo, hi, loOpen = 0, maxF, true
	default:
		lo, hi, hiOpen = -maxF, 0, true
	}
	lt := hi < c || (hi == c && hiOpen) // every value < c
	ge := lo >= c                       // every value >= c
	gt := lo > c || (lo == c && loOpen) // every value > c
	le := hi <= c                       // every value <= c
	eqAll := lo == hi && lo == c && !loOpen && !hiOpen
	tri := func(t, f bool) *aval {
		switch {
		case t:
			return boolVal(true)
		case f:
			return boolVal(false)
		}
		return &aval{kind: avBool}
	}
	switch op {
	case token.LSS:
		return tri(lt, ge)
	case token.GEQ:
		return tri(ge, lt)
	case token.GTR:
		return tri(gt, le)
	case token.LEQ:
		return tri(le, gt)
	case token.EQL:
		return tri(eqAll, lt || gt)
	case token.NEQ:
		return tri(lt || gt, eqAll)
	}
	return &aval{kind: avBool}
}

func (it *codecInterp) call(x *ast.CallExpr, st *istate) *aval {
	info := it.info
	if isConversion(info, x) && len(x.Args) == 1 {
		to := it.typeOf(x)
		from := it.typeOf(x.Args[0])
		// any(k) in a nested type switch etc. is not followed
		v := it.eval(x.Args[0], st)
		switch v.kind {
		case avKey:
			switch {
			case isFloatT(to) && it.cl.float:
				return v // float32(k) / float64(k): same value, same class
			case !it.cl.float && basicOf(to) != nil && basicOf(to).Info()&types.IsInteger != 0:
				if it.bitsOf(to) == it.W {
					return it.inputBits()
				}
				if tw := it.bitsOf(to); tw > it.W {
					// widening keeps the value: zero extension of an unsigned key, sign extension of
					// a signed one (the high bits are all ones on the negative class)
					in := it.inputBits()
					if in.kind == avWord {
						b := new(big.Int).Set(in.b)
						if it.cl.signed && it.cl.s == 1 {
							b.Add(b, new(big.Int).Sub(pow2(tw), pow2(it.W)))
						}
						return &aval{kind: avWord, w: tw, a: in.a, b: b}
					}
				}
				return it.giveUp("conversion of the key to %d bits", it.bitsOf(to))
			}
			return it.giveUp("conversion of the key to %s", to)
		case avLanes:
			if basicOf(to) != nil && basicOf(to).Info()&types.IsInteger != 0 {
				tw := it.bitsOf(to)
				if tw > v.w && !isUnsignedInt(from) {
					// the low bytes of one wider word that depends on the key, widened again: what was
					// cut off does not come back (int(int32(word64)) on a 64-bit int)
					if len(v.lanes) > 0 && it.defect == "" {
						W0 := v.lanes[0].word
						one := W0 != nil && W0.kind == avWord && W0.a != 0 && W0.w > v.w
						for i, ln := range v.lanes {
							if ln.zero || ln.word == nil || ln.word.String() != W0.String() || ln.word.w != W0.w || ln.k != len(v.lanes)-1-i {
								one = false
							}
						}
						if one {
							it.defect = fmt.Sprintf("a %d-bit word that depends on the key is cut to its low %d bits and widened again to %d: the upper %d bits do not come back, so only keys that fit %d bits keep their value", W0.w, v.w, tw, W0.w-v.w, v.w)
						}
					}
					return it.giveUp("sign extension of %s", v)
				}
				if ll := lanesOf(v, tw); ll != nil {
					return it.canonLanes(ll, tw)
				}
			}
			return it.giveUp("conversion of %s to %s", v, to)
		case avWord:
			if basicOf(to) == nil {
				return it.giveUp("conversion to %s", to)
			}
			switch {
			case basicOf(to).Info()&types.IsInteger != 0:
				tw := it.bitsOf(to)
				if v.w == 0 || tw == v.w {
					return &aval{kind: avWord, w: tw, a: v.a, b: v.b}
				}
				if v.a == 0 {
					return constWord(tw, wrapConst(v.b, tw))
				}
				if tw > v.w && isUnsignedInt(from) {
					return &aval{kind: avWord, w: tw, a: v.a, b: v.b}
				}
				if tw < v.w {
					// the value fits: nothing is cut off
					if lo, hi := v.rng(it.cl); lo.Sign() >= 0 && hi.Cmp(pow2(tw)) < 0 {
						return &aval{kind: avWord, w: tw, a: v.a, b: v.b}
					}
					// the low bytes of the word
					if tw%8 == 0 && v.w%8 == 0 {
						if ll := lanesOf(v, v.w); ll != nil {
							return it.canonLanes(ll[len(ll)-tw/8:], tw)
						}
					}
				}
				return it.giveUp("conversion of a %d-bit word to %d bits", v.w, tw)
			case isFloatT(to) && v.a == 0:
				f, _ := new(big.Float).SetInt(v.b).Float64()
				return &aval{kind: avFloat, fconst: f}
			}
			return it.giveUp("conversion of %s to %s", v, to)
		case avFloat, avKeyBits:
			if isFloatT(to) || types.Identical(to, it.term) {
				return v
			}
			return it.giveUp("conversion of %s to %s", v, to)
		}
		return it.giveUp("conversion of %s", v)
	}
	name := it.c.m.calleeName(x)
	arg := func(i int) *aval { return it.eval(x.Args[i], st) }
	switch name {
	case "math.IsNaN":
		if v := arg(0); v.kind == avKey && it.cl.float {
			return boolVal(it.cl.nan)
		}
		return it.giveUp("math.IsNaN of something other than the key")
	case "math.IsInf":
		v, sg := arg(0), arg(1)
		if v.kind == avKey && it.cl.float && sg.kind == avWord && sg.a == 0 {
			sign := sg.b.Sign()
			if sg.w > 0 && sg.b.Cmp(pow2(sg.w-1)) >= 0 {
				sign = -1
			}
			switch {
			case !it.cl.inf:
				return boolVal(false)
			case sign == 0:
				return boolVal(true)
			case sign > 0:
				return boolVal(it.cl.s == 0)
			default:
				return boolVal(it.cl.s == 1)
			}
		}
		return it.giveUp("math.IsInf of something other than the key")
	case "math.Signbit":
		if v := arg(0); v.kind == avKey && it.cl.float {
			return boolVal(it.cl.s == 1)
		}
		return it.giveUp("math.Signbit of something other than the key")
	case "math.Inf":
		sg := arg(0)
		if sg.kind == avWord && sg.a == 0 {
			neg := sg.w > 0 && sg.b.Cmp(pow2(sg.w-1)) >= 0
			if neg {
				return &aval{kind: avFloat, fclass: "inf-"}
			}
			return &aval{kind: avFloat, fclass: "inf+"}
		}
		return it.giveUp("math.Inf of a non-constant")
	case "math.NaN":
		return &aval{kind: avFloat, fclass: "nan"}
	case "math.Float32bits", "math.Float64bits":
		v := arg(0)
		w := 32
		if name == "math.Float64bits" {
			w = 64
		}
		if v.kind == avKey && it.cl.float && w == it.W && it.bitsOf(it.typeOf(x.Args[0])) == w {
			return it.inputBits()
		}
		if v.kind == avKeyBits && v.word.w == w {
			return v.word
		}
		return it.giveUp("%s of %s", name, v)
	case "math.Float32frombits", "math.Float64frombits":
		v := arg(0)
		if v.kind == avWord {
			return &aval{kind: avKeyBits, word: v}
		}
		return it.giveUp("%s of %s", name, v)
	case "unsafe.Sizeof":
		if t := it.typeOf(x.Args[0]); t != nil {
			return constWord(it.bitsOf(types.Typ[types.Uintptr]), big.NewInt(it.c.L.Sizes.Sizeof(t)))
		}
	}
	if (isBuiltinCall(info, x, "len") || isBuiltinCall(info, x, "cap")) && len(x.Args) == 1 {
		if v := arg(0); v.kind == avBytes {
			return constWord(64, big.NewInt(v.blen))
		}
		return it.giveUp("len of something that is not an encoded slice")
	}
	if isBuiltinCall(info, x, "make") && len(x.Args) >= 2 {
		n := arg(1)
		if n.kind == avWord && n.a == 0 && n.b.IsInt64() && n.b.Int64() >= 0 && n.b.Int64() <= 64 {
			// make zeroes the bytes
			k := int(n.b.Int64())
			lanes, set := make([]laneSrc, k), make([]bool, k)
			for i := range lanes {
				lanes[i], set[i] = laneSrc{zero: true}, true
			}
			return &aval{kind: avBytes, blen: n.b.Int64(), lanes: lanes, set: set}
		}
		return it.giveUp("make with a non-constant length")
	}
	// binary.BigEndian / LittleEndian
	if i := strings.Index(name, "Endian."); i >= 0 && strings.HasPrefix(name, "encoding/binary.") {
		order := "big"
		if strings.Contains(name, "little") {
			order = "little"
		}
		fn := name[i+len("Endian."):]
		var bits int
		switch {
		case strings.HasPrefix(fn, "PutUint"):
			fmt.Sscan(strings.TrimPrefix(fn, "PutUint"), &bits)
			v := arg(1)
			if v.kind != avWord {
				return it.giveUp("%s of %s", fn, v)
			}
			if v.w != bits {
				return it.giveUp("%s of a %d-bit word", fn, v.w)
			}
			dst, _ := info.ObjectOf(identOf(x.Args[0])).(*types.Var)
			cur := st.env[dst]
			if dst == nil || cur == nil || cur.kind != avBytes {
				return it.giveUp("%s into an untracked slice", fn)
			}
			if cur.blen*8 != int64(bits) {
				return it.giveUp("%s into a slice of %d bytes", fn, cur.blen)
			}
			st.env[dst] = &aval{kind: avBytes, blen: cur.blen, word: v, order: order}
			return &aval{kind: avBool, known: true}
		case strings.HasPrefix(fn, "AppendUint"):
			fmt.Sscan(strings.TrimPrefix(fn, "AppendUint"), &bits)
			dst, v := arg(0), arg(1)
			if v.kind != avWord || v.w != bits {
				return it.giveUp("%s of %s", fn, v)
			}
			if dst.kind == avBytes && dst.blen == 0 && dst.word == nil {
				return &aval{kind: avBytes, blen: int64(bits / 8), word: v, order: order}
			}
			return it.giveUp("%s to a non-empty slice", fn)
		case strings.HasPrefix(fn, "Uint"):
			fmt.Sscan(strings.TrimPrefix(fn, "Uint"), &bits)
			src := arg(0)
			if src.kind == avBytes && src.word != nil && src.word.w == bits && src.order == order {
				return src.word
			}
			return it.giveUp("%s of %s", fn, src)
		}
	}
	// a helper of the library: run its body on the arguments. A method of a codec instantiated
	// with another key type (SignedBinaryKey[int64]{}.Transform(int64(k))) is run with that type
	// as the key type of the arm.
	if cu := it.c.m.calleeUnit(x); cu != nil && cu.Lit == nil && cu.Body != nil && cu.Decl != nil && it.depth < 3 {
		env := map[*types.Var]*aval{}
		k := 0
		for _, f := range cu.Decl.Type.Params.List {
			for _, nm := range f.Names {
				if k < len(x.Args) {
					if pv, ok := info.Defs[nm].(*types.Var); ok {
						env[pv] = it.eval(x.Args[k], st)
					}
				}
				k++
			}
		}
		if cu.Decl.Type.Results != nil {
			for _, f := range cu.Decl.Type.Results.List {
				for _, nm := range f.Names {
					if rv, ok := info.Defs[nm].(*types.Var); ok {
						env[rv] = it.zeroOf(rv.Type())
					}
				}
			}
		}
		savedTerm := it.term
		savedTP := it.tparams
		{
			// f(x) / f[T](x) on a generic helper: bind its type parameters to the type arguments
			var fid *ast.Ident
			switch f := ast.Unparen(x.Fun).(type) {
			case *ast.Ident:
				fid = f
			case *ast.IndexExpr:
				fid, _ = ast.Unparen(f.X).(*ast.Ident)
			case *ast.IndexListExpr:
				fid, _ = ast.Unparen(f.X).(*ast.Ident)
			}
			if fid != nil {
				if inst, ok := info.Instances[fid]; ok && inst.TypeArgs != nil {
					if sig, ok := cu.Obj.Type().(*types.Signature); ok && sig.TypeParams() != nil && sig.TypeParams().Len() == inst.TypeArgs.Len() {
						ntp := map[*types.TypeParam]types.Type{}
						for tp, b := range it.tparams {
							ntp[tp] = b
						}
						for i := 0; i < inst.TypeArgs.Len(); i++ {
							ntp[sig.TypeParams().At(i)] = it.subst(inst.TypeArgs.At(i))
						}
						it.tparams = ntp
					}
				}
			}
		}
		if sel, ok := ast.Unparen(x.Fun).(*ast.SelectorExpr); ok {
			rt := info.TypeOf(sel.X)
			if pt, ok := rt.(*types.Pointer); ok {
				rt = pt.Elem()
			}
			if nt, ok := types.Unalias(rt).(*types.Named); ok && nt.TypeArgs() != nil && nt.TypeArgs().Len() == 1 && isCodecType(nt) {
				ta := it.subst(nt.TypeArgs().At(0))
				if int(8*it.c.L.Sizes.Sizeof(ta)) != it.W {
					return it.giveUp("delegation to %s, whose key type has another width", types.TypeString(nt, nil))
				}
				// a codec of another kind may be handed a word the caller computed (the signed codec
				// flipping the sign bit and leaving the byte layout to the unsigned one) or the
				// encoding to decode; it must not be handed the key itself, whose value classes are
				// those of the caller's kind
				keyArg := false
				for _, av := range env {
					if av != nil && av.kind == avKey {
						keyArg = true
					}
				}
				if keyArg && (isFloatT(ta) != it.cl.float || (!it.cl.float && isSignedInt(ta) != it.cl.signed)) {
					return it.giveUp("delegation to %s, whose key type is of another kind", types.TypeString(nt, nil))
				}
				it.term = ta
			}
		}
		before := map[*types.Var]string{}
		for pv, av := range env {
			if av != nil {
				before[pv] = av.String()
			}
		}
		it.depth++
		outs := it.execList(cu.Body.List, []*istate{{env: env}})
		it.depth--
		// a slice parameter the helper stored into (putUint(b, v)): the caller's slice has the bytes
		{
			k := 0
			for _, f := range cu.Decl.Type.Params.List {
				for _, nm := range f.Names {
					if k < len(x.Args) {
						pv, _ := info.Defs[nm].(*types.Var)
						cv, _ := info.ObjectOf(identOf(x.Args[k])).(*types.Var)
						if pv != nil && cv != nil && env[pv] != nil && env[pv].kind == avBytes {
							var fin *aval
							same := true
							for _, o := range outs {
								if o.ret == nil && o.done && len(outs) > 1 {
									continue // panicking path
								}
								v := o.env[pv]
								if v == nil || v.kind != avBytes {
									same = false
								} else if fin == nil {
									fin = v
								} else if fin.String() != v.String() {
									same = false
								}
							}
							if os.Getenv("ARTCHECK_DEBUG") == "interp" {
								fmt.Fprintf(os.Stderr, "WRITEBACK %s term=%v param=%s same=%v fin=%v before=%v outs=%d fail=%q\n", cu.Name, it.term, pv.Name(), same, fin, before[pv], len(outs), it.fail)
							}
							if same && fin != nil && fin.String() != before[pv] {
								if _, tracked := st.env[cv]; tracked {
									st.env[cv] = fin
								}
							} else if !same {
								st.env[cv] = unknown("slice written differently on the paths of %s", cu.Name)
							}
						}
					}
					k++
				}
			}
		}
		it.term = savedTerm
		it.tparams = savedTP
		var res *aval
		if cu.Decl.Type.Results == nil || len(cu.Decl.Type.Results.List) == 0 {
			// a helper without results (putUint(b, v)): its effect is what it stored through its
			// slice parameters, written back above
			return &aval{kind: avBool, known: true}
		}
		for _, o := range outs {
			if !o.done {
				return it.giveUp("helper %s: a path does not return", cu.Name)
			}
			if o.ret == nil {
				continue // panics
			}
			var r *aval
			if len(o.ret) == 1 {
				r = o.ret[0]
			} else {
				r = &aval{kind: avTuple, tuple: o.ret}
			}
			if res == nil {
				res = r
			} else if res.String() != r.String() {
				return it.giveUp("helper %s returns different forms on one class", cu.Name)
			}
		}
		if res != nil {
			return res
		}
	}
	return it.giveUp("call of %s", types.ExprString(x.Fun))
}

func (it *codecInterp) assign(st *istate, lhs ast.Expr, v *aval) {
	if id, ok := ast.Unparen(lhs).(*ast.Ident); ok {
		if id.Name == "_" {
			return
		}
		if lv, ok := it.info.ObjectOf(id).(*types.Var); ok {
			// the key itself is replaced by a constant before it is encoded: every key of the class
			// gets the code of that constant (`if k == 0 { k = 0 }` folds -0 into +0)
			if cur := st.env[lv]; cur != nil && cur.kind == avKey && it.cl != nil && it.defect == "" {
				switch {
				case v.kind == avFloat && v.fclass == "" && it.cl.float:
					same := v.fconst == 0 && !math.Signbit(v.fconst) && it.cl.s == 0 && it.cl.lo.Sign() == 0 && it.cl.hi.Sign() == 0 && !it.cl.nan && !it.cl.inf
					if !same {
						it.defect = fmt.Sprintf("the key is replaced by the constant %v before it is encoded: the keys of class %s get the code of another key, and Restore cannot give them back", v.fconst, it.cl.name)
					}
				case v.kind == avWord && v.a == 0 && !it.cl.float:
					if it.cl.lo.Cmp(it.cl.hi) != 0 {
						it.defect = fmt.Sprintf("the key is replaced by the constant %s before it is encoded: every key of class %s gets one code", v, it.cl.name)
					}
				}
			}
			st.env[lv] = v
			return
		}
	}
	if ie, ok := ast.Unparen(lhs).(*ast.IndexExpr); ok {
		// b[i] = byte: hand-written byte order
		if base, ok := it.info.ObjectOf(identOf(ie.X)).(*types.Var); ok && base != nil {
			cur := st.env[base]
			iv := it.eval(ie.Index, st)
			if cur != nil && cur.kind == avBytes && iv.kind == avWord && iv.a == 0 && iv.b.IsInt64() {
				i := iv.b.Int64()
				var ln []laneSrc
				switch {
				case v.kind == avWord && (v.w == 8 || v.w == 0):
					ln = lanesOf(v, 8)
				case v.kind == avLanes && len(v.lanes) == 1:
					ln = v.lanes
				}
				if ln != nil && i >= 0 && i < cur.blen && cur.blen <= 64 {
					lanes, set := bytesLanes(cur)
					lanes, set = append([]laneSrc(nil), lanes...), append([]bool(nil), set...)
					lanes[i], set[i] = ln[0], true
					st.env[base] = it.canonBytes(lanes, set)
					return
				}
			}
		}
	}
	it.giveUp("assignment to %s", types.ExprString(lhs))
}

// zeroOf: the zero value of a declared variable.
func (it *codecInterp) zeroOf(t types.Type) *aval {
	t = it.subst(t)
	if _, ok := t.Underlying().(*types.Slice); ok {
		return &aval{kind: avBytes}
	}
	if b := basicOf(t); b != nil {
		switch {
		case b.Info()&types.IsInteger != 0:
			return constWord(it.bitsOf(t), new(big.Int))
		case b.Info()&types.IsFloat != 0:
			return &aval{kind: avFloat, fconst: 0}
		case b.Info()&types.IsBoolean != 0:
			return boolVal(false)
		}
	}
	return unknown("zero value of %s", t)
}

func (it *codecInterp) execList(list []ast.Stmt, in []*istate) []*istate {
	cur := in
	for _, s := range list {
		var next []*istate
		for _, st := range cur {
			if st.done {
				next = append(next, st)
				continue
			}
			next = append(next, it.exec(s, st)...)
		}
		cur = next
		if len(cur) > 64 {
			it.giveUp("too many paths")
			return cur
		}
	}
	return cur
}

func (it *codecInterp) branch(cond ast.Expr, st *istate, thenB, elseB func(*istate) []*istate) []*istate {
	v := it.eval(cond, st)
	if v.kind != avBool {
		it.giveUp("condition %s", types.ExprString(cond))
		return []*istate{st}
	}
	if v.known {
		if v.val {
			return thenB(st)
		}
		return elseB(st)
	}
	a, b := st.clone(), st.clone()
	a.note = append(a.note, types.ExprString(cond))
	b.note = append(b.note, "!("+types.ExprString(cond)+")")
	return append(thenB(a), elseB(b)...)
}

func (it *codecInterp) exec(s ast.Stmt, st *istate) []*istate {
	info := it.info
	switch x := s.(type) {
	case *ast.EmptyStmt:
		return []*istate{st}
	case *ast.BlockStmt:
		return it.execList(x.List, []*istate{st})
	case *ast.DeclStmt:
		if gd, ok := x.Decl.(*ast.GenDecl); ok && gd.Tok == token.VAR {
			for _, sp := range gd.Specs {
				vs := sp.(*ast.ValueSpec)
				for i, nm := range vs.Names {
					lv, _ := info.Defs[nm].(*types.Var)
					if lv == nil {
						continue
					}
					if i < len(vs.Values) {
						st.env[lv] = it.eval(vs.Values[i], st)
					} else if types.Identical(it.subst(lv.Type()), it.term) && isTypeParam(lv.Type()) {
						// var k K: only its type is used (any(k).(type))
						st.env[lv] = unknown("zero key")
					} else {
						st.env[lv] = it.zeroOf(lv.Type())
					}
				}
			}
			return []*istate{st}
		}
		if gd, ok := x.Decl.(*ast.GenDecl); ok && (gd.Tok == token.CONST || gd.Tok == token.TYPE) {
			return []*istate{st}
		}
	case *ast.AssignStmt:
		if len(x.Lhs) != len(x.Rhs) {
			if len(x.Rhs) == 1 && (x.Tok == token.ASSIGN || x.Tok == token.DEFINE) {
				if v := it.eval(x.Rhs[0], st); v.kind == avTuple && len(v.tuple) == len(x.Lhs) {
					for i, l := range x.Lhs {
						it.assign(st, l, v.tuple[i])
					}
					return []*istate{st}
				}
			}
			it.giveUp("multi-value assignment")
			return []*istate{st}
		}
		vals := make([]*aval, len(x.Rhs))
		for i := range x.Rhs {
			switch x.Tok {
			case token.ASSIGN, token.DEFINE:
				vals[i] = it.eval(x.Rhs[i], st)
			default:
				op := map[token.Token]token.Token{token.ADD_ASSIGN: token.ADD, token.SUB_ASSIGN: token.SUB, token.XOR_ASSIGN: token.XOR, token.OR_ASSIGN: token.OR,
					token.AND_ASSIGN: token.AND, token.AND_NOT_ASSIGN: token.AND_NOT, token.SHL_ASSIGN: token.SHL, token.SHR_ASSIGN: token.SHR}[x.Tok]
				if op == token.ILLEGAL {
					it.giveUp("assignment operator %s", x.Tok)
					return []*istate{st}
				}
				be := &ast.BinaryExpr{X: x.Lhs[i], Op: op, Y: x.Rhs[i], OpPos: x.TokPos}
				// the synthetic node has no recorded type: evaluate by hand
				l, r := it.eval(x.Lhs[i], st), it.eval(x.Rhs[i], st)
				vals[i] = it.binaryOn(be, l, r, it.typeOf(x.Lhs[i]))
			}
		}
		for i, l := range x.Lhs {
			it.assign(st, l, vals[i])
		}
		return []*istate{st}
	case *ast.IncDecStmt:
		l := it.eval(x.X, st)
		op := token.ADD
		if x.Tok == token.DEC {
			op = token.SUB
		}
		w := it.bitsOf(it.typeOf(x.X))
		it.assign(st, x.X, it.binaryOn(&ast.BinaryExpr{X: x.X, Op: op}, l, constWord(w, big.NewInt(1)), it.typeOf(x.X)))
		return []*istate{st}
	case *ast.ExprStmt:
		if call, ok := x.X.(*ast.CallExpr); ok {
			if isBuiltinCall(info, call, "panic") {
				st.done = true
				st.ret = nil
				return []*istate{st}
			}
			it.eval(call, st)
			return []*istate{st}
		}
	case *ast.ReturnStmt:
		st.done = true
		st.ret = nil
		for _, r := range x.Results {
			v := it.eval(r, st)
			if v.kind == avTuple && len(x.Results) == 1 {
				st.ret = append(st.ret, v.tuple...)
			} else {
				st.ret = append(st.ret, v)
			}
		}
		return []*istate{st}
	case *ast.IfStmt:
		if x.Init != nil {
			sts := it.exec(x.Init, st)
			if len(sts) != 1 {
				it.giveUp("if-init with several outcomes")
				return sts
			}
			st = sts[0]
		}
		return it.branch(x.Cond, st,
			func(s *istate) []*istate { return it.execList(x.Body.List, []*istate{s}) },
			func(s *istate) []*istate {
				if x.Else == nil {
					return []*istate{s}
				}
				return it.exec(x.Else, s)
			})
	case *ast.RangeStmt:
		// range over the bytes of a slice of known length: unrolled
		coll := it.eval(x.X, st)
		if coll.kind == avBytes && coll.blen <= 16 && x.Tok != token.ASSIGN {
			lanes, set := bytesLanes(coll)
			cur := []*istate{st}
			for i := range lanes {
				if !set[i] {
					it.giveUp("range over %s: byte %d has no tracked value", coll, i)
					return cur
				}
				var next []*istate
				for _, s := range cur {
					if s.done {
						next = append(next, s)
						continue
					}
					if x.Key != nil {
						it.assign(s, x.Key, constWord(64, big.NewInt(int64(i))))
					}
					if x.Value != nil {
						it.assign(s, x.Value, it.canonLanes([]laneSrc{lanes[i]}, 8))
					}
					next = append(next, it.execList(x.Body.List, []*istate{s})...)
				}
				cur = next
				if len(cur) > 64 {
					it.giveUp("too many paths")
					return cur
				}
			}
			return cur
		}
		if coll.kind == avWord && coll.a == 0 && coll.b.IsInt64() && coll.b.Int64() <= 16 && x.Value == nil && x.Tok != token.ASSIGN {
			// range over a constant integer
			cur := []*istate{st}
			for i := int64(0); i < coll.b.Int64(); i++ {
				var next []*istate
				for _, s := range cur {
					if s.done {
						next = append(next, s)
						continue
					}
					if x.Key != nil {
						it.assign(s, x.Key, constWord(64, big.NewInt(i)))
					}
					next = append(next, it.execList(x.Body.List, []*istate{s})...)
				}
				cur = next
			}
			return cur
		}
		it.giveUp("range over %s", coll)
		return []*istate{st}
	case *ast.ForStmt:
		// a loop whose condition is decided at every iteration (constant bounds): unrolled
		if x.Init != nil {
			sts := it.exec(x.Init, st)
			if len(sts) != 1 {
				it.giveUp("loop init with several outcomes")
				return sts
			}
			st = sts[0]
		}
		for iter := 0; ; iter++ {
			if iter > 32 {
				it.giveUp("loop does not end within 32 iterations")
				return []*istate{st}
			}
			if x.Cond != nil {
				cv := it.eval(x.Cond, st)
				if cv.kind != avBool || !cv.known {
					it.giveUp("loop condition %s is not decided", types.ExprString(x.Cond))
					return []*istate{st}
				}
				if !cv.val {
					return []*istate{st}
				}
			}
			sts := it.execList(x.Body.List, []*istate{st})
			if len(sts) != 1 {
				it.giveUp("loop body with several outcomes")
				return sts
			}
			st = sts[0]
			if st.done {
				return []*istate{st}
			}
			if x.Post != nil {
				sts = it.exec(x.Post, st)
				if len(sts) != 1 {
					return sts
				}
				st = sts[0]
			}
		}
	case *ast.TypeSwitchStmt:
		// switch any(k).(type): the arm of the current term
		var deflt *ast.CaseClause
		for _, cl := range x.Body.List {
			cc := cl.(*ast.CaseClause)
			if cc.List == nil {
				deflt = cc
				continue
			}
			for _, e := range cc.List {
				if tv, ok := info.Types[e]; ok && tv.IsType() && types.Identical(tv.Type, it.term) {
					return it.execList(cc.Body, []*istate{st})
				}
			}
		}
		if deflt != nil {
			return it.execList(deflt.Body, []*istate{st})
		}
		return []*istate{st}
	case *ast.SwitchStmt:
		if x.Init != nil {
			sts := it.exec(x.Init, st)
			if len(sts) != 1 {
				return sts
			}
			st = sts[0]
		}
		// evaluate the clauses in order as an if-else chain
		var clauses []*ast.CaseClause
		var deflt *ast.CaseClause
		for _, cl := range x.Body.List {
			cc := cl.(*ast.CaseClause)
			if cc.List == nil {
				deflt = cc
			} else {
				clauses = append(clauses, cc)
			}
		}
		var run func(i int, s *istate) []*istate
		run = func(i int, s *istate) []*istate {
			if i == len(clauses) {
				if deflt != nil {
					return it.execList(deflt.Body, []*istate{s})
				}
				return []*istate{s}
			}
			cc := clauses[i]
			var cond ast.Expr
			for _, e := range cc.List {
				var one ast.Expr = e
				if x.Tag != nil {
					one = &ast.BinaryExpr{X: x.Tag, Op: token.EQL, Y: e}
				}
				if cond == nil {
					cond = one
				} else {
					cond = &ast.BinaryExpr{X: cond, Op: token.LOR, Y: one}
				}
			}
			return it.branchSynth(cond, x.Tag, s,
				func(s2 *istate) []*istate { return it.execList(cc.Body, []*istate{s2}) },
				func(s2 *istate) []*istate { return run(i+1, s2) })
		}
		return run(0, st)
	}
	it.giveUp("statement %T", s)
	return []*istate{st}
}

func isTypeParam(t types.Type) bool {
	_, ok := types.Unalias(t).(*types.TypeParam)
	return ok
}

// binaryOn applies a binary operator to already evaluated operands (compound assignments).
func (it *codecInterp) binaryOn(be *ast.BinaryExpr, l, r *aval, lt types.Type) *aval {
	if res := it.laneOp(be.Op, l, r, it.bitsOf(lt)); res != nil {
		return res
	}
	if l.kind != avWord || r.kind != avWord {
		return it.giveUp("%s %s %s", l, be.Op, r)
	}
	w := it.bitsOf(lt)
	if w == 0 {
		w = max(l.w, r.w)
	}
	if r.w == 0 || (r.a == 0 && r.w != w) {
		r = constWord(w, wrapConst(r.b, w))
	}
	switch be.Op {
	case token.ADD, token.SUB:
		res := &aval{kind: avWord, w: w}
		if be.Op == token.ADD {
			res.a, res.b = l.a+r.a, new(big.Int).Add(l.b, r.b)
		} else {
			res.a, res.b = l.a-r.a, new(big.Int).Sub(l.b, r.b)
		}
		if res.a < -1 || res.a > 1 {
			return it.giveUp("%s %s %s leaves the affine domain", l, be.Op, r)
		}
		if res.a == 0 {
			res.b = wrapConst(res.b, w)
			return res
		}
		return it.wrapAffine(res, fmt.Sprintf("%s %s %s", l, be.Op, r))
	case token.XOR, token.OR, token.AND:
		return it.bitop(be.Op, l, r)
	case token.AND_NOT:
		if r.a != 0 {
			return it.giveUp("&^ with a non-constant")
		}
		return it.bitop(token.AND, l, constWord(w, new(big.Int).Xor(r.b, new(big.Int).Sub(pow2(w), big.NewInt(1)))))
	case token.SHR, token.SHL:
		if r.a != 0 {
			return it.giveUp("shift by a non-constant")
		}
		n := int(r.b.Int64())
		if l.a == 0 {
			if be.Op == token.SHR {
				return constWord(w, new(big.Int).Rsh(l.b, uint(n)))
			}
			return constWord(w, wrapConst(new(big.Int).Lsh(l.b, uint(n)), w))
		}
		if be.Op == token.SHR && n == w-1 && !isSignedInt(lt) {
			if t := it.topOf(l); t >= 0 {
				return constWord(w, big.NewInt(int64(t)))
			}
		}
		return it.giveUp("shift of %s by %d", l, n)
	}
	return it.giveUp("operator %s", be.Op)
}

// branchSynth evaluates a synthesised condition (tag == case value, joined by ||).
func (it *codecInterp) branchSynth(cond ast.Expr, tag ast.Expr, st *istate, thenB, elseB func(*istate) []*istate) []*istate {
	var ev func(e ast.Expr) *aval
	ev = func(e ast.Expr) *aval {
		if be, ok := e.(*ast.BinaryExpr); ok {
			if _, has := it.info.Types[be]; !has {
				switch be.Op {
				case token.LOR:
					l, r := ev(be.X), ev(be.Y)
					if l.kind != avBool || r.kind != avBool {
						return it.giveUp("case condition")
					}
					if (l.known && l.val) || (r.known && r.val) {
						return boolVal(true)
					}
					if l.known && r.known {
						return boolVal(false)
					}
					return &aval{kind: avBool}
				case token.EQL:
					return it.compare(token.EQL, it.eval(be.X, st), it.eval(be.Y, st), it.typeOf(be.X), it.typeOf(be.Y))
				}
			}
		}
		return it.eval(e, st)
	}
	v := ev(cond)
	if v.kind != avBool {
		it.giveUp("case condition")
		return []*istate{st}
	}
	if v.known {
		if v.val {
			return thenB(st)
		}
		return elseB(st)
	}
	a, b := st.clone(), st.clone()
	a.note = append(a.note, "case taken")
	b.note = append(b.note, "case not taken")
	return append(thenB(a), elseB(b)...)
}

// classesOf: the value classes of a numeric key type.
func classesOf(t types.Type, W int) []*keyClass {
	half1 := new(big.Int).Sub(pow2(W-1), big.NewInt(1))
	zero := new(big.Int)
	if isFloatT(t) {
		infMag := new(big.Int)
		if W == 32 {
			infMag.SetUint64(0x7F800000)
		} else {
			infMag.SetUint64(0x7FF0000000000000)
		}
		below := new(big.Int).Sub(infMag, big.NewInt(1))
		above := new(big.Int).Add(infMag, big.NewInt(1))
		one := big.NewInt(1)
		return []*keyClass{
			{name: "NaN (sign clear)", s: 0, lo: above, hi: half1, float: true, nan: true},
			{name: "NaN (sign set)", s: 1, lo: above, hi: half1, float: true, nan: true},
			{name: "-Inf", s: 1, lo: infMag, hi: infMag, float: true, inf: true},
			{name: "negative numbers", s: 1, lo: one, hi: below, float: true},
			{name: "-0", s: 1, lo: zero, hi: zero, float: true},
			{name: "+0", s: 0, lo: zero, hi: zero, float: true},
			{name: "positive numbers", s: 0, lo: one, hi: below, float: true},
			{name: "+Inf", s: 0, lo: infMag, hi: infMag, float: true, inf: true},
		}
	}
	if isSignedInt(t) {
		return []*keyClass{
			{name: "negative", s: 1, lo: zero, hi: half1, signed: true},
			{name: "non-negative", s: 0, lo: zero, hi: half1, signed: true},
		}
	}
	return []*keyClass{
		{name: "top bit clear", s: 0, lo: zero, hi: half1},
		{name: "top bit set", s: 1, lo: zero, hi: half1},
	}
}

type codecVerdict struct {
	decided bool
	ok      bool
	detail  string // what was established / what fails
	unknown string // why the interpreter gave up
}

// interpretCodecArm decides, for one key type of one codec, that Transform is a big-endian
// fixed-width order isomorphism and that Restore inverts it.
func (c *Ctx) interpretCodecArm(tu, ru *FuncUnit, term types.Type) codecVerdict {
	info := c.m.Info
	W := int(8 * c.L.Sizes.Sizeof(term))
	classes := classesOf(term, W)
	type res struct {
		cl   *keyClass
		code *aval
		note []string
	}
	var results []res
	paramVar := func(u *FuncUnit) *types.Var {
		if u.Decl == nil || u.Decl.Type.Params == nil || len(u.Decl.Type.Params.List) == 0 || len(u.Decl.Type.Params.List[0].Names) == 0 {
			return nil
		}
		v, _ := info.Defs[u.Decl.Type.Params.List[0].Names[0]].(*types.Var)
		return v
	}
	kv, bv := paramVar(tu), paramVar(ru)
	if kv == nil || bv == nil {
		return codecVerdict{unknown: "parameters not found"}
	}
	var forms []string
	work := append([]*keyClass(nil), classes...)
	for len(work) > 0 {
		cl := work[0]
		work = work[1:]
		it := &codecInterp{c: c, info: info, term: term, W: W, cl: cl, keyV: kv}
		st := &istate{env: map[*types.Var]*aval{kv: {kind: avKey}}}
		outs := it.execList(tu.Body.List, []*istate{st})
		if it.fail != "" {
			if it.splitAt != nil && cl.depth() < 4 {
				a, b := splitClass(cl, it.splitAt)
				work = append([]*keyClass{a, b}, work...)
				continue
			}
			if it.defect != "" {
				return codecVerdict{decided: true, detail: "Transform on class " + cl.name + ": " + it.defect}
			}
			return codecVerdict{unknown: "Transform on class " + cl.name + ": " + it.fail}
		}
		for _, o := range outs {
			if !o.done {
				return codecVerdict{unknown: "Transform: a path does not return"}
			}
			if o.ret == nil {
				continue // panic path
			}
			if len(o.ret) != 2 {
				return codecVerdict{unknown: "Transform does not return two values"}
			}
			for _, r := range o.ret {
				if why := droppedByte(r, cl); why != "" {
					return codecVerdict{decided: true, detail: fmt.Sprintf("on class %s %s", cl.name, why)}
				}
				if r.kind != avBytes || r.word == nil {
					return codecVerdict{unknown: fmt.Sprintf("Transform on class %s returns %s", cl.name, r)}
				}
				if r.blen*8 != int64(W) || r.word.w != W {
					return codecVerdict{decided: true, detail: fmt.Sprintf("on class %s the encoding has %d bytes holding a %d-bit word, the key type has %d bits: not a fixed-width image of the whole value", cl.name, r.blen, r.word.w, W)}
				}
				if r.order != "big" {
					return codecVerdict{decided: true, detail: fmt.Sprintf("on class %s the word is stored %s-endian: bytewise comparison does not follow the numeric order of the word", cl.name, r.order)}
				}
			}
			if o.ret[0].word.String() != o.ret[1].word.String() {
				return codecVerdict{decided: true, detail: fmt.Sprintf("on class %s the two results of Transform differ (%s, %s)", cl.name, o.ret[0].word, o.ret[1].word)}
			}
			results = append(results, res{cl, o.ret[1].word, o.note})
		}
	}
	if len(results) == 0 {
		return codecVerdict{unknown: "no result"}
	}
	where := func(r res) string {
		if len(r.note) == 0 {
			return r.cl.name
		}
		return r.cl.name + " when " + strings.Join(r.note, " and ")
	}
	// ---- order
	type span struct {
		r      res
		lo, hi *big.Int
	}
	var spans []span
	for _, r := range results {
		lo, hi := r.code.rng(r.cl)
		spans = append(spans, span{r, lo, hi})
		forms = append(forms, fmt.Sprintf("%s → %s", where(r), r.code))
		single := r.cl.lo.Cmp(r.cl.hi) == 0
		switch {
		case r.cl.nan:
			if r.code.a != 0 {
				return codecVerdict{decided: true, detail: fmt.Sprintf("%s is encoded as %s, which depends on the payload: all NaNs must encode alike", where(r), r.code)}
			}
		case single:
		case r.cl.float && r.cl.s == 1:
			if r.code.a != -1 {
				return codecVerdict{decided: true, detail: fmt.Sprintf("%s are encoded as %s: a larger magnitude is a smaller number, so the code must decrease with the magnitude bits m", where(r), r.code)}
			}
		default:
			if r.code.a != 1 {
				return codecVerdict{decided: true, detail: fmt.Sprintf("%s are encoded as %s: the code must increase with the low bits m", where(r), r.code)}
			}
		}
	}
	// classes are listed in ascending order of value; results of one class (split paths) must not
	// overlap either unless they are NaN codes
	rankOf := map[*keyClass]int{}
	for i, cl := range classes {
		rankOf[cl] = i
	}
	rank := func(cl *keyClass) int { return rankOf[cl.root()] }
	ambiguous := ""
	for i := 0; i < len(spans); i++ {
		for j := 0; j < len(spans); j++ {
			a, b := spans[i], spans[j]
			if i == j {
				continue
			}
			if a.r.cl.nan && b.r.cl.nan {
				if a.lo.Cmp(b.lo) != 0 {
					return codecVerdict{decided: true, detail: fmt.Sprintf("%s is encoded as %s but %s as %s: all NaNs must encode alike", where(a.r), a.r.code, where(b.r), b.r.code)}
				}
				continue
			}
			if rank(a.r.cl) < rank(b.r.cl) && a.hi.Cmp(b.lo) >= 0 {
				return codecVerdict{decided: true, detail: fmt.Sprintf("%s (codes up to 0x%s as %s) do not sort below %s (codes from 0x%s as %s)", where(a.r), a.hi.Text(16), a.r.code, where(b.r), b.lo.Text(16), b.r.code)}
			}
			if a.r.cl.root() != b.r.cl.root() || i > j {
				continue
			}
			// two results of one class
			if !(a.hi.Cmp(b.lo) < 0 || b.hi.Cmp(a.lo) < 0) {
				return codecVerdict{decided: true, detail: fmt.Sprintf("%s and %s overlap (%s, %s): not injective", where(a.r), where(b.r), a.r.code, b.r.code)}
			}
			switch {
			case a.r.cl.hi.Cmp(b.r.cl.lo) < 0 || b.r.cl.hi.Cmp(a.r.cl.lo) < 0:
				// disjoint magnitude intervals (the class was split where a top bit changes): the
				// pieces must follow one another in the direction of the class
				lowM, highM := a, b
				if b.r.cl.hi.Cmp(a.r.cl.lo) < 0 {
					lowM, highM = b, a
				}
				decreasing := a.r.cl.float && a.r.cl.s == 1
				if !decreasing && lowM.hi.Cmp(highM.lo) >= 0 {
					return codecVerdict{decided: true, detail: fmt.Sprintf("%s (%s) do not sort below %s (%s)", where(lowM.r), lowM.r.code, where(highM.r), highM.r.code)}
				}
				if decreasing && lowM.lo.Cmp(highM.hi) <= 0 {
					return codecVerdict{decided: true, detail: fmt.Sprintf("%s (%s) do not sort above %s (%s): a larger magnitude is a smaller number", where(lowM.r), lowM.r.code, where(highM.r), highM.r.code)}
				}
			default:
				// the same magnitudes reach two results through a condition that is not decided on
				// the class: which value takes which path is unknown, so is the order between them
				ambiguous = fmt.Sprintf("%s and %s are separated by a condition the interpreter cannot decide on the class", where(a.r), where(b.r))
			}
		}
	}
	if ambiguous != "" {
		return codecVerdict{unknown: ambiguous}
	}
	// ---- round trip
	rwork := append([]res(nil), results...)
	for len(rwork) > 0 {
		r := rwork[0]
		rwork = rwork[1:]
		it := &codecInterp{c: c, info: info, term: term, W: W, cl: r.cl}
		enc := &aval{kind: avBytes, blen: int64(W / 8), word: r.code, order: "big"}
		encText := enc.String()
		st := &istate{env: map[*types.Var]*aval{bv: enc}}
		outs := it.execList(ru.Body.List, []*istate{st})
		if it.defect != "" {
			return codecVerdict{decided: true, detail: "Restore on the code of " + where(r) + ": " + it.defect}
		}
		for _, o := range outs {
			if cur := o.env[bv]; it.fail == "" && cur != nil && cur.kind == avBytes && cur.String() != encText && !assignedAnywhere(info, ru.Body, bv) {
				return codecVerdict{decided: true, detail: fmt.Sprintf("Restore stores into the encoding it is given (on the code of %s the bytes %s become %s): the bytes are the stored key of a leaf, so decoding the same key again yields another value and the stored key no longer sorts where it was inserted", where(r), encText, cur)}
			}
		}
		if it.fail != "" {
			if it.splitAt != nil && r.cl.depth() < 4 {
				a, b := splitClass(r.cl, it.splitAt)
				rwork = append([]res{{a, r.code, r.note}, {b, r.code, r.note}}, rwork...)
				continue
			}
			return codecVerdict{unknown: "Restore on the code of " + where(r) + ": " + it.fail}
		}
		for _, o := range outs {
			if !o.done {
				return codecVerdict{unknown: "Restore: a path does not return"}
			}
			if o.ret == nil {
				continue
			}
			if len(o.ret) != 1 {
				return codecVerdict{unknown: "Restore does not return one value"}
			}
			got := o.ret[0]
			want := &aval{kind: avWord, w: W, a: 1, b: new(big.Int)}
			if r.cl.s == 1 {
				want.b = pow2(W - 1)
			}
			back := func(v *aval) string {
				pre := ""
				if len(o.note) > 0 {
					pre = " (when " + strings.Join(o.note, " and ") + ")"
				}
				return fmt.Sprintf("Restore turns the code %s of %s into %s%s, not back into the key", r.code, where(r), v, pre)
			}
			if got.kind == avWord && !r.cl.float {
				got = &aval{kind: avKeyBits, word: got} // an integer key is its bits
			}
			switch got.kind {
			case avFloat:
				switch {
				case r.cl.nan && got.fclass == "nan":
				case r.cl.inf && r.cl.s == 0 && got.fclass == "inf+":
				case r.cl.inf && r.cl.s == 1 && got.fclass == "inf-":
				case got.fclass == "" && got.fconst == 0 && !math.Signbit(got.fconst) && r.cl.float && r.cl.s == 0 && r.cl.hi.Sign() == 0:
				default:
					return codecVerdict{decided: true, detail: back(got)}
				}
			case avKeyBits:
				if r.cl.nan {
					// any NaN pattern is a NaN: top any, magnitude above Inf
					lo, _ := got.word.rng(r.cl)
					mag := new(big.Int).Mod(lo, pow2(W-1))
					infMag := classesOf(term, W)[2].lo
					if mag.Cmp(infMag) <= 0 {
						return codecVerdict{decided: true, detail: back(got)}
					}
					continue
				}
				same := got.word.a == want.a && got.word.b.Cmp(want.b) == 0
				if !same && r.cl.lo.Cmp(r.cl.hi) == 0 {
					gl, _ := got.word.rng(r.cl)
					wl, _ := want.rng(r.cl)
					same = gl.Cmp(wl) == 0
				}
				if !same || got.word.w != W {
					return codecVerdict{decided: true, detail: back(got)}
				}
			default:
				return codecVerdict{unknown: fmt.Sprintf("Restore on the code of %s returns %s", where(r), got)}
			}
		}
	}
	return codecVerdict{decided: true, ok: true, detail: strings.Join(forms, "; ")}
}

// wrapAffine brings the result of an addition or subtraction back into [0, 2^w): when the whole
// class wraps, the constant moves by 2^w; when only part of it does, the class is split there.
func (it *codecInterp) wrapAffine(res *aval, what string) *aval {
	mod := pow2(res.w)
	lo, hi := res.rng(it.cl)
	switch {
	case lo.Sign() >= 0 && hi.Cmp(mod) < 0:
		return res
	case hi.Sign() < 0 && new(big.Int).Add(lo, mod).Sign() >= 0:
		return &aval{kind: avWord, w: res.w, a: res.a, b: new(big.Int).Add(res.b, mod)}
	case lo.Cmp(mod) >= 0 && new(big.Int).Sub(hi, mod).Cmp(mod) < 0:
		return &aval{kind: avWord, w: res.w, a: res.a, b: new(big.Int).Sub(res.b, mod)}
	}
	var sp *big.Int
	switch {
	case lo.Sign() < 0 && hi.Sign() >= 0:
		if res.a == 1 {
			sp = new(big.Int).Neg(res.b) // first m with a value >= 0
		} else {
			sp = new(big.Int).Add(res.b, big.NewInt(1)) // first m with a value < 0
		}
	case lo.Cmp(mod) < 0 && hi.Cmp(mod) >= 0:
		if res.a == 1 {
			sp = new(big.Int).Sub(mod, res.b)
		} else {
			sp = new(big.Int).Add(new(big.Int).Sub(res.b, mod), big.NewInt(1))
		}
	}
	if sp != nil && it.splitAt == nil && sp.Cmp(it.cl.lo) > 0 && sp.Cmp(it.cl.hi) <= 0 {
		it.splitAt = sp
	}
	return it.giveUp("%s wraps around on part of class %s", what, it.cl.name)
}

// tableLookup: T[i] with T a package-level array or slice of integer constants that nothing in the
// package writes to (reserved codes looked up by class) and i a constant on this path.
func (it *codecInterp) tableLookup(x *ast.IndexExpr, st *istate) *aval {
	id, ok := ast.Unparen(x.X).(*ast.Ident)
	if !ok {
		return nil
	}
	tv, ok := it.info.ObjectOf(id).(*types.Var)
	if !ok || tv.Parent() != it.c.m.Pkg.Scope() {
		return nil
	}
	var elemT types.Type
	switch t := tv.Type().Underlying().(type) {
	case *types.Array:
		elemT = t.Elem()
	case *types.Slice:
		elemT = t.Elem()
	default:
		return nil
	}
	if b := basicOf(elemT); b == nil || b.Info()&types.IsInteger == 0 {
		return nil
	}
	// the initialiser
	var lit *ast.CompositeLit
	written := false
	for _, f := range it.c.L.Art.Syntax {
		ast.Inspect(f, func(n ast.Node) bool {
			switch y := n.(type) {
			case *ast.ValueSpec:
				for i, nm := range y.Names {
					if it.info.Defs[nm] == tv && i < len(y.Values) {
						lit, _ = ast.Unparen(y.Values[i]).(*ast.CompositeLit)
					}
				}
			case *ast.AssignStmt:
				for _, l := range y.Lhs {
					if rv, _ := rootVar(it.info, l); rv == tv {
						written = true
					}
				}
			case *ast.IncDecStmt:
				if rv, _ := rootVar(it.info, y.X); rv == tv {
					written = true
				}
			case *ast.UnaryExpr:
				if y.Op == token.AND {
					if rv, _ := rootVar(it.info, y.X); rv == tv {
						written = true
					}
				}
			case *ast.SliceExpr:
				if rv, _ := rootVar(it.info, y.X); rv == tv {
					written = true // a slice of it may be written through
				}
			}
			return true
		})
	}
	if lit == nil || written {
		return it.giveUp("table %s is not a constant table", id.Name)
	}
	iv := it.eval(x.Index, st)
	if iv.kind != avWord || iv.a != 0 || !iv.b.IsInt64() {
		return it.giveUp("index into table %s is not constant on this path", id.Name)
	}
	want := iv.b.Int64()
	w := it.bitsOf(elemT)
	next := int64(0)
	var found *aval
	maxIdx := int64(-1)
	for _, el := range lit.Elts {
		val := el
		if kv, ok := el.(*ast.KeyValueExpr); ok {
			ktv, ok := it.info.Types[kv.Key]
			if !ok || ktv.Value == nil {
				return it.giveUp("table %s has a non-constant key", id.Name)
			}
			k, _ := constant.Int64Val(ktv.Value)
			next = k
			val = kv.Value
		}
		if next > maxIdx {
			maxIdx = next
		}
		if next == want {
			vtv, ok := it.info.Types[val]
			if !ok || vtv.Value == nil {
				return it.giveUp("table %s has a non-constant element", id.Name)
			}
			bi := bigOf(vtv.Value)
			if bi == nil {
				return it.giveUp("table %s element", id.Name)
			}
			found = constWord(w, wrapConst(bi, w))
		}
		next++
	}
	if found != nil {
		return found
	}
	if want >= 0 && want <= maxIdx {
		return constWord(w, new(big.Int)) // an index the literal skips: zero
	}
	return it.giveUp("index %d outside table %s", want, id.Name)
}

// droppedByte: the encoding holds the bytes of one word at their big-endian places except that
// some byte is a constant zero although that byte of the word takes more than one value on the
// class: keys that differ only there are encoded alike (a byte-filling loop that stops one short).
func droppedByte(r *aval, cl *keyClass) string {
	if r.kind != avBytes || r.word != nil || r.lanes == nil {
		return ""
	}
	n := len(r.lanes)
	var W *aval
	var zeros []int
	for i, ln := range r.lanes {
		if i < len(r.set) && !r.set[i] {
			return ""
		}
		if ln.zero {
			zeros = append(zeros, i)
			continue
		}
		if ln.k != n-1-i {
			return ""
		}
		if W == nil {
			W = ln.word
		} else if W.String() != ln.word.String() || W.w != ln.word.w {
			return ""
		}
	}
	if W == nil || len(zeros) == 0 || W.kind != avWord || W.a == 0 {
		return ""
	}
	lo, hi := W.rng(cl)
	if lo.Sign() < 0 {
		return ""
	}
	for _, i := range zeros {
		k := n - 1 - i
		// the range holds x and x + 2^(8k) with byte k of x below 0xff (so that they differ in that
		// byte only) as soon as it spans 2·2^(8k): of lo and lo + 2^(8k) one has such a byte
		span := new(big.Int).Sub(hi, lo)
		need := pow2(8*k + 1)
		if span.Cmp(need) >= 0 {
			return fmt.Sprintf("byte %d of the encoding is always 0 although the corresponding byte of the encoded word (%s) varies with the key: keys that differ only in that byte are encoded alike", i, W)
		}
	}
	return ""
}
