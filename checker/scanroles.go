package main

// The four bounds of the range scan – the pair compared with the stored keys (lower, upper) and the
// pair that spells the path through the inner nodes – and how a call site supplies them. They are
// parameters #1…#4 of rangeScan on the pinned tree; a refactoring may hand them over in a struct
// (scanBounds{start, end, transformStart, transformEnd}, built by a literal, a local or a
// constructor). The roles are then read from what rangeScan does with each field, not from the
// order of the fields: the operands of the leading longestCommonPrefix are the path pair, the
// variables the leaf key is compared with under the yield are the key pair.

import (
	"fmt"
	"go/ast"
	"go/types"
	"os"
)

// boundPath names one bound as rangeScan receives it: parameter index, and the field of that
// parameter when it is a struct ("" = the parameter itself).
type boundPath struct {
	param int
	field string
}

type scanRoles struct {
	parent     *FuncUnit
	structMode bool
	lowA, upA  boundPath // compared with the stored keys
	lowB, upB  boundPath // drive the descent
	okA, okB   bool
	lowerVar   *types.Var // the variables of rangeScan (parameters or locals) holding lowA / upA
	upperVar   *types.Var
}

func isByteSliceType(t types.Type) bool {
	if t == nil {
		return false
	}
	sl, ok := t.Underlying().(*types.Slice)
	if !ok {
		return false
	}
	b, ok := sl.Elem().Underlying().(*types.Basic)
	return ok && (b.Kind() == types.Byte || b.Kind() == types.Uint8)
}

// boundPathOf: the expression e inside rangeScan (or its closure) is one of the bounds.
func (c *Ctx) boundPathOf(parent *FuncUnit, e ast.Expr) (boundPath, bool) {
	info := c.m.Info
	e = ast.Unparen(c.m.throughLocals(parent, ast.Unparen(e)))
	for {
		if call, ok := e.(*ast.CallExpr); ok && isConversion(info, call) && len(call.Args) == 1 {
			e = ast.Unparen(c.m.throughLocals(parent, ast.Unparen(call.Args[0])))
			continue
		}
		break
	}
	switch x := e.(type) {
	case *ast.Ident:
		if pi := c.m.paramIndex(parent, x); pi >= 0 {
			if v := identVar(info, x); v != nil && !assignedAnywhere(info, parent.Body, v) {
				return boundPath{pi, ""}, true
			}
		}
	case *ast.SelectorExpr:
		if id, ok := ast.Unparen(x.X).(*ast.Ident); ok {
			if pi := c.m.paramIndex(parent, id); pi >= 0 {
				if v := identVar(info, id); v != nil && !assignedAnywhere(info, parent.Body, v) {
					if _, isStruct := v.Type().Underlying().(*types.Struct); isStruct {
						return boundPath{pi, x.Sel.Name}, true
					}
				}
			}
		}
	}
	return boundPath{}, false
}

// scanRoles analyses rangeScan once.
func (c *Ctx) scanRoles() *scanRoles {
	if c.scanRolesMemo != nil {
		return c.scanRolesMemo
	}
	m := c.m
	info := m.Info
	sr := &scanRoles{}
	c.scanRolesMemo = sr
	parent := m.ByName["rangeScan"]
	if parent == nil || parent.Decl == nil || parent.Body == nil {
		return sr
	}
	sr.parent = parent
	var params []*types.Var
	for _, f := range parent.Decl.Type.Params.List {
		for _, nm := range f.Names {
			v, _ := info.Defs[nm].(*types.Var)
			params = append(params, v)
		}
	}
	if len(params) >= 5 && isByteSliceType(params[1].Type()) && isByteSliceType(params[2].Type()) && isByteSliceType(params[3].Type()) && isByteSliceType(params[4].Type()) {
		sr.lowA, sr.upA, sr.lowB, sr.upB = boundPath{1, ""}, boundPath{2, ""}, boundPath{3, ""}, boundPath{4, ""}
		sr.okA, sr.okB = true, true
		sr.lowerVar, sr.upperVar = params[1], params[2]
		return sr
	}
	sr.structMode = true
	// the path pair: the first longestCommonPrefix(P, Q, …) outside the returned closure
	ast.Inspect(parent.Body, func(n ast.Node) bool {
		if _, isLit := n.(*ast.FuncLit); isLit {
			return false
		}
		call, ok := n.(*ast.CallExpr)
		if !ok || sr.okB || m.calleeName(call) != "longestCommonPrefix" || len(call.Args) < 2 {
			return true
		}
		p, ok1 := c.boundPathOf(parent, call.Args[0])
		q, ok2 := c.boundPathOf(parent, call.Args[1])
		if ok1 && ok2 {
			sr.lowB, sr.upB, sr.okB = p, q, true
		}
		return true
	})
	// the key pair: in the closure(s) of rangeScan, the variables the leaf key is compared with on
	// the edges that dominate the yield: stored key >= L and stored key <= U
	for _, u := range m.Units {
		if u.Lit == nil || u.Parent != parent {
			continue
		}
		g := m.cfgOf(u)
		guards := c.classifierGuards(u, g)
		_, ycalls := yieldCallsOf(info, u)
		for _, yc := range ycalls {
			yb, _ := blockOf(g, yc)
			for _, gd := range guards {
				if !edgeDominates(g, gd.b, gd.succ, yb) {
					continue
				}
				bound, rel := c.leafKeyRel(u, parent, gd)
				if os.Getenv("ARTCHECK_DEBUG") == "roles" {
					fmt.Fprintf(os.Stderr, "ROLES %s guard %s -> %v %s\n", u.Name, types.ExprString(gd.atom.e), bound, rel)
				}
				if bound == nil {
					continue
				}
				path, okP := c.boundVarPath(parent, bound)
				if !okP {
					continue
				}
				switch rel {
				case ">=":
					sr.lowA, sr.lowerVar = path, bound
				case "<=":
					sr.upA, sr.upperVar = path, bound
				}
			}
		}
	}
	sr.okA = sr.lowerVar != nil && sr.upperVar != nil && sr.lowerVar != sr.upperVar
	return sr
}

// boundVarPath: the variable (a parameter or a single-definition local of rangeScan) is a bound.
func (c *Ctx) boundVarPath(parent *FuncUnit, v *types.Var) (boundPath, bool) {
	info := c.m.Info
	var id *ast.Ident
	ast.Inspect(parent.Decl, func(n ast.Node) bool {
		if x, ok := n.(*ast.Ident); ok && id == nil && (info.Defs[x] == v || info.Uses[x] == v) {
			id = x
		}
		return id == nil
	})
	if id == nil {
		return boundPath{}, false
	}
	return c.boundPathOf(parent, id)
}

// leafKeyRel: the guard edge establishes "stored key REL bound" through bytes.Compare(a, b) OP 0
// with one operand the leaf's getKey() and the other a variable; returns the variable and REL.
func (c *Ctx) leafKeyRel(u, parent *FuncUnit, gd guard) (*types.Var, string) {
	m := c.m
	info := m.Info
	negate := map[string]string{"<": ">=", ">=": "<", ">": "<=", "<=": ">", "==": "!=", "!=": "=="}
	flip := map[string]string{"<": ">", ">": "<", "<=": ">=", ">=": "<=", "==": "==", "!=": "!="}
	isLeafKey := func(e ast.Expr) bool {
		kc, isCall := ast.Unparen(m.throughLocals(u, e)).(*ast.CallExpr)
		if !isCall {
			return false
		}
		sel, isSel := kc.Fun.(*ast.SelectorExpr)
		return isSel && sel.Sel.Name == "getKey"
	}
	be, isBe := ast.Unparen(c.expandPredicate(gd.atom.e)).(*ast.BinaryExpr)
	if !isBe {
		return nil, ""
	}
	rel := be.Op.String()
	if _, known := negate[rel]; !known {
		return nil, ""
	}
	x, y := be.X, be.Y
	if tv, has := info.Types[x]; has && tv.Value != nil && tv.Value.ExactString() == "0" {
		x, y = y, x
		rel = flip[rel]
	}
	if tv, has := info.Types[y]; !has || tv.Value == nil || tv.Value.ExactString() != "0" {
		return nil, ""
	}
	cc, isCall := ast.Unparen(m.throughLocals(u, x)).(*ast.CallExpr)
	if !isCall || m.calleeName(cc) != "bytes.Compare" || len(cc.Args) != 2 {
		return nil, ""
	}
	var bound *types.Var
	// the variable as written: following its definition would already leave rangeScan's locals
	// for the field of the parameter
	boundVar := func(e ast.Expr) *types.Var {
		for {
			if call, ok := ast.Unparen(e).(*ast.CallExpr); ok && isConversion(info, call) && len(call.Args) == 1 {
				e = call.Args[0]
				continue
			}
			break
		}
		return identVar(info, ast.Unparen(e))
	}
	switch {
	case isLeafKey(cc.Args[0]):
		bound = boundVar(cc.Args[1])
	case isLeafKey(cc.Args[1]):
		bound = boundVar(cc.Args[0])
		rel = flip[rel]
	}
	if bound == nil {
		return nil, ""
	}
	if !gd.atom.val {
		rel = negate[rel]
	}
	return bound, rel
}

// boundArgAt: the expression the call of rangeScan in unit u supplies for the bound p (nil if it
// cannot be read off the call site).
func (c *Ctx) boundArgAt(u *FuncUnit, call *ast.CallExpr, p boundPath) ast.Expr {
	if p.param < 0 || p.param >= len(call.Args) {
		return nil
	}
	a := call.Args[p.param]
	if p.field == "" {
		return a
	}
	return c.structFieldOf(u, a, p.field, 0)
}

// structFieldOf: the value of field f of the struct-valued expression e in unit u – e is a
// composite literal, a local defined once by one, or a call of a constructor whose only return is
// one (its parameters replaced by the arguments).
func (c *Ctx) structFieldOf(u *FuncUnit, e ast.Expr, f string, depth int) ast.Expr {
	if depth > 3 || e == nil {
		return nil
	}
	info := c.m.Info
	e = ast.Unparen(c.m.throughLocals(u, ast.Unparen(e)))
	switch x := e.(type) {
	case *ast.CompositeLit:
		st, ok := info.TypeOf(x).Underlying().(*types.Struct)
		if !ok {
			return nil
		}
		for i, el := range x.Elts {
			if kv, ok := el.(*ast.KeyValueExpr); ok {
				if id, ok := kv.Key.(*ast.Ident); ok && id.Name == f {
					return kv.Value
				}
				continue
			}
			if i < st.NumFields() && st.Field(i).Name() == f {
				return el
			}
		}
	case *ast.CallExpr:
		cu := c.m.calleeUnit(x)
		if cu == nil || cu.Lit != nil || cu.Body == nil || cu == u {
			return nil
		}
		rets, all := returnExprs(cu)
		if !all || len(rets) != 1 {
			return nil
		}
		inner := c.structFieldOf(cu, rets[0], f, depth+1)
		if inner == nil {
			return nil
		}
		// a parameter of the constructor stands for the argument
		if id, ok := ast.Unparen(inner).(*ast.Ident); ok {
			if pi := c.m.paramIndex(cu, id); pi >= 0 && pi < len(x.Args) {
				if v := identVar(info, id); v != nil && !assignedAnywhere(info, cu.Body, v) {
					return x.Args[pi]
				}
			}
		}
		return nil
	}
	return nil
}
