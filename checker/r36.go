package main

import (
	"bytes"
	"fmt"
	"go/ast"
	"go/printer"
	"go/token"
	"regexp"
	"sort"
	"strings"
)

// R36 SIBLING (C08) – the hand-written collation copy of the tree algorithm agrees, statement by
// statement (as a multiset, after renaming the documented differences), with the template
// instantiation it was copied from. A slip applied to one copy only – a dropped increment, a
// different comparison, a changed arithmetic expression – shows up as a statement that exists in
// one copy and not in the other.
func ruleR36(c *Ctx) {
	m := c.m
	var coll, ref *TreeKind
	for _, tk := range m.Trees {
		if isCollationKind(tk) {
			coll = tk
		}
		if isCompoundKind(tk) {
			ref = tk
		}
	}
	if coll == nil || ref == nil {
		c.r.undecided("R36", "sibling copies found", "-", "collation or compound tree kind not found", "C08", "C09", "C01")
		return
	}
	norm := func(tk *TreeKind, s string) string {
		for _, lt := range m.LeafTypes {
			s = strings.ReplaceAll(s, lt.Origin().Obj().Name(), "LEAF")
		}
		s = strings.ReplaceAll(s, tk.Name, "TREE")
		s = regexp.MustCompile(`\bcolKey\b`).ReplaceAllString(s, "keyS")
		s = regexp.MustCompile(`\bt\.(cok|bck)\b`).ReplaceAllString(s, "t.CODEC")
		// the two copies test the leaf tag with opposite polarity and put the arms in opposite order
		s = regexp.MustCompile(`(\w+)\.tag (==|!=) nodeKindLeaf`).ReplaceAllString(s, "$1.tag ~ nodeKindLeaf")
		s = regexp.MustCompile(`\s+`).ReplaceAllString(s, " ")
		return strings.TrimSpace(s)
	}
	printNode := func(n any) string {
		var buf bytes.Buffer
		printer.Fprint(&buf, c.L.Fset, n)
		return buf.String()
	}
	info := m.Info
	interesting := regexp.MustCompile(`prefixLen|childrenLen|\bdepth\b|len\(|prefixDiff|splitPrefix|longestPrefix|loLimit`)
	// bag of (a) calls into the tree/node layer, (b) stores to node/tree fields, to *ref and to the
	// descent position, (c) comparisons over positions and lengths – each normalised so that
	// polarity, operand order and the statement form around them do not matter
	bag := func(tk *TreeKind, u *FuncUnit) map[string]int {
		out := map[string]int{}
		add := func(kind, s string) {
			s = norm(tk, s)
			if s != "" {
				out[kind+" "+s]++
			}
		}
		var cmpToken func(e ast.Expr)
		cmpToken = func(e ast.Expr) {
			e = ast.Unparen(e)
			switch x := e.(type) {
			case *ast.UnaryExpr:
				if x.Op == token.NOT {
					cmpToken(x.X)
				}
			case *ast.BinaryExpr:
				switch x.Op {
				case token.LAND, token.LOR:
					cmpToken(x.X)
					cmpToken(x.Y)
				case token.LSS, token.GEQ, token.GTR, token.LEQ, token.EQL, token.NEQ:
					a, b := printNode(x.X), printNode(x.Y)
					if !interesting.MatchString(a + " " + b) {
						return
					}
					switch x.Op {
					case token.LSS, token.GEQ: // a < b  and its negation a >= b
						add("cmp", a+" < "+b)
					case token.GTR, token.LEQ: // b < a  and its negation a <= b
						add("cmp", b+" < "+a)
					default:
						if a > b {
							a, b = b, a
						}
						add("cmp", a+" == "+b)
					}
				}
			}
		}
		ast.Inspect(u.Body, func(n ast.Node) bool {
			switch x := n.(type) {
			case *ast.FuncLit:
				return false // the leaf constructor differs by design
			case *ast.IfStmt:
				cmpToken(x.Cond)
			case *ast.ForStmt:
				if x.Cond != nil {
					cmpToken(x.Cond)
				}
			case *ast.CallExpr:
				if isConversion(info, x) {
					return true
				}
				name := m.calleeName(x)
				if strings.HasSuffix(name, ".Transform") {
					return true
				}
				if f := m.staticCallee(x); (f != nil && f.Pkg() == m.Pkg) || isBuiltinCall(info, x, "copy") {
					add("call", printNode(x))
				}
			case *ast.AssignStmt:
				for i, l := range x.Lhs {
					root, through := rootVar(info, l)
					isPos := false
					if id, ok := ast.Unparen(l).(*ast.Ident); ok && id.Name == "depth" && x.Tok != token.DEFINE {
						isPos = true
					}
					if through || isPos || (root != nil && root.Name() == "t") {
						rhs := ""
						if len(x.Rhs) == len(x.Lhs) {
							rhs = printNode(x.Rhs[i])
						}
						add("store", printNode(l)+" "+x.Tok.String()+" "+rhs)
					}
				}
			case *ast.IncDecStmt:
				add("store", printNode(x))
			}
			return true
		})
		return out
	}
	for _, mn := range []string{"Delete", "Insert", "Search", "Minimum", "Maximum", "All", "Backward", "TopK", "BottomK", "Size"} {
		cu, ru := coll.Methods[mn], ref.Methods[mn]
		if cu == nil || ru == nil {
			continue
		}
		a, b := bag(coll, cu), bag(ref, ru)
		var onlyA, onlyB []string
		for s, n := range a {
			if b[s] < n {
				onlyA = append(onlyA, fmt.Sprintf("%q ×%d", s, n-b[s]))
			}
		}
		for s, n := range b {
			if a[s] < n {
				onlyB = append(onlyB, fmt.Sprintf("%q ×%d", s, n-a[s]))
			}
		}
		sort.Strings(onlyA)
		sort.Strings(onlyB)
		key := fmt.Sprintf("%s.%s agrees with its template sibling %s.%s", coll.Name, mn, ref.Name, mn)
		total := 0
		for _, n := range a {
			total += n
		}
		if len(onlyA) == 0 && len(onlyB) == 0 {
			c.r.ok("R36", key, m.pos(cu.Decl.Pos()), fmt.Sprintf("%d node-layer calls, tree/node stores and position comparisons identical after renaming (leaf type, key variables, codec field); polarity, operand order and statement form are ignored", total), "C08", "C09", "C01")
		} else {
			c.r.bad("R36", key, m.pos(cu.Decl.Pos()), fmt.Sprintf("the two copies of the algorithm disagree – only in %s: %s; only in the template instantiation: %s. One of them carries a slip (or was changed alone)", coll.File, joinShort(onlyA, 4), joinShort(onlyB, 4)), "C08", "C09", "C01")
		}
	}
}
