package main

import (
	"bytes"
	"fmt"
	"go/ast"
	"go/printer"
	"go/token"
	"regexp"
	"sort"
	"strings"
)

// R36 SIBLING (C08) – the hand-written collation copy of the tree algorithm agrees, statement by
// statement (as a multiset, after renaming the documented differences), with the template
// instantiation it was copied from. A slip applied to one copy only – a dropped increment, a
// different comparison, a changed arithmetic expression – shows up as a statement that exists in
// one copy and not in the other.
func ruleR36(c *Ctx) {
	m := c.m
	var coll, ref *TreeKind
	for _, tk := range m.Trees {
		if isCollationKind(tk) {
			coll = tk
		}
		if isCompoundKind(tk) {
			ref = tk
		}
	}
	if coll == nil || ref == nil {
		c.r.undecided("R36", "sibling copies found", "-", "collation or compound tree kind not found", "C08", "C09", "C01")
		return
	}
	norm := func(tk *TreeKind, s string) string {
		for _, lt := range m.LeafTypes {
			s = strings.ReplaceAll(s, lt.Origin().Obj().Name(), "LEAF")
		}
		s = strings.ReplaceAll(s, tk.Name, "TREE")
		s = regexp.MustCompile(`\bcolKey\b`).ReplaceAllString(s, "keyS")
		s = regexp.MustCompile(`\bt\.(cok|bck)\b`).ReplaceAllString(s, "t.CODEC")
		// the two copies test the leaf tag with opposite polarity and put the arms in opposite order
		s = regexp.MustCompile(`(\w+)\.tag (==|!=) nodeKindLeaf`).ReplaceAllString(s, "$1.tag ~ nodeKindLeaf")
		s = regexp.MustCompile(`\s+`).ReplaceAllString(s, " ")
		return strings.TrimSpace(s)
	}
	printNode := func(n any) string {
		var buf bytes.Buffer
		printer.Fprint(&buf, c.L.Fset, n)
		return buf.String()
	}
	bag := func(tk *TreeKind, u *FuncUnit) map[string]int {
		out := map[string]int{}
		add := func(s string) {
			s = norm(tk, s)
			if s == "" {
				return
			}
			out[s]++
		}
		var walk func(list []ast.Stmt)
		walkStmt := func(st ast.Stmt) {}
		walkStmt = func(st ast.Stmt) {
			switch x := st.(type) {
			case *ast.BlockStmt:
				walk(x.List)
			case *ast.IfStmt:
				if x.Init != nil {
					walkStmt(x.Init)
				}
				add("if " + printNode(x.Cond))
				walk(x.Body.List)
				if x.Else != nil {
					walkStmt(x.Else)
				}
			case *ast.ForStmt:
				h := "for "
				if x.Init != nil {
					h += printNode(x.Init)
				}
				h += "; "
				if x.Cond != nil {
					h += printNode(x.Cond)
				}
				h += "; "
				if x.Post != nil {
					h += printNode(x.Post)
				}
				add(h)
				walk(x.Body.List)
			case *ast.SwitchStmt:
				add("switch " + printNode(x.Tag))
				for _, cl := range x.Body.List {
					cc := cl.(*ast.CaseClause)
					var cs []string
					for _, e := range cc.List {
						cs = append(cs, printNode(e))
					}
					add("case " + strings.Join(cs, ","))
					walk(cc.Body)
				}
			case *ast.LabeledStmt:
				add("label " + x.Label.Name)
				walkStmt(x.Stmt)
			case *ast.AssignStmt:
				// skip the documented differences: the Transform call and the leaf constructor
				txt := printNode(x)
				if strings.Contains(txt, ".Transform(") {
					return
				}
				if len(x.Rhs) == 1 {
					if _, isLit := x.Rhs[0].(*ast.FuncLit); isLit {
						return
					}
				}
				add(txt)
			case *ast.BranchStmt:
				if x.Tok == token.BREAK && x.Label == nil {
					return // the inverted arm order turns a fall-through into a break and vice versa
				}
				add(printNode(x))
			default:
				add(printNode(x))
			}
		}
		walk = func(list []ast.Stmt) {
			for _, st := range list {
				walkStmt(st)
			}
		}
		walk(u.Body.List)
		return out
	}
	for _, mn := range []string{"Delete", "Insert", "Search", "Minimum", "Maximum", "All", "Backward", "TopK", "BottomK", "Size"} {
		cu, ru := coll.Methods[mn], ref.Methods[mn]
		if cu == nil || ru == nil {
			continue
		}
		a, b := bag(coll, cu), bag(ref, ru)
		var onlyA, onlyB []string
		for s, n := range a {
			if b[s] < n {
				onlyA = append(onlyA, fmt.Sprintf("%q ×%d", s, n-b[s]))
			}
		}
		for s, n := range b {
			if a[s] < n {
				onlyB = append(onlyB, fmt.Sprintf("%q ×%d", s, n-a[s]))
			}
		}
		sort.Strings(onlyA)
		sort.Strings(onlyB)
		key := fmt.Sprintf("%s.%s agrees with its template sibling %s.%s", coll.Name, mn, ref.Name, mn)
		total := 0
		for _, n := range a {
			total += n
		}
		if len(onlyA) == 0 && len(onlyB) == 0 {
			c.r.ok("R36", key, m.pos(cu.Decl.Pos()), fmt.Sprintf("%d statements and conditions identical after renaming (leaf type, key variables, codec field, polarity of the leaf test)", total), "C08", "C09", "C01")
		} else {
			c.r.bad("R36", key, m.pos(cu.Decl.Pos()), fmt.Sprintf("the two copies of the algorithm disagree – only in %s: %s; only in the template instantiation: %s. One of them carries a slip (or was changed alone)", coll.File, joinShort(onlyA, 4), joinShort(onlyB, 4)), "C08", "C09", "C01")
		}
	}
}
