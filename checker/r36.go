package main

import (
	"fmt"
	"go/ast"
	"go/token"
	"go/types"
	"regexp"
	"sort"
	"strings"
)

// R36 SIBLING (C08) – the hand-written collation copy of the tree algorithm agrees with the
// template instantiation it was copied from, as a multiset of
//
//	(a) calls into the tree/node layer (callee only),
//	(b) stores to node fields, tree fields, *ref and the descent position (target only),
//	(c) comparisons over positions and lengths (the quantities on each side, strictness kept).
//
// Locals defined once are replaced by their definition, conversions are dropped, and a call that
// only one copy makes is replaced by the callee's own bag (so extracting or inlining a helper in
// one copy alone is not a difference). A slip applied to one copy only – a dropped increment, a
// different helper, a guard with another strictness or another quantity – remains a difference.
func ruleR36(c *Ctx) {
	m := c.m
	var coll, ref *TreeKind
	for _, tk := range m.Trees {
		if isCollationKind(tk) {
			coll = tk
		}
		if isCompoundKind(tk) {
			ref = tk
		}
	}
	if coll == nil || ref == nil {
		c.r.undecided("R36", "sibling copies found", "-", "collation or compound tree kind not found", "C08", "C09", "C01")
		return
	}
	info := m.Info
	keyName := regexp.MustCompile(`^(colKey|keyS|rawKey|key|k|searchKey)$`)
	interesting := regexp.MustCompile(`prefixLen|childrenLen|depth|len\(|prefixDiff|maxPrefixLen`)

	type bagT map[string]int
	// atoms of an expression: the quantities it is computed from
	var atoms func(u *FuncUnit, e ast.Expr, out map[string]bool, depth int)
	atoms = func(u *FuncUnit, e ast.Expr, out map[string]bool, depth int) {
		if e == nil || depth > 8 {
			return
		}
		e = ast.Unparen(e)
		if tv, ok := info.Types[e]; ok && tv.Value != nil {
			if id, isId := e.(*ast.Ident); isId {
				out[id.Name] = true // named constant
			} else if _, isLit := e.(*ast.BasicLit); !isLit {
				out["const:"+tv.Value.ExactString()] = true
			} else {
				out[tv.Value.ExactString()] = true
			}
			return
		}
		switch x := e.(type) {
		case *ast.Ident:
			name := x.Name
			if keyName.MatchString(name) {
				out["KEY"] = true // however the key bytes were prepared (R08 compares that)
				return
			}
			if d := m.resolveLocal(u, x); d != nil {
				atoms(u, d, out, depth+1)
				return
			}
			out[name] = true
		case *ast.SelectorExpr:
			if info.Selections[x] != nil {
				out["."+x.Sel.Name] = true
				return
			}
			out[x.Sel.Name] = true
		case *ast.BinaryExpr:
			atoms(u, x.X, out, depth+1)
			atoms(u, x.Y, out, depth+1)
		case *ast.UnaryExpr:
			atoms(u, x.X, out, depth+1)
		case *ast.StarExpr:
			atoms(u, x.X, out, depth+1)
		case *ast.IndexExpr:
			atoms(u, x.X, out, depth+1)
			atoms(u, x.Index, out, depth+1)
		case *ast.SliceExpr:
			atoms(u, x.X, out, depth+1)
			atoms(u, x.Low, out, depth+1)
			atoms(u, x.High, out, depth+1)
		case *ast.CallExpr:
			if isConversion(info, x) {
				for _, a := range x.Args {
					atoms(u, a, out, depth+1)
				}
				return
			}
			if isBuiltinCall(info, x, "len") && len(x.Args) == 1 {
				inner := map[string]bool{}
				atoms(u, x.Args[0], inner, depth+1)
				out["len("+strings.Join(sortedKeys(inner), "+")+")"] = true
				return
			}
			if isBuiltinCall(info, x, "min") || isBuiltinCall(info, x, "max") {
				for _, a := range x.Args {
					atoms(u, a, out, depth+1)
				}
				return
			}
			name := m.calleeName(x)
			if i := strings.LastIndex(name, "."); i >= 0 {
				name = name[i+1:]
			}
			out[name+"()"] = true
		}
	}
	side := func(u *FuncUnit, e ast.Expr) string {
		a := map[string]bool{}
		atoms(u, e, a, 0)
		return strings.Join(sortedKeys(a), "+")
	}
	storeTarget := func(u *FuncUnit, l ast.Expr) string {
		l = ast.Unparen(l)
		for {
			switch x := l.(type) {
			case *ast.IndexExpr:
				l = ast.Unparen(x.X)
				continue
			case *ast.SliceExpr:
				l = ast.Unparen(x.X)
				continue
			}
			break
		}
		switch x := l.(type) {
		case *ast.SelectorExpr:
			if root, _ := rootVar(info, x); root != nil && m.isTreeRecv(root) {
				return "t." + x.Sel.Name
			}
			return "." + x.Sel.Name
		case *ast.StarExpr:
			return "*REF"
		case *ast.Ident:
			return x.Name
		}
		return "?"
	}

	var bagOf func(u *FuncUnit, out bagT, calls map[string][]*FuncUnit)
	bagOf = func(u *FuncUnit, out bagT, calls map[string][]*FuncUnit) {
		var cmpToken func(e ast.Expr)
		cmpToken = func(e ast.Expr) {
			e = ast.Unparen(e)
			switch x := e.(type) {
			case *ast.UnaryExpr:
				if x.Op == token.NOT {
					cmpToken(x.X)
				}
			case *ast.Ident:
				if d := m.resolveLocal(u, x); d != nil {
					cmpToken(d)
				}
			case *ast.BinaryExpr:
				switch x.Op {
				case token.LAND, token.LOR:
					cmpToken(x.X)
					cmpToken(x.Y)
				case token.LSS, token.GEQ, token.GTR, token.LEQ, token.EQL, token.NEQ:
					if !interesting.MatchString(types.ExprString(x.X) + " " + types.ExprString(x.Y)) {
						return
					}
					a, b := side(u, x.X), side(u, x.Y)
					switch x.Op {
					case token.LSS, token.GEQ: // a < b and its negation
						out["cmp "+a+" < "+b]++
					case token.GTR, token.LEQ: // b < a and its negation
						out["cmp "+b+" < "+a]++
					default:
						if a > b {
							a, b = b, a
						}
						out["cmp "+a+" == "+b]++
					}
				}
			}
		}
		var visit func(n ast.Node) bool
		walkInto := func(n ast.Node, into bagT) {
			saved := out
			out = into
			ast.Inspect(n, visit)
			out = saved
		}
		visit = func(n ast.Node) bool {
			switch x := n.(type) {
			case *ast.FuncLit:
				return false // the leaf constructor differs by design
			case *ast.SwitchStmt:
				// a dispatch over the node kind executes one arm: the arms are merged by maximum,
				// so that four inlined arms and one call of the dispatching helper weigh the same
				if x.Tag == nil || m.KindType == nil || info.TypeOf(x.Tag) == nil || !types.Identical(info.TypeOf(x.Tag), m.KindType) {
					return true
				}
				merged := bagT{}
				var arms []bagT
				for _, cl := range x.Body.List {
					cc := cl.(*ast.CaseClause)
					arm := bagT{}
					for _, st := range cc.Body {
						walkInto(st, arm)
					}
					if cc.List != nil && !endsInPanic(info, cc.Body) {
						arms = append(arms, arm)
					}
					for k, v := range arm {
						if merged[k] < v {
							merged[k] = v
						}
					}
				}
				// the arms of one dispatch treat the descent position alike: a step that one arm
				// lacks (or takes the other way) is a difference of its own
				for k, v := range merged {
					if !strings.HasPrefix(k, "store depth") {
						continue
					}
					for _, arm := range arms {
						if arm[k] != v {
							out["non-uniform across the arms of a kind dispatch: "+k]++
						}
					}
				}
				for k, v := range merged {
					out[k] += v
				}
				return false
			case *ast.IfStmt:
				cmpToken(x.Cond)
			case *ast.ForStmt:
				if x.Cond != nil {
					cmpToken(x.Cond)
				}
			case *ast.CaseClause:
				// a tagless switch is an if-chain
				for _, e := range x.List {
					if t := info.TypeOf(e); t != nil {
						if b, ok := t.Underlying().(*types.Basic); ok && b.Info()&types.IsBoolean != 0 {
							cmpToken(e)
						}
					}
				}
			case *ast.CallExpr:
				if isConversion(info, x) {
					return true
				}
				name := m.calleeName(x)
				if strings.HasSuffix(name, ".Transform") || strings.HasSuffix(name, ".Restore") {
					return true
				}
				f := m.staticCallee(x)
				if f != nil && f.Pkg() == m.Pkg {
					tok := "call " + name
					if sig, ok := f.Type().(*types.Signature); ok && sig.Recv() != nil {
						if n := namedOf(sig.Recv().Type()); n != nil && (m.isLeafType(n) || m.treeByNamed(n) != nil) {
							tok = "call LEAF/TREE." + f.Name()
						} else if n != nil && m.kindByStruct(n) != nil {
							// the size class is the arm of a dispatch, not a difference
							tok = "call NODE." + f.Name()
						}
					}
					out[tok]++
					if cu := m.ByObj[f]; cu != nil && cu.Body != nil {
						calls[tok] = append(calls[tok], cu)
					}
				} else if isBuiltinCall(info, x, "copy") && len(x.Args) == 2 {
					out["call copy→"+storeTarget(u, x.Args[0])]++
				}
			case *ast.AssignStmt:
				for _, l := range x.Lhs {
					root, through := rootVar(info, l)
					isPos := false
					if id, ok := ast.Unparen(l).(*ast.Ident); ok && id.Name == "depth" && x.Tok != token.DEFINE {
						isPos = true
					}
					if through || isPos || (root != nil && m.isTreeRecv(root)) {
						op := ""
						if x.Tok != token.ASSIGN && x.Tok != token.DEFINE {
							op = " " + x.Tok.String()
						}
						out["store "+storeTarget(u, l)+op]++
					}
				}
			case *ast.IncDecStmt:
				root, through := rootVar(info, x.X)
				id, isId := ast.Unparen(x.X).(*ast.Ident)
				if through || (isId && id.Name == "depth") || (root != nil && m.isTreeRecv(root)) {
					out["store "+storeTarget(u, x.X)+" "+x.Tok.String()]++
				}
			}
			return true
		}
		ast.Inspect(u.Body, visit)
	}

	for _, mn := range []string{"Delete", "Insert", "Search", "Minimum", "Maximum", "All", "Backward", "TopK", "BottomK", "Size"} {
		cu, ru := coll.Methods[mn], ref.Methods[mn]
		if cu == nil || ru == nil {
			continue
		}
		a, b := bagT{}, bagT{}
		ca, cb := map[string][]*FuncUnit{}, map[string][]*FuncUnit{}
		bagOf(cu, a, ca)
		bagOf(ru, b, cb)
		// a call only one copy makes is replaced by what the callee does – when that brings the
		// copies closer (the callee makes calls the other copy has in surplus) or the callee makes
		// no library calls of its own
		for round := 0; round < 6; round++ {
			changed := false
			expand := func(x, y bagT, cx map[string][]*FuncUnit) {
				for _, tok := range sortedKeys(x) {
					n := x[tok]
					if !strings.HasPrefix(tok, "call ") || y[tok] >= n || len(cx[tok]) == 0 {
						continue
					}
					callee := cx[tok][0]
					sub, subCalls := bagT{}, map[string][]*FuncUnit{}
					bagOf(callee, sub, subCalls)
					helps, anyCall := false, false
					for st, sn := range sub {
						if strings.HasPrefix(st, "call ") {
							anyCall = true
						}
						if sn > 0 && y[st] > x[st] {
							helps = true
						}
					}
					if anyCall && !helps {
						continue
					}
					extra := n - y[tok]
					x[tok] -= extra
					if x[tok] == 0 {
						delete(x, tok)
					}
					for st, sn := range sub {
						x[st] += sn * extra
					}
					for st, us := range subCalls {
						cx[st] = append(cx[st], us...)
					}
					changed = true
				}
			}
			expand(a, b, ca)
			expand(b, a, cb)
			if !changed {
				break
			}
		}
		var onlyA, onlyB []string
		for s, n := range a {
			if b[s] < n {
				onlyA = append(onlyA, fmt.Sprintf("%q ×%d", s, n-b[s]))
			}
		}
		for s, n := range b {
			if a[s] < n {
				onlyB = append(onlyB, fmt.Sprintf("%q ×%d", s, n-a[s]))
			}
		}
		sort.Strings(onlyA)
		sort.Strings(onlyB)
		key := fmt.Sprintf("%s.%s agrees with its template sibling %s.%s", coll.Name, mn, ref.Name, mn)
		total := 0
		for _, n := range a {
			total += n
		}
		if len(onlyA) == 0 && len(onlyB) == 0 {
			c.r.ok("R36", key, m.pos(cu.Decl.Pos()), fmt.Sprintf("%d node-layer calls, tree/node stores and position comparisons agree (callee, store target, compared quantities and strictness); locals, conversions, statement form and helpers used by one copy only are looked through", total), "C08", "C09", "C01")
		} else {
			c.r.bad("R36", key, m.pos(cu.Decl.Pos()), fmt.Sprintf("the two copies of the algorithm disagree – only in %s: %s; only in the template instantiation: %s. One of them carries a slip (or was changed alone)", coll.File, joinShort(onlyA, 4), joinShort(onlyB, 4)), "C08", "C09", "C01")
		}
	}
}
