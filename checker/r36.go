package main

import (
	"fmt"
	"go/ast"
	"go/constant"
	"go/token"
	"go/types"
	"golang.org/x/tools/go/cfg"
	"regexp"
	"sort"
	"strings"
)

// R36 SIBLING (C08) – the hand-written collation copy of the tree algorithm agrees with the
// template instantiation it was copied from, as a multiset of
//
//	(a) calls into the tree/node layer (callee only),
//	(b) stores to node fields, tree fields, *ref and the descent position (target only),
//	(c) comparisons over positions and lengths (the quantities on each side, strictness kept).
//
// Locals defined once are replaced by their definition, conversions are dropped, and a call that
// only one copy makes is replaced by the callee's own bag (so extracting or inlining a helper in
// one copy alone is not a difference). A slip applied to one copy only – a dropped increment, a
// different helper, a guard with another strictness or another quantity – remains a difference.
type boundCall struct {
	u    *FuncUnit
	call *ast.CallExpr
}

func ruleR36(c *Ctx) {
	m := c.m
	var coll, ref *TreeKind
	for _, tk := range m.Trees {
		if isCollationKind(tk) {
			coll = tk
		}
		if isCompoundKind(tk) {
			ref = tk
		}
	}
	if coll == nil || ref == nil {
		c.r.undecided("R36", "sibling copies found", "-", "collation or compound tree kind not found", "C08", "C09", "C01")
		return
	}
	info := m.Info
	keyName := regexp.MustCompile(`^(colKey|keyS|rawKey|key|k|searchKey)$`)
	interesting := regexp.MustCompile(`prefixLen|childrenLen|depth|len\(|prefixDiff|maxPrefixLen`)

	type bagT map[string]int
	type boundArg struct {
		u *FuncUnit
		e ast.Expr
	}
	var binding map[*types.Var]boundArg // parameters of a helper being expanded → the caller's arguments
	firstCall := map[*FuncUnit]boundCall{}
	// atoms of an expression: the quantities it is computed from
	var atoms func(u *FuncUnit, e ast.Expr, out map[string]bool, depth int)
	atoms = func(u *FuncUnit, e ast.Expr, out map[string]bool, depth int) {
		if e == nil || depth > 8 {
			return
		}
		e = ast.Unparen(e)
		if tv, ok := info.Types[e]; ok && tv.Value != nil {
			if id, isId := e.(*ast.Ident); isId {
				out[id.Name] = true // named constant
			} else if _, isLit := e.(*ast.BasicLit); !isLit {
				out["const:"+tv.Value.ExactString()] = true
			} else {
				out[tv.Value.ExactString()] = true
			}
			return
		}
		switch x := e.(type) {
		case *ast.Ident:
			name := x.Name
			if v, _ := info.ObjectOf(x).(*types.Var); v != nil && binding != nil {
				if ba, ok := binding[v]; ok {
					saved := binding
					binding = nil
					atoms(ba.u, ba.e, out, depth+1)
					binding = saved
					return
				}
			}
			if keyName.MatchString(name) {
				out["KEY"] = true // however the key bytes were prepared (R08 compares that)
				return
			}
			if d := m.resolveLocal(u, x); d != nil {
				atoms(u, d, out, depth+1)
				return
			}
			// v := start; for ; v < n; v++ { if a[v] != b[v] { break } }: the match-length helper
			// written out in one copy – v is start + longestCommonPrefix(…)
			if v, _ := info.ObjectOf(x).(*types.Var); v != nil {
				if start := inlinedMatchLoop(info, u, v); start != nil {
					atoms(u, start, out, depth+1)
					out["longestCommonPrefix()"] = true
					return
				}
			}
			out[name] = true
		case *ast.SelectorExpr:
			if info.Selections[x] != nil {
				out["."+x.Sel.Name] = true
				return
			}
			out[x.Sel.Name] = true
		case *ast.BinaryExpr:
			atoms(u, x.X, out, depth+1)
			atoms(u, x.Y, out, depth+1)
		case *ast.UnaryExpr:
			atoms(u, x.X, out, depth+1)
		case *ast.StarExpr:
			atoms(u, x.X, out, depth+1)
		case *ast.IndexExpr:
			atoms(u, x.X, out, depth+1)
			atoms(u, x.Index, out, depth+1)
		case *ast.SliceExpr:
			atoms(u, x.X, out, depth+1)
			atoms(u, x.Low, out, depth+1)
			atoms(u, x.High, out, depth+1)
		case *ast.CallExpr:
			if isConversion(info, x) {
				for _, a := range x.Args {
					atoms(u, a, out, depth+1)
				}
				return
			}
			if isBuiltinCall(info, x, "len") && len(x.Args) == 1 {
				inner := map[string]bool{}
				atoms(u, x.Args[0], inner, depth+1)
				out["len("+strings.Join(sortedKeys(inner), "+")+")"] = true
				return
			}
			if isBuiltinCall(info, x, "min") || isBuiltinCall(info, x, "max") {
				for _, a := range x.Args {
					atoms(u, a, out, depth+1)
				}
				return
			}
			name := m.calleeName(x)
			if i := strings.LastIndex(name, "."); i >= 0 {
				name = name[i+1:]
			}
			if name == "getKey" || name == "getTransformKey" {
				name = "leafKey" // which of the two forms is read where is R02/R16's subject
			}
			out[name+"()"] = true
		}
	}
	side := func(u *FuncUnit, e ast.Expr) string {
		a := map[string]bool{}
		atoms(u, e, a, 0)
		return strings.Join(sortedKeys(a), "+")
	}
	storeTarget := func(u *FuncUnit, l ast.Expr) string {
		l = ast.Unparen(l)
		for {
			switch x := l.(type) {
			case *ast.IndexExpr:
				l = ast.Unparen(x.X)
				continue
			case *ast.SliceExpr:
				l = ast.Unparen(x.X)
				continue
			}
			break
		}
		switch x := l.(type) {
		case *ast.SelectorExpr:
			if root, _ := rootVar(info, x); root != nil && m.isTreeRecv(root) {
				if nn := namedOf(info.TypeOf(x)); nn != nil && m.NodeRef != nil && nn.Obj() == m.NodeRef.Obj() {
					return "*REF" // the root slot written directly instead of through ref = &t.root
				}
				return "t." + x.Sel.Name
			}
			return "." + x.Sel.Name
		case *ast.StarExpr:
			return "*REF"
		case *ast.Ident:
			return x.Name
		}
		return "?"
	}

	var bagOf func(u *FuncUnit, out bagT, calls map[string][]*FuncUnit)
	bagOf = func(u *FuncUnit, out bagT, calls map[string][]*FuncUnit) {
		var cmpToken func(e ast.Expr)
		cmpToken = func(e ast.Expr) {
			e = ast.Unparen(e)
			switch x := e.(type) {
			case *ast.UnaryExpr:
				if x.Op == token.NOT {
					cmpToken(x.X)
				}
			case *ast.Ident:
				if d := m.resolveLocal(u, x); d != nil {
					cmpToken(d)
				}
			case *ast.BinaryExpr:
				switch x.Op {
				case token.LAND, token.LOR:
					cmpToken(x.X)
					cmpToken(x.Y)
				case token.LSS, token.GEQ, token.GTR, token.LEQ, token.EQL, token.NEQ:
					if !interesting.MatchString(types.ExprString(x.X) + " " + types.ExprString(x.Y)) {
						return
					}
					a, b := side(u, x.X), side(u, x.Y)
					switch x.Op {
					case token.LSS, token.GEQ: // a < b and its negation
						out["cmp "+a+" < "+b]++
					case token.GTR, token.LEQ: // b < a and its negation
						out["cmp "+b+" < "+a]++
					default:
						if a > b {
							a, b = b, a
						}
						out["cmp "+a+" == "+b]++
					}
				}
			}
		}
		var visit func(n ast.Node) bool
		walkInto := func(n ast.Node, into bagT) {
			saved := out
			out = into
			ast.Inspect(n, visit)
			out = saved
		}
		visit = func(n ast.Node) bool {
			switch x := n.(type) {
			case *ast.FuncLit:
				return false // the leaf constructor differs by design
			case *ast.SwitchStmt:
				// a dispatch over the node kind executes one arm: the arms are merged by maximum,
				// so that four inlined arms and one call of the dispatching helper weigh the same
				if x.Tag == nil || m.KindType == nil || info.TypeOf(x.Tag) == nil || !types.Identical(info.TypeOf(x.Tag), m.KindType) {
					return true
				}
				innerArms := 0
				for _, cl := range x.Body.List {
					for _, e := range cl.(*ast.CaseClause).List {
						if tv, ok := info.Types[e]; ok && tv.Value != nil {
							if v, exact := constant.Int64Val(tv.Value); exact && m.kindByValue(v) != nil {
								innerArms++
							}
						}
					}
				}
				if innerArms < 2 {
					return true // a leaf test in switch form: its arms are an if/else
				}
				merged := bagT{}
				var arms []bagT
				for _, cl := range x.Body.List {
					cc := cl.(*ast.CaseClause)
					arm := bagT{}
					for _, st := range cc.Body {
						walkInto(st, arm)
					}
					if cc.List != nil && !endsInPanic(info, cc.Body) {
						arms = append(arms, arm)
					}
					for k, v := range arm {
						if merged[k] < v {
							merged[k] = v
						}
					}
				}
				// the arms of one dispatch treat the descent position alike: a step that one arm
				// lacks (or takes the other way) is a difference of its own
				for k, v := range merged {
					if !strings.HasPrefix(k, "store depth") {
						continue
					}
					for _, arm := range arms {
						if arm[k] != v {
							out["non-uniform across the arms of a kind dispatch: "+k]++
						}
					}
				}
				for k, v := range merged {
					out[k] += v
				}
				return false
			case *ast.IfStmt:
				cmpToken(x.Cond)
				// if … { A } else { B }: one of the two runs. What both do is counted once (so that
				// two arms that repeat a statement weigh the same as the statement moved behind the
				// if); what only one of them does is counted as it is
				if eb, ok := x.Else.(*ast.BlockStmt); ok && x.Init == nil {
					thenBag, elseBag := bagT{}, bagT{}
					walkInto(x.Body, thenBag)
					walkInto(eb, elseBag)
					for k, v := range thenBag {
						w := elseBag[k]
						out[k] += max(v, w)
					}
					for k, w := range elseBag {
						if _, both := thenBag[k]; !both {
							out[k] += w
						}
					}
					return false
				}
			case *ast.ForStmt:
				if x.Cond != nil {
					cmpToken(x.Cond)
				}
			case *ast.CaseClause:
				// a tagless switch is an if-chain
				for _, e := range x.List {
					if t := info.TypeOf(e); t != nil {
						if b, ok := t.Underlying().(*types.Basic); ok && b.Info()&types.IsBoolean != 0 {
							cmpToken(e)
						}
					}
				}
			case *ast.CallExpr:
				if isConversion(info, x) {
					return true
				}
				name := m.calleeName(x)
				if strings.HasSuffix(name, ".Transform") || strings.HasSuffix(name, ".Restore") {
					return true
				}
				f := m.staticCallee(x)
				if f != nil && u.Obj != nil && f == u.Obj && u.Type != nil && u.Type.Params != nil {
					// the descent written as a call of the function itself: the argument in the place
					// of the position parameter is the step of the position
					i := 0
					for _, fl := range u.Type.Params.List {
						for _, nm := range fl.Names {
							if nm.Name == "depth" && i < len(x.Args) {
								if be, ok := ast.Unparen(x.Args[i]).(*ast.BinaryExpr); ok && be.Op == token.ADD {
									if id, ok := ast.Unparen(be.X).(*ast.Ident); ok && id.Name == "depth" {
										if tv, has := info.Types[be.Y]; has && tv.Value != nil && tv.Value.ExactString() == "1" {
											out["store depth ++"]++
										} else {
											out["store depth +="]++
										}
									}
								}
							}
							i++
						}
					}
					return true
				}
				if f != nil && f.Pkg() == m.Pkg {
					tok := "call " + name
					if m.isRestoreCall(x) {
						tok = "call RESTORE"
					} else if sig, ok := f.Type().(*types.Signature); ok && sig.Recv() != nil {
						if n := namedOf(sig.Recv().Type()); n != nil && (m.isLeafType(n) || m.treeByNamed(n) != nil || (m.LeafConstraint != nil && n.Origin().Obj() == m.LeafConstraint.Obj())) {
							tok = "call LEAF/TREE." + f.Name()
						} else if n != nil && m.kindByStruct(n) != nil {
							// the size class is the arm of a dispatch, not a difference
							tok = "call NODE." + f.Name()
						}
					}
					out[tok]++
					if cu := m.ByObj[f]; cu != nil && cu.Body != nil {
						calls[tok] = append(calls[tok], cu)
						if _, seen := firstCall[cu]; !seen {
							firstCall[cu] = boundCall{u, x}
						}
					}
				} else if isBuiltinCall(info, x, "copy") && len(x.Args) == 2 {
					// copy(X.f[:], …) into the whole of an array field is a store of the field, as
					// X.f = … is (the two spellings differ in how much of a shorter source arrives,
					// which the comparison of targets does not look at)
					if se, ok := ast.Unparen(x.Args[0]).(*ast.SliceExpr); ok && se.Low == nil && se.High == nil {
						if _, isArr := info.TypeOf(se.X).Underlying().(*types.Array); isArr {
							out["store "+storeTarget(u, se.X)]++
							return true
						}
					}
					out["call copy→"+storeTarget(u, x.Args[0])]++
				}
			case *ast.AssignStmt:
				for _, l := range x.Lhs {
					root, through := rootVar(info, l)
					isPos := false
					if id, ok := ast.Unparen(l).(*ast.Ident); ok && id.Name == "depth" && x.Tok != token.DEFINE {
						isPos = true
					}
					if id, ok := ast.Unparen(l).(*ast.Ident); ok && id.Name == "depth" && x.Tok == token.DEFINE && len(x.Rhs) == len(x.Lhs) {
						if tv, has := info.Types[x.Rhs[0]]; has && tv.Value != nil {
							out["init depth "+tv.Value.ExactString()]++
						}
					}
					if through || isPos || (root != nil && m.isTreeRecv(root)) {
						op := ""
						if x.Tok != token.ASSIGN && x.Tok != token.DEFINE {
							op = " " + x.Tok.String()
						}
						out["store "+storeTarget(u, l)+op]++
					}
				}
			case *ast.IncDecStmt:
				root, through := rootVar(info, x.X)
				id, isId := ast.Unparen(x.X).(*ast.Ident)
				if through || (isId && id.Name == "depth") || (root != nil && m.isTreeRecv(root)) {
					out["store "+storeTarget(u, x.X)+" "+x.Tok.String()]++
				}
			}
			return true
		}
		ast.Inspect(u.Body, visit)
	}

	// ---- the same outcomes under the same conditions: every outcome of the algorithm (a constant
	// result, an unlink, a link, a size step, a value store) is labelled with the structural
	// conditions that dominate it – emptiness of a reference, the leaf tag, the full-key comparison,
	// position comparisons – with their polarity. Inverting a guard and swapping its branches keeps
	// the labels; negating a condition in one copy does not.
	refClass := func(t types.Type) string {
		if t == nil {
			return ""
		}
		if p, ok := t.Underlying().(*types.Pointer); ok {
			t = p.Elem()
		}
		if n := namedOf(t); n != nil && m.NodeRef != nil && n.Obj() == m.NodeRef.Obj() {
			return "REF"
		}
		return ""
	}
	var operand func(u *FuncUnit, e ast.Expr, depth int) string
	operand = func(u *FuncUnit, e ast.Expr, depth int) string {
		e = ast.Unparen(e)
		if depth > 6 {
			return "?"
		}
		if tv, ok := info.Types[e]; ok && tv.IsNil() {
			return "nil"
		}
		if cl := refClass(info.TypeOf(e)); cl != "" {
			// which reference: the tree's root field, the slot being descended through, the
			// cursor copy, or a child just looked up
			switch x := e.(type) {
			case *ast.SelectorExpr:
				if rv, _ := rootVar(info, x); rv != nil && m.isTreeRecv(rv) {
					return "ROOT"
				}
			case *ast.StarExpr:
				return operand(u, x.X, depth+1)
			case *ast.Ident:
				if v, _ := info.ObjectOf(x).(*types.Var); v != nil {
					if _, isPtr := v.Type().Underlying().(*types.Pointer); isPtr {
						if dc := c.defCallOf(u, v); dc != nil {
							return "CHILD"
						}
						return "SLOT"
					}
					return "CUR"
				}
			}
			return cl
		}
		switch x := e.(type) {
		case *ast.Ident:
			if tv, ok := info.Types[e]; ok && tv.Value != nil {
				return x.Name
			}
			if d := m.resolveLocal(u, x); d != nil {
				return operand(u, d, depth+1)
			}
			if t := info.TypeOf(e); t != nil {
				if _, isPtr := t.Underlying().(*types.Pointer); isPtr {
					return "PTR"
				}
			}
			return x.Name
		case *ast.SelectorExpr:
			if info.Selections[x] != nil {
				return operand(u, x.X, depth+1) + "." + x.Sel.Name
			}
			return x.Sel.Name
		case *ast.StarExpr:
			return operand(u, x.X, depth+1)
		case *ast.CallExpr:
			if isConversion(info, x) && len(x.Args) == 1 {
				return operand(u, x.Args[0], depth+1)
			}
			return "call"
		}
		return "?"
	}
	negOp := map[token.Token]token.Token{token.EQL: token.NEQ, token.NEQ: token.EQL, token.LSS: token.GEQ, token.GEQ: token.LSS, token.GTR: token.LEQ, token.LEQ: token.GTR}
	caseTagOf := map[ast.Expr]ast.Expr{}
	for _, u := range m.Units {
		if u.Body == nil || u.Lit != nil {
			continue
		}
		ast.Inspect(u.Body, func(n ast.Node) bool {
			if sw, ok := n.(*ast.SwitchStmt); ok && sw.Tag != nil {
				for _, cl := range sw.Body.List {
					for _, e := range cl.(*ast.CaseClause).List {
						caseTagOf[e] = sw.Tag
					}
				}
			}
			return true
		})
	}
	atomText := func(u *FuncUnit, gd guard) string {
		if tag, ok := caseTagOf[gd.atom.e]; ok {
			l, r := operand(u, tag, 0), operand(u, gd.atom.e, 0)
			if strings.HasSuffix(l, ".tag") && r == m.LeafKind.Name {
				op := "=="
				if !gd.atom.val {
					op = "!="
				}
				return l + " " + op + " " + r
			}
			return ""
		}
		if len(c.resolveEq(u, gd.atom.e, gd.atom.val, 0)) > 0 {
			return "KEY-EQUAL"
		}
		if len(c.resolveEq(u, gd.atom.e, !gd.atom.val, 0)) > 0 {
			return "KEY-DIFFERENT"
		}
		be, ok := ast.Unparen(m.throughLocals(u, gd.atom.e)).(*ast.BinaryExpr)
		if !ok {
			return ""
		}
		op := be.Op
		if _, known := negOp[op]; !known {
			return ""
		}
		if !gd.atom.val {
			op = negOp[op]
		}
		l, r := operand(u, be.X, 0), operand(u, be.Y, 0)
		switch {
		case (op == token.EQL || op == token.NEQ) && (l == "nil" || r == "nil" || strings.HasSuffix(l, ".tag") || strings.HasSuffix(r, ".tag")):
			if l == "nil" || (r != "nil" && l > r) {
				l, r = r, l
			}
			return l + " " + op.String() + " " + r
		case interesting.MatchString(types.ExprString(be.X) + " " + types.ExprString(be.Y)):
			a, b := side(u, be.X), side(u, be.Y)
			switch op {
			case token.GTR:
				return b + " < " + a
			case token.GEQ:
				return b + " <= " + a
			case token.EQL, token.NEQ:
				if a > b {
					a, b = b, a
				}
			}
			return a + " " + op.String() + " " + b
		}
		return ""
	}
	// countedBy: u is a helper whose boolean result makes its (only) caller step the size counter
	// (`if t.insert(…) { t.size++ }`): its `return true` is the size step
	countedBy := func(tk *TreeKind, u *FuncUnit) string {
		sizeField := c.sizeField(tk)
		for _, s := range c.callSitesOf(u) {
			if s.u.Recv != tk.Name || s.u == u {
				continue
			}
			found := ""
			stepOf := func(st ast.Stmt) string {
				if inc, ok := st.(*ast.IncDecStmt); ok && isFieldOf(info, inc.X, sizeField) {
					return "size" + inc.Tok.String()
				}
				return ""
			}
			ast.Inspect(s.u.Body, func(n ast.Node) bool {
				blk, ok := n.(*ast.BlockStmt)
				if !ok {
					return true
				}
				for i, st := range blk.List {
					ifs, ok := st.(*ast.IfStmt)
					if !ok {
						continue
					}
					cond := ast.Unparen(ifs.Cond)
					// if helper(…) { size±± }
					if cond == ast.Expr(s.call) {
						for _, b := range ifs.Body.List {
							if ev := stepOf(b); ev != "" {
								found = ev
							}
						}
					}
					// if !helper(…) { return … }; size±±
					if ue, ok := cond.(*ast.UnaryExpr); ok && ue.Op == token.NOT && ast.Unparen(ue.X) == ast.Expr(s.call) && ifs.Else == nil && len(ifs.Body.List) == 1 {
						if _, isRet := ifs.Body.List[0].(*ast.ReturnStmt); isRet && i+1 < len(blk.List) {
							if ev := stepOf(blk.List[i+1]); ev != "" {
								found = ev
								// … ; return true: the helper's true is the caller's true as well
								if i+2 < len(blk.List) {
									if rs, ok := blk.List[i+2].(*ast.ReturnStmt); ok && len(rs.Results) == 1 && isConstBool(info, rs.Results[0], true) {
										found = ev + "|return true"
									}
								}
							}
						}
					}
				}
				return true
			})
			if found != "" {
				return found
			}
		}
		return ""
	}
	var outcomesRec func(tk *TreeKind, u *FuncUnit, depth int) bagT
	outcomes := func(tk *TreeKind, u *FuncUnit) bagT { return outcomesRec(tk, u, 0) }
	outcomesRec = func(tk *TreeKind, u *FuncUnit, depth int) bagT {
		out := bagT{}
		counted := countedBy(tk, u)
		g := m.cfgOf(u)
		guards := guardsOf(info, g)
		// the case comparisons of a tagged switch are guards too
		for _, b := range g.Blocks {
			if !b.Live || len(b.Succs) != 2 || len(b.Nodes) == 0 {
				continue
			}
			if e, ok := b.Nodes[len(b.Nodes)-1].(ast.Expr); ok {
				if _, isCase := caseTagOf[e]; isCase {
					guards = append(guards, guard{b, 0, atomCond{e, true}}, guard{b, 1, atomCond{e, false}})
				}
			}
		}
		sizeField := c.sizeField(tk)
		label := func(b *cfg.Block) string {
			set := map[string]bool{}
			for _, gd := range guards {
				if !edgeDominates(g, gd.b, gd.succ, b) {
					continue
				}
				if a := atomText(u, gd); a != "" {
					set[a] = true
				}
			}
			return strings.Join(sortedKeys(set), " & ")
		}
		for _, b := range g.Blocks {
			if !b.Live {
				continue
			}
			for _, n := range b.Nodes {
				ev := ""
				switch x := n.(type) {
				case *ast.ReturnStmt:
					var parts []string
					for _, r := range x.Results {
						if tv, ok := info.Types[r]; ok && tv.Value != nil {
							parts = append(parts, tv.Value.ExactString())
						} else {
							parts = append(parts, "_")
						}
					}
					if len(parts) > 0 && parts[len(parts)-1] != "_" {
						ev = "return " + strings.Join(parts, ",")
					}
					if counted != "" && len(parts) == 1 {
						switch parts[0] {
						case "true":
							ev = counted
						case "false":
							ev = ""
						}
					}
				case *ast.IncDecStmt:
					if isFieldOf(info, x.X, sizeField) {
						ev = "size" + x.Tok.String()
					}
				case *ast.AssignStmt:
					if len(x.Lhs) == 1 && len(x.Rhs) == 1 {
						if c.isEmptyRefLit(x.Rhs[0]) {
							ev = "unlink"
						} else if sel, ok := ast.Unparen(x.Lhs[0]).(*ast.SelectorExpr); ok && sel.Sel.Name == "value" {
							ev = "value store"
						}
					}
					// val, found = leaf.value, true with `return val, found` as the single exit: the
					// place that sets the flag is where the "found" answer is decided
					if len(x.Lhs) == len(x.Rhs) && x.Tok == token.ASSIGN {
						for i, l := range x.Lhs {
							fv := identVar(info, l)
							if fv == nil || !isConstBool(info, x.Rhs[i], true) || !resultFlag(info, u, fv) {
								continue
							}
							nres := 0
							if u.Type.Results != nil {
								nres = u.Type.Results.NumFields()
							}
							parts := make([]string, nres)
							for k := range parts {
								parts[k] = "_"
							}
							if nres > 0 {
								parts[nres-1] = "true"
								ev = "return " + strings.Join(parts, ",")
							}
						}
					}
				case *ast.ExprStmt:
					if call, ok := x.X.(*ast.CallExpr); ok {
						name := m.calleeName(call)
						if strings.HasSuffix(name, ".deleteChild") || strings.HasSuffix(name, ".addChild") {
							ev = "call " + name[strings.LastIndex(name, ".")+1:]
						} else if hu := m.calleeUnit(call); hu != nil && hu != u && hu.Body != nil && (hu.Recv == tk.Name || (hu.Recv == "" && c.takesSlot(hu))) && depth < 2 {
							// a step of the algorithm extracted into a method of the same tree: its
							// outcomes happen under the conditions of the call as well
							here := label(b)
							for k, n := range outcomesRec(tk, hu, depth+1) {
								i := strings.Index(k, " when ")
								set := map[string]bool{}
								for _, at := range strings.Split(here+" & "+k[i+6:], " & ") {
									if at != "" {
										set[at] = true
									}
								}
								out[k[:i]+" when "+strings.Join(sortedKeys(set), " & ")] += n
							}
						}
					}
				}
				if ev != "" {
					for _, one := range strings.Split(ev, "|") {
						out[one+" when "+label(b)]++
					}
				}
			}
		}
		return out
	}
	for _, mn := range []string{"Delete", "Search", "Insert"} {
		cu, ru := m.algorithmUnit(coll, mn), m.algorithmUnit(ref, mn)
		if cu == nil || ru == nil {
			continue
		}
		a, b := outcomes(coll, cu), outcomes(ref, ru)
		var onlyA, onlyB []string
		negative := func(s string) bool {
			return strings.HasPrefix(s, "return false") || strings.HasPrefix(s, "return _,false")
		}
		split := func(s string) (ev string, atoms []string) {
			i := strings.Index(s, " when ")
			if i < 0 {
				return s, nil
			}
			ev = s[:i]
			for _, at := range strings.Split(s[i+6:], " & ") {
				if at != "" {
					atoms = append(atoms, at)
				}
			}
			return
		}
		// contradicts: the two atoms cannot hold together
		contradicts := func(x, y string) bool {
			if (x == "KEY-EQUAL" && y == "KEY-DIFFERENT") || (x == "KEY-DIFFERENT" && y == "KEY-EQUAL") {
				return true
			}
			parse := func(s string) (l, op, r string, ok bool) {
				for _, o := range []string{" == ", " != ", " <= ", " < "} {
					if i := strings.Index(s, o); i >= 0 {
						return s[:i], strings.TrimSpace(o), s[i+len(o):], true
					}
				}
				return
			}
			l1, o1, r1, ok1 := parse(x)
			l2, o2, r2, ok2 := parse(y)
			if !ok1 || !ok2 {
				return false
			}
			same := l1 == l2 && r1 == r2
			swapped := l1 == r2 && r1 == l2
			switch {
			case (same || swapped) && ((o1 == "==" && o2 == "!=") || (o1 == "!=" && o2 == "==")):
				return true
			case swapped && ((o1 == "<" && (o2 == "<" || o2 == "<=")) || (o1 == "<=" && o2 == "<")):
				return true
			case (same || swapped) && ((o1 == "==" && o2 == "<") || (o1 == "<" && o2 == "==")):
				return true
			}
			return false
		}
		// references are named by their type only, so one label can hold a condition on the cursor
		// and the opposite condition on its child: such pairs say nothing and are dropped
		unambiguous := func(x []string) []string {
			var out []string
			for _, p := range x {
				amb := false
				for _, q := range x {
					if contradicts(p, q) {
						amb = true
					}
				}
				if !amb {
					out = append(out, p)
				}
			}
			return out
		}
		compatible := func(x, y []string) bool {
			x, y = unambiguous(x), unambiguous(y)
			for _, p := range x {
				for _, q := range y {
					if contradicts(p, q) {
						return false
					}
				}
			}
			return true
		}
		// effectful outcomes and positive results: the two copies have the same outcomes, and each
		// outcome of one copy is matched by one of the other that is reached under conditions that
		// do not contradict its own (a copy may spell a condition out that the other one implies)
		type occ struct {
			ev    string
			atoms []string
			full  string
		}
		expand := func(x bagT) map[string][]occ {
			out := map[string][]occ{}
			for _, s := range sortedKeys(x) {
				if negative(s) {
					continue
				}
				ev, atoms := split(s)
				// the same outcome under the very same conditions counts once: whether two arms that
				// the tracked conditions do not tell apart both have it, or the statement follows the
				// arms, is a matter of form (how often a path has it is R03/R04's business)
				out[ev] = append(out[ev], occ{ev, atoms, s})
			}
			return out
		}
		ea, eb := expand(a), expand(b)
		evs := map[string]bool{}
		for ev := range ea {
			evs[ev] = true
		}
		for ev := range eb {
			evs[ev] = true
		}
		for _, ev := range sortedKeys(evs) {
			xs, ys := ea[ev], eb[ev]
			// every outcome of one copy has a counterpart in the other whose conditions do not
			// contradict its own (how many times a path has an outcome is R03/R04's business; two
			// arms that the tracked conditions do not tell apart may be one statement in the other copy)
			for i := range xs {
				found := false
				for j := range ys {
					if compatible(xs[i].atoms, ys[j].atoms) {
						found = true
					}
				}
				if !found {
					onlyA = append(onlyA, fmt.Sprintf("%q", xs[i].full))
				}
			}
			for j := range ys {
				found := false
				for i := range xs {
					if compatible(xs[i].atoms, ys[j].atoms) {
						found = true
					}
				}
				if !found {
					onlyB = append(onlyB, fmt.Sprintf("%q", ys[j].full))
				}
			}
		}
		// "absent" answers: where they are given depends on the statement form (an early return,
		// a break to a common exit, a guard folded into the loop header), so only the conditions
		// themselves are compared – a condition under which only one copy answers "absent" must
		// not be the negation of a condition under which only the other one does
		negAtoms := func(x bagT) map[string]bool {
			out := map[string]bool{}
			for s := range x {
				if !negative(s) {
					continue
				}
				_, atoms := split(s)
				for _, at := range atoms {
					out[at] = true
				}
			}
			return out
		}
		na, nb := negAtoms(a), negAtoms(b)
		for _, x := range sortedKeys(na) {
			if nb[x] {
				continue
			}
			for _, y := range sortedKeys(nb) {
				if na[y] || !contradicts(x, y) {
					continue
				}
				onlyA = append(onlyA, fmt.Sprintf("answers absent under %q", x))
				onlyB = append(onlyB, fmt.Sprintf("answers absent under %q", y))
			}
		}
		sort.Strings(onlyA)
		sort.Strings(onlyB)
		key := fmt.Sprintf("%s.%s has the same outcomes under the same conditions as %s.%s", coll.Name, mn, ref.Name, mn)
		if len(onlyA) == 0 && len(onlyB) == 0 {
			total := 0
			for _, n := range a {
				total += n
			}
			c.r.ok("R36", key, m.pos(cu.Decl.Pos()), fmt.Sprintf("%d outcomes (constant results, links, unlinks, size steps, value stores) are dominated by the same emptiness, tag, key-equality and position conditions in both copies", total), "C08", "C09", "C01")
		} else {
			c.r.bad("R36", key, m.pos(cu.Decl.Pos()), fmt.Sprintf("an outcome is reached under different conditions in the two copies – only in %s: %s; only in the template instantiation: %s", coll.File, joinShort(onlyA, 3), joinShort(onlyB, 3)), "C08", "C09", "C01")
		}
	}
	for _, mn := range []string{"Delete", "Insert", "Search", "Minimum", "Maximum", "All", "Backward", "TopK", "BottomK", "Size"} {
		cu, ru := coll.Methods[mn], ref.Methods[mn]
		if cu == nil || ru == nil {
			continue
		}
		a, b := bagT{}, bagT{}
		ca, cb := map[string][]*FuncUnit{}, map[string][]*FuncUnit{}
		bagOf(cu, a, ca)
		bagOf(ru, b, cb)
		// a call only one copy makes is replaced by what the callee does – when that brings the
		// copies closer (the callee makes calls the other copy has in surplus) or the callee makes
		// no library calls of its own
		leavesOnly := false // second phase: callees that make no library calls of their own (accessors)
		for round := 0; round < 8; round++ {
			changed := false
			expand := func(x, y bagT, cx map[string][]*FuncUnit) {
				for _, tok := range sortedKeys(x) {
					n := x[tok]
					if !strings.HasPrefix(tok, "call ") || y[tok] >= n || len(cx[tok]) == 0 {
						continue
					}
					callee := cx[tok][0]
					sub, subCalls := bagT{}, map[string][]*FuncUnit{}
					if fc, ok := firstCall[callee]; ok && callee.Type != nil && callee.Type.Params != nil {
						binding = map[*types.Var]boundArg{}
						recursive := false
						if callee.Obj != nil {
							ast.Inspect(callee.Body, func(z ast.Node) bool {
								if cc, ok := z.(*ast.CallExpr); ok && m.staticCallee(cc) == callee.Obj {
									recursive = true
								}
								return !recursive
							})
						}
						i := 0
						for _, f := range callee.Type.Params.List {
							for _, nm := range f.Names {
								if v, _ := info.Defs[nm].(*types.Var); v != nil && i < len(fc.call.Args) {
									if recursive && nm.Name == "depth" {
										// the position of a recursive descent starts at the outer
										// argument and is stepped by the inner calls: a variable, not
										// the constant of the first call
										if tv, has := info.Types[fc.call.Args[i]]; has && tv.Value != nil {
											sub["init depth "+tv.Value.ExactString()]++
										}
										i++
										continue
									}
									binding[v] = boundArg{fc.u, fc.call.Args[i]}
								}
								i++
							}
						}
					}
					bagOf(callee, sub, subCalls)
					binding = nil
					helps, anyCall := false, false
					for st, sn := range sub {
						if strings.HasPrefix(st, "call ") {
							anyCall = true
						}
						if sn > 0 && y[st] > x[st] {
							helps = true
						}
					}
					if anyCall && !helps {
						continue
					}
					// helpers that structure the algorithm are expanded first on both sides; an
					// accessor (no calls of its own) only when a difference is still left then –
					// otherwise leaf.getKey() on one side would be dissolved before the other side's
					// helper that makes the same call has been opened
					if !anyCall && !leavesOnly {
						continue
					}
					extra := n - y[tok]
					x[tok] -= extra
					if x[tok] == 0 {
						delete(x, tok)
					}
					for st, sn := range sub {
						x[st] += sn * extra
					}
					for st, us := range subCalls {
						cx[st] = append(cx[st], us...)
					}
					changed = true
				}
			}
			expand(a, b, ca)
			expand(b, a, cb)
			if !changed {
				if leavesOnly {
					break
				}
				leavesOnly = true
			}
		}
		// how often the counter is stepped in the text depends on where the counting is done (on
		// every path, or once in a wrapper around a helper that reports whether a key was added):
		// the pairing of links and steps per path is R03's subject, here only presence counts
		for _, x := range []bagT{a, b} {
			for s, n := range x {
				if strings.HasPrefix(s, "store t.") && n > 1 {
					x[s] = 1
				}
			}
		}
		var onlyA, onlyB []string
		for s, n := range a {
			if b[s] < n {
				onlyA = append(onlyA, fmt.Sprintf("%q ×%d", s, n-b[s]))
			}
		}
		for s, n := range b {
			if a[s] < n {
				onlyB = append(onlyB, fmt.Sprintf("%q ×%d", s, n-a[s]))
			}
		}
		// guards that only one copy spells out (a redundant test dropped, a comparison moved into a
		// helper of the standard library) are not a difference by themselves; a guard that differs
		// shows up on both sides
		cmpOnly := func(xs []string) bool {
			for _, x := range xs {
				if !strings.HasPrefix(x, "\"cmp ") {
					return false
				}
			}
			return true
		}
		if len(onlyA) == 0 && cmpOnly(onlyB) {
			onlyB = nil
		} else if len(onlyB) == 0 && cmpOnly(onlyA) {
			onlyA = nil
		}
		sort.Strings(onlyA)
		sort.Strings(onlyB)
		key := fmt.Sprintf("%s.%s agrees with its template sibling %s.%s", coll.Name, mn, ref.Name, mn)
		total := 0
		for _, n := range a {
			total += n
		}
		if len(onlyA) == 0 && len(onlyB) == 0 {
			c.r.ok("R36", key, m.pos(cu.Decl.Pos()), fmt.Sprintf("%d node-layer calls, tree/node stores and position comparisons agree (callee, store target, compared quantities and strictness); locals, conversions, statement form and helpers used by one copy only are looked through", total), "C08", "C09", "C01")
		} else {
			c.r.bad("R36", key, m.pos(cu.Decl.Pos()), fmt.Sprintf("the two copies of the algorithm disagree – only in %s: %s; only in the template instantiation: %s. One of them carries a slip (or was changed alone)", coll.File, joinShort(onlyA, 4), joinShort(onlyB, 4)), "C08", "C09", "C01")
		}
	}
}

// inlinedMatchLoop: the local v is defined once from an expression and otherwise only stepped by
// the post statement of a loop whose body leaves the loop at the first position where two byte
// strings differ (`if a[v] != b[v] { break }`): returns the expression v starts from.
func inlinedMatchLoop(info *types.Info, u *FuncUnit, v *types.Var) ast.Expr {
	if u.Body == nil {
		return nil
	}
	var start ast.Expr
	nDefs, nSteps, okShape := 0, 0, true
	ast.Inspect(u.Body, func(n ast.Node) bool {
		switch x := n.(type) {
		case *ast.AssignStmt:
			for i, l := range x.Lhs {
				if identVar(info, l) != v {
					continue
				}
				if (x.Tok == token.DEFINE || x.Tok == token.ASSIGN) && len(x.Lhs) == len(x.Rhs) {
					nDefs++
					start = x.Rhs[i]
				} else {
					okShape = false
				}
			}
		case *ast.IncDecStmt:
			if identVar(info, x.X) == v {
				okShape = false // counted below when it is the post statement of the loop
			}
		case *ast.ForStmt:
			post, isInc := x.Post.(*ast.IncDecStmt)
			if !isInc || post.Tok != token.INC || identVar(info, post.X) != v {
				return true
			}
			// body: if a[v] != b[v] { break }
			if len(x.Body.List) != 1 {
				okShape = false
				return true
			}
			is, isIf := x.Body.List[0].(*ast.IfStmt)
			if !isIf || is.Else != nil || is.Init != nil || len(is.Body.List) != 1 {
				okShape = false
				return true
			}
			br, isBr := is.Body.List[0].(*ast.BranchStmt)
			be, isBe := ast.Unparen(is.Cond).(*ast.BinaryExpr)
			if !isBr || br.Tok != token.BREAK || !isBe || be.Op != token.NEQ {
				okShape = false
				return true
			}
			ix, okX := ast.Unparen(be.X).(*ast.IndexExpr)
			iy, okY := ast.Unparen(be.Y).(*ast.IndexExpr)
			if !okX || !okY || identVar(info, ix.Index) != v || identVar(info, iy.Index) != v {
				okShape = false
				return true
			}
			nSteps++
			// the post statement itself is not a stray step
			okSaved := okShape
			ast.Inspect(x.Body, func(z ast.Node) bool {
				if id, ok := z.(*ast.IncDecStmt); ok && identVar(info, id.X) == v {
					okSaved = false
				}
				return true
			})
			okShape = okSaved
			// for v := start; …: the definition sits in the loop header
			if as, isAs := x.Init.(*ast.AssignStmt); isAs && len(as.Lhs) == len(as.Rhs) {
				for i, l := range as.Lhs {
					if identVar(info, l) == v {
						nDefs++
						start = as.Rhs[i]
					}
				}
			}
			return false // the post statement is not a stray step
		}
		return true
	})
	if okShape && nDefs == 1 && nSteps == 1 && start != nil {
		return start
	}
	return nil
}

// resultFlag: fv is a boolean local of u that is only ever assigned constants and is the last
// result of a return statement of u.
func resultFlag(info *types.Info, u *FuncUnit, fv *types.Var) bool {
	if b, ok := fv.Type().Underlying().(*types.Basic); !ok || b.Kind() != types.Bool || u.Body == nil {
		return false
	}
	onlyConst, returned := true, false
	ast.Inspect(u.Body, func(n ast.Node) bool {
		switch x := n.(type) {
		case *ast.AssignStmt:
			if len(x.Lhs) != len(x.Rhs) {
				for _, l := range x.Lhs {
					if identVar(info, l) == fv {
						onlyConst = false
					}
				}
				return true
			}
			for i, l := range x.Lhs {
				if identVar(info, l) == fv && !isConstBool(info, x.Rhs[i], true) && !isConstBool(info, x.Rhs[i], false) {
					onlyConst = false
				}
			}
		case *ast.ReturnStmt:
			if k := len(x.Results); k > 0 && identVar(info, ast.Unparen(x.Results[k-1])) == fv {
				returned = true
			}
		}
		return true
	})
	return onlyConst && returned
}
