package main

import (
	"fmt"
	"go/ast"
	"go/token"
	"go/types"
	"strings"

	"golang.org/x/tools/go/cfg"
)

// R47 LANESTORE (C11, C10, C01, C02) – a store of one key byte into a lane of a packed key word
// (w |= T(b) << s) replaces the lane: on every path it is preceded by the clearing of the same
// lane (w &= ^(M << s), w &^= M << s) or done in one expression (w = w&^(M<<s) | T(b)<<s).
// The removal side (the shift of the upper lanes down by one) leaves the former top lane as it
// was, so a lane beyond the fill count is not known to be zero; OR-ing into it registers the
// child under stale|new, a byte its keys do not contain.
func ruleR47(c *Ctx) {
	m := c.m
	info := m.Info
	props := []string{"C11", "C10", "C01", "C02"}
	n := 0
	isWord := func(t types.Type) bool {
		b, ok := t.Underlying().(*types.Basic)
		return ok && (b.Kind() == types.Uint32 || b.Kind() == types.Uint64 || b.Kind() == types.Uint)
	}
	isByteT := func(t types.Type) bool {
		b, ok := t.Underlying().(*types.Basic)
		return ok && (b.Kind() == types.Uint8 || b.Kind() == types.Byte)
	}
	for _, u := range c.sortedUnits() {
		if u.Body == nil || u.Lit != nil {
			continue
		}
		shiftText := func(e ast.Expr) string {
			// the shift amount with single-definition locals substituted (bitPos := pos << 3)
			var sub func(e ast.Expr, d int) string
			sub = func(e ast.Expr, d int) string {
				e = ast.Unparen(e)
				switch x := e.(type) {
				case *ast.Ident:
					if d < 4 {
						if def := m.resolveLocal(u, x); def != nil {
							return sub(def, d+1)
						}
					}
					return x.Name
				case *ast.BinaryExpr:
					return "(" + sub(x.X, d) + x.Op.String() + sub(x.Y, d) + ")"
				case *ast.CallExpr:
					if isConversion(info, x) && len(x.Args) == 1 {
						return sub(x.Args[0], d)
					}
				case *ast.BasicLit:
					return x.Value
				}
				if tv, ok := info.Types[e]; ok && tv.Value != nil {
					return tv.Value.ExactString()
				}
				return exprText(e)
			}
			return sub(e, 0)
		}
		// laneVal: T(b) << s with b of byte type; returns s
		laneVal := func(e ast.Expr) (ast.Expr, bool) {
			be, ok := ast.Unparen(e).(*ast.BinaryExpr)
			if !ok || be.Op != token.SHL {
				return nil, false
			}
			x := ast.Unparen(be.X)
			for {
				call, ok := x.(*ast.CallExpr)
				if !ok || !isConversion(info, call) || len(call.Args) != 1 {
					break
				}
				x = ast.Unparen(call.Args[0])
			}
			if t := info.TypeOf(x); t == nil || !isByteT(t) {
				return nil, false
			}
			if tv, ok := info.Types[x]; ok && tv.Value != nil {
				return nil, false // a constant mask, not a key byte
			}
			return be.Y, true
		}
		// maskOf: ^(M << s) (complement form) or M << s (for &^): returns s
		shiftOf := func(e ast.Expr) (ast.Expr, bool) {
			e = ast.Unparen(m.throughLocals(u, e))
			for {
				call, ok := e.(*ast.CallExpr)
				if !ok || !isConversion(info, call) || len(call.Args) != 1 {
					break
				}
				e = ast.Unparen(call.Args[0])
			}
			be, ok := e.(*ast.BinaryExpr)
			if !ok || be.Op != token.SHL {
				return nil, false
			}
			if tv, ok := info.Types[be.X]; !ok || tv.Value == nil {
				return nil, false
			}
			return be.Y, true
		}
		complShift := func(e ast.Expr) (ast.Expr, bool) {
			e = ast.Unparen(m.throughLocals(u, e))
			if ue, ok := e.(*ast.UnaryExpr); ok && ue.Op == token.XOR {
				return shiftOf(ue.X)
			}
			return nil, false
		}
		// clearsIn: e contains  W &^ (M<<s)  or  W & ^(M<<s)  for the word W
		var clearsIn func(e ast.Expr, w string) (string, bool)
		clearsIn = func(e ast.Expr, w string) (string, bool) {
			be, ok := ast.Unparen(e).(*ast.BinaryExpr)
			if !ok {
				return "", false
			}
			if be.Op == token.AND_NOT && exprText(be.X) == w {
				if s, ok := shiftOf(be.Y); ok {
					return shiftText(s), true
				}
			}
			if be.Op == token.AND {
				for _, pr := range [][2]ast.Expr{{be.X, be.Y}, {be.Y, be.X}} {
					if exprText(pr[0]) == w {
						if s, ok := complShift(pr[1]); ok {
							return shiftText(s), true
						}
					}
				}
			}
			if be.Op == token.OR {
				if s, ok := clearsIn(be.X, w); ok {
					return s, true
				}
				return clearsIn(be.Y, w)
			}
			return "", false
		}
		// clearStmt: statement clears lane s of word w
		clearStmt := func(nd ast.Node) (w, s string, ok bool) {
			as, isAs := nd.(*ast.AssignStmt)
			if !isAs || len(as.Lhs) != 1 || len(as.Rhs) != 1 {
				return
			}
			w = exprText(as.Lhs[0])
			switch as.Tok {
			case token.AND_ASSIGN:
				if sh, ok2 := complShift(as.Rhs[0]); ok2 {
					return w, shiftText(sh), true
				}
			case token.AND_NOT_ASSIGN:
				if sh, ok2 := shiftOf(as.Rhs[0]); ok2 {
					return w, shiftText(sh), true
				}
			case token.ASSIGN:
				if st, ok2 := clearsIn(as.Rhs[0], w); ok2 {
					if _, isOr := ast.Unparen(as.Rhs[0]).(*ast.BinaryExpr); isOr {
						return w, st, true
					}
				}
			}
			return
		}
		type store struct {
			as   *ast.AssignStmt
			w, s string
		}
		var stores []store
		ast.Inspect(u.Body, func(x ast.Node) bool {
			if _, isLit := x.(*ast.FuncLit); isLit {
				return false
			}
			as, ok := x.(*ast.AssignStmt)
			if !ok || len(as.Lhs) != 1 || len(as.Rhs) != 1 {
				return true
			}
			if t := info.TypeOf(as.Lhs[0]); t == nil || !isWord(t) {
				return true
			}
			w := exprText(as.Lhs[0])
			switch as.Tok {
			case token.OR_ASSIGN:
				if s, ok := laneVal(as.Rhs[0]); ok {
					stores = append(stores, store{as, w, shiftText(s)})
				}
			case token.ASSIGN:
				// w = <…w…> | T(b)<<s
				var ors []ast.Expr
				var flat func(e ast.Expr)
				flat = func(e ast.Expr) {
					if be, ok := ast.Unparen(e).(*ast.BinaryExpr); ok && be.Op == token.OR {
						flat(be.X)
						flat(be.Y)
						return
					}
					ors = append(ors, e)
				}
				flat(as.Rhs[0])
				if len(ors) < 2 {
					return true
				}
				readsW := false
				for _, o := range ors {
					ast.Inspect(o, func(z ast.Node) bool {
						if e, ok := z.(ast.Expr); ok && exprText(e) == w {
							readsW = true
						}
						return true
					})
				}
				if !readsW {
					return true
				}
				for _, o := range ors {
					if s, ok := laneVal(o); ok {
						stores = append(stores, store{as, w, shiftText(s)})
					}
				}
			}
			return true
		})
		if len(stores) == 0 {
			continue
		}
		g := m.cfgOf(u)
		for _, st := range stores {
			n++
			key := fmt.Sprintf("%s stores a key byte into lane %s of %s as a replacement", u.Name, st.s, st.w)
			// same expression?
			if st.as.Tok == token.ASSIGN {
				if s, ok := clearsIn(st.as.Rhs[0], st.w); ok && s == st.s {
					c.r.ok("R47", key, m.pos(st.as.Pos()), "the lane is masked out in the same expression", props...)
					continue
				}
			}
			// must-dataflow: lane (w,s) cleared on every path to the store
			idents := map[string]bool{}
			for _, f := range strings.FieldsFunc(st.s, func(r rune) bool {
				return !(r == '_' || r >= 'a' && r <= 'z' || r >= 'A' && r <= 'Z' || r >= '0' && r <= '9')
			}) {
				idents[f] = true
			}
			in := make([]int, len(g.Blocks)) // 0 unknown(top), 1 cleared, 2 not cleared
			transfer := func(b *cfg.Block, state int, upto ast.Node) (int, bool) {
				for _, nd := range b.Nodes {
					if nd == ast.Node(st.as) && upto != nil {
						return state, true
					}
					if w, s, ok := clearStmt(nd); ok && w == st.w && s == st.s {
						state = 1
						continue
					}
					if as, ok := nd.(*ast.AssignStmt); ok {
						for _, l := range as.Lhs {
							if id, ok := ast.Unparen(l).(*ast.Ident); ok && idents[id.Name] && as.Tok != token.DEFINE {
								state = 2
							}
							if exprText(l) == st.w && nd != ast.Node(st.as) {
								if _, _, isClr := clearStmt(nd); !isClr {
									state = 2
								}
							}
						}
					}
					if ids, ok := nd.(*ast.IncDecStmt); ok {
						if id, ok := ast.Unparen(ids.X).(*ast.Ident); ok && idents[id.Name] {
							state = 2
						}
					}
				}
				return state, false
			}
			for i := range in {
				in[i] = 0
			}
			if len(g.Blocks) > 0 {
				in[g.Blocks[0].Index] = 2
			}
			for changed, iter := true, 0; changed && iter < 100; iter++ {
				changed = false
				for _, b := range g.Blocks {
					if !b.Live || in[b.Index] == 0 {
						continue
					}
					out, _ := transfer(b, in[b.Index], nil)
					for _, sc := range b.Succs {
						nv := in[sc.Index]
						switch {
						case nv == 0:
							nv = out
						case nv != out:
							nv = 2
						}
						if nv != in[sc.Index] {
							in[sc.Index] = nv
							changed = true
						}
					}
				}
			}
			cleared := false
			for _, b := range g.Blocks {
				if !b.Live {
					continue
				}
				for _, nd := range b.Nodes {
					if nd == ast.Node(st.as) {
						s, _ := transfer(b, in[b.Index], st.as)
						cleared = s == 1
					}
				}
			}
			if cleared {
				c.r.ok("R47", key, m.pos(st.as.Pos()), "the same lane of "+st.w+" is cleared on every path to the store", props...)
			} else {
				c.r.bad("R47", key, m.pos(st.as.Pos()), fmt.Sprintf("the byte is OR-ed into lane %s of %s without the lane being cleared first: the removal side leaves the former top lane as it was, so a lane beyond the fill count may hold a stale byte and the child is registered under stale|new – a byte its keys do not contain", st.s, st.w), props...)
			}
		}
	}
	// no floor of its own: the lane helpers are decided semantically by R53 (whose floor applies);
	// this pattern clause only adds the dominance argument for the read-modify-write form
	c.r.note("R47: %d single-lane stores into packed key words", n)
}

// R48 OWNEDKEY (C17) – the byte strings a key codec's Transform hands to the tree are either
// memory the codec allocated (make, a string→[]byte conversion, append to such memory, a clone)
// or the plain conversion of the key argument; they are never a view made with package unsafe
// (unsafe.Slice(unsafe.StringData(s), …)). The compound tree stores the transformed bytes in its
// leaves as they are: a view pins the whole allocation the caller's string was cut from, so the
// memory a tree keeps alive follows the origin of its keys rather than its content.
func ruleR48(c *Ctx) {
	m := c.m
	info := m.Info
	props := []string{"C17"}
	n := 0
	// unsafeIn follows where the BYTES of a slice-valued expression come from (reslices,
	// conversions, append's first argument, locals, results of library helpers) and reports the
	// unsafe construct that makes them a view; scalars computed with unsafe do not count
	refLike := func(t types.Type) bool {
		if t == nil {
			return false
		}
		switch u := t.Underlying().(type) {
		case *types.Slice, *types.Pointer:
			return true
		case *types.Basic:
			return u.Kind() == types.UnsafePointer || u.Info()&types.IsString != 0
		}
		return false
	}
	var unsafeIn func(e ast.Node, u *FuncUnit, depth int) string
	unsafeIn = func(n ast.Node, u *FuncUnit, depth int) string {
		e, ok := n.(ast.Expr)
		if !ok || depth > 6 {
			return ""
		}
		e = ast.Unparen(e)
		switch y := e.(type) {
		case *ast.SliceExpr:
			return unsafeIn(y.X, u, depth)
		case *ast.StarExpr:
			return unsafeIn(y.X, u, depth)
		case *ast.Ident:
			v, ok := info.ObjectOf(y).(*types.Var)
			if ok && !v.IsField() && v.Pkg() == m.Pkg && v.Parent() == m.Pkg.Scope() {
				switch v.Type().Underlying().(type) {
				case *types.Array, *types.Slice:
					// a window of a table shared by the whole package: every key handed out aliases
					// it, and an append to one writes into the next
					return "the package-level variable " + v.Name() + " (shared memory, not a copy) at " + m.pos(y.Pos())
				}
			}
			if !ok || v.IsField() || !refLike(v.Type()) {
				return ""
			}
			for _, de := range assignedExprs(info, u.Body, v) {
				if f := unsafeIn(de, u, depth+1); f != "" {
					return f
				}
			}
		case *ast.CallExpr:
			name := m.calleeName(y)
			switch name {
			case "unsafe.Slice", "unsafe.String", "unsafe.StringData", "unsafe.SliceData", "unsafe.Add":
				return name + " at " + m.pos(y.Pos())
			}
			if isConversion(info, y) && len(y.Args) == 1 {
				if t := info.TypeOf(y); t != nil {
					if b, ok := t.Underlying().(*types.Basic); ok && b.Kind() == types.UnsafePointer {
						return "unsafe.Pointer conversion at " + m.pos(y.Pos())
					}
				}
				if at := info.TypeOf(y.Args[0]); at != nil {
					if b, ok := at.Underlying().(*types.Basic); ok && b.Info()&types.IsString != 0 {
						if _, toSlice := info.TypeOf(y).Underlying().(*types.Slice); toSlice {
							return "" // string → []byte copies
						}
					}
				}
				return unsafeIn(y.Args[0], u, depth)
			}
			if isBuiltinCall(info, y, "append") && len(y.Args) > 0 {
				return unsafeIn(y.Args[0], u, depth)
			}
			if cu := m.calleeUnit(y); cu != nil && cu.Body != nil && cu.Lit == nil {
				if rets, _ := returnExprs(cu); len(rets) > 0 {
					for _, r := range rets {
						if refLike(info.TypeOf(r)) {
							if f := unsafeIn(r, cu, depth+1); f != "" {
								return f
							}
						}
					}
				}
				return ""
			}
			if strings.Contains(name, "AppendUint") && len(y.Args) > 0 {
				return unsafeIn(y.Args[0], u, depth)
			}
		}
		return ""
	}
	for _, u := range c.sortedUnits() {
		if u.Decl == nil || u.Lit != nil || u.Decl.Recv == nil || u.Decl.Name.Name != "Transform" || u.Obj == nil {
			continue
		}
		sig, _ := u.Obj.Type().(*types.Signature)
		if sig == nil || sig.Recv() == nil {
			continue
		}
		rt := sig.Recv().Type()
		if p, ok := rt.(*types.Pointer); ok {
			rt = p.Elem()
		}
		if nt := namedOf(rt); nt == nil || !isCodecType(nt) {
			continue
		}
		fl := c.e.flow(u)
		for _, b := range fl.g.Blocks {
			if !b.Live || fl.in[b.Index] == nil {
				continue
			}
			for k, nd := range b.Nodes {
				rs, ok := nd.(*ast.ReturnStmt)
				if !ok {
					continue
				}
				fs := fl.setBefore(b, k)
				for i, r := range rs.Results {
					if _, isSlice := info.TypeOf(r).Underlying().(*types.Slice); !isSlice {
						continue
					}
					n++
					key := fmt.Sprintf("%s result %d at return #%d owns its bytes", u.Name, i, returnOrdinal(u, rs))
					if fl.freshExpr(r, fs, 0) {
						c.r.ok("R48", key, m.pos(r.Pos()), "memory allocated by the codec on every path", props...)
						continue
					}
					if f := unsafeIn(r, u, 0); f != "" {
						c.r.bad("R48", key, m.pos(r.Pos()), "the returned bytes are a view made with "+f+", not a copy: the compound tree stores them in the leaf as they are, so each leaf keeps the whole allocation the caller's key was cut from alive – retained memory follows the origin of the keys, not the content of the tree", props...)
						continue
					}
					c.r.ok("R48", key, m.pos(r.Pos()), "plain conversion of the key argument (a copy for string keys)", props...)
				}
			}
		}
	}
	c.r.note("R48: %d byte-string results of key codecs", n)
	c.r.floor("R48", 8, "codec results", "C17")
	// second clause: what the library allocates for a key is sized by the key's length, never by
	// the capacity of the slice the caller happened to pass (a 16-byte window of a 16 KiB read
	// buffer would make every stored key keep 16 KiB)
	probe := c.e.probeKeys()
	nCap := 0
	for _, u := range c.sortedUnits() {
		if u.Body == nil {
			continue
		}
		var stack []ast.Node
		ast.Inspect(u.Body, func(x ast.Node) bool {
			if x == nil {
				stack = stack[:len(stack)-1]
				return true
			}
			stack = append(stack, x)
			call, ok := x.(*ast.CallExpr)
			if !ok || !isBuiltinCall(info, call, "cap") || len(call.Args) != 1 {
				return true
			}
			rv, _ := rootVar(info, call.Args[0])
			if rv == nil || !probe[rv] {
				return true
			}
			// used as a size: inside the arguments of make, or as a bound of a slice expression
			use := ""
			for i := len(stack) - 2; i >= 0 && use == ""; i-- {
				switch p := stack[i].(type) {
				case *ast.CallExpr:
					if isBuiltinCall(info, p, "make") {
						use = "the size of an allocation"
					}
				case *ast.SliceExpr:
					use = "the bound of a slice"
				case ast.Stmt:
					i = -1
				}
			}
			if use == "" {
				return true
			}
			nCap++
			c.r.bad("R48", fmt.Sprintf("%s sizes by the length of the key", u.Name), m.pos(call.Pos()), fmt.Sprintf("cap(%s) – the capacity of the slice the caller passed – is used as %s: how much memory a stored key keeps alive (or which bytes behind the key are looked at) then depends on the buffer the key was cut from, not on the key", types.ExprString(call.Args[0]), use), "C17", "C13")
			return true
		})
	}
	c.r.note("R48: %d uses of the capacity of a key slice as a size", nCap)
}

// returnOrdinal: 1-based position of rs among the return statements of u (source order).
func returnOrdinal(u *FuncUnit, rs *ast.ReturnStmt) int {
	k, out := 0, 0
	ast.Inspect(u.Body, func(x ast.Node) bool {
		if _, isLit := x.(*ast.FuncLit); isLit {
			return false
		}
		if r, ok := x.(*ast.ReturnStmt); ok {
			k++
			if r == rs {
				out = k
			}
		}
		return true
	})
	return out
}

// assignedExprs: the right-hand sides of every single-value definition of / assignment to v in body.
func assignedExprs(info *types.Info, body ast.Node, v *types.Var) []ast.Expr {
	var out []ast.Expr
	ast.Inspect(body, func(x ast.Node) bool {
		switch y := x.(type) {
		case *ast.AssignStmt:
			if len(y.Lhs) == len(y.Rhs) {
				for i, l := range y.Lhs {
					if identVar(info, l) == v {
						out = append(out, y.Rhs[i])
					}
				}
			}
		case *ast.ValueSpec:
			for i, nm := range y.Names {
				if info.Defs[nm] == v && i < len(y.Values) {
					out = append(out, y.Values[i])
				}
			}
		}
		return true
	})
	return out
}

// R49 SCRATCHPOOL (C12, C14, C16) – an object handed to a sync.Pool other than the node pool table
// (a traversal stack, a key buffer) carries nothing into its next life: a pooled slice goes back
// with length zero (`*p = x[:0]` / nil is the last store before Put), or every taker starts from
// `(*p)[:0]`; and it is not touched after Put. The pools are package-level: what one tree leaves
// in a pooled stack, the next scan of ANY tree pops.
func ruleR49(c *Ctx) {
	m := c.m
	info := m.Info
	props := []string{"C12", "C14", "C16"}
	n := 0
	for _, u := range c.sortedUnits() {
		if u.Body == nil {
			continue
		}
		var visit func(list []ast.Stmt)
		visit = func(list []ast.Stmt) {
			for i, st := range list {
				switch x := st.(type) {
				case *ast.BlockStmt:
					visit(x.List)
				case *ast.IfStmt:
					visit(x.Body.List)
					if eb, ok := x.Else.(*ast.BlockStmt); ok {
						visit(eb.List)
					} else if ei, ok := x.Else.(*ast.IfStmt); ok {
						visit([]ast.Stmt{ei})
					}
				case *ast.ForStmt:
					visit(x.Body.List)
				case *ast.RangeStmt:
					visit(x.Body.List)
				case *ast.CaseClause:
					visit(x.Body)
				case *ast.SwitchStmt:
					visit(x.Body.List)
				case *ast.DeferStmt, *ast.ExprStmt:
					var call *ast.CallExpr
					if d, ok := x.(*ast.DeferStmt); ok {
						call = d.Call
					} else {
						call, _ = x.(*ast.ExprStmt).X.(*ast.CallExpr)
					}
					if call == nil || !isSyncPoolCall(info, call, "Put") || len(call.Args) != 1 {
						continue
					}
					if _, _, isNodePool := c.poolCall(call); isNodePool {
						continue
					}
					n++
					arg := call.Args[0]
					key := fmt.Sprintf("%s Put(%s) hands back an empty object", u.Name, types.ExprString(arg))
					pv := identVar(info, arg)
					pt, _ := info.TypeOf(arg).Underlying().(*types.Pointer)
					if pv == nil || pt == nil {
						c.r.undecided("R49", key, m.pos(call.Pos()), "the pooled object is not a plain pointer variable", props...)
						continue
					}
					if _, isSlice := pt.Elem().Underlying().(*types.Slice); !isSlice {
						c.r.undecided("R49", key, m.pos(call.Pos()), "pooled object of type "+types.TypeString(pt.Elem(), nil)+": no reset discipline is known for it", props...)
						continue
					}
					isDeref := func(e ast.Expr) bool {
						se, ok := ast.Unparen(e).(*ast.StarExpr)
						return ok && identVar(info, se.X) == pv
					}
					emptyVal := func(e ast.Expr) bool {
						e = ast.Unparen(e)
						if tv, ok := info.Types[e]; ok && tv.IsNil() {
							return true
						}
						if se, ok := e.(*ast.SliceExpr); ok && se.High != nil {
							if tv, ok := info.Types[se.High]; ok && tv.Value != nil && tv.Value.ExactString() == "0" {
								return true
							}
						}
						return false
					}
					// (a) Put side: the last store to *p before the Put, in this block, is an empty slice
					putSide := false
					if _, isDefer := x.(*ast.DeferStmt); !isDefer {
						for j := i - 1; j >= 0; j-- {
							as, ok := list[j].(*ast.AssignStmt)
							if !ok || len(as.Lhs) != 1 || len(as.Rhs) != 1 || !isDeref(as.Lhs[0]) {
								continue
							}
							putSide = as.Tok == token.ASSIGN && emptyVal(as.Rhs[0])
							break
						}
					}
					// (b) Get side: every read of *p in the enclosing declaration is (*p)[:0]
					getSide := false
					root := ast.Node(u.Body)
					for p := u; p != nil; p = p.Parent {
						root = p.Body
					}
					reads, emptyReads := 0, 0
					var parents []ast.Node
					ast.Inspect(root, func(z ast.Node) bool {
						if z == nil {
							parents = parents[:len(parents)-1]
							return true
						}
						parents = append(parents, z)
						se, ok := z.(*ast.StarExpr)
						if !ok || identVar(info, se.X) != pv {
							return true
						}
						// skip stores
						for k := len(parents) - 2; k >= 0; k-- {
							if _, isParen := parents[k].(*ast.ParenExpr); isParen {
								continue
							}
							if as, ok := parents[k].(*ast.AssignStmt); ok {
								for _, l := range as.Lhs {
									if ast.Unparen(l) == ast.Expr(se) {
										return true
									}
								}
							}
							if sl, ok := parents[k].(*ast.SliceExpr); ok && ast.Unparen(sl.X) == ast.Expr(se) && emptyVal(sl) {
								emptyReads++
							}
							break
						}
						reads++
						return true
					})
					getSide = reads > 0 && reads == emptyReads
					// not used after Put in this block
					used := false
					if _, isDefer := x.(*ast.DeferStmt); !isDefer {
						for _, later := range list[i+1:] {
							ast.Inspect(later, func(z ast.Node) bool {
								if id, ok := z.(*ast.Ident); ok && info.ObjectOf(id) == pv {
									used = true
								}
								return true
							})
						}
					}
					switch {
					case used:
						c.r.bad("R49", key, m.pos(call.Pos()), "the object is still used after it went back to the pool: another goroutine or tree may hold it by then", props...)
					case putSide:
						c.r.ok("R49", key, m.pos(call.Pos()), "*"+pv.Name()+" is set to an empty slice immediately before Put", props...)
					case getSide:
						c.r.ok("R49", key, m.pos(call.Pos()), "every read of *"+pv.Name()+" starts from (*"+pv.Name()+")[:0]", props...)
					default:
						c.r.bad("R49", key, m.pos(call.Pos()), "the pooled slice goes back with whatever elements it holds (no `*"+pv.Name()+" = x[:0]` before Put, and takers do not start from [:0]): the pool is shared by all trees, so the next traversal of any tree pops what an abandoned traversal of this one left behind", props...)
					}
				}
			}
		}
		visit(u.Body.List)
	}
	c.r.note("R49: %d releases into pools other than the node pool table", n)
}

// R50 COLLAPSE (C11, C17, C05) – a branch point keeps at least two children: in deleteChild of the
// smallest size class every path on which the fan-out is known to have dropped to one relinks the
// slot to the remaining child (`*ref = child`, or hands the slot to a helper) before it leaves the
// function. A one-child node that stays linked is never collapsed later (the test is `== 1`, and
// the next removal takes it to 0): dead inner nodes accumulate with the history and an empty one
// on the leftmost/rightmost path makes Minimum/Maximum report "none".
func ruleR50(c *Ctx) {
	m := c.m
	info := m.Info
	props := []string{"C11", "C17", "C05"}
	if len(m.Kinds) == 0 {
		c.r.undecided("R50", "smallest size class", "-", "no inner node kinds found", props...)
		return
	}
	small := m.Kinds[0]
	for _, k := range m.Kinds {
		if k.Cap < small.Cap {
			small = k
		}
	}
	u := m.ByName[small.Struct.Obj().Name()+".deleteChild"]
	if u == nil || u.Decl == nil {
		c.r.undecided("R50", "deleteChild of the smallest size class", "node.go", "not found", props...)
		return
	}
	// the slot parameter
	var slot *types.Var
	for _, f := range u.Decl.Type.Params.List {
		if pt, ok := info.TypeOf(f.Type).(*types.Pointer); ok && c.isNodeRefType(pt.Elem()) {
			for _, nm := range f.Names {
				slot, _ = info.Defs[nm].(*types.Var)
			}
		}
	}
	if slot == nil {
		c.r.undecided("R50", "deleteChild of the smallest size class", m.pos(u.Decl.Pos()), "no slot parameter", props...)
		return
	}
	g := m.cfgOf(u)
	isRelink := func(n ast.Node) bool {
		found := false
		ast.Inspect(n, func(x ast.Node) bool {
			switch y := x.(type) {
			case *ast.AssignStmt:
				for _, l := range y.Lhs {
					if se, ok := ast.Unparen(l).(*ast.StarExpr); ok && identVar(info, se.X) == slot {
						found = true
					}
				}
			case *ast.CallExpr:
				for _, a := range y.Args {
					if identVar(info, a) == slot && m.calleeUnit(y) != nil {
						found = true // a helper of the library that receives the slot
					}
				}
			}
			return true
		})
		return found
	}
	n := 0
	for _, gd := range guardsOf(info, g) {
		be, ok := ast.Unparen(gd.atom.e).(*ast.BinaryExpr)
		if !ok {
			continue
		}
		var cst ast.Expr
		switch {
		case strings.HasSuffix(exprText(be.X), "childrenLen"):
			cst = be.Y
		default:
			continue
		}
		tv, has := info.Types[cst]
		if !has || tv.Value == nil {
			continue
		}
		v, _ := constantInt64(tv)
		// does the atom (with its truth value) imply childrenLen <= 1 ?
		single := false
		switch be.Op {
		case token.EQL:
			single = gd.atom.val && v == 1
		case token.NEQ:
			single = !gd.atom.val && v == 1
		case token.LEQ:
			single = gd.atom.val && v == 1
		case token.LSS:
			single = gd.atom.val && v == 2
		case token.GTR:
			single = !gd.atom.val && v == 1
		case token.GEQ:
			single = !gd.atom.val && v == 2
		}
		if !single || gd.succ >= len(gd.b.Succs) {
			continue
		}
		n++
		key := fmt.Sprintf("%s.deleteChild replaces a node left with one child by that child", small.Struct.Obj().Name())
		// every path from the edge to an exit passes a relink
		seen := map[*cfg.Block]bool{}
		var leak *cfg.Block
		var walk func(b *cfg.Block)
		walk = func(b *cfg.Block) {
			if seen[b] || leak != nil {
				return
			}
			seen[b] = true
			for _, nd := range b.Nodes {
				if isRelink(nd) {
					return
				}
			}
			if len(b.Succs) == 0 {
				leak = b
				return
			}
			for _, s := range b.Succs {
				walk(s)
			}
		}
		walk(gd.b.Succs[gd.succ])
		if leak == nil {
			c.r.ok("R50", key, m.pos(gd.atom.e.Pos()), "every path under "+exprText(gd.atom.e)+" relinks the slot before the function returns", props...)
		} else {
			p := gd.atom.e.Pos()
			if len(leak.Nodes) > 0 {
				p = leak.Nodes[len(leak.Nodes)-1].Pos()
			}
			c.r.bad("R50", key, m.pos(p), "a path on which the fan-out has dropped to one leaves the function without relinking the slot to the remaining child: the one-child node stays in the tree, is never collapsed afterwards (the next removal takes it to zero children) and dead inner nodes accumulate with the history", props...)
		}
	}
	if n == 0 {
		c.r.undecided("R50", small.Struct.Obj().Name()+".deleteChild tests for a single remaining child", m.pos(u.Decl.Pos()), "no test that the fan-out dropped to one was found", props...)
	}
}

func constantInt64(tv types.TypeAndValue) (int64, bool) {
	var v int64
	_, err := fmt.Sscan(tv.Value.ExactString(), &v)
	return v, err == nil
}

// R51 DISPATCH (C06, C01, C11, C15) – a dispatcher of the reference type (a method of nodeRef whose
// kind switch hands the operation to the like-named method of the node layout, one arm per size
// class) hands EVERY call on: no path from its entry reaches the exit without one of those calls
// (or a panic). The callers count on it – Delete decrements the size and reports true after
// deleteChild returns – so a dispatcher that declines for some node state (a fan-out counter that
// reads 0 is the wrapped count of a full 256-slot node) leaves the key in the tree with the size
// already reduced.
func ruleR51(c *Ctx) {
	m := c.m
	info := m.Info
	props := []string{"C06", "C01", "C11", "C15"}
	n := 0
	for _, u := range c.sortedUnits() {
		if u.Decl == nil || u.Lit != nil || u.Body == nil || u.Decl.Recv == nil {
			continue
		}
		if rt := m.Pkg.Scope().Lookup(u.Recv); rt == nil || !c.isNodeRefType(rt.Type()) {
			continue
		}
		// the operation exists on the node layouts: at least three size classes have a method of
		// this name
		have := 0
		for _, k := range m.Kinds {
			if m.ByName[k.Struct.Obj().Name()+"."+u.Decl.Name.Name] != nil {
				have++
			}
		}
		if have < 3 {
			continue
		}
		// calls of the like-named method on something that is not the reference itself (a typed view
		// under a kind switch, or an interface value the layouts implement)
		var calls []*ast.CallExpr
		ast.Inspect(u.Body, func(x ast.Node) bool {
			call, ok := x.(*ast.CallExpr)
			if !ok {
				return true
			}
			sel, ok := ast.Unparen(call.Fun).(*ast.SelectorExpr)
			if !ok || sel.Sel.Name != u.Decl.Name.Name {
				return true
			}
			rt := info.TypeOf(sel.X)
			if rt == nil {
				return true
			}
			if pt, ok := rt.(*types.Pointer); ok {
				rt = pt.Elem()
			}
			if c.isNodeRefType(rt) {
				return true
			}
			calls = append(calls, call)
			return true
		})
		if len(calls) == 0 {
			continue // answers inline (findChild)
		}
		n++
		key := fmt.Sprintf("%s hands every call on to the node layout", u.Name)
		isCall := map[*ast.CallExpr]bool{}
		for _, cl := range calls {
			isCall[cl] = true
		}
		g := m.cfgOf(u)
		mayRet := mayReturn(info)
		passes := func(nd ast.Node) bool {
			hit := false
			ast.Inspect(nd, func(x ast.Node) bool {
				if call, ok := x.(*ast.CallExpr); ok {
					if isCall[call] || !mayRet(call) {
						hit = true
					}
				}
				return true
			})
			return hit
		}
		seen := map[*cfg.Block]bool{}
		var leak *cfg.Block
		var walk func(b *cfg.Block)
		walk = func(b *cfg.Block) {
			if seen[b] || leak != nil || !b.Live {
				return
			}
			seen[b] = true
			for _, nd := range b.Nodes {
				if passes(nd) {
					return
				}
			}
			if len(b.Succs) == 0 {
				leak = b
				return
			}
			for _, s := range b.Succs {
				walk(s)
			}
		}
		if len(g.Blocks) > 0 {
			walk(g.Blocks[0])
		}
		if leak == nil {
			c.r.ok("R51", key, m.pos(u.Decl.Pos()), fmt.Sprintf("every path from the entry passes one of the %d delegating calls or panics", len(calls)), props...)
		} else {
			p := u.Decl.Pos()
			if len(leak.Nodes) > 0 {
				p = leak.Nodes[len(leak.Nodes)-1].Pos()
			}
			c.r.bad("R51", key, m.pos(p), "a path returns without handing the operation to the node: the caller (Delete: size-- and true; Insert: size++) has already counted it, and a fan-out counter that reads 0 is also the wrapped count of a full 256-slot node", props...)
		}
	}
	c.r.note("R51: %d dispatchers of the reference type", n)
	c.r.floor("R51", 2, "dispatchers", "C06")
}

// R52 LENUNIT (C04, C08) – two lengths that are compared with one another count the same unit.
// len() of a string or []byte counts bytes, len() of a []rune counts runes, and len() of a value
// whose type is a type parameter counts whatever the instantiation has: comparing the rune count
// of a []rune key with the byte length of its UTF-8 form rejects (or accepts) the wrong keys as
// soon as a key has a multi-byte character.
func ruleR52(c *Ctx) {
	m := c.m
	info := m.Info
	props := []string{"C04", "C08"}
	unitOf := func(t types.Type) string {
		// "bytes", "runes", "mixed" (a type parameter whose terms disagree), "" (not a text length)
		one := func(t types.Type) string {
			switch u := t.Underlying().(type) {
			case *types.Basic:
				if u.Info()&types.IsString != 0 {
					return "bytes"
				}
			case *types.Slice:
				if b, ok := u.Elem().Underlying().(*types.Basic); ok {
					switch b.Kind() {
					case types.Uint8:
						return "bytes"
					case types.Int32:
						return "runes"
					}
				}
			}
			return ""
		}
		if tp, ok := types.Unalias(t).(*types.TypeParam); ok {
			units := map[string]bool{}
			for _, term := range typeSetTerms(tp) {
				units[one(term)] = true
			}
			if len(units) == 1 {
				for u := range units {
					return u
				}
			}
			if units["bytes"] && units["runes"] {
				return "mixed"
			}
			return ""
		}
		return one(t)
	}
	lenArg := func(e ast.Expr) ast.Expr {
		call, ok := ast.Unparen(e).(*ast.CallExpr)
		if ok && isBuiltinCall(info, call, "len") && len(call.Args) == 1 {
			return call.Args[0]
		}
		return nil
	}
	n := 0
	for _, u := range c.sortedUnits() {
		if u.Body == nil {
			continue
		}
		ast.Inspect(u.Body, func(x ast.Node) bool {
			if lit, ok := x.(*ast.FuncLit); ok && ast.Node(lit) != ast.Node(u.Lit) {
				return false
			}
			be, ok := x.(*ast.BinaryExpr)
			if !ok {
				return true
			}
			switch be.Op {
			case token.LSS, token.LEQ, token.GTR, token.GEQ, token.EQL, token.NEQ:
			default:
				return true
			}
			la, ra := lenArg(be.X), lenArg(be.Y)
			if la == nil || ra == nil {
				return true
			}
			lu, ru := unitOf(info.TypeOf(la)), unitOf(info.TypeOf(ra))
			if lu == "" || ru == "" {
				return true
			}
			n++
			key := fmt.Sprintf("%s compares len(%s) with len(%s) in one unit", u.Name, types.ExprString(la), types.ExprString(ra))
			sameTP := func() bool {
				a, aok := types.Unalias(info.TypeOf(la)).(*types.TypeParam)
				b, bok := types.Unalias(info.TypeOf(ra)).(*types.TypeParam)
				return aok && bok && a == b
			}
			switch {
			case lu == ru && lu != "mixed", sameTP():
				c.r.ok("R52", key, m.pos(be.Pos()), "both count "+lu, props...)
			default:
				c.r.bad("R52", key, m.pos(be.Pos()), fmt.Sprintf("len(%s) counts %s, len(%s) counts %s (a key type whose type set has both []rune and byte strings counts runes in one instantiation and bytes in the other): with a multi-byte character the two lengths are not comparable", types.ExprString(la), map[string]string{"mixed": "runes or bytes depending on the key type"}[lu]+map[string]string{"bytes": "bytes", "runes": "runes"}[lu], types.ExprString(ra), map[string]string{"mixed": "runes or bytes depending on the key type"}[ru]+map[string]string{"bytes": "bytes", "runes": "runes"}[ru]), props...)
			}
			return true
		})
	}
	// second clause: a rune count (or a count whose unit depends on the instantiation) is not the
	// size of a byte buffer nor a position in a byte string
	lensIn := func(e ast.Expr) []ast.Expr {
		var out []ast.Expr
		var walk func(e ast.Expr)
		walk = func(e ast.Expr) {
			e = ast.Unparen(e)
			switch x := e.(type) {
			case *ast.BinaryExpr:
				switch x.Op {
				case token.ADD, token.SUB:
					walk(x.X)
					walk(x.Y)
				}
			case *ast.CallExpr:
				if a := lenArg(x); a != nil {
					out = append(out, a)
					return
				}
				if isConversion(info, x) && len(x.Args) == 1 {
					walk(x.Args[0])
					return
				}
				if isBuiltinCall(info, x, "min") || isBuiltinCall(info, x, "max") {
					for _, a := range x.Args {
						walk(a)
					}
				}
			}
		}
		walk(e)
		return out
	}
	nUse := 0
	for _, u := range c.sortedUnits() {
		if u.Body == nil {
			continue
		}
		check := func(container types.Type, what string, pos token.Pos, sizes ...ast.Expr) {
			if container == nil || unitOf(container) != "bytes" {
				return
			}
			for _, sz := range sizes {
				if sz == nil {
					continue
				}
				for _, la := range lensIn(u2local(m, u, sz)) {
					lu := unitOf(info.TypeOf(la))
					if lu == "" {
						continue
					}
					nUse++
					key := fmt.Sprintf("%s uses len(%s) as %s in its own unit", u.Name, types.ExprString(la), what)
					if lu == "bytes" {
						c.r.ok("R52", key, m.pos(pos), "both count bytes", props...)
						continue
					}
					c.r.bad("R52", key, m.pos(pos), fmt.Sprintf("len(%s) counts %s, and it is used as %s: for a []rune key with a multi-byte character the UTF-8 form is longer than the rune count, and the bytes beyond it are cut off (or never copied)", types.ExprString(la), map[string]string{"mixed": "runes or bytes depending on the key type", "runes": "runes"}[lu], what), props...)
				}
			}
		}
		ast.Inspect(u.Body, func(x ast.Node) bool {
			if lit, ok := x.(*ast.FuncLit); ok && ast.Node(lit) != ast.Node(u.Lit) {
				return false
			}
			switch e := x.(type) {
			case *ast.CallExpr:
				if isBuiltinCall(info, e, "make") && len(e.Args) >= 2 {
					check(info.TypeOf(e.Args[0]), "the size of a byte buffer", e.Pos(), e.Args[1]) // the capacity is only a hint
				}
			case *ast.SliceExpr:
				check(info.TypeOf(e.X), "a position in a byte string", e.Pos(), e.Low, e.High, e.Max)
			case *ast.IndexExpr:
				if tv, ok := info.Types[e.X]; ok && !tv.IsType() {
					if _, isSig := info.TypeOf(e.X).Underlying().(*types.Signature); !isSig {
						check(info.TypeOf(e.X), "a position in a byte string", e.Pos(), e.Index)
					}
				}
			}
			return true
		})
	}
	c.r.note("R52: %d comparisons of two text lengths, %d lengths used as a byte size or position", n, nUse)
}

// u2local: a size given through a local defined once (n := len(k); make([]byte, n)) is read as its
// definition.
func u2local(m *Model, u *FuncUnit, e ast.Expr) ast.Expr {
	return m.throughLocals(u, ast.Unparen(e))
}

// R54 PRUNEWINDOW (C03, C09) – a range scan that skips a subtree because the node's compressed path
// and the bounds' common prefix have no first byte in common (longestCommonPrefix(…) == 0 → continue)
// compares two NON-EMPTY byte strings: an empty window also gives 0, and the subtree – every key of
// which may lie in range – is dropped. Decided with the linear facts of the CFG engine: at the
// comparison both lengths are provably ≥ 1 (for a window s[lo:lo+min(x, C)]: x ≥ 1 and C ≥ 1). The
// rule covers this one pruning idiom; another way of writing the pruning test is not examined
// (the pruning arithmetic as a whole is declared not decided for C03).
func ruleR54(c *Ctx) {
	m := c.m
	info := m.Info
	props := []string{"C03", "C09"}
	n := 0
	lcp := m.unitByBase("longestCommonPrefix")
	if lcp == nil || lcp.Obj == nil {
		c.r.note("R54: no longestCommonPrefix function; nothing examined")
		return
	}
	for _, u := range c.sortedUnits() {
		if u.Body == nil || len(c.attribute(u, "C03")) == 0 {
			continue
		}
		fl := c.e.flow(u)
		fl.walk(func(node ast.Node, fs *FactSet, stmt ast.Node, b *cfg.Block) {
			ifs, ok := node.(*ast.IfStmt)
			_ = ifs
			if ok {
				return
			}
			// the condition node of `if idx == 0 { continue }` (idx the result of the comparison, or
			// the call itself), or the result `return longestCommonPrefix(…) == 0` of a predicate
			// that a scan uses as `if offSearchPath(…) { continue }`
			be, ok := node.(*ast.BinaryExpr)
			if !ok || be.Op != token.EQL {
				return
			}
			tv, has := info.Types[be.Y]
			if !has || tv.Value == nil {
				return
			}
			cmpWith := tv.Value.ExactString()
			var def ast.Expr = ast.Unparen(be.X)
			if id, ok := def.(*ast.Ident); ok {
				def = m.resolveLocal(u, id)
			}
			call, ok := ast.Unparen(def).(*ast.CallExpr)
			if def == nil || !ok || m.staticCallee(call) != lcp.Obj || len(call.Args) < 2 {
				return
			}
			skips := false
			if node == stmt {
				// the true edge must skip the node (continue)
				if len(b.Succs) != 2 {
					return
				}
				ast.Inspect(u.Body, func(z ast.Node) bool {
					if is, ok := z.(*ast.IfStmt); ok && ast.Unparen(is.Cond) == ast.Expr(be) && len(is.Body.List) == 1 {
						if br, ok := is.Body.List[0].(*ast.BranchStmt); ok && br.Tok == token.CONTINUE {
							skips = true
						}
					}
					return true
				})
			} else if rs, isRet := stmt.(*ast.ReturnStmt); isRet && len(rs.Results) == 1 && ast.Unparen(rs.Results[0]) == ast.Expr(be) && u.Lit == nil {
				for _, site := range c.callSitesOf(u) {
					ast.Inspect(site.u.Body, func(z ast.Node) bool {
						if is, ok := z.(*ast.IfStmt); ok && ast.Unparen(is.Cond) == ast.Expr(site.call) && len(is.Body.List) == 1 {
							if br, ok := is.Body.List[0].(*ast.BranchStmt); ok && br.Tok == token.CONTINUE {
								skips = true
							}
						}
						return true
					})
				}
			}
			if !skips {
				return
			}
			n++
			key := fmt.Sprintf("%s prunes on a comparison of non-empty byte strings", u.Name)
			if cmpWith != "0" {
				c.r.bad("R54", key, m.pos(be.Pos()), "the subtree is skipped when the node's path and the bounds' common prefix share exactly "+cmpWith+" byte(s): keys below it that share more, or all of the window, lie within the bounds and are dropped (only \"no byte in common\" rules a subtree out)", props...)
				return
			}
			if len(call.Args) >= 3 {
				if sv, ok := info.Types[call.Args[2]]; ok && sv.Value != nil && sv.Value.ExactString() != "0" {
					c.r.bad("R54", key, m.pos(call.Pos()), "the comparison starts at byte "+sv.Value.ExactString()+" of the two strings: a difference there says nothing about the first byte, and a subtree whose path agrees with the bounds is skipped", props...)
					return
				}
			}
			// geOne: e >= 1 is provable here
			geOne := func(e ast.Expr) bool {
				if tv, ok := info.Types[e]; ok && tv.Value != nil {
					v, _ := constantInt64(tv)
					return v >= 1
				}
				l, ok := fl.z.lin(e)
				if !ok {
					return false
				}
				goal := linConst(1).add(l, -1) // 1 - e <= 0
				return fs.proveLin(goal)
			}
			var lenGeOne func(e ast.Expr, depth int) (bool, string)
			lenGeOne = func(e ast.Expr, depth int) (bool, string) {
				e = ast.Unparen(e)
				if idn, ok := e.(*ast.Ident); ok && depth < 3 {
					if d := m.resolveLocal(u, idn); d != nil {
						return lenGeOne(d, depth+1)
					}
				}
				minArgs := func(x ast.Expr) []ast.Expr {
					if mc, ok := ast.Unparen(x).(*ast.CallExpr); ok && isBuiltinCall(info, mc, "min") {
						return mc.Args
					}
					return []ast.Expr{x}
				}
				// node.inlinePrefix(): a helper whose body is one return stands for what it returns
				if ce, ok := e.(*ast.CallExpr); ok && depth < 3 && !isConversion(info, ce) {
					if ex := c.expandSimpleCall(ce); ex != ast.Expr(ce) {
						return lenGeOne(ex, depth+1)
					}
				}
				switch x := e.(type) {
				case *ast.CallExpr:
					if m.calleeName(x) == "unsafe.Slice" && len(x.Args) == 2 {
						for _, a := range minArgs(x.Args[1]) {
							if !geOne(a) {
								return false, "the length " + types.ExprString(a) + " of " + types.ExprString(e) + " is not known to be at least 1"
							}
						}
						return true, ""
					}
				case *ast.SliceExpr:
					// a[:E] of an array or slice
					if x.Low == nil && x.High != nil && x.Max == nil {
						hi := ast.Unparen(x.High)
						for d := 0; d < 3; d++ {
							if hc, ok := hi.(*ast.CallExpr); ok && isConversion(info, hc) && len(hc.Args) == 1 {
								hi = ast.Unparen(hc.Args[0])
								continue
							}
							if hc, ok := hi.(*ast.CallExpr); ok {
								if ex := c.expandSimpleCall(hc); ex != ast.Expr(hc) {
									hi = ast.Unparen(ex)
									continue
								}
							}
							break
						}
						for _, a := range minArgs(hi) {
							if !geOne(a) {
								return false, "the length " + types.ExprString(a) + " of " + types.ExprString(e) + " is not known to be at least 1"
							}
						}
						return true, ""
					}
					if x.Low != nil && x.High != nil {
						// s[lo : lo + E]
						if hb, ok := ast.Unparen(x.High).(*ast.BinaryExpr); ok && hb.Op == token.ADD && exprText(hb.X) == exprText(x.Low) {
							for _, a := range minArgs(hb.Y) {
								if !geOne(a) {
									return false, "the window " + types.ExprString(e) + " may be empty: " + types.ExprString(a) + " is not known to be at least 1"
								}
							}
							return true, ""
						}
					}
				}
				return false, "form of " + types.ExprString(e) + " not recognised"
			}
			okA, whyA := lenGeOne(call.Args[0], 0)
			okB, whyB := lenGeOne(call.Args[1], 0)
			switch {
			case okA && okB:
				c.r.ok("R54", key, m.pos(be.Pos()), "both operands of "+types.ExprString(call.Fun)+" are provably non-empty where the result is compared with 0", props...)
			case strings.Contains(whyA+whyB, "not recognised"):
				c.r.note("R54: %s: %s %s – pruning idiom not examined", u.Name, whyA, whyB)
				n--
			default:
				c.r.bad("R54", key, m.pos(be.Pos()), strings.TrimSpace(whyA+" "+whyB)+": an empty comparison also yields 0, and the subtree – whose keys may all lie within the bounds – is skipped", props...)
			}
		})
	}
	c.r.note("R54: %d pruning comparisons examined", n)
	c.r54Skips()
}

// R55 SLOTARG (C16, C12, C11, C01) – a function that may relink the slot it is given (a method with
// a *nodeRef receiver, a *nodeRef parameter: addChild / deleteChild and their dispatchers store the
// grown, shrunk or collapsed node through it) is handed a slot OF THE TREE – a *nodeRef variable,
// &t.root, the address of a child slot of a node – never the address of a local copy of a
// reference (`n := *ref; n.deleteChild(b)`): the replacement would be stored in the copy, the
// tree would keep pointing at the old node, which is cleared and pooled at the same time and
// handed to the next tree that grows.
func ruleR55(c *Ctx) {
	m := c.m
	info := m.Info
	props := []string{"C16", "C12", "C11", "C01"}
	n := 0
	// functions that store through a *nodeRef they receive (directly or by passing it on)
	writesSlot := func(f *types.Func) map[int]bool {
		out := map[int]bool{}
		if f == nil || f.Pkg() != m.Pkg {
			return out
		}
		sig, _ := f.Type().(*types.Signature)
		if sig == nil {
			return out
		}
		w := c.e.writesThrough(f)
		isSlotT := func(t types.Type) bool {
			p, ok := t.(*types.Pointer)
			return ok && c.isNodeRefType(p.Elem())
		}
		if sig.Recv() != nil && isSlotT(sig.Recv().Type()) && w[-1] {
			out[-1] = true
		}
		for i := 0; i < sig.Params().Len(); i++ {
			if isSlotT(sig.Params().At(i).Type()) && w[i] {
				out[i] = true
			}
		}
		return out
	}
	localCopy := func(u *FuncUnit, e ast.Expr) *types.Var {
		e = ast.Unparen(e)
		if ue, ok := e.(*ast.UnaryExpr); ok && ue.Op == token.AND {
			e = ast.Unparen(ue.X)
		} else if t := info.TypeOf(e); t != nil {
			if _, isPtr := t.(*types.Pointer); isPtr {
				return nil // a *nodeRef value: a slot handed down
			}
		}
		id, ok := e.(*ast.Ident)
		if !ok {
			return nil // a field or an element: memory of the tree
		}
		v, _ := info.ObjectOf(id).(*types.Var)
		if v == nil || v.IsField() || !c.isNodeRefType(v.Type()) || v.Parent() == m.Pkg.Scope() {
			return nil
		}
		return v
	}
	for _, u := range c.sortedUnits() {
		if u.Body == nil {
			continue
		}
		ast.Inspect(u.Body, func(x ast.Node) bool {
			if lit, ok := x.(*ast.FuncLit); ok && ast.Node(lit) != ast.Node(u.Lit) {
				return false
			}
			call, ok := x.(*ast.CallExpr)
			if !ok {
				return true
			}
			f := m.staticCallee(call)
			ws := writesSlot(f)
			if len(ws) == 0 {
				return true
			}
			for idx := range ws {
				var arg ast.Expr
				if idx == -1 {
					if sel, ok := ast.Unparen(call.Fun).(*ast.SelectorExpr); ok {
						arg = sel.X
					}
				} else if idx < len(call.Args) {
					arg = call.Args[idx]
				}
				if arg == nil {
					continue
				}
				n++
				key := fmt.Sprintf("%s hands %s a slot of the tree", u.Name, f.Name())
				if v := localCopy(u, arg); v != nil {
					c.r.bad("R55", key, m.pos(call.Pos()), fmt.Sprintf("%s stores the replacement node through the slot it is given, and here that slot is the address of the local copy %s: when the node changes size class or collapses, the tree keeps pointing at the old node – which is cleared and put back into the pool shared by all trees", f.Name(), v.Name()), props...)
				} else {
					c.r.ok("R55", key, m.pos(call.Pos()), "a *nodeRef handed down, or the address of a field / child slot", props...)
				}
			}
			return true
		})
	}
	c.r.note("R55: %d slot arguments of relinking functions", n)
	c.r.floor("R55", 10, "slot arguments", "C11")
}
