package main

// geneval: constant evaluation of the code generator (cmd/go-art) for R34.
//
// The generator is a closed program: it has no input but its own source, the embedded template
// and the constants of its table. What it writes is therefore a constant of the source tree, and
// this file folds it: an evaluator of the Go subset generators of this kind are written in
// (constants, struct and slice literals, local functions and closures, range/for/if, append,
// string concatenation, deferred calls in order) over abstract I/O values – template sets, opened
// files, bufio writers, byte buffers, format.Source – which follows the success path (every error
// result is a token that is nil on that path) and records
//   - the bytes every output file holds when main returns (what is left in an unflushed or
//     late-flushed bufio.Writer is lost, as in the real program),
//   - for every error of Execute/ExecuteTemplate whether some test of it ends the program,
//     directly, through a helper, or after being returned to a caller that does.
// Anything outside the subset stops the evaluation with the construct's position (undecided).
// None of the repository's library code is run; the template is rendered by text/template, as in
// the first version of this rule, with the data the evaluator computed.

import (
	"bytes"
	"fmt"
	"go/ast"
	"go/constant"
	"go/format"
	"go/parser"
	"go/token"
	"os"
	"path/filepath"
	"reflect"
	"sort"
	"strconv"
	"strings"
	"text/template"
)

type gNil struct{}

type gStruct struct {
	typ    string
	fields map[string]gv
}
type gSlice struct {
	elems     []gv
	unordered bool // filled inside a range over a map and not sorted since
}
type gMap struct {
	keys []string
	vals map[string]gv
	zero gv // the zero value of the element type, when it is known (m[absent])
}
type gTemplate struct {
	t *template.Template
}
type gFile struct {
	name   string
	buf    bytes.Buffer
	closed bool
	pos    token.Pos
}
type gBufio struct {
	target gv
	buf    bytes.Buffer
	pos    token.Pos
}
type gBuffer struct{ buf bytes.Buffer }
type gBytes []byte
type gErr struct {
	src       string
	pos       token.Pos
	handled   bool
	important bool
	via       *gErr
}
type gFunc struct {
	lit  *ast.FuncLit
	decl *ast.FuncDecl
	env  *gScope
}
type gPtr struct{ c *gCell }
type gPkg string // import path
type gTuple []gv
type gCond struct {
	val bool
	tok *gErr
	neq bool
}
type gEmbedFS struct{ patterns []string }
type gDiscard struct{}
type gNative struct {
	name string
	fn   any // a real Go function, pure
}
type gBound struct { // method value
	recv gv
	name string
}
type gv interface{}

type gCell struct{ v gv }
type gScope struct {
	vars map[string]*gCell
	up   *gScope
}

func (s *gScope) lookup(n string) *gCell {
	for ; s != nil; s = s.up {
		if c, ok := s.vars[n]; ok {
			return c
		}
	}
	return nil
}
func newScope(up *gScope) *gScope { return &gScope{vars: map[string]*gCell{}, up: up} }

type gStop struct {
	pos    token.Pos
	reason string
	exit   bool // the program ends here on the success path (panic, log.Fatal, os.Exit)
}

type genFinding struct {
	key, pos, detail string
	bad              bool
}

type genEval struct {
	fset    *token.FileSet
	files   []*ast.File
	imports map[string]string
	funcs   map[string]*ast.FuncDecl
	structs map[string]*ast.StructType
	methods bool
	// methods the generator declares on its own struct types: type name → method name → declaration
	userMethods map[string]map[string]*ast.FuncDecl
	globals     *gScope
	genDir      string
	cwd         string
	rel         func(string) string
	read        func(string) ([]byte, error)
	outFiles    map[string]*gFile
	bufios      []*gBufio
	errs        []*gErr
	findings    []genFinding
	fuel        int
	execs       int
	rtypes      map[string]reflect.Type
	frames      []*gFrame
	mapDepth    int
}

type gFrame struct {
	deferred   []func()
	propagated []*gErr
	ret        []gv
}

type gCtl int

const (
	ctlNone gCtl = iota
	ctlReturn
	ctlBreak
	ctlContinue
)

func (e *genEval) stop(p token.Pos, f string, a ...any) {
	panic(gStop{pos: p, reason: fmt.Sprintf(f, a...)})
}

func (e *genEval) posStr(p token.Pos) string {
	if !p.IsValid() {
		return e.rel(filepath.Join(e.genDir, "main.go"))
	}
	q := e.fset.Position(p)
	return fmt.Sprintf("%s:%d", e.rel(q.Filename), q.Line)
}

func (e *genEval) finding(bad bool, key string, p token.Pos, f string, a ...any) {
	e.findings = append(e.findings, genFinding{key: key, pos: e.posStr(p), detail: fmt.Sprintf(f, a...), bad: bad})
}

// newGenEval parses the generator package.
func newGenEval(genDir, cwd string, names []string, read func(string) ([]byte, error), rel func(string) string) (*genEval, error) {
	e := &genEval{fset: token.NewFileSet(), imports: map[string]string{}, funcs: map[string]*ast.FuncDecl{},
		structs: map[string]*ast.StructType{}, genDir: genDir, cwd: cwd, read: read, rel: rel,
		outFiles: map[string]*gFile{}, fuel: 200000, rtypes: map[string]reflect.Type{}}
	for _, n := range names {
		p := filepath.Join(genDir, n)
		src, err := read(p)
		if err != nil {
			return nil, err
		}
		f, err := parser.ParseFile(e.fset, p, src, parser.ParseComments)
		if err != nil {
			return nil, err
		}
		if f.Name.Name != "main" {
			continue
		}
		e.files = append(e.files, f)
	}
	if len(e.files) == 0 {
		return nil, fmt.Errorf("no file of package main in %s", genDir)
	}
	return e, nil
}

// run evaluates main(). The returned stop is nil when main returned normally.
func (e *genEval) run() (st *gStop) {
	defer func() {
		if r := recover(); r != nil {
			if s, ok := r.(gStop); ok {
				st = &s
				return
			}
			panic(r)
		}
	}()
	e.globals = newScope(nil)
	for _, f := range e.files {
		for _, im := range f.Imports {
			path, _ := strconv.Unquote(im.Path.Value)
			name := filepath.Base(path)
			if im.Name != nil {
				name = im.Name.Name
			}
			if name != "_" {
				e.imports[name] = path
			}
		}
	}
	// declarations: types and functions first, then package variables in source order
	for _, f := range e.files {
		for _, d := range f.Decls {
			switch x := d.(type) {
			case *ast.FuncDecl:
				if x.Recv != nil {
					e.methods = true
					if len(x.Recv.List) == 1 {
						rt := x.Recv.List[0].Type
						if st, ok := rt.(*ast.StarExpr); ok {
							rt = st.X
						}
						if id, ok := rt.(*ast.Ident); ok {
							if e.userMethods == nil {
								e.userMethods = map[string]map[string]*ast.FuncDecl{}
							}
							if e.userMethods[id.Name] == nil {
								e.userMethods[id.Name] = map[string]*ast.FuncDecl{}
							}
							e.userMethods[id.Name][x.Name.Name] = x
						}
					}
					continue
				}
				e.funcs[x.Name.Name] = x
			case *ast.GenDecl:
				if x.Tok == token.TYPE {
					for _, sp := range x.Specs {
						ts := sp.(*ast.TypeSpec)
						if st, ok := ts.Type.(*ast.StructType); ok {
							e.structs[ts.Name.Name] = st
						}
					}
				}
			}
		}
	}
	for _, f := range e.files {
		for _, d := range f.Decls {
			gd, ok := d.(*ast.GenDecl)
			if !ok || (gd.Tok != token.VAR && gd.Tok != token.CONST) {
				continue
			}
			embed := []string(nil)
			if gd.Doc != nil {
				for _, cm := range gd.Doc.List {
					if strings.HasPrefix(cm.Text, "//go:embed ") {
						embed = append(embed, strings.Fields(strings.TrimPrefix(cm.Text, "//go:embed "))...)
					}
				}
			}
			var last []ast.Expr
			var lastType ast.Expr
			for iota, sp := range gd.Specs {
				vs := sp.(*ast.ValueSpec)
				if vs.Doc != nil {
					for _, cm := range vs.Doc.List {
						if strings.HasPrefix(cm.Text, "//go:embed ") {
							embed = append(embed, strings.Fields(strings.TrimPrefix(cm.Text, "//go:embed "))...)
						}
					}
				}
				if embed != nil && len(vs.Names) == 1 && len(vs.Values) == 0 {
					e.globals.vars[vs.Names[0].Name] = &gCell{e.embedValue(vs, embed)}
					embed = nil
					continue
				}
				vals, typ := vs.Values, vs.Type
				if gd.Tok == token.CONST && len(vals) == 0 {
					vals, typ = last, lastType
				} else {
					last, lastType = vals, typ
				}
				sc := newScope(e.globals)
				sc.vars["iota"] = &gCell{int64(iota)}
				for i, nm := range vs.Names {
					var v gv
					switch {
					case i < len(vals):
						v = e.copyVal(e.eval(sc, vals[i]))
					case typ != nil:
						v = e.zero(typ)
					default:
						e.stop(vs.Pos(), "package variable %s has no value", nm.Name)
					}
					e.globals.vars[nm.Name] = &gCell{v}
				}
			}
		}
	}
	mainFn := e.funcs["main"]
	if mainFn == nil {
		e.stop(token.NoPos, "the generator has no func main")
	}
	e.callFunc(&gFunc{decl: mainFn, env: e.globals}, nil, mainFn.Pos())
	return nil
}

func (e *genEval) embedValue(vs *ast.ValueSpec, patterns []string) gv {
	if sel, ok := vs.Type.(*ast.SelectorExpr); ok && sel.Sel.Name == "FS" {
		return &gEmbedFS{patterns: patterns}
	}
	if len(patterns) != 1 {
		e.stop(vs.Pos(), "embedded string with %d patterns", len(patterns))
	}
	b, err := e.read(filepath.Join(e.genDir, patterns[0]))
	if err != nil {
		e.stop(vs.Pos(), "embedded file %s: %v", patterns[0], err)
	}
	if at, ok := vs.Type.(*ast.ArrayType); ok && at.Len == nil {
		return gBytes(b)
	}
	return string(b)
}

func (e *genEval) zero(t ast.Expr) gv {
	switch x := t.(type) {
	case *ast.Ident:
		switch x.Name {
		case "string":
			return ""
		case "bool":
			return false
		case "int", "int64", "int32", "uint", "uint8", "byte", "int8", "int16", "uint16", "uint32", "uint64":
			return int64(0)
		case "error", "any":
			return gNil{}
		}
		if st, ok := e.structs[x.Name]; ok {
			s := &gStruct{typ: x.Name, fields: map[string]gv{}}
			for _, f := range st.Fields.List {
				for _, nm := range f.Names {
					s.fields[nm.Name] = e.zero(f.Type)
				}
			}
			return s
		}
	case *ast.ArrayType:
		if x.Len == nil {
			if id, ok := x.Elt.(*ast.Ident); ok && id.Name == "byte" {
				return gBytes(nil)
			}
			return &gSlice{}
		}
	case *ast.MapType:
		return &gMap{vals: map[string]gv{}, zero: e.tryZero(x.Value)}
	case *ast.StarExpr, *ast.FuncType, *ast.InterfaceType:
		return gNil{}
	case *ast.SelectorExpr:
		if pk, ok := x.X.(*ast.Ident); ok {
			switch e.imports[pk.Name] + "." + x.Sel.Name {
			case "bytes.Buffer", "strings.Builder":
				return &gBuffer{}
			case "io.Writer", "io.WriteCloser":
				return gNil{}
			}
		}
	}
	e.stop(t.Pos(), "zero value of type %s is outside the evaluated subset", genText(t))
	return nil
}

// tryZero: the zero value of a type, nil when it is outside the evaluated subset.
func (e *genEval) tryZero(t ast.Expr) (v gv) {
	defer func() {
		if r := recover(); r != nil {
			if _, ok := r.(gStop); ok {
				v = nil
				return
			}
			panic(r)
		}
	}()
	return e.zero(t)
}

// callUserMethod: a method the generator declares on one of its struct types, called on a value
// of that type. A pointer receiver sees the value itself, a value receiver a copy.
func (e *genEval) callUserMethod(s *gStruct, name string, args []gv, at token.Pos) ([]gv, bool) {
	fd := e.userMethods[s.typ][name]
	if fd == nil || fd.Body == nil {
		return nil, false
	}
	env := newScope(e.globals)
	if len(fd.Recv.List[0].Names) == 1 && fd.Recv.List[0].Names[0].Name != "_" {
		var rv gv = s
		if _, isPtr := fd.Recv.List[0].Type.(*ast.StarExpr); isPtr {
			rv = &gPtr{c: &gCell{s}}
		} else {
			rv = e.copyVal(s)
		}
		env.vars[fd.Recv.List[0].Names[0].Name] = &gCell{rv}
	}
	return e.callFunc(&gFunc{decl: fd, env: env}, args, at), true
}

func genText(x ast.Node) string {
	var b bytes.Buffer
	format.Node(&b, token.NewFileSet(), x)
	return b.String()
}

// copyVal gives value semantics to structs (and arrays of them are not supported).
func (e *genEval) copyVal(v gv) gv {
	switch x := v.(type) {
	case *gStruct:
		n := &gStruct{typ: x.typ, fields: map[string]gv{}}
		for k, f := range x.fields {
			n.fields[k] = e.copyVal(f)
		}
		return n
	case gTuple:
		e.stop(token.NoPos, "multi-value in single-value context")
	}
	return v
}

func (e *genEval) tick(p token.Pos) {
	e.fuel--
	if e.fuel <= 0 {
		e.stop(p, "evaluation budget exhausted (unbounded loop?)")
	}
}

// ---- calls

func (e *genEval) callFunc(f *gFunc, args []gv, at token.Pos) []gv {
	e.tick(at)
	if len(e.frames) > 200 {
		e.stop(at, "recursion too deep")
	}
	var ft *ast.FuncType
	var body *ast.BlockStmt
	name := "func literal"
	if f.decl != nil {
		ft, body, name = f.decl.Type, f.decl.Body, f.decl.Name.Name
	} else {
		ft, body = f.lit.Type, f.lit.Body
	}
	sc := newScope(f.env)
	i := 0
	for _, p := range ft.Params.List {
		_, variadic := p.Type.(*ast.Ellipsis)
		names := p.Names
		if len(names) == 0 {
			names = []*ast.Ident{{Name: "_"}}
		}
		for _, nm := range names {
			if variadic {
				sl := &gSlice{}
				for ; i < len(args); i++ {
					sl.elems = append(sl.elems, args[i])
				}
				sc.vars[nm.Name] = &gCell{sl}
				continue
			}
			if i >= len(args) {
				e.stop(at, "call of %s with too few arguments", name)
			}
			sc.vars[nm.Name] = &gCell{e.copyVal(args[i])}
			i++
		}
	}
	var resNames []string
	var resTypes []ast.Expr
	if ft.Results != nil {
		for _, r := range ft.Results.List {
			n := len(r.Names)
			if n == 0 {
				n = 1
			}
			for k := 0; k < n; k++ {
				resTypes = append(resTypes, r.Type)
				if len(r.Names) > 0 {
					resNames = append(resNames, r.Names[k].Name)
					sc.vars[r.Names[k].Name] = &gCell{e.zero(r.Type)}
				}
			}
		}
	}
	fr := &gFrame{}
	e.frames = append(e.frames, fr)
	ctl := e.execBlock(newScope(sc), body.List)
	if ctl != ctlReturn || (fr.ret == nil && len(resNames) > 0) {
		fr.ret = nil
		for _, n := range resNames {
			fr.ret = append(fr.ret, sc.vars[n].v)
		}
	}
	for k := len(fr.deferred) - 1; k >= 0; k-- {
		fr.deferred[k]()
	}
	e.frames = e.frames[:len(e.frames)-1]
	if len(fr.ret) != len(resTypes) {
		e.stop(at, "%s returns %d values, declared %d", name, len(fr.ret), len(resTypes))
	}
	// errors handed to the caller: the caller's test of this function's error result decides
	for k, t := range resTypes {
		if id, ok := t.(*ast.Ident); ok && id.Name == "error" {
			tok, _ := fr.ret[k].(*gErr)
			if tok == nil && len(fr.propagated) > 0 {
				tok = &gErr{src: "call of " + name, pos: at}
				e.errs = append(e.errs, tok)
				fr.ret[k] = tok
			}
			for _, p := range fr.propagated {
				if p != tok {
					p.via = tok
				}
			}
		}
	}
	return fr.ret
}

func (e *genEval) newErr(src string, p token.Pos, important bool) *gErr {
	t := &gErr{src: src, pos: p, important: important}
	e.errs = append(e.errs, t)
	return t
}

func (e *genEval) unorderedOutput(at token.Pos, what string) {
	e.finding(true, "generator output is deterministic", at, "%s in the iteration order of a map with more than one entry: the order of the instantiations in the output changes from run to run", what)
	panic(gStop{pos: at, reason: "map iteration order", exit: true})
}

func (e *genEval) write(w gv, p []byte, at token.Pos) {
	if e.mapDepth > 0 && len(p) > 0 {
		e.unorderedOutput(at, "output is written")
	}
	switch x := w.(type) {
	case *gFile:
		if x.closed {
			e.finding(true, "generator output reaches the file", at, "write to %s after it was closed: the bytes are lost", x.name)
			return
		}
		x.buf.Write(p)
	case *gBufio:
		x.buf.Write(p)
	case *gBuffer:
		x.buf.Write(p)
	case gDiscard:
	case *gPtr:
		e.write(x.c.v, p, at)
	default:
		e.stop(at, "write to a value that is not a file, buffer or bufio.Writer (%T)", w)
	}
}

func (e *genEval) flush(b *gBufio, at token.Pos) {
	if b.buf.Len() == 0 {
		return
	}
	if f, ok := b.target.(*gFile); ok && f.closed {
		e.finding(true, "generator output reaches the file", at,
			"Flush runs after %s was closed (deferred calls run after the explicit statements, in reverse order): the %d bytes still in the buffer are written to a closed file and the error is lost – the generator exits 0 and the tail of the output is missing", f.name, b.buf.Len())
		b.buf.Reset()
		return
	}
	e.write(b.target, b.buf.Bytes(), at)
	b.buf.Reset()
}

// toGo converts an evaluated value into what text/template is given.
func (e *genEval) toGo(v gv, at token.Pos) any {
	switch x := v.(type) {
	case string, bool:
		return x
	case int64:
		return int(x)
	case gNil:
		return nil
	case gBytes:
		return []byte(x)
	case *gPtr:
		return e.toGo(x.c.v, at)
	case *gSlice:
		if x.unordered && len(x.elems) > 1 {
			e.unorderedOutput(at, "the template is given a slice that was filled")
		}
		// a homogeneous slice of one struct type becomes a typed slice
		if len(x.elems) > 0 {
			if s0, ok := x.elems[0].(*gStruct); ok {
				if rt := e.rtype(s0.typ); rt != nil {
					out := reflect.MakeSlice(reflect.SliceOf(rt), 0, len(x.elems))
					for _, el := range x.elems {
						out = reflect.Append(out, reflect.ValueOf(e.toGo(el, at)))
					}
					return out.Interface()
				}
			}
			if _, ok := x.elems[0].(string); ok {
				var out []string
				for _, el := range x.elems {
					s, ok := el.(string)
					if !ok {
						e.stop(at, "mixed slice handed to the template")
					}
					out = append(out, s)
				}
				return out
			}
		}
		out := []any{}
		for _, el := range x.elems {
			out = append(out, e.toGo(el, at))
		}
		return out
	case *gMap:
		out := map[string]any{}
		for k, el := range x.vals {
			out[k] = e.toGo(el, at)
		}
		return out
	case *gStruct:
		if rt := e.rtype(x.typ); rt != nil {
			val := reflect.New(rt).Elem()
			for i := 0; i < rt.NumField(); i++ {
				fval, isField := x.fields[rt.Field(i).Name]
				if !isField && e.userMethods[x.typ][rt.Field(i).Name] != nil {
					if out, ok := e.callUserMethod(x, rt.Field(i).Name, nil, at); ok && len(out) == 1 {
						fval = out[0]
					}
				}
				f := e.toGo(fval, at)
				if f == nil {
					continue
				}
				fv := reflect.ValueOf(f)
				if !fv.Type().AssignableTo(rt.Field(i).Type) {
					if fv.Type().ConvertibleTo(rt.Field(i).Type) {
						fv = fv.Convert(rt.Field(i).Type)
					} else {
						e.stop(at, "field %s.%s: value of type %s", x.typ, rt.Field(i).Name, fv.Type())
					}
				}
				val.Field(i).Set(fv)
			}
			return val.Interface()
		}
		out := map[string]any{}
		for k, el := range x.fields {
			out[k] = e.toGo(el, at)
		}
		return out
	}
	e.stop(at, "value of kind %T handed to the template", v)
	return nil
}

// rtype builds the reflect type of a struct of the generator (exported fields of basic, slice
// and struct types); nil when it cannot, in which case a map stands in for the struct.
func (e *genEval) rtype(name string) reflect.Type {
	if t, ok := e.rtypes[name]; ok {
		return t
	}
	e.rtypes[name] = nil
	st := e.structs[name]
	if st == nil {
		return nil
	}
	var fields []reflect.StructField
	for _, f := range st.Fields.List {
		ft := e.rtypeOf(f.Type)
		if ft == nil || len(f.Names) == 0 {
			return nil
		}
		for _, nm := range f.Names {
			if !nm.IsExported() {
				return nil
			}
			fields = append(fields, reflect.StructField{Name: nm.Name, Type: ft})
		}
	}
	// niladic methods the template may call (.Name, .LeafName) stand in the data as fields of the
	// same name holding what the method returns for the row
	for _, mn := range sortedKeys(e.userMethods[name]) {
		fd := e.userMethods[name][mn]
		if !ast.IsExported(mn) || fd.Type.Params.NumFields() != 0 || fd.Type.Results.NumFields() != 1 {
			continue
		}
		ft := e.rtypeOf(fd.Type.Results.List[0].Type)
		if ft == nil {
			continue
		}
		fields = append(fields, reflect.StructField{Name: mn, Type: ft})
	}
	t := reflect.StructOf(fields)
	e.rtypes[name] = t
	return t
}

func (e *genEval) rtypeOf(t ast.Expr) reflect.Type {
	switch x := t.(type) {
	case *ast.Ident:
		switch x.Name {
		case "string":
			return reflect.TypeOf("")
		case "bool":
			return reflect.TypeOf(false)
		case "int":
			return reflect.TypeOf(0)
		}
		if _, ok := e.structs[x.Name]; ok {
			return e.rtype(x.Name)
		}
	case *ast.ArrayType:
		if x.Len == nil {
			if et := e.rtypeOf(x.Elt); et != nil {
				return reflect.SliceOf(et)
			}
		}
	}
	return nil
}

func (e *genEval) fromGo(v any, at token.Pos) gv {
	switch x := v.(type) {
	case nil:
		return gNil{}
	case string:
		return x
	case bool:
		return x
	case int:
		return int64(x)
	case int64:
		return x
	case []byte:
		return gBytes(x)
	case []string:
		sl := &gSlice{}
		for _, s := range x {
			sl.elems = append(sl.elems, s)
		}
		return sl
	}
	rv := reflect.ValueOf(v)
	switch rv.Kind() {
	case reflect.Struct:
		for n, t := range e.rtypes {
			if t == rv.Type() {
				s := &gStruct{typ: n, fields: map[string]gv{}}
				for i := 0; i < rv.NumField(); i++ {
					s.fields[t.Field(i).Name] = e.fromGo(rv.Field(i).Interface(), at)
				}
				return s
			}
		}
	case reflect.Slice:
		sl := &gSlice{}
		for i := 0; i < rv.Len(); i++ {
			sl.elems = append(sl.elems, e.fromGo(rv.Index(i).Interface(), at))
		}
		return sl
	}
	e.stop(at, "value of type %T comes back from the template", v)
	return nil
}

// natives: pure library functions generators use on their constants.
var genNatives = map[string]any{
	"strings.ToLower": strings.ToLower, "strings.ToUpper": strings.ToUpper, "strings.TrimSuffix": strings.TrimSuffix,
	"strings.TrimPrefix": strings.TrimPrefix, "strings.TrimSpace": strings.TrimSpace, "strings.Repeat": strings.Repeat,
	"strings.HasPrefix": strings.HasPrefix, "strings.HasSuffix": strings.HasSuffix, "strings.Contains": strings.Contains,
	"strings.ReplaceAll": strings.ReplaceAll, "strings.Title": strings.Title, "strings.Join": strings.Join,
	"strings.Split": strings.Split, "strings.Fields": strings.Fields, "strings.Compare": strings.Compare,
	"strings.CutSuffix": strings.CutSuffix, "strings.CutPrefix": strings.CutPrefix,
	"strconv.Itoa": strconv.Itoa, "strconv.Quote": strconv.Quote,
	"path/filepath.Join": filepath.Join, "path/filepath.Base": filepath.Base, "path.Join": filepath.Join,
}

func (e *genEval) callNative(name string, fn any, args []gv, at token.Pos) []gv {
	fv := reflect.ValueOf(fn)
	ft := fv.Type()
	var in []reflect.Value
	for i, a := range args {
		var pt reflect.Type
		switch {
		case ft.IsVariadic() && i >= ft.NumIn()-1:
			pt = ft.In(ft.NumIn() - 1).Elem()
		case i < ft.NumIn():
			pt = ft.In(i)
		default:
			e.stop(at, "call of %s with too many arguments", name)
		}
		g := e.toGo(a, at)
		if g == nil {
			in = append(in, reflect.Zero(pt))
			continue
		}
		gvv := reflect.ValueOf(g)
		if !gvv.Type().AssignableTo(pt) {
			if gvv.Type().ConvertibleTo(pt) && gvv.Kind() != reflect.String {
				gvv = gvv.Convert(pt)
			} else if sl, ok := g.([]any); ok && pt.Kind() == reflect.Slice && pt.Elem().Kind() == reflect.String {
				ss := []string{}
				for _, s := range sl {
					ss = append(ss, fmt.Sprint(s))
				}
				gvv = reflect.ValueOf(ss)
			} else {
				e.stop(at, "argument %d of %s has type %s", i+1, name, gvv.Type())
			}
		}
		in = append(in, gvv)
	}
	if !ft.IsVariadic() && len(in) != ft.NumIn() {
		e.stop(at, "call of %s with %d arguments", name, len(in))
	}
	var out []gv
	for _, r := range fv.Call(in) {
		out = append(out, e.fromGo(r.Interface(), at))
	}
	return out
}

// templateFunc wraps an evaluated function value for template.FuncMap.
func (e *genEval) templateFunc(v gv, at token.Pos) any {
	switch f := v.(type) {
	case *gNative:
		return f.fn
	case *gFunc:
		return func(args ...any) (any, error) {
			var in []gv
			for _, a := range args {
				in = append(in, e.fromGo(a, at))
			}
			out := e.callFunc(f, in, at)
			if len(out) == 0 {
				return nil, fmt.Errorf("template function returns nothing")
			}
			return e.toGo(out[0], at), nil
		}
	}
	e.stop(at, "template function of kind %T", v)
	return nil
}

func (e *genEval) one(vs []gv, at token.Pos) gv {
	if len(vs) != 1 {
		e.stop(at, "call yields %d values in single-value context", len(vs))
	}
	return vs[0]
}

func (e *genEval) str(v gv, at token.Pos) string {
	switch x := v.(type) {
	case string:
		return x
	case gBytes:
		return string(x)
	}
	e.stop(at, "expected a constant string, have %T", v)
	return ""
}

func (e *genEval) resolvePath(p string) string {
	if filepath.IsAbs(p) {
		return p
	}
	return filepath.Join(e.cwd, p)
}

func (e *genEval) openOut(name string, at token.Pos) *gFile {
	f := &gFile{name: name, pos: at}
	e.outFiles[name] = f // a later open of the same name replaces the earlier content (O_TRUNC or not: the generator's own earlier output is shorter or equal)
	return f
}

func (e *genEval) parseInto(t *template.Template, name, text string, at token.Pos) *template.Template {
	var nt *template.Template
	if t == nil {
		nt = template.New(name)
	} else if t.Name() == name {
		nt = t
	} else {
		nt = t.New(name)
	}
	if _, err := nt.Parse(text); err != nil {
		e.finding(true, "template parses", at, "%v", err)
		panic(gStop{pos: at, reason: "template does not parse", exit: true})
	}
	if t == nil {
		return nt
	}
	return t
}

func (e *genEval) execTemplate(t *gTemplate, w gv, name string, data gv, at token.Pos) gv {
	var buf bytes.Buffer
	var err error
	d := e.toGo(data, at)
	if name == "" {
		err = t.t.Execute(&buf, d)
	} else {
		err = t.t.ExecuteTemplate(&buf, name, d)
	}
	e.execs++
	if err != nil {
		if e.methods {
			e.stop(at, "template execution failed on the evaluated data (%v); the generator declares methods, which the evaluated data does not carry", err)
		}
		e.finding(true, "template executes", at, "%v", err)
		panic(gStop{pos: at, reason: "template execution fails", exit: true})
	}
	e.write(w, buf.Bytes(), at)
	return e.newErr("Execute", at, true)
}

// callPkg: functions of imported packages.
func (e *genEval) callPkg(sc *gScope, path, fn string, call *ast.CallExpr) []gv {
	at := call.Pos()
	args := func() []gv {
		var out []gv
		for _, a := range call.Args {
			v := e.eval(sc, a)
			if tu, ok := v.(gTuple); ok && len(call.Args) == 1 {
				return tu
			}
			out = append(out, v)
		}
		if call.Ellipsis.IsValid() && len(out) > 0 {
			if sl, ok := out[len(out)-1].(*gSlice); ok {
				out = append(out[:len(out)-1], sl.elems...)
			}
		}
		return out
	}
	q := path + "." + fn
	if nf, ok := genNatives[q]; ok {
		return e.callNative(q, nf, args(), at)
	}
	switch q {
	case "sort.Slice", "sort.SliceStable", "slices.SortFunc", "slices.SortStableFunc":
		a := args()
		sl, ok := a[0].(*gSlice)
		f, ok2 := a[1].(*gFunc)
		if !ok || !ok2 {
			e.stop(at, "%s on a %T", q, a[0])
		}
		byIndex := path == "sort"
		if byIndex {
			// the comparison reads the slice through its variable: sort in place, stably (the
			// result of an unstable sort with equal keys is not fixed either, but equal keys
			// among the rows would make two instantiations collide anyway)
			n := len(sl.elems)
			for i := 1; i < n; i++ {
				for j := i; j > 0; j-- {
					less, _ := e.one(e.callFunc(f, []gv{int64(j), int64(j - 1)}, at), at).(bool)
					if !less {
						break
					}
					sl.elems[j], sl.elems[j-1] = sl.elems[j-1], sl.elems[j]
				}
			}
		} else {
			sort.SliceStable(sl.elems, func(i, j int) bool {
				c, _ := e.one(e.callFunc(f, []gv{sl.elems[i], sl.elems[j]}, at), at).(int64)
				return c < 0
			})
		}
		sl.unordered = false
		return nil
	case "sort.Strings", "slices.Sort":
		a := args()
		sl, ok := a[0].(*gSlice)
		if !ok {
			e.stop(at, "%s on a %T", q, a[0])
		}
		sort.SliceStable(sl.elems, func(i, j int) bool {
			x, ok1 := sl.elems[i].(string)
			y, ok2 := sl.elems[j].(string)
			if !ok1 || !ok2 {
				e.stop(at, "%s on a slice that does not hold strings", q)
			}
			return x < y
		})
		sl.unordered = false
		return nil
	case "text/template.New":
		a := args()
		return []gv{&gTemplate{t: template.New(e.str(a[0], at))}}
	case "text/template.Must":
		a := args()
		if len(a) == 2 {
			if tok, ok := a[1].(*gErr); ok {
				tok.handled = true
			}
		}
		return []gv{a[0]}
	case "text/template.ParseFS":
		a := args()
		fs, ok := a[0].(*gEmbedFS)
		if !ok {
			e.stop(at, "ParseFS on something that is not an embedded file system")
		}
		var t *template.Template
		for _, p := range a[1:] {
			name := e.str(p, at)
			covered := false
			for _, pat := range fs.patterns {
				if m, _ := filepath.Match(pat, name); m || pat == name {
					covered = true
				}
			}
			if !covered {
				e.stop(at, "template %s is not covered by the go:embed patterns %v", name, fs.patterns)
			}
			b, err := e.read(filepath.Join(e.genDir, name))
			if err != nil {
				e.stop(at, "template file %s: %v", name, err)
			}
			t = e.parseInto(t, filepath.Base(name), string(b), at)
		}
		if t == nil {
			e.stop(at, "ParseFS without file names")
		}
		return []gv{&gTemplate{t: t}, e.newErr("ParseFS", at, false)}
	case "text/template.ParseFiles":
		var t *template.Template
		for _, p := range args() {
			name := e.str(p, at)
			b, err := e.read(e.resolvePath(name))
			if err != nil {
				e.stop(at, "template file %s: %v", name, err)
			}
			t = e.parseInto(t, filepath.Base(name), string(b), at)
		}
		if t == nil {
			e.stop(at, "ParseFiles without file names")
		}
		return []gv{&gTemplate{t: t}, e.newErr("ParseFiles", at, false)}
	case "os.OpenFile", "os.Create":
		a := args()
		return []gv{e.openOut(e.str(a[0], at), at), e.newErr(fn, at, false)}
	case "os.WriteFile":
		a := args()
		f := e.openOut(e.str(a[0], at), at)
		switch b := a[1].(type) {
		case gBytes:
			f.buf.Write(b)
		case string:
			f.buf.WriteString(b)
		default:
			e.stop(at, "os.WriteFile of a %T", a[1])
		}
		f.closed = true
		return []gv{e.newErr("WriteFile", at, false)}
	case "os.ReadFile":
		a := args()
		b, err := e.read(e.resolvePath(e.str(a[0], at)))
		if err != nil {
			e.stop(at, "os.ReadFile: %v", err)
		}
		return []gv{gBytes(b), e.newErr("ReadFile", at, false)}
	case "os.Exit", "log.Fatal", "log.Fatalf", "log.Fatalln", "log.Panic", "log.Panicf", "log.Panicln":
		panic(gStop{pos: at, reason: "the generator ends through " + q + " on the path without errors", exit: true})
	case "log.Print", "log.Printf", "log.Println", "log.SetFlags", "log.SetPrefix", "fmt.Print", "fmt.Printf", "fmt.Println":
		args()
		return nil
	case "bufio.NewWriter", "bufio.NewWriterSize":
		a := args()
		b := &gBufio{target: a[0], pos: at}
		e.bufios = append(e.bufios, b)
		return []gv{b}
	case "bytes.NewBuffer":
		a := args()
		b := &gBuffer{}
		if bs, ok := a[0].(gBytes); ok {
			b.buf.Write(bs)
		}
		return []gv{b}
	case "go/format.Source":
		a := args()
		src, ok := a[0].(gBytes)
		if !ok {
			e.stop(at, "format.Source of a %T", a[0])
		}
		out, err := format.Source(src)
		if err != nil {
			e.finding(true, "rendered template is valid Go", at, "%v", err)
			panic(gStop{pos: at, reason: "format.Source fails", exit: true})
		}
		return []gv{gBytes(out), e.newErr("format.Source", at, false)}
	case "io.WriteString":
		a := args()
		e.write(a[0], []byte(e.str(a[1], at)), at)
		return []gv{int64(0), e.newErr("WriteString", at, false)}
	case "fmt.Sprintf", "fmt.Sprint", "fmt.Sprintln", "fmt.Fprintf", "fmt.Fprint", "fmt.Fprintln", "fmt.Errorf", "errors.New":
		a := args()
		var w gv
		if strings.HasPrefix(fn, "F") {
			w, a = a[0], a[1:]
		}
		var ga []any
		for _, x := range a {
			if _, isErr := x.(*gErr); isErr {
				ga = append(ga, nil)
				continue
			}
			ga = append(ga, e.toGo(x, at))
		}
		s := ""
		switch strings.TrimPrefix(strings.TrimPrefix(fn, "F"), "S") {
		case "printf":
			f, ok := ga[0].(string)
			if !ok {
				e.stop(at, "format of %s is not a constant string", fn)
			}
			s = fmt.Sprintf(f, ga[1:]...)
		case "print":
			s = fmt.Sprint(ga...)
		case "println":
			s = fmt.Sprintln(ga...)
		default: // Errorf, New: an error value that is not nil – only legal on a failure path
			return []gv{&gStruct{typ: "error value"}}
		}
		if w != nil {
			e.write(w, []byte(s), at)
			return []gv{int64(len(s)), e.newErr(fn, at, false)}
		}
		return []gv{s}
	}
	e.stop(at, "call of %s is outside the evaluated subset", q)
	return nil
}

// callMethod: methods of the abstract I/O values.
func (e *genEval) callMethod(sc *gScope, recv gv, name string, call *ast.CallExpr) []gv {
	at := call.Pos()
	if p, ok := recv.(*gPtr); ok {
		recv = p.c.v
	}
	args := func() []gv {
		var out []gv
		for _, a := range call.Args {
			out = append(out, e.eval(sc, a))
		}
		return out
	}
	switch r := recv.(type) {
	case *gTemplate:
		switch name {
		case "Execute":
			a := args()
			return []gv{e.execTemplate(r, a[0], "", a[1], at)}
		case "ExecuteTemplate":
			a := args()
			return []gv{e.execTemplate(r, a[0], e.str(a[1], at), a[2], at)}
		case "Parse":
			a := args()
			r.t = e.parseInto(nil, r.t.Name(), e.str(a[0], at), at).Funcs(nil)
			return []gv{r, e.newErr("Parse", at, false)}
		case "ParseFS", "ParseFiles":
			a := args()
			for i, p := range a {
				if _, ok := p.(*gEmbedFS); ok && i == 0 {
					continue
				}
				n := e.str(p, at)
				path := filepath.Join(e.genDir, n)
				if name == "ParseFiles" {
					path = e.resolvePath(n)
				}
				b, err := e.read(path)
				if err != nil {
					e.stop(at, "template file %s: %v", n, err)
				}
				r.t = e.parseInto(r.t, filepath.Base(n), string(b), at)
			}
			return []gv{r, e.newErr(name, at, false)}
		case "New":
			a := args()
			return []gv{&gTemplate{t: r.t.New(e.str(a[0], at))}}
		case "Lookup":
			a := args()
			if t := r.t.Lookup(e.str(a[0], at)); t != nil {
				return []gv{&gTemplate{t: t}}
			}
			return []gv{gNil{}}
		case "Option":
			a := args()
			var opts []string
			for _, o := range a {
				opts = append(opts, e.str(o, at))
			}
			r.t.Option(opts...)
			return []gv{r}
		case "Funcs":
			a := args()
			m, ok := a[0].(*gMap)
			if !ok {
				e.stop(at, "Funcs with something that is not a map literal")
			}
			fm := template.FuncMap{}
			for k, f := range m.vals {
				fm[k] = e.templateFunc(f, at)
			}
			r.t.Funcs(fm)
			return []gv{r}
		case "Name":
			return []gv{r.t.Name()}
		}
	case *gFile:
		switch name {
		case "Close":
			r.closed = true
			return []gv{e.newErr("Close", at, false)}
		case "Sync", "Truncate", "Chmod":
			args()
			return []gv{e.newErr(name, at, false)}
		case "Write":
			a := args()
			b, ok := a[0].(gBytes)
			if !ok {
				e.stop(at, "Write of a %T", a[0])
			}
			e.write(r, b, at)
			return []gv{int64(len(b)), e.newErr("Write", at, false)}
		case "WriteString":
			a := args()
			s := e.str(a[0], at)
			e.write(r, []byte(s), at)
			return []gv{int64(len(s)), e.newErr("WriteString", at, false)}
		case "Name":
			return []gv{r.name}
		}
	case *gBufio:
		switch name {
		case "Flush":
			e.flush(r, at)
			return []gv{e.newErr("Flush", at, false)}
		case "Write":
			a := args()
			b, ok := a[0].(gBytes)
			if !ok {
				e.stop(at, "Write of a %T", a[0])
			}
			e.write(r, b, at)
			return []gv{int64(len(b)), e.newErr("Write", at, false)}
		case "WriteString":
			a := args()
			s := e.str(a[0], at)
			e.write(r, []byte(s), at)
			return []gv{int64(len(s)), e.newErr("WriteString", at, false)}
		case "Reset":
			a := args()
			r.buf.Reset()
			r.target = a[0]
			return nil
		}
	case *gBuffer:
		switch name {
		case "Bytes":
			return []gv{gBytes(append([]byte(nil), r.buf.Bytes()...))}
		case "String":
			return []gv{r.buf.String()}
		case "Len":
			return []gv{int64(r.buf.Len())}
		case "Reset":
			r.buf.Reset()
			return nil
		case "Write":
			a := args()
			b, ok := a[0].(gBytes)
			if !ok {
				e.stop(at, "Write of a %T", a[0])
			}
			r.buf.Write(b)
			return []gv{int64(len(b)), gNil{}}
		case "WriteString":
			a := args()
			s := e.str(a[0], at)
			r.buf.WriteString(s)
			return []gv{int64(len(s)), gNil{}}
		case "WriteByte":
			a := args()
			n, _ := a[0].(int64)
			r.buf.WriteByte(byte(n))
			return []gv{gNil{}}
		case "WriteTo":
			a := args()
			n := r.buf.Len()
			e.write(a[0], r.buf.Bytes(), at)
			r.buf.Reset()
			return []gv{int64(n), e.newErr("WriteTo", at, false)}
		}
	}
	e.stop(at, "method %s on a value of kind %T is outside the evaluated subset", name, recv)
	return nil
}

func (e *genEval) callExpr(sc *gScope, call *ast.CallExpr) []gv {
	e.tick(call.Pos())
	at := call.Pos()
	evalArgs := func() []gv {
		var out []gv
		for _, a := range call.Args {
			v := e.eval(sc, a)
			if tu, ok := v.(gTuple); ok && len(call.Args) == 1 {
				return tu
			}
			out = append(out, v)
		}
		if call.Ellipsis.IsValid() && len(out) > 0 {
			if sl, ok := out[len(out)-1].(*gSlice); ok {
				out = append(out[:len(out)-1:len(out)-1], sl.elems...)
			}
		}
		return out
	}
	switch f := ast.Unparen(call.Fun).(type) {
	case *ast.Ident:
		if c := sc.lookup(f.Name); c != nil {
			switch fv := c.v.(type) {
			case *gFunc:
				return e.callFunc(fv, evalArgs(), at)
			case *gNative:
				return e.callNative(fv.name, fv.fn, evalArgs(), at)
			case *gBound:
				return e.callMethod(sc, fv.recv, fv.name, call)
			}
			e.stop(at, "call of %s, which is not a function value", f.Name)
		}
		if fd, ok := e.funcs[f.Name]; ok {
			return e.callFunc(&gFunc{decl: fd, env: e.globals}, evalArgs(), at)
		}
		switch f.Name {
		case "append":
			a := evalArgs()
			switch base := a[0].(type) {
			case *gSlice:
				n := &gSlice{elems: append([]gv(nil), base.elems...), unordered: base.unordered || e.mapDepth > 0}
				for _, x := range a[1:] {
					n.elems = append(n.elems, e.copyVal(x))
				}
				return []gv{n}
			case gNil:
				n := &gSlice{unordered: e.mapDepth > 0}
				for _, x := range a[1:] {
					n.elems = append(n.elems, e.copyVal(x))
				}
				return []gv{n}
			case gBytes:
				out := append(gBytes(nil), base...)
				for _, x := range a[1:] {
					switch y := x.(type) {
					case int64:
						out = append(out, byte(y))
					case gBytes:
						out = append(out, y...)
					case string:
						out = append(out, y...)
					default:
						e.stop(at, "append of a %T to bytes", x)
					}
				}
				return []gv{out}
			}
			e.stop(at, "append to a %T", a[0])
		case "len":
			a := evalArgs()
			switch x := a[0].(type) {
			case *gSlice:
				return []gv{int64(len(x.elems))}
			case string:
				return []gv{int64(len(x))}
			case gBytes:
				return []gv{int64(len(x))}
			case *gMap:
				return []gv{int64(len(x.vals))}
			case gNil:
				return []gv{int64(0)}
			}
			e.stop(at, "len of a %T", a[0])
		case "panic":
			panic(gStop{pos: at, reason: "the generator panics on the path without errors", exit: true})
		case "string":
			a := evalArgs()
			return []gv{e.str(a[0], at)}
		case "int", "int64", "uint", "byte":
			a := evalArgs()
			if n, ok := a[0].(int64); ok {
				return []gv{n}
			}
		case "make":
			if len(call.Args) >= 1 {
				z := e.zero(call.Args[0])
				if sl, ok := z.(*gSlice); ok && len(call.Args) >= 2 {
					n, _ := e.eval(sc, call.Args[1]).(int64)
					if len(call.Args) == 2 && n > 0 {
						if at, ok := call.Args[0].(*ast.ArrayType); ok {
							for i := int64(0); i < n; i++ {
								sl.elems = append(sl.elems, e.zero(at.Elt))
							}
						}
					}
				}
				return []gv{z}
			}
		case "print", "println":
			return nil
		}
		if _, ok := e.structs[f.Name]; ok && len(call.Args) == 1 { // conversion
			return []gv{e.eval(sc, call.Args[0])}
		}
		e.stop(at, "call of %s is outside the evaluated subset", f.Name)
	case *ast.SelectorExpr:
		if id, ok := f.X.(*ast.Ident); ok && sc.lookup(id.Name) == nil {
			if path, ok := e.imports[id.Name]; ok {
				return e.callPkg(sc, path, f.Sel.Name, call)
			}
		}
		recv := e.eval(sc, f.X)
		if s, ok := derefStruct(recv); ok { // a function stored in a field
			if fv, ok := s.fields[f.Sel.Name].(*gFunc); ok {
				return e.callFunc(fv, evalArgs(), at)
			}
			if e.userMethods[s.typ][f.Sel.Name] != nil {
				if out, ok := e.callUserMethod(s, f.Sel.Name, evalArgs(), at); ok {
					return out
				}
			}
		}
		return e.callMethod(sc, recv, f.Sel.Name, call)
	case *ast.FuncLit:
		return e.callFunc(&gFunc{lit: f, env: sc}, evalArgs(), at)
	case *ast.ArrayType: // []byte(s)
		if id, ok := f.Elt.(*ast.Ident); ok && id.Name == "byte" && len(call.Args) == 1 {
			return []gv{gBytes(e.str(e.eval(sc, call.Args[0]), at))}
		}
	}
	e.stop(at, "call of %s is outside the evaluated subset", genText(call.Fun))
	return nil
}

func derefStruct(v gv) (*gStruct, bool) {
	if p, ok := v.(*gPtr); ok {
		v = p.c.v
	}
	s, ok := v.(*gStruct)
	return s, ok
}

// ---- expressions

func (e *genEval) eval(sc *gScope, x ast.Expr) gv {
	e.tick(x.Pos())
	switch x := x.(type) {
	case *ast.ParenExpr:
		return e.eval(sc, x.X)
	case *ast.BasicLit:
		cv := constant.MakeFromLiteral(x.Value, x.Kind, 0)
		switch x.Kind {
		case token.STRING:
			return constant.StringVal(cv)
		case token.INT, token.CHAR:
			n, _ := constant.Int64Val(cv)
			return n
		}
		e.stop(x.Pos(), "literal %s", x.Value)
	case *ast.Ident:
		if c := sc.lookup(x.Name); c != nil {
			return c.v
		}
		switch x.Name {
		case "true":
			return true
		case "false":
			return false
		case "nil":
			return gNil{}
		}
		if fd, ok := e.funcs[x.Name]; ok {
			return &gFunc{decl: fd, env: e.globals}
		}
		e.stop(x.Pos(), "identifier %s has no constant value", x.Name)
	case *ast.FuncLit:
		return &gFunc{lit: x, env: sc}
	case *ast.CompositeLit:
		return e.composite(sc, x, x.Type)
	case *ast.SelectorExpr:
		if id, ok := x.X.(*ast.Ident); ok && sc.lookup(id.Name) == nil {
			if path, ok := e.imports[id.Name]; ok {
				q := path + "." + x.Sel.Name
				if nf, ok := genNatives[q]; ok {
					return &gNative{name: q, fn: nf}
				}
				switch q {
				case "os.O_CREATE", "os.O_WRONLY", "os.O_TRUNC", "os.O_RDWR", "os.O_APPEND", "os.O_EXCL", "os.ModePerm":
					return int64(0)
				case "os.Stdout", "os.Stderr", "io.Discard":
					return gDiscard{}
				}
				e.stop(x.Pos(), "%s is outside the evaluated subset", q)
			}
		}
		recv := e.eval(sc, x.X)
		if s, ok := derefStruct(recv); ok {
			if v, ok := s.fields[x.Sel.Name]; ok {
				return v
			}
			e.stop(x.Pos(), "struct %s has no field %s", s.typ, x.Sel.Name)
		}
		switch recv.(type) {
		case *gTemplate, *gFile, *gBufio, *gBuffer:
			return &gBound{recv: recv, name: x.Sel.Name}
		}
		e.stop(x.Pos(), "selector %s on a %T", x.Sel.Name, recv)
	case *ast.IndexExpr:
		base := e.eval(sc, x.X)
		idx := e.eval(sc, x.Index)
		switch b := base.(type) {
		case *gSlice:
			i, ok := idx.(int64)
			if !ok || i < 0 || int(i) >= len(b.elems) {
				e.stop(x.Pos(), "index out of the constant range")
			}
			return b.elems[i]
		case *gMap:
			k, ok := idx.(string)
			if !ok {
				e.stop(x.Pos(), "map key is not a constant string")
			}
			if v, ok := b.vals[k]; ok {
				return v
			}
			if b.zero != nil {
				return e.copyVal(b.zero)
			}
			e.stop(x.Pos(), "map has no key %q", k)
		case string:
			i, ok := idx.(int64)
			if !ok || i < 0 || int(i) >= len(b) {
				e.stop(x.Pos(), "index out of the constant range")
			}
			return int64(b[i])
		}
		e.stop(x.Pos(), "index of a %T", base)
	case *ast.SliceExpr:
		base := e.eval(sc, x.X)
		lo, hi := int64(0), int64(-1)
		if x.Low != nil {
			lo, _ = e.eval(sc, x.Low).(int64)
		}
		if x.High != nil {
			hi, _ = e.eval(sc, x.High).(int64)
		}
		switch b := base.(type) {
		case *gSlice:
			if hi < 0 {
				hi = int64(len(b.elems))
			}
			if lo < 0 || hi > int64(len(b.elems)) || lo > hi {
				e.stop(x.Pos(), "slice bounds out of range")
			}
			return &gSlice{elems: b.elems[lo:hi]}
		case string:
			if hi < 0 {
				hi = int64(len(b))
			}
			if lo < 0 || hi > int64(len(b)) || lo > hi {
				e.stop(x.Pos(), "slice bounds out of range")
			}
			return b[lo:hi]
		case gBytes:
			if hi < 0 {
				hi = int64(len(b))
			}
			if lo < 0 || hi > int64(len(b)) || lo > hi {
				e.stop(x.Pos(), "slice bounds out of range")
			}
			return b[lo:hi]
		}
		e.stop(x.Pos(), "slice of a %T", base)
	case *ast.StarExpr:
		v := e.eval(sc, x.X)
		if p, ok := v.(*gPtr); ok {
			return p.c.v
		}
		return v
	case *ast.UnaryExpr:
		switch x.Op {
		case token.AND:
			if cl, ok := ast.Unparen(x.X).(*ast.CompositeLit); ok {
				return &gPtr{c: &gCell{e.composite(sc, cl, cl.Type)}}
			}
			if id, ok := ast.Unparen(x.X).(*ast.Ident); ok {
				if c := sc.lookup(id.Name); c != nil {
					switch c.v.(type) {
					case *gBuffer, *gFile, *gBufio, *gTemplate:
						return c.v
					}
					return &gPtr{c: c}
				}
			}
			c := e.lvalue(sc, x.X)
			return &gPtr{c: c}
		case token.NOT:
			v := e.eval(sc, x.X)
			switch b := v.(type) {
			case bool:
				return !b
			case gCond:
				return gCond{val: !b.val, tok: b.tok, neq: !b.neq}
			}
		case token.SUB:
			if n, ok := e.eval(sc, x.X).(int64); ok {
				return -n
			}
		}
		e.stop(x.Pos(), "operator %s", x.Op)
	case *ast.BinaryExpr:
		return e.binary(sc, x)
	case *ast.CallExpr:
		out := e.callExpr(sc, x)
		if len(out) == 1 {
			return out[0]
		}
		return gTuple(out)
	case *ast.TypeAssertExpr:
		return e.eval(sc, x.X)
	case *ast.KeyValueExpr:
	}
	e.stop(x.Pos(), "expression %s is outside the evaluated subset", genText(x))
	return nil
}

func (e *genEval) binary(sc *gScope, x *ast.BinaryExpr) gv {
	if x.Op == token.LAND || x.Op == token.LOR {
		l := e.eval(sc, x.X)
		lb, ok := l.(bool)
		if c, isC := l.(gCond); isC {
			lb, ok = c.val, true
		}
		if !ok {
			e.stop(x.Pos(), "operand of %s is not a constant condition", x.Op)
		}
		if (x.Op == token.LAND && !lb) || (x.Op == token.LOR && lb) {
			return l
		}
		return e.eval(sc, x.Y)
	}
	l, r := e.eval(sc, x.X), e.eval(sc, x.Y)
	// error tests: nil on the evaluated path
	if x.Op == token.EQL || x.Op == token.NEQ {
		lt, lIs := l.(*gErr)
		rt, rIs := r.(*gErr)
		_, lNil := l.(gNil)
		_, rNil := r.(gNil)
		switch {
		case lIs && rNil:
			return gCond{val: x.Op == token.EQL, tok: lt, neq: x.Op == token.NEQ}
		case rIs && lNil:
			return gCond{val: x.Op == token.EQL, tok: rt, neq: x.Op == token.NEQ}
		case lNil && rNil:
			return x.Op == token.EQL
		case lNil || rNil:
			other := l
			if lNil {
				other = r
			}
			isNil := false
			if sl, ok := other.(*gSlice); ok && len(sl.elems) == 0 {
				isNil = true
			}
			return (x.Op == token.EQL) == isNil
		}
	}
	switch a := l.(type) {
	case string:
		b, ok := r.(string)
		if !ok {
			break
		}
		switch x.Op {
		case token.ADD:
			return a + b
		case token.EQL:
			return a == b
		case token.NEQ:
			return a != b
		case token.LSS:
			return a < b
		case token.GTR:
			return a > b
		case token.LEQ:
			return a <= b
		case token.GEQ:
			return a >= b
		}
	case bool:
		b, ok := r.(bool)
		if !ok {
			break
		}
		switch x.Op {
		case token.EQL:
			return a == b
		case token.NEQ:
			return a != b
		}
	case int64:
		b, ok := r.(int64)
		if !ok {
			break
		}
		switch x.Op {
		case token.ADD:
			return a + b
		case token.SUB:
			return a - b
		case token.MUL:
			return a * b
		case token.QUO:
			if b != 0 {
				return a / b
			}
		case token.REM:
			if b != 0 {
				return a % b
			}
		case token.OR:
			return a | b
		case token.AND:
			return a & b
		case token.XOR:
			return a ^ b
		case token.SHL:
			if b >= 0 && b < 63 {
				return a << uint(b)
			}
		case token.SHR:
			if b >= 0 && b < 63 {
				return a >> uint(b)
			}
		case token.EQL:
			return a == b
		case token.NEQ:
			return a != b
		case token.LSS:
			return a < b
		case token.GTR:
			return a > b
		case token.LEQ:
			return a <= b
		case token.GEQ:
			return a >= b
		}
	}
	e.stop(x.Pos(), "operator %s on %T and %T", x.Op, l, r)
	return nil
}

func (e *genEval) composite(sc *gScope, cl *ast.CompositeLit, typ ast.Expr) gv {
	switch t := typ.(type) {
	case *ast.Ident:
		st, ok := e.structs[t.Name]
		if !ok {
			e.stop(cl.Pos(), "composite literal of type %s", t.Name)
		}
		s := e.zero(t).(*gStruct)
		var order []string
		var ftypes []ast.Expr
		for _, f := range st.Fields.List {
			for _, nm := range f.Names {
				order = append(order, nm.Name)
				ftypes = append(ftypes, f.Type)
			}
		}
		ftype := func(n string) ast.Expr {
			for i, o := range order {
				if o == n {
					return ftypes[i]
				}
			}
			return nil
		}
		for i, el := range cl.Elts {
			if kv, ok := el.(*ast.KeyValueExpr); ok {
				k, ok := kv.Key.(*ast.Ident)
				if !ok || ftype(k.Name) == nil {
					e.stop(el.Pos(), "unknown field in literal of %s", t.Name)
				}
				s.fields[k.Name] = e.elem(sc, kv.Value, ftype(k.Name))
				continue
			}
			if i >= len(order) {
				e.stop(el.Pos(), "too many values in literal of %s", t.Name)
			}
			s.fields[order[i]] = e.elem(sc, el, ftypes[i])
		}
		return s
	case *ast.ArrayType:
		if id, ok := t.Elt.(*ast.Ident); ok && id.Name == "byte" {
			var out gBytes
			for _, el := range cl.Elts {
				n, ok := e.eval(sc, el).(int64)
				if !ok {
					e.stop(el.Pos(), "byte literal is not constant")
				}
				out = append(out, byte(n))
			}
			return out
		}
		sl := &gSlice{}
		for _, el := range cl.Elts {
			if kv, ok := el.(*ast.KeyValueExpr); ok {
				idx, ok := e.eval(sc, kv.Key).(int64)
				if !ok || idx < 0 || idx > 1<<16 {
					e.stop(el.Pos(), "keyed slice literal")
				}
				for int64(len(sl.elems)) <= idx {
					sl.elems = append(sl.elems, e.zero(t.Elt))
				}
				sl.elems[idx] = e.elem(sc, kv.Value, t.Elt)
				continue
			}
			sl.elems = append(sl.elems, e.elem(sc, el, t.Elt))
		}
		return sl
	case *ast.MapType:
		m := &gMap{vals: map[string]gv{}}
		for _, el := range cl.Elts {
			kv, ok := el.(*ast.KeyValueExpr)
			if !ok {
				e.stop(el.Pos(), "map literal element")
			}
			k := e.str(e.eval(sc, kv.Key), kv.Pos())
			m.keys = append(m.keys, k)
			m.vals[k] = e.elem(sc, kv.Value, t.Value)
		}
		return m
	case *ast.SelectorExpr:
		if pk, ok := t.X.(*ast.Ident); ok {
			switch e.imports[pk.Name] + "." + t.Sel.Name {
			case "text/template.FuncMap":
				return e.composite(sc, cl, &ast.MapType{Key: ast.NewIdent("string"), Value: ast.NewIdent("any")})
			case "bytes.Buffer", "strings.Builder":
				if len(cl.Elts) == 0 {
					return &gBuffer{}
				}
			}
		}
	case *ast.StarExpr:
		return &gPtr{c: &gCell{e.composite(sc, cl, t.X)}}
	}
	e.stop(cl.Pos(), "composite literal of type %s is outside the evaluated subset", genText(typ))
	return nil
}

// elem evaluates an element of a composite literal whose type may be elided.
func (e *genEval) elem(sc *gScope, x ast.Expr, typ ast.Expr) gv {
	if cl, ok := x.(*ast.CompositeLit); ok && cl.Type == nil {
		return e.composite(sc, cl, typ)
	}
	if u, ok := x.(*ast.UnaryExpr); ok && u.Op == token.AND {
		if cl, ok := u.X.(*ast.CompositeLit); ok && cl.Type == nil {
			if st, ok := typ.(*ast.StarExpr); ok {
				return &gPtr{c: &gCell{e.composite(sc, cl, st.X)}}
			}
		}
	}
	return e.copyVal(e.eval(sc, x))
}

// lvalue returns the cell an assignable expression denotes.
func (e *genEval) lvalue(sc *gScope, x ast.Expr) *gCell {
	switch x := ast.Unparen(x).(type) {
	case *ast.Ident:
		if x.Name == "_" {
			return &gCell{}
		}
		if c := sc.lookup(x.Name); c != nil {
			return c
		}
		e.stop(x.Pos(), "assignment to undeclared %s", x.Name)
	case *ast.SelectorExpr:
		recv := e.eval(sc, x.X)
		s, ok := derefStruct(recv)
		if !ok {
			e.stop(x.Pos(), "field assignment on a %T", recv)
		}
		if _, ok := s.fields[x.Sel.Name]; !ok {
			e.stop(x.Pos(), "struct %s has no field %s", s.typ, x.Sel.Name)
		}
		return &gCell{v: fieldRef{s, x.Sel.Name}}
	case *ast.IndexExpr:
		base := e.eval(sc, x.X)
		idx := e.eval(sc, x.Index)
		switch b := base.(type) {
		case *gSlice:
			i, ok := idx.(int64)
			if !ok || i < 0 || int(i) >= len(b.elems) {
				e.stop(x.Pos(), "index out of the constant range")
			}
			return &gCell{v: elemRef{b, int(i)}}
		case *gMap:
			k, ok := idx.(string)
			if !ok {
				e.stop(x.Pos(), "map key is not a constant string")
			}
			return &gCell{v: mapRef{b, k}}
		}
	case *ast.StarExpr:
		if p, ok := e.eval(sc, x.X).(*gPtr); ok {
			return p.c
		}
	}
	e.stop(x.Pos(), "assignment target %s is outside the evaluated subset", genText(x))
	return nil
}

type fieldRef struct {
	s *gStruct
	f string
}
type elemRef struct {
	s *gSlice
	i int
}
type mapRef struct {
	m *gMap
	k string
}

func (e *genEval) store(c *gCell, v gv) {
	v = e.copyVal(v)
	switch r := c.v.(type) {
	case fieldRef:
		r.s.fields[r.f] = v
		return
	case elemRef:
		r.s.elems[r.i] = v
		return
	case mapRef:
		if _, ok := r.m.vals[r.k]; !ok {
			r.m.keys = append(r.m.keys, r.k)
		}
		r.m.vals[r.k] = v
		return
	}
	c.v = v
}

func (e *genEval) load(c *gCell) gv {
	switch r := c.v.(type) {
	case fieldRef:
		return r.s.fields[r.f]
	case elemRef:
		return r.s.elems[r.i]
	case mapRef:
		return r.m.vals[r.k]
	}
	return c.v
}

// ---- statements

func (e *genEval) execBlock(sc *gScope, list []ast.Stmt) gCtl {
	for _, st := range list {
		if c := e.exec(sc, st); c != ctlNone {
			return c
		}
	}
	return ctlNone
}

// endsProgram: the block ends the program (panic, log.Fatal*, os.Exit), possibly through a local
// function all of whose bodies do.
func (e *genEval) endsProgram(b ast.Node, depth int) bool {
	f := false
	ast.Inspect(b, func(n ast.Node) bool {
		call, ok := n.(*ast.CallExpr)
		if !ok {
			return true
		}
		switch t := call.Fun.(type) {
		case *ast.Ident:
			if t.Name == "panic" {
				f = true
			} else if fd, ok := e.funcs[t.Name]; ok && depth < 3 && fd.Body != nil && e.unconditionalEnd(fd.Body, depth+1) {
				f = true
			}
		case *ast.SelectorExpr:
			if pk, ok := t.X.(*ast.Ident); ok {
				switch e.imports[pk.Name] + "." + t.Sel.Name {
				case "os.Exit", "log.Fatal", "log.Fatalf", "log.Fatalln", "log.Panic", "log.Panicf", "log.Panicln":
					f = true
				}
			}
		}
		return true
	})
	return f
}

// unconditionalEnd: some top-level statement of the body ends the program.
func (e *genEval) unconditionalEnd(b *ast.BlockStmt, depth int) bool {
	for _, st := range b.List {
		if es, ok := st.(*ast.ExprStmt); ok && e.endsProgram(es, depth) {
			return true
		}
	}
	return false
}

func (e *genEval) condValue(sc *gScope, x ast.Expr) (bool, *gCond) {
	v := e.eval(sc, x)
	switch c := v.(type) {
	case bool:
		return c, nil
	case gCond:
		return c.val, &c
	}
	e.stop(x.Pos(), "condition %s is not constant", genText(x))
	return false, nil
}

// returnsErr: the block returns the error (propagates it to the caller).
func returnsErr(b ast.Node) bool {
	f := false
	ast.Inspect(b, func(n ast.Node) bool {
		if _, ok := n.(*ast.FuncLit); ok {
			return false
		}
		if r, ok := n.(*ast.ReturnStmt); ok && len(r.Results) > 0 {
			f = true
		}
		return true
	})
	return f
}

func (e *genEval) exec(sc *gScope, st ast.Stmt) gCtl {
	e.tick(st.Pos())
	fr := e.frames[len(e.frames)-1]
	switch s := st.(type) {
	case *ast.EmptyStmt:
	case *ast.BlockStmt:
		return e.execBlock(newScope(sc), s.List)
	case *ast.ExprStmt:
		e.eval(sc, s.X)
	case *ast.DeclStmt:
		gd := s.Decl.(*ast.GenDecl)
		if gd.Tok == token.TYPE {
			for _, sp := range gd.Specs {
				ts := sp.(*ast.TypeSpec)
				if stt, ok := ts.Type.(*ast.StructType); ok {
					e.structs[ts.Name.Name] = stt
				}
			}
			return ctlNone
		}
		for _, sp := range gd.Specs {
			vs := sp.(*ast.ValueSpec)
			var vals []gv
			if len(vs.Values) == 1 && len(vs.Names) > 1 {
				tu, _ := e.eval(sc, vs.Values[0]).(gTuple)
				vals = tu
			} else {
				for _, v := range vs.Values {
					vals = append(vals, e.eval(sc, v))
				}
			}
			for i, nm := range vs.Names {
				var v gv
				switch {
				case i < len(vals):
					v = e.copyVal(vals[i])
				case vs.Type != nil:
					v = e.zero(vs.Type)
				default:
					e.stop(vs.Pos(), "variable %s has no value", nm.Name)
				}
				sc.vars[nm.Name] = &gCell{v}
			}
		}
	case *ast.AssignStmt:
		var vals []gv
		if ix, isIdx := ast.Unparen(s.Rhs[0]).(*ast.IndexExpr); isIdx && len(s.Rhs) == 1 && len(s.Lhs) == 2 {
			// v, ok := m[k] with an absent key
			if m, isMap := e.eval(sc, ix.X).(*gMap); isMap {
				if k, isStr := e.eval(sc, ix.Index).(string); isStr {
					if _, present := m.vals[k]; !present && m.zero != nil {
						vals = gTuple{e.copyVal(m.zero), false}
					}
				}
			}
		}
		if vals != nil {
		} else if len(s.Rhs) == 1 && len(s.Lhs) > 1 {
			v := e.eval(sc, s.Rhs[0])
			tu, ok := v.(gTuple)
			if !ok || len(tu) != len(s.Lhs) {
				// v, ok := m[k] / x.(T)
				if ix, isIdx := ast.Unparen(s.Rhs[0]).(*ast.IndexExpr); isIdx && len(s.Lhs) == 2 {
					_ = ix
					tu = gTuple{v, true}
				} else {
					e.stop(s.Pos(), "assignment of %d values to %d targets", len(tu), len(s.Lhs))
				}
			}
			vals = tu
		} else {
			for _, r := range s.Rhs {
				vals = append(vals, e.eval(sc, r))
			}
		}
		if len(vals) != len(s.Lhs) {
			e.stop(s.Pos(), "assignment count mismatch")
		}
		for i, l := range s.Lhs {
			switch s.Tok {
			case token.DEFINE:
				id, ok := l.(*ast.Ident)
				if !ok {
					e.stop(l.Pos(), "definition of a non-identifier")
				}
				if id.Name == "_" {
					continue
				}
				if c, ok := sc.vars[id.Name]; ok {
					e.store(c, vals[i])
				} else {
					sc.vars[id.Name] = &gCell{e.copyVal(vals[i])}
				}
			case token.ASSIGN:
				if id, ok := l.(*ast.Ident); ok && id.Name == "_" {
					continue
				}
				e.store(e.lvalue(sc, l), vals[i])
			default: // op=
				c := e.lvalue(sc, l)
				op := map[token.Token]token.Token{token.ADD_ASSIGN: token.ADD, token.SUB_ASSIGN: token.SUB, token.MUL_ASSIGN: token.MUL, token.OR_ASSIGN: token.OR}[s.Tok]
				if op == token.ILLEGAL {
					e.stop(s.Pos(), "assignment operator %s", s.Tok)
				}
				tmp := newScope(nil)
				tmp.vars["l"] = &gCell{e.load(c)}
				tmp.vars["r"] = &gCell{vals[i]}
				e.store(c, e.binary(tmp, &ast.BinaryExpr{X: ast.NewIdent("l"), Op: op, Y: ast.NewIdent("r"), OpPos: s.Pos()}))
			}
		}
	case *ast.IncDecStmt:
		c := e.lvalue(sc, s.X)
		n, ok := e.load(c).(int64)
		if !ok {
			e.stop(s.Pos(), "++/-- on a non-integer")
		}
		if s.Tok == token.INC {
			e.store(c, n+1)
		} else {
			e.store(c, n-1)
		}
	case *ast.IfStmt:
		isc := newScope(sc)
		if s.Init != nil {
			if c := e.exec(isc, s.Init); c != ctlNone {
				return c
			}
		}
		val, cond := e.condValue(isc, s.Cond)
		if cond != nil && cond.tok != nil {
			// the branch taken when the error is not nil
			var failure ast.Node
			if cond.neq {
				failure = s.Body
			} else if s.Else != nil {
				failure = s.Else
			} else {
				// if err == nil { … } with nothing else: code after it runs on failure too
			}
			if failure != nil {
				switch {
				case e.endsProgram(failure, 0):
					cond.tok.handled = true
				case returnsErr(failure):
					fr.propagated = append(fr.propagated, cond.tok)
				}
			}
		}
		if val {
			return e.execBlock(newScope(isc), s.Body.List)
		}
		if s.Else != nil {
			return e.exec(isc, s.Else)
		}
	case *ast.ForStmt:
		fsc := newScope(sc)
		if s.Init != nil {
			e.exec(fsc, s.Init)
		}
		for {
			e.tick(s.Pos())
			if s.Cond != nil {
				v, _ := e.condValue(fsc, s.Cond)
				if !v {
					break
				}
			}
			// per-iteration copy of the loop variables (Go 1.22 semantics)
			body := newScope(fsc)
			c := e.execBlock(body, s.Body.List)
			if c == ctlBreak {
				break
			}
			if c == ctlReturn {
				return c
			}
			if s.Post != nil {
				e.exec(fsc, s.Post)
			}
		}
	case *ast.RangeStmt:
		coll := e.eval(sc, s.X)
		type kv struct{ k, v gv }
		var items []kv
		switch c := coll.(type) {
		case *gSlice:
			for i, el := range c.elems {
				items = append(items, kv{int64(i), el})
			}
			if c.unordered && len(c.elems) > 1 {
				e.mapDepth++
				defer func() { e.mapDepth-- }()
			}
		case gNil:
		case *gMap:
			// map order is random in the real program: a generator whose output depends on it is
			// not reproducible – only a map whose iteration is order-insensitive could be accepted
			if len(c.vals) > 1 {
				e.mapDepth++
				defer func() { e.mapDepth-- }()
			}
			for _, k := range c.keys {
				items = append(items, kv{k, c.vals[k]})
			}
		case int64:
			for i := int64(0); i < c; i++ {
				items = append(items, kv{i, nil})
			}
		case string:
			for i, r := range c {
				items = append(items, kv{int64(i), int64(r)})
			}
		default:
			e.stop(s.Pos(), "range over a %T", coll)
		}
		for _, it := range items {
			e.tick(s.Pos())
			body := newScope(sc)
			bind := func(x ast.Expr, v gv) {
				if x == nil || v == nil {
					return
				}
				id, ok := x.(*ast.Ident)
				if ok && id.Name == "_" {
					return
				}
				if s.Tok == token.DEFINE && ok {
					body.vars[id.Name] = &gCell{e.copyVal(v)}
					return
				}
				e.store(e.lvalue(sc, x), v)
			}
			bind(s.Key, it.k)
			bind(s.Value, it.v)
			c := e.execBlock(body, s.Body.List)
			if c == ctlBreak {
				break
			}
			if c == ctlReturn {
				return c
			}
		}
	case *ast.ReturnStmt:
		var vals []gv
		for _, r := range s.Results {
			v := e.eval(sc, r)
			if tu, ok := v.(gTuple); ok && len(s.Results) == 1 {
				vals = tu
				break
			}
			vals = append(vals, v)
		}
		if len(s.Results) == 0 {
			fr.ret = nil
		} else {
			fr.ret = vals
			if fr.ret == nil {
				fr.ret = []gv{}
			}
		}
		return ctlReturn
	case *ast.DeferStmt:
		call := s.Call
		// arguments and receiver are evaluated now, the call runs at function exit
		switch f := ast.Unparen(call.Fun).(type) {
		case *ast.FuncLit:
			fv := &gFunc{lit: f, env: sc}
			var args []gv
			for _, a := range call.Args {
				args = append(args, e.eval(sc, a))
			}
			fr.deferred = append(fr.deferred, func() { e.callFunc(fv, args, call.Pos()) })
		case *ast.SelectorExpr:
			if id, ok := f.X.(*ast.Ident); ok && sc.lookup(id.Name) == nil {
				if _, ok := e.imports[id.Name]; ok {
					fr.deferred = append(fr.deferred, func() { e.callExpr(sc, call) })
					break
				}
			}
			recv := e.eval(sc, f.X)
			frozen := newScope(sc)
			frozen.vars["·recv"] = &gCell{recv}
			nc := *call
			nc.Fun = &ast.SelectorExpr{X: ast.NewIdent("·recv"), Sel: f.Sel}
			fr.deferred = append(fr.deferred, func() { e.callExpr(frozen, &nc) })
		default:
			fr.deferred = append(fr.deferred, func() { e.callExpr(sc, call) })
		}
	case *ast.BranchStmt:
		if s.Label != nil {
			e.stop(s.Pos(), "labelled branch")
		}
		switch s.Tok {
		case token.BREAK:
			return ctlBreak
		case token.CONTINUE:
			return ctlContinue
		}
		e.stop(s.Pos(), "branch %s", s.Tok)
	case *ast.SwitchStmt:
		ssc := newScope(sc)
		if s.Init != nil {
			e.exec(ssc, s.Init)
		}
		var tag gv = true
		if s.Tag != nil {
			tag = e.eval(ssc, s.Tag)
		}
		var deflt *ast.CaseClause
		for _, cc := range s.Body.List {
			cl := cc.(*ast.CaseClause)
			if cl.List == nil {
				deflt = cl
				continue
			}
			for _, x := range cl.List {
				v := e.eval(ssc, x)
				if c, ok := v.(gCond); ok {
					v = c.val
				}
				if reflect.DeepEqual(v, tag) {
					c := e.execBlock(newScope(ssc), cl.Body)
					if c == ctlBreak {
						return ctlNone
					}
					return c
				}
			}
		}
		if deflt != nil {
			c := e.execBlock(newScope(ssc), deflt.Body)
			if c == ctlBreak {
				return ctlNone
			}
			return c
		}
	default:
		e.stop(st.Pos(), "statement of kind %T is outside the evaluated subset", st)
	}
	return ctlNone
}

// finish: what is lost at exit and which Execute errors nobody tests.
func (e *genEval) finish() {
	for _, b := range e.bufios {
		if b.buf.Len() > 0 {
			name := "its target"
			if f, ok := b.target.(*gFile); ok {
				name = f.name
			}
			e.finding(true, "generator output reaches the file", b.pos,
				"the bufio.Writer on %s still holds %d bytes when main returns: it is never flushed after the last write, the tail of the output stays in the buffer", name, b.buf.Len())
		}
	}
	seen := map[token.Pos]bool{}
	for _, t := range e.errs {
		if !t.important || seen[t.pos] {
			continue
		}
		h := false
		for x, n := t, 0; x != nil && n < 50; x, n = x.via, n+1 {
			if x.handled {
				h = true
			}
		}
		if h {
			continue
		}
		seen[t.pos] = true
		e.finding(true, "generator stops on a template error", t.pos,
			"the error of %s is not tested by a branch that ends the program (directly, in a helper, or in a caller it is returned to): a failing template leaves a truncated output file and exit status 0", t.src)
	}
}

func genDirFiles(dir string, extra map[string][]byte) []string {
	set := map[string]bool{}
	if es, err := os.ReadDir(dir); err == nil {
		for _, en := range es {
			set[en.Name()] = true
		}
	}
	for p := range extra {
		if filepath.Dir(p) == dir {
			set[filepath.Base(p)] = true
		}
	}
	var out []string
	for n := range set {
		if strings.HasSuffix(n, ".go") && !strings.HasSuffix(n, "_test.go") {
			out = append(out, n)
		}
	}
	sort.Strings(out)
	return out
}
