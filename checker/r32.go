package main

import (
	"bytes"
	"fmt"
	"go/ast"
	"go/constant"
	"go/printer"
	"go/token"
	"go/types"
	"regexp"
	"strings"
)

func pointerFree(t types.Type) bool {
	switch u := t.Underlying().(type) {
	case *types.Basic:
		return u.Kind() != types.UnsafePointer && u.Kind() != types.String && u.Kind() != types.Uintptr
	case *types.Array:
		return pointerFree(u.Elem())
	case *types.Struct:
		for i := 0; i < u.NumFields(); i++ {
			if !pointerFree(u.Field(i).Type()) {
				return false
			}
		}
		return true
	}
	return false
}

// R32 UNSAFE – every use of package unsafe matches a GC-visible pattern.
// R33 LAYOUT – leaves read through another kind's leaf type have an identical layout.
func ruleR32R33(c *Ctx) {
	info := c.m.Info
	m := c.m
	props := []string{"C18"}
	counts := map[string]int{}
	isUnsafePkg := func(e ast.Expr) bool {
		id, ok := e.(*ast.Ident)
		if !ok {
			return false
		}
		pn, ok := info.Uses[id].(*types.PkgName)
		return ok && pn.Imported().Path() == "unsafe"
	}
	for _, f := range c.L.artFiles() {
		fname := c.L.fileOf(f.Pos())
		// directives and imports
		for _, cg := range f.Comments {
			for _, cm := range cg.List {
				if strings.HasPrefix(cm.Text, "//go:linkname") || strings.HasPrefix(cm.Text, "//go:nocheckptr") || strings.HasPrefix(cm.Text, "//go:uintptrescapes") {
					c.r.bad("R32", fname+" compiler directive "+strings.Fields(cm.Text)[0], m.pos(cm.Pos()), "directive that bypasses the pointer rules", props...)
				}
			}
		}
		for _, im := range f.Imports {
			p := strings.Trim(im.Path.Value, `"`)
			if p == "C" || p == "reflect" {
				c.r.bad("R32", fname+" imports "+p, m.pos(im.Pos()), "cgo / reflect headers are outside the patterns under which the collector sees every reference", props...)
			}
		}
		// enclosing function + case clause stack
		var stack []ast.Node
		ast.Inspect(f, func(n ast.Node) bool {
			if n == nil {
				stack = stack[:len(stack)-1]
				return true
			}
			stack = append(stack, n)
			fnName := func() string {
				for i := len(stack) - 1; i >= 0; i-- {
					if fd, ok := stack[i].(*ast.FuncDecl); ok {
						if fd.Recv != nil && len(fd.Recv.List) == 1 {
							return recvBaseName(fd.Recv.List[0].Type) + "." + fd.Name.Name
						}
						return fd.Name.Name
					}
				}
				return fname
			}
			if c.inDeadBranch(stack) {
				return true
			}
			switch x := n.(type) {
			case *ast.CallExpr:
				// uintptr(p) of a pointer
				if isConversion(info, x) && len(x.Args) == 1 {
					tt := info.TypeOf(x)
					at := info.TypeOf(x.Args[0])
					if b, ok := tt.Underlying().(*types.Basic); ok && b.Kind() == types.Uintptr {
						if ab, ok := at.Underlying().(*types.Basic); ok && ab.Kind() == types.UnsafePointer {
							c.r.bad("R32", fnName()+" converts a pointer to uintptr", m.pos(x.Pos()), "an address held as an integer is invisible to the collector", props...)
							return true
						}
					}
					if ab, ok := at.Underlying().(*types.Basic); ok && ab.Kind() == types.Uintptr {
						if tb, ok := tt.Underlying().(*types.Basic); ok && tb.Kind() == types.UnsafePointer {
							c.r.bad("R32", fnName()+" converts uintptr to a pointer", m.pos(x.Pos()), "pointer manufactured from an integer", props...)
							return true
						}
					}
				}
				sel, ok := ast.Unparen(x.Fun).(*ast.SelectorExpr)
				if !ok || !isUnsafePkg(sel.X) {
					// (*T)(p) with p unsafe.Pointer
					if isConversion(info, x) && len(x.Args) == 1 {
						at := info.TypeOf(x.Args[0])
						if ab, ok := at.Underlying().(*types.Basic); ok && ab.Kind() == types.UnsafePointer {
							tt := info.TypeOf(x)
							if pt, ok := tt.Underlying().(*types.Pointer); ok {
								n := namedOf(pt.Elem())
								if n != nil && (m.kindByStruct(n) != nil || n.Obj() == m.Header.Obj() || m.isLeafType(n)) {
									counts["P2 typed view of a node/leaf (tag-checked by R06)"]++
									return true
								}
								// P3: *(*U)(unsafe.Pointer(&x)) – local, pointer-free, equal size
								inner, _ := ast.Unparen(x.Args[0]).(*ast.CallExpr)
								var src types.Type
								if inner != nil && len(inner.Args) == 1 {
									if ue, ok := ast.Unparen(inner.Args[0]).(*ast.UnaryExpr); ok && ue.Op == token.AND {
										if v := identVar(info, ue.X); v != nil && !v.IsField() && v.Parent() != m.Pkg.Scope() {
											src = v.Type()
										}
									}
								}
								key := fmt.Sprintf("%s reinterprets %s as %s", fnName(), typeStr(src), types.TypeString(pt.Elem(), nil))
								if src == nil {
									c.r.bad("R32", key, m.pos(x.Pos()), "typed view of an unsafe.Pointer that is neither a tag-checked node/leaf nor the address of a local", props...)
									return true
								}
								// type parameters: resolve through the enclosing type-switch arm
								srcT, dstT := src, pt.Elem()
								armT := c.armType(stack)
								if _, isTP := types.Unalias(srcT).(*types.TypeParam); isTP && armT != nil {
									srcT = armT
								}
								if _, isTP := types.Unalias(dstT).(*types.TypeParam); isTP && armT != nil {
									dstT = armT
								}
								_, sTP := types.Unalias(srcT).(*types.TypeParam)
								_, dTP := types.Unalias(dstT).(*types.TypeParam)
								if sTP || dTP {
									// switch unsafe.Sizeof(k) { case 4: … }: the arm fixes the size of the type parameter
									if n, ok := c.armSize(stack); ok {
										ssz, dsz := n, n
										if !sTP {
											ssz = c.L.Sizes.Sizeof(srcT)
										}
										if !dTP {
											dsz = c.L.Sizes.Sizeof(dstT)
										}
										other := dstT
										if dTP {
											other = srcT
										}
										switch {
										case !pointerFree(other):
											c.r.bad("R32", key, m.pos(x.Pos()), "reinterpretation involves a type that contains pointers", props...)
										case ssz != dsz:
											c.r.bad("R32", key, m.pos(x.Pos()), fmt.Sprintf("reads %d bytes of a %d-byte variable (the arm is the one for unsafe.Sizeof == %d)", dsz, ssz, n), append(props, "C07")...)
										default:
											counts["P3 reinterpretation of a pointer-free local"]++
											c.r.ok("R32", key, m.pos(x.Pos()), fmt.Sprintf("pointer-free, %d = %d bytes in the arm for unsafe.Sizeof == %d", dsz, ssz, n), append(props, "C07")...)
										}
										return true
									}
									c.r.undecided("R32", key, m.pos(x.Pos()), "type parameter not resolved by an enclosing type-switch arm", props...)
									return true
								}
								sz := c.L.Sizes
								if !pointerFree(srcT) || !pointerFree(dstT) {
									c.r.bad("R32", key, m.pos(x.Pos()), "reinterpretation involves a type that contains pointers", props...)
								} else if sz.Sizeof(srcT) < sz.Sizeof(dstT) {
									c.r.bad("R32", key, m.pos(x.Pos()), fmt.Sprintf("reads %d bytes from a %d-byte variable", sz.Sizeof(dstT), sz.Sizeof(srcT)), append(props, "C07")...)
								} else if sz.Sizeof(srcT) > sz.Sizeof(dstT) {
									// memory-safe, but the value is truncated to its low-address bytes: a codec
									// that reads an 8-byte key through a 4-byte type loses half of it
									c.r.bad("R32", key, m.pos(x.Pos()), fmt.Sprintf("reads only %d of the %d bytes of the variable: the reinterpreted value is truncated (and which half is read depends on the byte order of the target)", sz.Sizeof(dstT), sz.Sizeof(srcT)), append(props, "C07")...)
								} else {
									counts["P3 reinterpretation of a pointer-free local"]++
									c.r.ok("R32", key, m.pos(x.Pos()), fmt.Sprintf("pointer-free, %d = %d bytes", sz.Sizeof(dstT), sz.Sizeof(srcT)), append(props, "C07")...)
								}
							} else if _, isTP := types.Unalias(tt).(*types.TypeParam); isTP {
								counts["P2 typed view of a leaf through the leaf constraint (R06)"]++
							}
						}
					}
					return true
				}
				switch sel.Sel.Name {
				case "Pointer":
					// P1: typed pointer → unsafe.Pointer
					if len(x.Args) == 1 {
						at := info.TypeOf(x.Args[0])
						if _, ok := at.Underlying().(*types.Pointer); ok {
							counts["P1 unsafe.Pointer(typed pointer)"]++
						} else {
							c.r.bad("R32", fnName()+" unsafe.Pointer of a non-pointer", m.pos(x.Pos()), "unsafe.Pointer(x) where x is "+at.String(), props...)
						}
					}
				case "Slice":
					key := fmt.Sprintf("%s unsafe.Slice(%s, %s)", fnName(), types.ExprString(x.Args[0]), types.ExprString(x.Args[1]))
					ps, ok1 := ast.Unparen(x.Args[0]).(*ast.SelectorExpr)
					ls, ok2 := ast.Unparen(x.Args[1]).(*ast.SelectorExpr)
					if ok1 && ok2 && identVar(info, ps.X) != nil && identVar(info, ps.X) == identVar(info, ls.X) {
						counts["P4 unsafe.Slice(leaf pointer field, leaf length field)"]++
						c.r.ok("R32", key, m.pos(x.Pos()), "pointer and length fields of one leaf (paired by createLeaf: R16)", props...)
					} else if ue, ok := ast.Unparen(x.Args[0]).(*ast.UnaryExpr); ok && ue.Op == token.AND {
						// &arr[0], min(const ≤ len(arr), …)
						ie, isIx := ast.Unparen(ue.X).(*ast.IndexExpr)
						okLen := false
						if isIx {
							at := info.TypeOf(ie.X)
							if p, ok := at.Underlying().(*types.Pointer); ok {
								at = p.Elem()
							}
							if arr, ok := at.Underlying().(*types.Array); ok {
								if mc, ok := ast.Unparen(x.Args[1]).(*ast.CallExpr); ok && isBuiltinCall(info, mc, "min") {
									for _, a := range mc.Args {
										if tv, has := info.Types[a]; has && tv.Value != nil {
											var v int64
											fmt.Sscan(tv.Value.ExactString(), &v)
											if v <= arr.Len() {
												okLen = true
											}
										}
									}
								}
							}
						}
						if okLen {
							counts["P4 unsafe.Slice(&array[0], min(const ≤ len, …))"]++
							c.r.ok("R32", key, m.pos(x.Pos()), "bounded by a constant not larger than the array", props...)
						} else {
							c.r.bad("R32", key, m.pos(x.Pos()), "slice over an array element whose length is not bounded by the array length", props...)
						}
					} else if ok, n := c.slicePairAtCalls(m.ByName[fnName()], x); ok {
						counts["P4 unsafe.Slice(leaf pointer field, leaf length field)"]++
						c.r.ok("R32", key, m.pos(x.Pos()), fmt.Sprintf("a helper around unsafe.Slice: each of its %d call sites passes the pointer and length fields of one leaf", n), props...)
					} else {
						c.r.bad("R32", key, m.pos(x.Pos()), "unsafe.Slice whose pointer and length are not a field pair of one leaf", props...)
					}
				case "SliceData", "Sizeof", "StringData":
					counts["P5 unsafe."+sel.Sel.Name]++
				default:
					c.r.bad("R32", fnName()+" unsafe."+sel.Sel.Name, m.pos(x.Pos()), "use of unsafe."+sel.Sel.Name+" is outside the whitelisted patterns", props...)
				}
			case *ast.StructType:
				for _, fld := range x.Fields.List {
					if t := info.TypeOf(fld.Type); t != nil {
						if b, ok := t.Underlying().(*types.Basic); ok && b.Kind() == types.Uintptr && c.inNodeGraph(x) {
							c.r.bad("R32", fnName()+" struct field of type uintptr", m.pos(fld.Pos()), "an address kept in a uintptr field is invisible to the collector", props...)
						}
					}
				}
			}
			return true
		})
	}
	for _, k := range sortedKeys(counts) {
		c.r.ok("R32", "pattern "+k, "-", fmt.Sprintf("%d uses", counts[k]), props...)
	}
	total := 0
	for _, n := range counts {
		total += n
	}
	c.r.note("R32: %d uses of unsafe classified", total)
	if total < 20 {
		c.r.undecided("R32", "coverage-floor unsafe uses", "-", fmt.Sprintf("only %d uses of unsafe classified", total), props...)
	}
	// leaf structs keep keys behind typed pointers
	for _, lt := range m.LeafTypes {
		st, ok := lt.Origin().Underlying().(*types.Struct)
		if !ok {
			continue
		}
		okFields := true
		var bad string
		for i := 0; i < st.NumFields(); i++ {
			f := st.Field(i)
			if strings.Contains(strings.ToLower(f.Name()), "key") && !strings.Contains(strings.ToLower(f.Name()), "len") {
				if !collectorFollows(f.Type(), 0) {
					okFields, bad = false, f.Name()+" "+f.Type().String()
				}
			}
		}
		key := lt.Origin().Obj().Name() + " keeps its key bytes behind a typed pointer"
		if okFields {
			c.r.ok("R32", key, m.pos(lt.Origin().Obj().Pos()), "*byte fields", props...)
		} else {
			c.r.bad("R32", key, m.pos(lt.Origin().Obj().Pos()), "key field "+bad+" is not a pointer the collector follows", props...)
		}
	}

	// ------------------------------------------------------------------ R33 LAYOUT
	// explicit leaf type arguments that differ from the kind's own leaf type
	nInst := 0
	for _, tk := range m.Trees {
		for _, mn := range sortedKeys(tk.Methods) {
			u := tk.Methods[mn]
			ast.Inspect(u.Body, func(n ast.Node) bool {
				var idx []ast.Expr
				switch x := n.(type) {
				case *ast.IndexListExpr:
					idx = x.Indices
				case *ast.IndexExpr:
					idx = []ast.Expr{x.Index}
				default:
					return true
				}
				for _, e := range idx {
					tv, ok := info.Types[e]
					if !ok || !tv.IsType() {
						continue
					}
					lt := namedOf(tv.Type)
					if lt == nil || !m.isLeafType(lt) || tk.Leaf == nil {
						continue
					}
					nInst++
					if lt.Origin().Obj() == tk.Leaf.Obj() {
						continue
					}
					key := fmt.Sprintf("%s.%s reads %s leaves through %s", tk.Name, mn, tk.Leaf.Obj().Name(), lt.Origin().Obj().Name())
					if why := c.layoutDiff(tk.Leaf, lt.Origin()); why == "" {
						c.r.ok("R33", key, m.pos(e.Pos()), "identical field names, types and order; identical accessor bodies", "C18", "C03")
					} else {
						c.r.bad("R33", key, m.pos(e.Pos()), "leaf layouts differ: "+why, "C18", "C03")
					}
				}
				return true
			})
		}
	}
	c.r.note("R33: %d explicit leaf-type instantiations", nInst)
	// all generated leaf layouts are identical to one another (they come from one template)
	var gen []*types.Named
	for _, tk := range m.Trees {
		if tk.Generated && tk.Leaf != nil {
			gen = append(gen, tk.Leaf)
		}
	}
	for i := 1; i < len(gen); i++ {
		key := fmt.Sprintf("generated leaf layouts %s and %s identical", gen[0].Obj().Name(), gen[i].Obj().Name())
		if why := c.layoutDiff(gen[0], gen[i]); why == "" {
			c.r.ok("R33", key, m.pos(gen[i].Obj().Pos()), "same fields, same accessors", "C18")
		} else {
			c.r.bad("R33", key, m.pos(gen[i].Obj().Pos()), why, "C18")
		}
	}
	c.r.floor("R33", 3, "layout comparisons", "C18")
}

func typeStr(t types.Type) string {
	if t == nil {
		return "?"
	}
	return types.TypeString(t, nil)
}

// armType: the single type of the innermost enclosing type-switch case clause.
// armSize: the size that an enclosing `switch unsafe.Sizeof(x) { case C: … }` arm (x of a type
// parameter's type) establishes for that type parameter.
func (c *Ctx) armSize(stack []ast.Node) (int64, bool) {
	info := c.m.Info
	sizeofTP := func(e ast.Expr) bool {
		call, ok := ast.Unparen(e).(*ast.CallExpr)
		if !ok || c.m.calleeName(call) != "unsafe.Sizeof" || len(call.Args) != 1 {
			return false
		}
		_, isTP := types.Unalias(info.TypeOf(call.Args[0])).(*types.TypeParam)
		return isTP
	}
	// if unsafe.Sizeof(k) == C { … } else { … } inside `case T1, T2, …:` of the type switch: the
	// true branch fixes the size; the else branch has the one other size the listed types have
	for i := len(stack) - 1; i >= 1; i-- {
		ifs, ok := stack[i-1].(*ast.IfStmt)
		if !ok {
			continue
		}
		be, ok := ast.Unparen(ifs.Cond).(*ast.BinaryExpr)
		if !ok || (be.Op != token.EQL && be.Op != token.NEQ) {
			continue
		}
		var cst ast.Expr
		switch {
		case sizeofTP(be.X):
			cst = be.Y
		case sizeofTP(be.Y):
			cst = be.X
		default:
			continue
		}
		tv, ok := info.Types[cst]
		if !ok || tv.Value == nil {
			continue
		}
		cv, exact := constant.Int64Val(constant.ToInt(tv.Value))
		if !exact {
			continue
		}
		inThen := stack[i] == ast.Node(ifs.Body)
		inElse := ifs.Else != nil && stack[i] == ast.Node(ifs.Else)
		if (inThen && be.Op == token.EQL) || (inElse && be.Op == token.NEQ) {
			return cv, true
		}
		if inThen || inElse {
			// the other sizes of the types listed by the enclosing case of the type switch
			for j := i - 2; j >= 0; j-- {
				cc, ok := stack[j].(*ast.CaseClause)
				if !ok || len(cc.List) == 0 {
					continue
				}
				others := map[int64]bool{}
				allTypes := true
				for _, e := range cc.List {
					if ttv, ok := info.Types[e]; ok && ttv.IsType() {
						if sz := c.L.Sizes.Sizeof(ttv.Type); sz != cv {
							others[sz] = true
						}
					} else {
						allTypes = false
					}
				}
				if allTypes && len(others) == 1 {
					for sz := range others {
						return sz, true
					}
				}
				break
			}
		}
	}
	for i := len(stack) - 1; i >= 2; i-- {
		cc, ok := stack[i].(*ast.CaseClause)
		if !ok || len(cc.List) != 1 {
			continue
		}
		sw, ok := stack[i-2].(*ast.SwitchStmt)
		if !ok || sw.Tag == nil {
			continue
		}
		call, ok := ast.Unparen(sw.Tag).(*ast.CallExpr)
		if !ok {
			continue
		}
		if !c.sizeofOfTypeParam(call) {
			if c.m.calleeName(call) != "unsafe.Sizeof" || len(call.Args) != 1 {
				continue
			}
			if _, isTP := types.Unalias(info.TypeOf(call.Args[0])).(*types.TypeParam); !isTP {
				continue
			}
		}
		if tv, ok := info.Types[cc.List[0]]; ok && tv.Value != nil {
			if v, exact := constant.Int64Val(constant.ToInt(tv.Value)); exact {
				return v, true
			}
		}
	}
	return 0, false
}

func (c *Ctx) armType(stack []ast.Node) types.Type {
	for i := len(stack) - 1; i >= 0; i-- {
		cc, ok := stack[i].(*ast.CaseClause)
		if !ok || len(cc.List) != 1 {
			continue
		}
		if tv, ok := c.m.Info.Types[cc.List[0]]; ok && tv.IsType() {
			return tv.Type
		}
	}
	return nil
}

// layoutDiff compares two leaf struct types and their accessor methods; "" if identical.
func (c *Ctx) layoutDiff(a, b *types.Named) string {
	sa, ok1 := a.Origin().Underlying().(*types.Struct)
	sb, ok2 := b.Origin().Underlying().(*types.Struct)
	if !ok1 || !ok2 {
		return "not structs"
	}
	if sa.NumFields() != sb.NumFields() {
		return fmt.Sprintf("%d fields vs %d fields", sa.NumFields(), sb.NumFields())
	}
	for i := 0; i < sa.NumFields(); i++ {
		fa, fb := sa.Field(i), sb.Field(i)
		if fa.Name() != fb.Name() {
			return fmt.Sprintf("field #%d is %s in %s and %s in %s", i, fa.Name(), a.Obj().Name(), fb.Name(), b.Obj().Name())
		}
		ta, tb := types.TypeString(fa.Type(), nil), types.TypeString(fb.Type(), nil)
		if ta != tb {
			return fmt.Sprintf("field %s is %s in %s and %s in %s", fa.Name(), ta, a.Obj().Name(), tb, b.Obj().Name())
		}
	}
	for _, mn := range []string{"getKey", "getTransformKey"} {
		ua, ub := c.m.ByName[a.Obj().Name()+"."+mn], c.m.ByName[b.Obj().Name()+"."+mn]
		if ua == nil || ub == nil {
			return "accessor " + mn + " missing"
		}
		pa, pb := c.printBody(ua), c.printBody(ub)
		if pa != pb {
			return fmt.Sprintf("accessor %s differs: %q vs %q", mn, pa, pb)
		}
	}
	return ""
}

var wsRe = regexp.MustCompile(`\s+`)

func (c *Ctx) printBody(u *FuncUnit) string {
	var buf bytes.Buffer
	printer.Fprint(&buf, c.L.Fset, u.Body)
	return wsRe.ReplaceAllString(buf.String(), " ")
}

// inDeadBranch: the innermost node lies in the branch of an if statement whose constant
// condition excludes it (bits.UintSize == 32 on a 64-bit target).
func (c *Ctx) inDeadBranch(stack []ast.Node) bool {
	for i := 0; i+1 < len(stack); i++ {
		ifs, ok := stack[i].(*ast.IfStmt)
		if !ok {
			continue
		}
		tv, has := c.m.Info.Types[ifs.Cond]
		if !has || tv.Value == nil {
			continue
		}
		val := tv.Value.ExactString() == "true"
		child := stack[i+1]
		if val && ifs.Else != nil && child == ast.Node(ifs.Else) {
			return true
		}
		if !val && child == ast.Node(ifs.Body) {
			return true
		}
	}
	return false
}

// slicePairAtCalls: unsafe.Slice(p, n) inside a helper whose p and n are parameters – every call
// site must pass the pointer field and the length field of one and the same leaf.
func (c *Ctx) slicePairAtCalls(u *FuncUnit, call *ast.CallExpr) (bool, int) {
	info := c.m.Info
	if u == nil || u.Lit != nil || len(call.Args) != 2 {
		return false, 0
	}
	strip := func(e ast.Expr) ast.Expr {
		for {
			e = ast.Unparen(e)
			if cv, ok := e.(*ast.CallExpr); ok && isConversion(info, cv) && len(cv.Args) == 1 {
				e = cv.Args[0]
				continue
			}
			return e
		}
	}
	pid, ok1 := strip(call.Args[0]).(*ast.Ident)
	nid, ok2 := strip(call.Args[1]).(*ast.Ident)
	if !ok1 || !ok2 {
		return false, 0
	}
	pi, ni := c.m.paramIndex(u, pid), c.m.paramIndex(u, nid)
	if pi < 0 || ni < 0 {
		return false, 0
	}
	sites := c.callSitesOf(u)
	for _, s := range sites {
		pa, na := argFor(s.call, pi), argFor(s.call, ni)
		if pa == nil || na == nil {
			return false, 0
		}
		ps, okp := strip(pa).(*ast.SelectorExpr)
		ls, okl := strip(na).(*ast.SelectorExpr)
		if !okp || !okl || identVar(info, ps.X) == nil || identVar(info, ps.X) != identVar(info, ls.X) {
			return false, 0
		}
	}
	return len(sites) > 0, len(sites)
}

// inNodeGraph: st is the layout of a reference, an inner node, the shared header, a leaf or a
// tree – the structures whose words the collector must see as pointers. (A uintptr field of any
// other struct can only receive an address through a pointer→uintptr conversion, which R32
// reports where it is written.)
func (c *Ctx) inNodeGraph(st *ast.StructType) bool {
	m := c.m
	t := m.Info.TypeOf(st)
	if t == nil {
		return true
	}
	same := func(n *types.Named) bool {
		return n != nil && n.Origin().Underlying() == t.Underlying() || (n != nil && types.Identical(n.Origin().Underlying(), t))
	}
	if same(m.NodeRef) || same(m.Header) {
		return true
	}
	for i := range m.Kinds {
		if same(m.Kinds[i].Struct) {
			return true
		}
	}
	for _, lt := range m.LeafTypes {
		if same(lt) {
			return true
		}
	}
	for _, tk := range m.Trees {
		if same(tk.Named) {
			return true
		}
	}
	return false
}

// collectorFollows: a value of type t holds the address of its bytes in a form the garbage
// collector traces – a pointer, a slice, a string, or a struct of such fields (a data pointer
// next to its length) with no address hidden in a uintptr.
func collectorFollows(t types.Type, depth int) bool {
	if depth > 3 {
		return false
	}
	switch x := t.Underlying().(type) {
	case *types.Pointer, *types.Slice:
		return true
	case *types.Basic:
		return x.Kind() == types.String || x.Kind() == types.UnsafePointer
	case *types.Struct:
		any := false
		for i := 0; i < x.NumFields(); i++ {
			ft := x.Field(i).Type()
			if b, ok := ft.Underlying().(*types.Basic); ok {
				if b.Kind() == types.Uintptr {
					return false
				}
				if b.Kind() != types.String && b.Kind() != types.UnsafePointer {
					continue
				}
			}
			if collectorFollows(ft, depth+1) {
				any = true
			}
		}
		return any
	}
	return false
}

// sizeofOfTypeParam: widthOf[K]() – a generic helper without parameters, instantiated with a type
// parameter of the caller, whose every return is unsafe.Sizeof of a value of its own type parameter.
func (c *Ctx) sizeofOfTypeParam(call *ast.CallExpr) bool {
	info := c.m.Info
	if len(call.Args) != 0 {
		return false
	}
	ix, ok := ast.Unparen(call.Fun).(*ast.IndexExpr)
	if !ok {
		return false
	}
	if _, isTP := types.Unalias(info.TypeOf(ix.Index)).(*types.TypeParam); !isTP {
		return false
	}
	cu := c.m.calleeUnit(call)
	if cu == nil || cu.Lit != nil || cu.Body == nil {
		return false
	}
	rets, all := returnExprs(cu)
	if !all || len(rets) == 0 {
		return false
	}
	for _, r := range rets {
		sc, ok := ast.Unparen(r).(*ast.CallExpr)
		if !ok || c.m.calleeName(sc) != "unsafe.Sizeof" || len(sc.Args) != 1 {
			return false
		}
		if _, isTP := types.Unalias(info.TypeOf(sc.Args[0])).(*types.TypeParam); !isTP {
			return false
		}
	}
	return true
}
