package main

import (
	"encoding/json"
	"flag"
	"fmt"
	"os"
	"path/filepath"
	"runtime/debug"
	"sort"
	"strconv"
	"strings"
	"time"
)

var verifDir = "/verif"

// ruleTable: every rule of DESIGN.md §4 that is implemented.
var ruleTable = map[string]func(*Ctx){}

func registerRule(id string, f func(*Ctx)) { ruleTable[id] = f }

type propSpec struct {
	ID         string
	Level      string
	Rules      []string
	Explain    string
	NotDecided string
	Technique  string
	DesignRef  string
	QuickArchs []string
}

var propTable = map[string]*propSpec{}

func registerProp(p *propSpec) { propTable[p.ID] = p }

// runRules runs the rules (once each) on one loaded view and returns the report.
func runRules(l *Loaded, tier string, rules []string) (*Ctx, error) {
	m, err := buildModel(l)
	if err != nil {
		return nil, err
	}
	c := &Ctx{L: l, m: m, e: newEngine(m), r: newReport(), tier: tier, done: map[string]bool{}}
	predicateExpander = c.expandPredicate
	if len(l.Renames) > 0 {
		c.r.note("identifiers found by structure and read under their canonical names: %s", strings.Join(l.Renames, "; "))
	}
	for _, id := range rules {
		c.run(id)
	}
	return c, nil
}

// runEdges records which rule function started which other one (aliases included), so that the
// sweep can tell which obligations a property's own rule list produces.
var runEdges = map[string]map[string]bool{}

func (c *Ctx) run(id string) {
	if parent := c.r.producer; parent != "" {
		if runEdges[parent] == nil {
			runEdges[parent] = map[string]bool{}
		}
		runEdges[parent][id] = true
	}
	if c.done[id] {
		return
	}
	c.done[id] = true
	saved := c.r.producer
	c.r.producer = id
	defer func() { c.r.producer = saved }()
	f := ruleTable[id]
	if f == nil {
		c.r.undecided(id, "rule not implemented", "-", "internal: rule "+id+" is not registered")
		return
	}
	func() {
		defer func() {
			if r := recover(); r != nil {
				if os.Getenv("ARTCHECK_DEBUG") == "panic" {
					fmt.Fprintf(os.Stderr, "PANIC in %s: %v\n%s\n", id, r, debug.Stack())
				}
				c.r.add(&Obligation{Rule: id, Key: "analyser panic", Pos: "-", Status: Undecided, Detail: fmt.Sprint("analyser panicked (fail closed): ", r), Props: allProps()})
			}
		}()
		f(c)
	}()
}

func allProps() []string {
	out := sortedKeys(propTable)
	return out
}

func archsFor(tier string) []string {
	if tier == "thorough" {
		return []string{"amd64", "arm64", "386"}
	}
	return []string{"amd64"}
}

// archsOf: the quick tier of a property whose clauses differ per target (word-size branches of the
// codecs, the architecture siblings of the 16-lane routines) looks at those targets as well.
func archsOf(spec *propSpec, tier string) []string {
	if tier != "thorough" && spec != nil && len(spec.QuickArchs) > 0 {
		return spec.QuickArchs
	}
	return archsFor(tier)
}

func main() {
	prop := flag.String("p", "", "property id (C01…)")
	tier := flag.String("tier", "", "quick|thorough (default: $VERIF_TIER or quick)")
	dump := flag.Bool("dump", false, "print every obligation")
	rulesFlag := flag.String("rules", "", "debug: run only these comma-separated rules, print everything")
	explain := flag.String("explain", "", "print a replay file and re-evaluate its obligation")
	manifest := flag.Bool("manifest", false, "print MANIFEST.json generated from the property table")
	selftest := flag.Bool("selftest", false, "run canaries, mutants and variants of the checker itself")
	sweep := flag.Bool("sweep", false, "development aid: run every rule once and print which properties would report (one line)")
	flag.StringVar(&repoDir, "repo", repoDir, "repository root")
	flag.StringVar(&verifDir, "verif", verifDir, "verif root")
	flag.Parse()
	// go/packages looks `go` up through this process's PATH
	os.Setenv("PATH", goBinDir+":"+os.Getenv("PATH"))
	for _, kv := range [][2]string{{"GOFLAGS", "-mod=mod"}, {"GOPROXY", "off"}, {"GOSUMDB", "off"}, {"GOTOOLCHAIN", "local"}, {"GOWORK", "off"}} {
		os.Setenv(kv[0], kv[1])
	}
	if *tier == "" {
		*tier = os.Getenv("VERIF_TIER")
	}
	if *tier != "thorough" {
		*tier = "quick"
	}
	seed, _ := strconv.Atoi(os.Getenv("VERIF_SEED"))

	switch {
	case *manifest:
		printManifest()
		os.Exit(0)
	case *explain != "":
		os.Exit(doExplain(*explain, *tier))
	case *selftest:
		os.Exit(doSelftest(*tier, *rulesFlag))
	case *sweep:
		os.Exit(doSweep(*tier))
	case *rulesFlag != "":
		os.Exit(doDebugRules(strings.Split(*rulesFlag, ","), *tier, *dump))
	case *prop == "":
		fmt.Fprintln(os.Stderr, "usage: artcheck -p Cxx [-tier quick|thorough] | -explain file | -selftest")
		os.Exit(2)
	}
	os.Exit(checkProperty(*prop, *tier, seed, *dump))
}

func doDebugRules(rules []string, tier string, dump bool) int {
	for _, arch := range archsFor(tier) {
		l, err := load(loadOpts{arch: arch})
		if err != nil {
			fmt.Println("LOAD ERROR:", err)
			return 2
		}
		c, err := runRules(l, tier, rules)
		if err != nil {
			fmt.Println("MODEL ERROR:", err)
			return 2
		}
		fmt.Printf("== GOARCH=%s\n", arch)
		for _, o := range c.r.Obls {
			if dump || o.Status != Discharged {
				fmt.Printf("%s %-10s %s [%s] %v\n    %s\n", o.Rule, o.Status, o.Key, o.Pos, o.Props, o.Detail)
			}
		}
		for _, n := range c.r.Notes {
			fmt.Println("note:", n)
		}
		fmt.Printf("obligations=%d\n", len(c.r.Obls))
	}
	return 0
}

// doSweep runs all rules once and prints one line: the properties whose check would exit 1 and
// the first few non-discharged obligations. Used by tools/mutsweep to evaluate many changed trees.
func doSweep(tier string) int {
	known, err := loadKnown(filepath.Join(verifDir, "known_findings.json"))
	if err != nil {
		fmt.Println("SWEEP error known_findings:", err)
		return 2
	}
	all := &propSpec{ID: "*", Level: "other"}
	for r := range ruleTable {
		all.Rules = append(all.Rules, r)
	}
	sort.Strings(all.Rules)
	obls, _, _, _, _, _, err := evaluate(all, tier, nil)
	if err != nil {
		fmt.Printf("SWEEP load-error %s\n", strings.ReplaceAll(err.Error(), "\n", " "))
		return 3
	}
	props := map[string]bool{}
	rules := map[string]bool{}
	var first []string
	for _, o := range obls {
		if o.Status == Discharged {
			continue
		}
		hit := false
		for _, p := range o.Props {
			if propTable[p] == nil || !producersOf(p)[o.Producer] {
				continue
			}
			if o.Status == Violated && known.match(p, o) != nil {
				continue
			}
			props[p] = true
			hit = true
		}
		if hit {
			rules[o.Rule] = true
			if len(first) < 3 {
				first = append(first, fmt.Sprintf("%s %s %s at %s: %s", o.Rule, o.Status, o.Key, o.Pos, o.Detail))
			}
		}
	}
	if len(props) == 0 {
		fmt.Println("SWEEP silent")
		return 0
	}
	fmt.Printf("SWEEP props=%s rules=%s || %s\n", strings.Join(sortedKeys(props), ","), strings.Join(sortedKeys(rules), ","), strings.ReplaceAll(strings.Join(first, " || "), "\n", " "))
	return 1
}

var producersMemo = map[string]map[string]bool{}

// producersOf is the set of rule functions a property's rule list starts, directly or through
// another rule.
func producersOf(p string) map[string]bool {
	if m, ok := producersMemo[p]; ok {
		return m
	}
	m := map[string]bool{}
	var visit func(string)
	visit = func(r string) {
		if m[r] {
			return
		}
		m[r] = true
		for k := range runEdges[r] {
			visit(k)
		}
	}
	for _, r := range propTable[p].Rules {
		visit(r)
	}
	producersMemo[p] = m
	return m
}

type merged struct {
	o     *Obligation
	archs []string
}

// evaluate runs the property's rules on every architecture of the tier and merges the
// obligations (same rule+key+status on several architectures become one record).
func evaluate(spec *propSpec, tier string, extra map[string][]byte) (obls []*Obligation, notes, assume, exceptions []string, files []string, nfuncs int, err error) {
	byKey := map[string]*merged{}
	var order []string
	for _, arch := range archsOf(spec, tier) {
		l, lerr := load(loadOpts{arch: arch, extra: extra})
		if lerr != nil {
			return nil, nil, nil, nil, nil, 0, lerr
		}
		c, merr := runRules(l, tier, spec.Rules)
		if merr != nil {
			return nil, nil, nil, nil, nil, 0, merr
		}
		if arch == "amd64" || len(files) == 0 {
			nfuncs = len(c.m.Units)
		}
		for _, f := range l.artFiles() {
			name := l.fileOf(f.Pos())
			seen := false
			for _, x := range files {
				if x == name {
					seen = true
				}
			}
			if !seen {
				files = append(files, name)
			}
		}
		for _, o := range c.r.Obls {
			for _, p := range impliedProps[o.Rule] {
				if !hasProp(o, p) {
					o.Props = append(o.Props, p)
				}
			}
			if spec.ID != "*" && !hasProp(o, spec.ID) {
				continue
			}
			k := o.Rule + "|" + o.Key + "|" + o.St
			if mg, ok := byKey[k]; ok {
				mg.archs = append(mg.archs, arch)
				continue
			}
			byKey[k] = &merged{o: o, archs: []string{arch}}
			order = append(order, k)
		}
		for _, n := range c.r.Notes {
			notes = appendUniq(notes, n)
		}
		for _, n := range c.r.Assume {
			assume = appendUniq(assume, n)
		}
		for _, n := range c.r.Exceptions {
			exceptions = appendUniq(exceptions, n)
		}
	}
	sort.Strings(order)
	for _, k := range order {
		mg := byKey[k]
		mg.o.Arch = strings.Join(mg.archs, ",")
		obls = append(obls, mg.o)
	}
	sort.Strings(files)
	return
}

func appendUniq(xs []string, s string) []string {
	for _, x := range xs {
		if x == s {
			return xs
		}
	}
	return append(xs, s)
}

func checkProperty(prop, tier string, seed int, dump bool) int {
	start := time.Now()
	spec := propTable[prop]
	if spec == nil {
		fmt.Printf("artcheck: property %s is not claimed by this checker (see MANIFEST.json not_applicable)\n", prop)
		return 2
	}
	known, err := loadKnown(filepath.Join(verifDir, "known_findings.json"))
	if err != nil {
		fmt.Println("artcheck: cannot read known_findings.json:", err)
		return 2
	}
	evPath := filepath.Join(verifDir, "evidence", prop+".json")
	os.Remove(evPath)

	obls, notes, assume, exceptions, files, nfuncs, err := evaluate(spec, tier, nil)
	if err != nil {
		// fail closed: the tree cannot be analysed (does not type-check, anchors missing)
		fmt.Printf("artcheck %s: cannot analyse the repository: %v\n", prop, err)
		replay := writeReplay(prop, "LOAD", 1, &Obligation{Rule: "LOAD", Key: "repository loads and type-checks", Status: Undecided, St: "UNDECIDED", Detail: err.Error(), Props: []string{prop}}, tier)
		fmt.Printf("VIOLATION property=%s replay=%s\n", prop, replay)
		writeEvidence(evPath, spec, tier, seed, nil, nil, nil, nil, nil, 0, 1, nil, time.Since(start), "analysis failed: "+err.Error())
		return 1
	}

	nviol, ndis := 0, 0
	var knownHit []string
	perRule := map[string]int{}
	os.RemoveAll(filepath.Join(verifDir, "replay", prop))
	var lines []string
	for _, o := range obls {
		perRule[o.Rule]++
		if dump {
			fmt.Printf("%s %-10s %s [%s] {%s}\n    %s\n", o.Rule, o.Status, o.Key, o.Pos, o.Arch, o.Detail)
		}
		if o.Status == Discharged {
			ndis++
			continue
		}
		if kf := known.match(prop, o); kf != nil && o.Status == Violated {
			knownHit = append(knownHit, fmt.Sprintf("%s %s", o.Rule, o.Key))
			lines = append(lines, fmt.Sprintf("KNOWN-FINDING: property=%s %s [%s %s at %s]", prop, kf.WhatFails, o.Rule, o.Key, o.Pos))
			continue
		}
		nviol++
		replay := writeReplay(prop, o.Rule, nviol, o, tier)
		lines = append(lines, fmt.Sprintf("VIOLATION property=%s replay=%s", prop, replay))
		lines = append(lines, fmt.Sprintf("  %s %s %s at %s {%s}: %s", o.Rule, o.Status, o.Key, o.Pos, o.Arch, o.Detail))
	}
	// self-check of the checker, only when the tree itself raised nothing (a tree that already
	// violates the rules is reported as such; canaries guard against vacuous passes)
	selfTestLog = nil
	if nviol == 0 {
		if msg := runCanaries(spec, tier); msg != "" {
			fmt.Printf("artcheck %s: CHECKER BROKEN – %s\n", prop, msg)
			return 2
		}
	}
	var rs []string
	for _, r := range sortedKeys(perRule) {
		rs = append(rs, fmt.Sprintf("%s:%d", r, perRule[r]))
	}
	fmt.Printf("artcheck %s tier=%s archs=%s: %d obligations (%s), %d discharged, %d known findings, %d violations\n",
		prop, tier, strings.Join(archsOf(spec, tier), ","), len(obls), strings.Join(rs, " "), ndis, len(knownHit), nviol)
	for _, n := range notes {
		fmt.Println("  note:", n)
	}
	for _, ln := range lines {
		fmt.Println(ln)
	}
	if len(obls) == 0 {
		fmt.Printf("artcheck %s: no obligation enumerated – refusing to pass vacuously\n", prop)
		replay := writeReplay(prop, "EMPTY", 1, &Obligation{Rule: "EMPTY", Key: "no obligations", Status: Undecided, St: "UNDECIDED", Detail: "no rule produced an obligation for this property", Props: []string{prop}}, tier)
		fmt.Printf("VIOLATION property=%s replay=%s\n", prop, replay)
		nviol++
	}
	writeEvidence(evPath, spec, tier, seed, obls, notes, assume, exceptions, files, nfuncs, nviol, knownHit, time.Since(start), "")
	if nviol > 0 {
		return 1
	}
	return 0
}

func writeReplay(prop, rule string, n int, o *Obligation, tier string) string {
	path := filepath.Join(verifDir, "replay", prop, fmt.Sprintf("%s-%s-%d.json", prop, rule, n))
	writeJSON(path, map[string]any{
		"property":   prop,
		"rule":       o.Rule,
		"instance":   o.Key,
		"status":     o.St,
		"position":   o.Pos,
		"detail":     o.Detail,
		"path":       o.Path,
		"arch":       o.Arch,
		"tier":       tier,
		"re_run":     fmt.Sprintf("cd %s && bin/artcheck -explain %s", verifDir, path),
		"properties": o.Props,
	})
	return path
}

func writeEvidence(path string, spec *propSpec, tier string, seed int, obls []*Obligation, notes, assume, exceptions, files []string, nfuncs, nviol int, knownHit []string, wall time.Duration, failure string) {
	distinct := map[string]bool{}
	ndis := 0
	var samples []any
	perRule := map[string]map[string]int{}
	for _, o := range obls {
		distinct[o.Rule+" "+o.Key] = true
		if o.Status == Discharged {
			ndis++
		}
		if perRule[o.Rule] == nil {
			perRule[o.Rule] = map[string]int{}
		}
		perRule[o.Rule][o.St]++
	}
	// samples: first two obligations of every rule plus every non-discharged one
	cnt := map[string]int{}
	for _, o := range obls {
		if o.Status != Discharged || cnt[o.Rule] < 2 {
			cnt[o.Rule]++
			samples = append(samples, o)
		}
		if len(samples) >= 60 {
			break
		}
	}
	if len(samples) == 0 {
		samples = append(samples, map[string]string{"note": "no obligation was produced", "failure": failure})
	}
	expl := spec.Explain
	if failure != "" {
		expl = "RUN FAILED: " + failure + ". " + expl
	}
	cov := map[string]any{
		"explanation":         expl,
		"not_decided":         spec.NotDecided,
		"obligations":         len(obls),
		"discharged":          ndis,
		"evaluations":         len(obls),
		"distinct_nontrivial": len(distinct),
		"rule":                "obligations are enumerated from the type-checked source of /repo by the rules listed under 'rules' (DESIGN.md §4); one obligation = one rule instance on one construct, keyed by rule+construct; every enumerated instance is non-trivial (it names a construct that must satisfy the rule); distinct_nontrivial counts distinct rule+construct keys",
		"rules":               spec.Rules,
		"per_rule":            perRule,
		"samples":             samples,
		"packages":            []string{"github.com/Clement-Jean/go-art", "…/cmd/go-art", "…/examples"},
		"files":               files,
		"functions_analysed":  nfuncs,
		"architectures":       archsOf(spec, tier),
		"exceptions":          exceptions,
		"notes":               notes,
		"known_findings":      knownHit,
		"checker_cmd":         fmt.Sprintf("bin/artcheck -p %s -tier %s", spec.ID, tier),
		"trusted_base":        []string{"go/types, go/cfg, go/packages of golang.org/x/tools v0.50.0", "go1.26.8 type checker", "the checker's own rule tables (DESIGN.md §4)", "sync.Pool contract"},
		"exhaustive":          failure == "",
		"self_test":           selfTestLog,
	}
	if spec.Level == "translation_validation" {
		cov["programs"] = tvPrograms
		cov["disagreements_checked"] = tvCompared
	}
	ev := Evidence{PropertyID: spec.ID, Tier: tier, Seed: seed, Level: spec.Level, Coverage: cov, Assumptions: assume, WallS: wall.Seconds(), Violations: nviol}
	if ev.Assumptions == nil {
		ev.Assumptions = []string{}
	}
	if err := writeJSON(path, ev); err != nil {
		fmt.Println("artcheck: cannot write evidence:", err)
	}
}

var tvPrograms, tvCompared int

func doExplain(path, tier string) int {
	b, err := os.ReadFile(path)
	if err != nil {
		fmt.Println(err)
		return 2
	}
	var rp map[string]any
	if err := json.Unmarshal(b, &rp); err != nil {
		fmt.Println(err)
		return 2
	}
	fmt.Printf("replay %s\n  property : %v\n  rule     : %v\n  instance : %v\n  position : %v\n  detail   : %v\n", path, rp["property"], rp["rule"], rp["instance"], rp["position"], rp["detail"])
	if p, ok := rp["path"].([]any); ok && len(p) > 0 {
		fmt.Println("  path     :")
		for _, x := range p {
			fmt.Println("     ", x)
		}
	}
	prop, _ := rp["property"].(string)
	spec := propTable[prop]
	if spec == nil {
		return 2
	}
	if t, ok := rp["tier"].(string); ok && t != "" {
		tier = t
	}
	obls, _, _, _, _, _, err := evaluate(spec, tier, nil)
	if err != nil {
		fmt.Println("  now      : repository cannot be analysed:", err)
		return 1
	}
	for _, o := range obls {
		if o.Rule == rp["rule"] && o.Key == rp["instance"] {
			fmt.Printf("  now      : %s – %s (%s)\n", o.Status, o.Detail, o.Pos)
			if o.Status == Discharged {
				return 0
			}
			return 1
		}
	}
	fmt.Println("  now      : the instance is no longer enumerated on the current tree")
	return 0
}
