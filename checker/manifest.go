package main

import (
	"encoding/json"
	"fmt"
	"os"
)

// notApplicable lists the properties not claimed, with the reason (kept in step with DESIGN.md).
var notApplicable = map[string]string{}

var allPropertyIDs = []string{"C01", "C02", "C03", "C04", "C05", "C06", "C07", "C08", "C09", "C10", "C11", "C12", "C13", "C14", "C15", "C16", "C17", "C18", "C19"}

func printManifest() {
	type lvl struct {
		Category  string `json:"category"`
		Text      string `json:"text"`
		DesignRef string `json:"design_ref"`
	}
	type check struct {
		PropertyID string `json:"property_id"`
		Quick      string `json:"quick_cmd"`
		Thorough   string `json:"thorough_cmd"`
		Evidence   string `json:"evidence_file"`
		Replay     string `json:"replay_cmd_template"`
		Engine     string `json:"engine"`
		Level      lvl    `json:"level_claimed"`
		Note       string `json:"level_note"`
		Technique  string `json:"technique"`
	}
	var checks []check
	var na []map[string]string
	var served []string
	for _, id := range allPropertyIDs {
		sp := propTable[id]
		if sp == nil {
			reason := notApplicable[id]
			if reason == "" {
				reason = "static rules for this property are not built yet in this revision of the checker; see DESIGN.md §4 for the planned rules"
			}
			na = append(na, map[string]string{"property_id": id, "reason": reason})
			continue
		}
		served = append(served, id)
		tech := sp.Technique
		if tech == "" {
			tech = "static analysis: custom rules over the type-checked AST and per-function control-flow graphs (go/types, go/cfg): must-dataflow of guard facts, dominance, path automata"
		}
		checks = append(checks, check{
			PropertyID: id,
			Quick:      fmt.Sprintf("./run.sh %s quick", id),
			Thorough:   fmt.Sprintf("./run.sh %s thorough", id),
			Evidence:   fmt.Sprintf("/verif/evidence/%s.json", id),
			Replay:     "bin/artcheck -explain {path}",
			Engine:     "artcheck",
			Level:      lvl{Category: sp.Level, Text: sp.Explain, DesignRef: sp.DesignRef},
			Note:       "Decides the structural clauses named in level_claimed.text for every path of every copy of the code; NOT decided (value-level remainder): " + sp.NotDecided + " Trusted: go/types, go/cfg (x/tools v0.50.0), the rule tables of the checker, sync.Pool's contract; machine-integer overflow is not modelled.",
			Technique:  tech,
		})
	}
	m := map[string]any{
		"version":   1,
		"setup_cmd": "cd /verif/checker && env GOFLAGS=-mod=mod GOPROXY=off GOSUMDB=off GOTOOLCHAIN=local PATH=/opt/veriftools/go1.26.8/bin:$PATH go build -o /verif/bin/artcheck .",
		"hooks": map[string]any{
			"guard":            "verif",
			"enable":           "none needed: the checker reads /repo's source (go/packages) and never builds or runs it; no instrumentation is compiled into the library",
			"baseline_off_cmd": "cd /repo && go test -mod=mod -json -vet=off -count=1 -timeout 25m ./...",
			"source_commits":   []string{},
			"add_only":         true,
		},
		"engines": []map[string]any{{
			"name": "artcheck", "path": "/verif/checker", "serves_properties": served,
			"kind_free_text": "repository-specific static analyser (Go, go/packages + go/types + go/cfg of x/tools v0.50.0): CFG must-dataflow of length/tag/nil facts with a small linear entailment, dominance checks, path automata over link/size events, sibling-agreement rules, template/generated-code translation validation",
		}},
		"checks":         checks,
		"not_applicable": na,
		"notes":          "All checks are static: they load /repo's current working tree on every run, never execute library code, and report file:line + rule + construct. known_findings.json lists genuine defects recorded rather than repaired (F2) and the defects repaired by fix: commits. See DESIGN.md.",
	}
	if na == nil {
		m["not_applicable"] = []any{}
	}
	enc := json.NewEncoder(os.Stdout)
	enc.SetIndent("", " ")
	enc.SetEscapeHTML(false)
	enc.Encode(m)
}
