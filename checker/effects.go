package main

// AST-level purity summaries used by the fact engine to decide which facts a call kills.
// A function is "pure" here when it stores only to its own local variables (directly, or to
// fields of local struct values) and calls only pure functions.

import (
	"go/ast"
	"go/token"
	"go/types"
	"strings"
)

// externalPure lists functions outside the library (and builtins) that do not write memory
// reachable from their arguments.
var externalPure = map[string]bool{
	"builtin.len": true, "builtin.cap": true, "builtin.min": true, "builtin.max": true,
	"builtin.new": true, "builtin.make": true, "builtin.append": true, "builtin.panic": true,
	"bytes.Equal": true, "bytes.Compare": true, "bytes.HasPrefix": true, "bytes.Clone": true,
	"strings.Compare": true, "strings.HasPrefix": true,
	"unsafe.Slice": true, "unsafe.SliceData": true, "unsafe.Pointer": true, "unsafe.Sizeof": true,
	"unsafe.String": true, "unsafe.StringData": true,
	"math.IsInf": true, "math.IsNaN": true, "math.Inf": true, "math.NaN": true,
	"math.Float32bits": true, "math.Float64bits": true, "math.Float32frombits": true, "math.Float64frombits": true,
	"math/bits.TrailingZeros": true, "math/bits.TrailingZeros32": true, "math/bits.LeadingZeros32": true,
	"math/bits.TrailingZeros16": true, "math/bits.TrailingZeros64": true, "math/bits.Len": true, "math/bits.OnesCount32": true,
	"encoding/binary.bigEndian.Uint16": true, "encoding/binary.bigEndian.Uint32": true, "encoding/binary.bigEndian.Uint64": true,
	"encoding/binary.littleEndian.Uint16": true, "encoding/binary.littleEndian.Uint32": true, "encoding/binary.littleEndian.Uint64": true,
	"strconv.FormatInt": true,
	// sync.Pool touches only its own internals: it never writes an object of the library
	// (the trusted sync.Pool contract, see DESIGN.md §7)
	"sync.Pool.Get": true, "sync.Pool.Put": true,
}

type effects struct {
	m       *Model
	pure    map[*types.Func]bool
	litPure map[*FuncUnit]bool
}

func computeEffects(m *Model) *effects {
	ef := &effects{m: m, pure: map[*types.Func]bool{}, litPure: map[*FuncUnit]bool{}}
	// optimistic start, iterate down
	for _, u := range m.Units {
		if u.Lit == nil && u.Obj != nil {
			ef.pure[u.Obj] = true
		}
	}
	// body-less functions (assembly): pure iff they take no pointer they could write through is
	// not decidable here; R20 (assembly reader) checks that the vector routines store only the
	// result slot, so prototypes without bodies are taken as pure and R20 carries the proof.
	for changed := true; changed; {
		changed = false
		for _, u := range m.Units {
			if u.Lit != nil || u.Obj == nil || !ef.pure[u.Obj] {
				continue
			}
			if !ef.bodyPure(u) {
				ef.pure[u.Obj] = false
				changed = true
			}
		}
	}
	return ef
}

func (ef *effects) bodyPure(u *FuncUnit) bool {
	info := ef.m.Info
	pure := true
	localValue := func(e ast.Expr) bool {
		v, through := rootVar(info, e)
		if v == nil || through {
			return false
		}
		// must be declared inside this function (params included)
		lo, hi := u.Decl.Pos(), u.Decl.End()
		if u.Lit != nil {
			lo, hi = u.Lit.Pos(), u.Lit.End()
		}
		return v.Pos() >= lo && v.Pos() <= hi && !v.IsField()
	}
	// memory the function has just obtained for itself (a node from the pool, new(T), &T{…}) and
	// holds in a local defined once: filling it in before handing it back writes nothing that
	// existed for the caller (newNode4(prefixLen, prefix) – a constructor)
	plainLocal := localValue
	freshLocal := func(e ast.Expr) bool {
		v, through := rootVar(info, e)
		if v == nil || !through || v.IsField() || u.Body == nil {
			return false
		}
		if v.Pos() < u.Body.Pos() || v.Pos() > u.Body.End() {
			return false
		}
		def := singleDef(info, u.Body, v)
		return def != nil && isFreshExprDepth(ef.m, def, 2)
	}
	localValue = func(e ast.Expr) bool { return plainLocal(e) || freshLocal(e) }
	ast.Inspect(u.Body, func(n ast.Node) bool {
		if !pure {
			return false
		}
		switch x := n.(type) {
		case *ast.FuncLit:
			// a literal's body runs later; its stores to captured variables are not stores of
			// this activation – but calling it is treated as impure at the call site
			return false
		case *ast.AssignStmt:
			for _, l := range x.Lhs {
				if id, ok := l.(*ast.Ident); ok && id.Name == "_" {
					continue
				}
				if !localValue(l) {
					pure = false
				}
			}
		case *ast.IncDecStmt:
			if !localValue(x.X) {
				pure = false
			}
		case *ast.RangeStmt:
			if x.Tok == token.ASSIGN {
				for _, l := range []ast.Expr{x.Key, x.Value} {
					if l != nil && !localValue(l) {
						pure = false
					}
				}
			}
			if _, isFunc := info.TypeOf(x.X).Underlying().(*types.Signature); isFunc {
				pure = false // range-over-func calls an unknown function
			}
		case *ast.CallExpr:
			if (isBuiltinCall(info, x, "copy") || isBuiltinCall(info, x, "clear")) && len(x.Args) > 0 && freshLocal(x.Args[0]) {
				return true
			}
			if !ef.callPure(x) {
				pure = false
			}
		case *ast.GoStmt, *ast.DeferStmt, *ast.SendStmt:
			pure = false
		}
		return true
	})
	return pure
}

// callPure reports whether a call expression is known not to write non-local memory.
func (ef *effects) callPure(call *ast.CallExpr) bool {
	info := ef.m.Info
	if isConversion(info, call) {
		return true
	}
	if f := ef.m.staticCallee(call); f != nil {
		if f.Pkg() == ef.m.Pkg {
			if p, ok := ef.pure[f]; ok {
				return p
			}
			// declared without body (assembly) – see computeEffects
			if ef.m.NoBody[f] != nil {
				return true
			}
			// method of an interface / type-parameter constraint of the library: pure iff every
			// declared method of that name is
			if sig, ok := f.Type().(*types.Signature); ok && sig.Recv() != nil {
				if _, isIface := sig.Recv().Type().Underlying().(*types.Interface); isIface {
					n, all := 0, true
					for _, u := range ef.m.Units {
						if u.Lit == nil && u.Recv != "" && u.Decl.Name.Name == f.Name() && u.Obj != nil {
							n++
							if !ef.pure[u.Obj] {
								all = false
							}
						}
					}
					return n > 0 && all
				}
			}
			return false // unknown
		}
	}
	// a local closure bound once to a variable: pure iff its body is
	if v := identVar(info, call.Fun); v != nil {
		if lu := ef.m.LitOfVar[v]; lu != nil {
			if p, ok := ef.litPure[lu]; ok {
				return p
			}
			ef.litPure[lu] = false // recursion guard
			p := ef.bodyPure(lu)
			ef.litPure[lu] = p
			return p
		}
	}
	name := ef.m.calleeName(call)
	return isExternalPure(name)
}

// isExternalPure: an external function that writes no memory of the library. The functions of
// package math and math/bits take and return scalars only.
func isExternalPure(name string) bool {
	if externalPure[name] {
		return true
	}
	if strings.HasPrefix(name, "math.") || strings.HasPrefix(name, "math/bits.") {
		return true
	}
	switch name {
	case "slices.Backward", "slices.All", "slices.Values", "slices.Index", "slices.Contains", "slices.Equal", "bytes.IndexByte", "bytes.Index", "bytes.Contains", "bytes.HasSuffix", "bytes.TrimSuffix", "bytes.TrimPrefix":
		return true // read their arguments only (the iterators they return write nothing either)
	}
	return false
}
