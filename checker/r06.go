package main

import (
	"fmt"
	"go/ast"
	"go/constant"
	"go/token"
	"go/types"
	"os"
	"strings"

	"golang.org/x/tools/go/cfg"
)

// refParam describes a nodeRef-typed parameter (or receiver) of a library function.
type refParam struct {
	v   *types.Var
	idx int // -1 = receiver
}

func (c *Ctx) refParams(u *FuncUnit) []refParam {
	var out []refParam
	if u.Lit != nil || u.Decl == nil {
		return nil
	}
	info := c.m.Info
	if u.Decl.Recv != nil && len(u.Decl.Recv.List) == 1 && len(u.Decl.Recv.List[0].Names) == 1 {
		if v, _ := info.Defs[u.Decl.Recv.List[0].Names[0]].(*types.Var); v != nil && c.isNodeRefType(v.Type()) {
			out = append(out, refParam{v, -1})
		}
	}
	i := 0
	for _, f := range u.Decl.Type.Params.List {
		for _, nm := range f.Names {
			if v, _ := info.Defs[nm].(*types.Var); v != nil && c.isNodeRefType(v.Type()) {
				out = append(out, refParam{v, i})
			}
			i++
		}
	}
	return out
}

// callArgFor returns the expression bound to parameter idx (-1: receiver) at a call.
func callArgFor(call *ast.CallExpr, idx int) ast.Expr {
	if idx == -1 {
		if sel, ok := ast.Unparen(call.Fun).(*ast.SelectorExpr); ok {
			return sel.X
		}
		return nil
	}
	if idx < len(call.Args) {
		return call.Args[idx]
	}
	return nil
}

// nonLeafByKindParam: the tag of x equals a parameter of the kind type of helper u (the helper
// published nodeRef{pointer: ptr, tag: kind} through x), and every call site passes a constant
// inner-node kind for it.
func (c *Ctx) nonLeafByKindParam(u *FuncUnit, fs *FactSet, x ast.Expr) bool {
	m := c.m
	info := m.Info
	if u == nil || u.Lit != nil || u.Decl == nil || m.KindType == nil {
		return false
	}
	want := fs.canonTag(x)
	var pid *ast.Ident
	fs.eqFacts(func(l, r string, val bool, f *Fact) {
		if !val || pid != nil {
			return
		}
		var other ast.Expr
		switch want {
		case l:
			other = f.R
		case r:
			other = f.L
		default:
			return
		}
		if id, ok := ast.Unparen(other).(*ast.Ident); ok && m.paramIndex(u, id) >= 0 {
			if v := identVar(info, id); v != nil && types.Identical(v.Type(), m.KindType) && !assignedAnywhere(info, u.Body, v) {
				pid = id
			}
		}
	})
	if pid == nil {
		return false
	}
	pi := m.paramIndex(u, pid)
	sites := c.callSitesOf(u)
	if len(sites) == 0 {
		return false
	}
	for _, s := range sites {
		a := argFor(s.call, pi)
		if a == nil {
			return false
		}
		tv, ok := info.Types[a]
		if !ok || tv.Value == nil {
			return false
		}
		k, exact := constant.Int64Val(tv.Value)
		if !exact || k == m.LeafKind.Value || m.kindByValue(k) == nil {
			return false
		}
	}
	return true
}

func (c *Ctx) nonLeaf(fs *FactSet, x ast.Expr) bool {
	known, excl := fs.tagOf(x)
	if known != nil {
		return *known != c.m.LeafKind.Value
	}
	return excl[c.m.LeafKind.Value]
}

// kindSwitchInfo describes a switch over a reference tag.
func (c *Ctx) tagSwitchSubject(sw *ast.SwitchStmt, fs *FactSet) ast.Expr {
	if sw.Tag == nil {
		return nil
	}
	t := c.m.Info.TypeOf(sw.Tag)
	if t == nil || !types.Identical(t, c.m.KindType) {
		return nil
	}
	tag := ast.Unparen(sw.Tag)
	if sel, ok := tag.(*ast.SelectorExpr); ok && sel.Sel.Name == "tag" {
		return sel.X
	}
	// kind := X.tag
	if v := identVar(c.m.Info, tag); v != nil && fs != nil {
		if r, ok := fs.aliasOf(v); ok {
			if sel, ok := ast.Unparen(r).(*ast.SelectorExpr); ok && sel.Sel.Name == "tag" {
				return sel.X
			}
		}
	}
	return nil
}

// R06 TAGCAST + R07 KINDSWITCH.
func ruleR06R07(c *Ctx) {
	info := c.m.Info
	m := c.m
	leafV := m.LeafKind.Value
	headerObj := m.Header.Obj()
	propsOf := func(u *FuncUnit) []string {
		p := c.attribute(u, "C01", "C02", "C03", "C04", "C05", "C08", "C09")
		// code that stores through the cast pointer or builds references also serves C11 / C18
		base := u.Name
		if i := strings.IndexByte(base, '$'); i >= 0 {
			base = base[:i]
		}
		if strings.HasSuffix(base, ".Insert") || strings.HasSuffix(base, ".Delete") || strings.Contains(base, "addChild") || strings.Contains(base, "deleteChild") {
			p = append(p, "C11", "C18")
		}
		if len(p) == 0 {
			p = []string{"C11"}
		}
		return p
	}
	// ---- pass 1: which functions need their reference parameter to be a non-leaf
	type reqKey struct {
		f   *types.Func
		idx int
	}
	requires := map[reqKey]string{}
	nodeMethod := m.ByName["nodeRef.node"]
	scan := func(record bool) bool {
		changed := false
		for _, u := range c.sortedUnits() {
			if u.Lit != nil || u.Obj == nil || u == nodeMethod {
				continue
			}
			ps := c.refParams(u)
			if len(ps) == 0 {
				continue
			}
			byVar := map[*types.Var]int{}
			for _, p := range ps {
				byVar[p.v] = p.idx
			}
			fl := c.e.flow(u)
			fl.walk(func(n ast.Node, fs *FactSet, stmt ast.Node, b *cfg.Block) {
				need := func(x ast.Expr, why string) {
					v := identVar(info, x)
					if v == nil {
						return
					}
					idx, ok := byVar[v]
					if !ok || c.nonLeaf(fs, x) || c.nonLeafByKindParam(u, fs, x) {
						return
					}
					k := reqKey{u.Obj, idx}
					if _, has := requires[k]; !has {
						requires[k] = why
						changed = true
					}
				}
				switch x := n.(type) {
				case *ast.CallExpr:
					if sel, ok := x.Fun.(*ast.SelectorExpr); ok && sel.Sel.Name == "node" && len(x.Args) == 0 && c.isNodeRefType(info.TypeOf(sel.X)) {
						need(sel.X, "reads it through the inner-node header")
					}
					if f := m.staticCallee(x); f != nil {
						for k, why := range requires {
							if k.f == f {
								if a := callArgFor(x, k.idx); a != nil {
									need(a, "passes it to "+f.Name()+", which "+why)
								}
							}
						}
					}
				}
			})
			// switches over the parameter's tag without a leaf arm
			for _, b := range fl.g.Blocks {
				if !b.Live || fl.in[b.Index] == nil {
					continue
				}
				for i, n := range b.Nodes {
					_ = i
					_ = n
				}
			}
			ast.Inspect(u.Body, func(n ast.Node) bool {
				sw, ok := n.(*ast.SwitchStmt)
				if !ok {
					return true
				}
				subj := c.tagSwitchSubject(sw, nil)
				if subj == nil {
					return true
				}
				v := identVar(info, subj)
				idx, isParam := byVar[v]
				if !isParam {
					return true
				}
				hasLeaf := false
				for _, cl := range sw.Body.List {
					for _, e := range cl.(*ast.CaseClause).List {
						if tv, ok := info.Types[e]; ok && tv.Value != nil && tv.Value.ExactString() == fmt.Sprint(leafV) {
							hasLeaf = true
						}
					}
				}
				if hasLeaf {
					return true
				}
				// facts at the switch
				blk, bi := blockOf(fl.g, sw.Tag)
				if blk != nil && fl.in[blk.Index] != nil && c.nonLeaf(fl.setBefore(blk, bi), subj) {
					return true
				}
				k := reqKey{u.Obj, idx}
				if _, has := requires[k]; !has {
					requires[k] = "switches over its tag with no leaf arm (the default arm panics)"
					changed = true
				}
				return true
			})
		}
		return changed
	}
	for i := 0; i < 6 && scan(true); i++ {
	}

	nCast, nLit, nSwitch, nCalls := 0, 0, 0, 0
	for _, u := range c.sortedUnits() {
		fl := c.e.flow(u)
		props := propsOf(u)
		isParamOf := map[*types.Var]int{}
		if u.Lit == nil && u.Obj != nil {
			for _, p := range c.refParams(u) {
				isParamOf[p.v] = p.idx
			}
		}
		// leaf pointers with a pedigree: results of minimum/maximum, the pointer parameter of restoreKey
		fl.walk(func(n ast.Node, fs *FactSet, stmt ast.Node, b *cfg.Block) {
			if os.Getenv("ARTCHECK_WALK") == u.Name && n == stmt {
				fmt.Fprintf(os.Stderr, "WALK %s b%d %v\n", m.pos(n.Pos()), b.Index, fs.describe())
			}
			switch x := n.(type) {
			case *ast.CallExpr:
				// ---- conversions
				if isConversion(info, x) && len(x.Args) == 1 {
					tt := info.TypeOf(x)
					arg := ast.Unparen(x.Args[0])
					psel, isPtrSel := arg.(*ast.SelectorExpr)
					if isPtrSel && (psel.Sel.Name != "pointer" || !c.isNodeRefType(info.TypeOf(psel.X))) {
						isPtrSel = false
					}
					var target *types.Named
					if p, ok := tt.Underlying().(*types.Pointer); ok {
						target = namedOf(p.Elem())
					}
					toTypeParam := false
					if tp, ok := types.Unalias(tt).(*types.TypeParam); ok {
						if cn := namedOf(tp.Constraint()); cn != nil && m.LeafConstraint != nil && cn.Origin().Obj() == m.LeafConstraint.Obj() {
							toTypeParam = true
						}
					}
					switch {
					case target != nil && m.kindByStruct(target) != nil && isPtrSel:
						nCast++
						ki := m.kindByStruct(target)
						key := fmt.Sprintf("%s cast (*%s)(%s)", u.Name, target.Obj().Name(), display(fl.raw.canon(arg)))
						known, _ := fs.tagOf(psel.X)
						if known != nil && *known == ki.Value {
							c.r.ok("R06", key, m.pos(x.Pos()), "under the tag fact "+ki.Name, props...)
						} else if known != nil {
							c.r.bad("R06", key, m.pos(x.Pos()), fmt.Sprintf("reference is known to be tagged %s here but is read through the layout of %s", m.KindName[*known], ki.Name), props...)
						} else if why := c.kindByElimination(u, fs, psel.X, ki.Value); why != "" {
							c.r.ok("R06", key, m.pos(x.Pos()), why, props...)
						} else {
							c.r.bad("R06", key, m.pos(x.Pos()), "reference is read through the layout "+target.Obj().Name()+" without a dominating test that its tag is "+ki.Name, props...)
						}
					case target != nil && target.Obj() == headerObj && isPtrSel && u != nodeMethod:
						nCast++
						key := fmt.Sprintf("%s header cast of %s", u.Name, display(fl.raw.canon(psel.X)))
						if c.nonLeaf(fs, psel.X) {
							c.r.ok("R06", key, m.pos(x.Pos()), "under the fact tag != leaf", props...)
						} else {
							c.r.bad("R06", key, m.pos(x.Pos()), "a reference that may be a leaf is read as an inner node", props...)
						}
					case (target != nil && m.isLeafType(target)) || toTypeParam:
						nCast++
						key := fmt.Sprintf("%s leaf cast of %s", u.Name, display(fl.raw.canon(arg)))
						// own leaf type?
						if target != nil && u.Recv != "" {
							for _, tk := range m.Trees {
								if tk.Name == u.Recv && tk.Leaf != nil && tk.Leaf.Obj() != target.Origin().Obj() {
									c.r.bad("R06", key+" layout", m.pos(x.Pos()), fmt.Sprintf("%s casts to %s but its Insert stores %s", u.Name, target.Obj().Name(), tk.Leaf.Obj().Name()), props...)
								}
							}
						}
						switch {
						case isPtrSel:
							known, _ := fs.tagOf(psel.X)
							if known != nil && *known == leafV {
								c.r.ok("R06", key, m.pos(x.Pos()), "under the tag fact "+m.LeafKind.Name, props...)
							} else if c.leafByElimination(fs, psel.X) {
								c.r.ok("R06", key, m.pos(x.Pos()), "every inner kind is excluded on this path", props...)
							} else if why := c.kindByElimination(u, fs, psel.X, leafV); why != "" {
								c.r.ok("R06", key, m.pos(x.Pos()), why, props...)
							} else {
								c.r.bad("R06", key, m.pos(x.Pos()), "reference is read as a leaf without a dominating test that its tag is "+m.LeafKind.Name, props...)
							}
						default:
							if why := c.leafPedigree(u, fs, arg); why != "" {
								c.r.ok("R06", key, m.pos(x.Pos()), why, props...)
							} else {
								c.r.bad("R06", key, m.pos(x.Pos()), "pointer of unknown origin is read as a leaf", props...)
							}
						}
					}
					return
				}
				// ---- calls to X.node()
				if sel, ok := x.Fun.(*ast.SelectorExpr); ok && sel.Sel.Name == "node" && len(x.Args) == 0 && c.isNodeRefType(info.TypeOf(sel.X)) {
					nCast++
					key := fmt.Sprintf("%s %s.node()", u.Name, display(fl.raw.canon(sel.X)))
					v := identVar(info, sel.X)
					_, isParam := isParamOf[v]
					switch {
					case c.nonLeaf(fs, sel.X):
						c.r.ok("R06", key, m.pos(x.Pos()), "under the fact tag != leaf", props...)
					case c.nonLeafByKindParam(u, fs, sel.X):
						c.r.ok("R06", key, m.pos(x.Pos()), "the slot was just given the kind parameter of "+u.Name+" as its tag, and every call site passes a constant inner-node kind", props...)
					case c.nonLeafAtCallSites(u, fs, sel.X) != "" && !isParam:
						c.r.ok("R06", key, m.pos(x.Pos()), c.nonLeafAtCallSites(u, fs, sel.X), props...)
					case isParam && v != nil:
						c.r.ok("R06", key, m.pos(x.Pos()), "parameter: imposed as a precondition on every call site", props...)
					default:
						c.r.bad("R06", key, m.pos(x.Pos()), "a reference that may be a leaf is read as an inner node", props...)
					}
				}
				// ---- call sites of functions with a non-leaf precondition
				if f := m.staticCallee(x); f != nil {
					for k, why := range requires {
						if k.f != f {
							continue
						}
						a := callArgFor(x, k.idx)
						if a == nil {
							continue
						}
						nCalls++
						key := fmt.Sprintf("%s calls %s with %s", u.Name, f.Name(), display(fl.raw.canon(a)))
						v := identVar(info, a)
						_, isParam := isParamOf[v]
						_, propagated := requires[reqKey{u.Obj, isParamOf[v]}]
						switch {
						case c.nonLeaf(fs, a):
							c.r.ok("R06", key, m.pos(x.Pos()), "argument known to be an inner node ("+f.Name()+" "+why+")", props...)
						case isParam && propagated && u.Obj != nil:
							c.r.ok("R06", key, m.pos(x.Pos()), "parameter passed on: precondition propagated to the callers of "+u.Name, props...)
						default:
							if os.Getenv("ARTCHECK_DEBUG") != "" {
								fmt.Fprintf(os.Stderr, "R06 %s want=%s facts=%v\n", key, fs.canonTag(a), fs.describe())
							}
							c.r.bad("R06", key, m.pos(x.Pos()), f.Name()+" "+why+", but it is called with a reference that may be a leaf", props...)
						}
					}
				}
				// ---- restore(n.pointer): the callback casts its argument to a leaf
				if v := identVar(info, x.Fun); v != nil && len(x.Args) == 1 {
					if sig, ok := v.Type().Underlying().(*types.Signature); ok && sig.Params().Len() == 1 && sig.Params().At(0).Type().String() == "unsafe.Pointer" {
						if psel, ok := ast.Unparen(x.Args[0]).(*ast.SelectorExpr); ok && psel.Sel.Name == "pointer" {
							nCalls++
							key := fmt.Sprintf("%s %s(%s)", u.Name, v.Name(), display(fl.raw.canon(x.Args[0])))
							if known, _ := fs.tagOf(psel.X); known != nil && *known == leafV {
								c.r.ok("R06", key, m.pos(x.Pos()), "leaf-restoring callback called under the tag fact "+m.LeafKind.Name, props...)
							} else {
								c.r.bad("R06", key, m.pos(x.Pos()), "the leaf-restoring callback is handed a pointer whose reference is not known to be a leaf", props...)
							}
						}
					}
				}
			case *ast.CompositeLit:
				// ---- (v) nodeRef literals pair the pointer's static type with the tag
				tag, ptr, ok := c.refLitTag(x)
				if !ok || ptr == nil {
					// nodeRef{pointer: ptr, tag: kind} with both operands parameters of a publishing
					// helper: kind and layout are paired at every call site
					if te, pe, isLit := c.refLitTagAny(x); isLit && te != nil && pe != nil && u.Lit == nil && u.Decl != nil {
						tid, ok1 := ast.Unparen(te).(*ast.Ident)
						pid, ok2 := ast.Unparen(pe).(*ast.Ident)
						if ok1 && ok2 && m.paramIndex(u, tid) >= 0 && m.paramIndex(u, pid) >= 0 {
							nLit++
							key := fmt.Sprintf("%s literal nodeRef{%s, %s}", u.Name, pid.Name, tid.Name)
							badAt, n := "", 0
							for _, s := range c.callSitesOf(u) {
								ta, pa := argFor(s.call, m.paramIndex(u, tid)), argFor(s.call, m.paramIndex(u, pid))
								if ta == nil || pa == nil {
									continue
								}
								n++
								tv, has := info.Types[ta]
								want := c.pointeeKind(s.u, pa)
								if !has || tv.Value == nil || want == -1 {
									badAt = m.pos(s.call.Pos()) + ": kind or layout of the published node cannot be read at this call"
									continue
								}
								if k, _ := constant.Int64Val(tv.Value); k != want {
									badAt = fmt.Sprintf("%s: pointer to a %s is published with tag %s", m.pos(s.call.Pos()), m.KindName[want], m.KindName[k])
								}
							}
							switch {
							case badAt != "":
								c.r.bad("R06", key, m.pos(x.Pos()), badAt, props...)
							case n > 0:
								c.r.ok("R06", key, m.pos(x.Pos()), fmt.Sprintf("at each of the %d call sites the constant kind is the kind of the layout behind the pointer", n), props...)
							}
						}
					}
					return
				}
				nLit++
				key := fmt.Sprintf("%s literal nodeRef{%s, %s}", u.Name, display(fl.raw.canon(ptr)), m.KindName[tag])
				want := c.pointeeKind(u, ptr)
				switch {
				case want == -1:
					c.r.undecided("R06", key, m.pos(x.Pos()), "cannot determine the static type behind the pointer", props...)
				case want == tag:
					c.r.ok("R06", key, m.pos(x.Pos()), "pointer type matches tag", props...)
				default:
					c.r.bad("R06", key, m.pos(x.Pos()), fmt.Sprintf("pointer to a %s is tagged %s", m.KindName[want], m.KindName[tag]), props...)
				}
			case *ast.TypeAssertExpr:
				// ---- (vi) pool Get assertions
				call, ok := ast.Unparen(x.X).(*ast.CallExpr)
				if !ok {
					return
				}
				sel, ok := call.Fun.(*ast.SelectorExpr)
				if !ok || sel.Sel.Name != "Get" {
					return
				}
				ix, ok := ast.Unparen(sel.X).(*ast.IndexExpr)
				if !ok || identVar(info, ix.X) != m.PoolVar {
					return
				}
				nLit++
				tv, hasC := info.Types[ix.Index]
				ki := m.kindByStruct(info.TypeOf(x.Type))
				key := fmt.Sprintf("%s pool Get as %s", u.Name, types.ExprString(x.Type))
				if why, bad, done := c.poolAccessor(u, ix.Index, x.Type); done {
					// a generic accessor (acquire[N](kind)): kind and layout are paired at its call sites
					if bad != "" {
						c.r.bad("R06", key, bad, why, append(props, "C12")...)
					} else {
						c.r.ok("R06", key, m.pos(x.Pos()), why, append(props, "C12")...)
					}
				} else if !hasC || tv.Value == nil || ki == nil {
					c.r.undecided("R06", key, m.pos(x.Pos()), "pool index is not a constant kind or asserted type is not a node layout", props...)
				} else if tv.Value.ExactString() == fmt.Sprint(ki.Value) {
					c.r.ok("R06", key, m.pos(x.Pos()), "pool index "+ki.Name+" matches asserted layout", append(props, "C12")...)
				} else {
					c.r.bad("R06", key, m.pos(x.Pos()), "object taken from pool "+tv.Value.ExactString()+" asserted as "+types.ExprString(x.Type), append(props, "C12")...)
				}
			}
		})
		// ---- R07: switches over a tag
		ast.Inspect(u.Body, func(n ast.Node) bool {
			if lit, ok := n.(*ast.FuncLit); ok && ast.Node(lit) != ast.Node(u.Lit) {
				return false
			}
			sw, ok := n.(*ast.SwitchStmt)
			if !ok || sw.Tag == nil {
				return true
			}
			t := info.TypeOf(sw.Tag)
			if t == nil || !types.Identical(t, m.KindType) {
				return true
			}
			nSwitch++
			key := fmt.Sprintf("%s switch over %s", u.Name, display(fl.raw.canon(sw.Tag)))
			seen := map[int64]bool{}
			hasDefault, defaultPanics := false, false
			for _, cl := range sw.Body.List {
				cc := cl.(*ast.CaseClause)
				if cc.List == nil {
					hasDefault = true
					defaultPanics = endsInPanic(info, cc.Body) || endsInErrorReturn(info, cc.Body)
				}
				for _, e := range cc.List {
					if tv, ok := info.Types[e]; ok && tv.Value != nil {
						var v int64
						fmt.Sscan(tv.Value.ExactString(), &v)
						seen[v] = true
					}
				}
			}
			var missing []string
			anyInner := false
			for _, k := range m.Kinds {
				if !seen[k.Value] {
					missing = append(missing, k.Name)
				} else {
					anyInner = true
				}
			}
			if !anyInner {
				// switch tag { case leaf: …; default: … } is a leaf test in switch form, not a
				// dispatch over the size classes
				nSwitch--
				return true
			}
			switch {
			case len(missing) > 0:
				c.r.bad("R07", key, m.pos(sw.Pos()), "no arm for "+strings.Join(missing, ", "), props...)
			case !hasDefault || !defaultPanics:
				c.r.bad("R07", key, m.pos(sw.Pos()), "no panicking default arm: an unknown kind would fall through silently", props...)
			default:
				c.r.ok("R07", key, m.pos(sw.Pos()), fmt.Sprintf("one arm per inner kind (%d) and a panicking default", len(m.Kinds)), props...)
			}
			// reached with a possible leaf?
			if !seen[leafV] {
				blk, bi := blockOf(fl.g, sw.Tag)
				var fs *FactSet
				if blk != nil && fl.in[blk.Index] != nil {
					fs = fl.setBefore(blk, bi)
				}
				subj := c.tagSwitchSubject(sw, fs)
				k2 := key + " not reached with a leaf"
				v := identVar(info, subj)
				_, isParam := isParamOf[v]
				switch {
				case subj != nil && fs != nil && c.nonLeaf(fs, subj):
					c.r.ok("R07", k2, m.pos(sw.Pos()), "under the fact tag != leaf", props...)
				case subj != nil && isParam && u.Obj != nil && requires[reqKey{u.Obj, isParamOf[v]}] != "":
					c.r.ok("R07", k2, m.pos(sw.Pos()), "parameter: imposed as a precondition on every call site", props...)
				default:
					c.r.bad("R07", k2, m.pos(sw.Pos()), "the switch has no leaf arm and can be reached with a leaf reference (its default arm panics)", props...)
				}
			}
			return true
		})
	}
	c.r.note("R06: %d casts, %d literals/pool assertions, %d precondition call sites; R07: %d kind switches; preconditions: %d", nCast, nLit, nCalls, nSwitch, len(requires))
	c.r.floor("R06", 60, "casts, literals, call sites", "C11")
	c.r.floor("R07", 8, "kind switches", "C01")
}

// leafByElimination: every inner kind is excluded by facts.
func (c *Ctx) leafByElimination(fs *FactSet, x ast.Expr) bool {
	_, excl := fs.tagOf(x)
	for _, k := range c.m.Kinds {
		if !excl[k.Value] {
			return false
		}
	}
	return true
}

// leafPedigree explains why a bare unsafe.Pointer is known to point to a leaf.
func (c *Ctx) leafPedigree(u *FuncUnit, fs *FactSet, arg ast.Expr) string {
	info := c.m.Info
	isMinMax := func(e ast.Expr) bool {
		call, ok := ast.Unparen(e).(*ast.CallExpr)
		if !ok {
			return false
		}
		f := c.m.staticCallee(call)
		if f != nil && (f.Name() == "minimum" || f.Name() == "maximum") && f.Pkg() == c.m.Pkg {
			return true
		}
		// any library function whose every non-nil result is the pointer of a reference known to
		// be a leaf (a shared search helper)
		return c.leafReturning(c.m.calleeUnit(call))
	}
	if isMinMax(arg) {
		return "result of minimum/maximum: every non-nil return of theirs is under the leaf tag fact"
	}
	if v := identVar(info, arg); v != nil {
		if def := singleDef(info, u.Body, v); def != nil && isMinMax(def) {
			return "variable bound to a result of minimum/maximum"
		}
		// the unsafe.Pointer parameter of restoreKey: every call site passes a leaf pointer
		if u.Decl != nil && u.Lit == nil && c.m.isRestoreUnit(u) {
			for _, f := range u.Decl.Type.Params.List {
				for _, nm := range f.Names {
					if info.Defs[nm] == v {
						return "parameter of restoreKey: call sites pass n.pointer under the leaf tag fact or a checked result of minimum/maximum (R06 callback sites, R12)"
					}
				}
			}
		}
	}
	// an unsafe.Pointer parameter of a function literal handed to a walker (walkLeaves(root,
	// func(ptr unsafe.Pointer) bool {…})): the walker only calls it, and every such call passes
	// the pointer of a reference known to be a leaf
	if id, ok := ast.Unparen(arg).(*ast.Ident); ok && u.Lit != nil && u.Parent != nil && c.pedigreeDepth < 3 {
		if why := c.visitorParamPedigree(u, id); why != "" {
			return why
		}
	}
	// an unsafe.Pointer parameter of a helper: every call site must hand over a leaf pointer
	if id, ok := ast.Unparen(arg).(*ast.Ident); ok && u.Lit == nil && u.Decl != nil {
		if pi := c.m.paramIndex(u, id); pi >= 0 && c.pedigreeDepth < 3 {
			sites := c.callSitesOf(u)
			if len(sites) == 0 {
				return ""
			}
			c.pedigreeDepth++
			defer func() { c.pedigreeDepth-- }()
			leafV := c.m.LeafKind.Value
			for _, s := range sites {
				a := argFor(s.call, pi)
				if a == nil {
					return ""
				}
				var at *FactSet
				c.e.flow(s.u).walk(func(n ast.Node, fs *FactSet, stmt ast.Node, b *cfg.Block) {
					if n == ast.Node(s.call) && at == nil {
						at = fs.clone()
					}
				})
				if at == nil {
					return ""
				}
				okSite := false
				if psel, isSel := ast.Unparen(a).(*ast.SelectorExpr); isSel && psel.Sel.Name == "pointer" && c.isNodeRefType(info.TypeOf(psel.X)) {
					if known, _ := at.tagOf(psel.X); (known != nil && *known == leafV) || c.leafByElimination(at, psel.X) {
						okSite = true
					}
				} else if c.leafPedigree(s.u, at, a) != "" {
					okSite = true
				}
				if !okSite {
					return ""
				}
			}
			return fmt.Sprintf("parameter of %s: each of its %d call sites passes the pointer of a reference known to be a leaf", u.Name, len(sites))
		}
	}
	return ""
}

// pointeeKind returns the kind value that the static type behind a literal's pointer
// expression denotes (leaf kind for leaf layouts), or -1.
func (c *Ctx) pointeeKind(u *FuncUnit, ptr ast.Expr) int64 {
	return c.pointeeKindDepth(u, ptr, 0)
}

type callSite struct {
	u    *FuncUnit
	call *ast.CallExpr
}

// callSitesOf lists the calls of a declared function or method anywhere in the library.
func (c *Ctx) callSitesOf(target *FuncUnit) []callSite {
	if c.sites == nil {
		c.sites = map[*FuncUnit][]callSite{}
		for _, u := range c.m.Units {
			if u.Body == nil {
				continue
			}
			ast.Inspect(u.Body, func(n ast.Node) bool {
				if lit, ok := n.(*ast.FuncLit); ok && ast.Node(lit) != ast.Node(u.Lit) {
					return false
				}
				if call, ok := n.(*ast.CallExpr); ok {
					if cu := c.m.calleeUnit(call); cu != nil {
						c.sites[cu] = append(c.sites[cu], callSite{u, call})
					}
				}
				return true
			})
		}
	}
	return c.sites[target]
}

func (c *Ctx) pointeeKindDepth(u *FuncUnit, ptr ast.Expr, depth int) int64 {
	info := c.m.Info
	e := ast.Unparen(ptr)
	if depth > 4 {
		return -1
	}
	// unsafe.Pointer(x)
	if call, ok := e.(*ast.CallExpr); ok {
		if isConversion(info, call) && len(call.Args) == 1 {
			return c.pointeeKindDepth(u, call.Args[0], depth+1)
		}
		// createLeaf(), newLeaf(…): a closure or helper whose every return is a pointer to one layout
		if cu := c.m.calleeUnit(call); cu != nil {
			rets, all := returnExprs(cu)
			if !all {
				return -1
			}
			res := int64(-1)
			for i, r := range rets {
				k := c.pointeeKindDepth(cu, r, depth+1)
				if k == -1 || (i > 0 && k != res) {
					return -1
				}
				res = k
			}
			return res
		}
		// a call through a function-typed parameter of a helper (newLeaf func() unsafe.Pointer):
		// every call site must pass a function whose results all have one layout
		if id, ok := ast.Unparen(call.Fun).(*ast.Ident); ok && u.Lit == nil {
			if pi := c.m.paramIndex(u, id); pi >= 0 {
				res := int64(-1)
				sites := c.callSitesOf(u)
				for i, s := range sites {
					a := argFor(s.call, pi)
					if a == nil {
						return -1
					}
					var fu *FuncUnit
					if v := identVar(info, a); v != nil {
						fu = c.m.LitOfVar[v]
					}
					if fl, isLit := ast.Unparen(a).(*ast.FuncLit); isLit {
						fu = c.m.LitUnit[fl]
					}
					if fu == nil {
						return -1
					}
					rets, all := returnExprs(fu)
					if !all {
						return -1
					}
					for j, r := range rets {
						k := c.pointeeKindDepth(fu, r, depth+1)
						if k == -1 || ((i > 0 || j > 0) && k != res) {
							return -1
						}
						res = k
					}
				}
				return res
			}
		}
		return -1
	}
	if ue, ok := e.(*ast.UnaryExpr); ok && ue.Op == token.AND {
		if n := namedOf(info.TypeOf(ue.X)); n != nil {
			if ki := c.m.kindByStruct(n); ki != nil {
				return ki.Value
			}
			if c.m.isLeafType(n) {
				return c.m.LeafKind.Value
			}
		}
	}
	t := info.TypeOf(e)
	if t == nil {
		return -1
	}
	if p, ok := t.Underlying().(*types.Pointer); ok {
		if n := namedOf(p.Elem()); n != nil {
			if ki := c.m.kindByStruct(n); ki != nil {
				return ki.Value
			}
			if c.m.isLeafType(n) {
				return c.m.LeafKind.Value
			}
		}
	}
	if id, ok := e.(*ast.Ident); ok {
		// a local bound once
		if d := c.m.resolveLocal(u, id); d != nil {
			return c.pointeeKindDepth(u, d, depth+1)
		}
		// a parameter of a helper: every caller must pass the same layout
		if pi := c.m.paramIndex(u, id); pi != -1 && u.Lit == nil {
			sites := c.callSitesOf(u)
			res := int64(-1)
			for i, s := range sites {
				a := argFor(s.call, pi)
				if a == nil {
					return -1
				}
				k := c.pointeeKindDepth(s.u, a, depth+1)
				if k == -1 || (i > 0 && k != res) {
					return -1
				}
				res = k
			}
			return res
		}
	}
	return -1
}

// leafReturning: u returns an unsafe.Pointer that, whenever it is not nil, is X.pointer of a
// reference X known to be a leaf at that return.
func (c *Ctx) leafReturning(u *FuncUnit) bool {
	if u == nil || u.Body == nil || u.Lit != nil || u.Obj == nil {
		return false
	}
	if c.lrMemo == nil {
		c.lrMemo = map[*FuncUnit]int{}
	}
	switch c.lrMemo[u] {
	case 1:
		return true
	case 2, 3:
		return false
	}
	c.lrMemo[u] = 3
	sig, _ := u.Obj.Type().(*types.Signature)
	if sig == nil || sig.Results().Len() != 1 || !isUnsafePointer(sig.Results().At(0).Type()) {
		c.lrMemo[u] = 2
		return false
	}
	info := c.m.Info
	leafV := c.m.LeafKind.Value
	ok, any := true, false
	c.e.flow(u).walk(func(n ast.Node, fs *FactSet, stmt ast.Node, b *cfg.Block) {
		rs, isRet := n.(*ast.ReturnStmt)
		if !isRet || len(rs.Results) != 1 {
			return
		}
		if info.Types[rs.Results[0]].IsNil() {
			return
		}
		any = true
		sel, isSel := ast.Unparen(rs.Results[0]).(*ast.SelectorExpr)
		if !isSel || sel.Sel.Name != "pointer" {
			ok = false
			return
		}
		if known, _ := fs.tagOf(sel.X); known == nil || *known != leafV {
			if !c.leafByElimination(fs, sel.X) {
				ok = false
			}
		}
	})
	if ok && any {
		c.lrMemo[u] = 1
		return true
	}
	c.lrMemo[u] = 2
	return false
}

// visitorSites: lit (the literal of unit u) is passed directly as a func-typed argument of a call
// of a declared library function that does nothing with that parameter but call it. Returns the
// walker, and the calls of the parameter inside it (nil if the shape is different).
func (c *Ctx) visitorSites(u *FuncUnit) (walker *FuncUnit, calls []*ast.CallExpr) {
	if u.Lit == nil || u.Parent == nil {
		return nil, nil
	}
	info := c.m.Info
	var at *ast.CallExpr
	pi := -1
	ast.Inspect(u.Parent.Body, func(n ast.Node) bool {
		call, ok := n.(*ast.CallExpr)
		if !ok {
			return true
		}
		for i, a := range call.Args {
			if ast.Unparen(a) == ast.Expr(u.Lit) {
				at, pi = call, i
			}
		}
		return true
	})
	if at == nil {
		return nil, nil
	}
	w := c.m.calleeUnit(at)
	if w == nil {
		// walk := leafWalker(root); walk(func(…) bool {…}): the walker is the literal that a
		// library function returns
		if id, ok := ast.Unparen(at.Fun).(*ast.Ident); ok {
			if def := c.m.resolveLocal(u.Parent, id); def != nil {
				if mk, ok := ast.Unparen(def).(*ast.CallExpr); ok {
					if cu := c.m.calleeUnit(mk); cu != nil && cu.Lit == nil {
						if rets, all := returnExprs(cu); all && len(rets) == 1 {
							if lit, ok := ast.Unparen(rets[0]).(*ast.FuncLit); ok {
								w = c.m.LitUnit[lit]
							}
						}
					}
				}
			}
		}
	}
	if w == nil || w.Body == nil || w.Type == nil || w.Type.Params == nil {
		return nil, nil
	}
	var pv *types.Var
	k := 0
	for _, f := range w.Type.Params.List {
		for _, nm := range f.Names {
			if k == pi {
				pv, _ = info.Defs[nm].(*types.Var)
			}
			k++
		}
	}
	if pv == nil {
		return nil, nil
	}
	if _, isFn := pv.Type().Underlying().(*types.Signature); !isFn {
		return nil, nil
	}
	onlyCalled := true
	called := map[*ast.Ident]bool{}
	ast.Inspect(w.Body, func(n ast.Node) bool {
		if call, ok := n.(*ast.CallExpr); ok {
			if id, ok := ast.Unparen(call.Fun).(*ast.Ident); ok && info.ObjectOf(id) == pv {
				called[id] = true
				calls = append(calls, call)
			}
		}
		return true
	})
	ast.Inspect(w.Body, func(n ast.Node) bool {
		if id, ok := n.(*ast.Ident); ok && info.ObjectOf(id) == pv && !called[id] {
			onlyCalled = false
		}
		return true
	})
	if !onlyCalled || len(calls) == 0 {
		return nil, nil
	}
	return w, calls
}

func (c *Ctx) visitorParamPedigree(u *FuncUnit, id *ast.Ident) string {
	info := c.m.Info
	v, _ := info.ObjectOf(id).(*types.Var)
	if v == nil {
		return ""
	}
	j, k := -1, 0
	for _, f := range u.Lit.Type.Params.List {
		for _, nm := range f.Names {
			if info.Defs[nm] == v {
				j = k
			}
			k++
		}
	}
	if j < 0 || assignedAnywhere(info, u.Body, v) {
		return ""
	}
	w, calls := c.visitorSites(u)
	if w == nil {
		return ""
	}
	c.pedigreeDepth++
	defer func() { c.pedigreeDepth-- }()
	leafV := c.m.LeafKind.Value
	for _, call := range calls {
		if j >= len(call.Args) {
			return ""
		}
		a := call.Args[j]
		// the call may sit in a nested literal of the walker: find the unit that holds it
		holder := w
		for _, cu := range c.m.Units {
			if cu.Lit != nil && cu.Lit.Pos() <= call.Pos() && call.End() <= cu.Lit.End() && cu.Lit.Pos() >= w.Body.Pos() && cu.Lit.End() <= w.Body.End() {
				if holder == w || cu.Lit.Pos() >= holder.Lit.Pos() {
					holder = cu
				}
			}
		}
		var at *FactSet
		c.e.flow(holder).walk(func(n ast.Node, fs *FactSet, stmt ast.Node, b *cfg.Block) {
			if n == ast.Node(call) && at == nil {
				at = fs.clone()
			}
		})
		if at == nil {
			return ""
		}
		okSite := false
		if psel, isSel := ast.Unparen(a).(*ast.SelectorExpr); isSel && psel.Sel.Name == "pointer" && c.isNodeRefType(info.TypeOf(psel.X)) {
			if known, _ := at.tagOf(psel.X); (known != nil && *known == leafV) || c.leafByElimination(at, psel.X) {
				okSite = true
			}
		} else if c.leafPedigree(holder, at, a) != "" {
			okSite = true
		}
		if !okSite {
			return ""
		}
	}
	return fmt.Sprintf("parameter of a visitor handed to %s, which only calls it: each of the %d calls passes the pointer of a reference known to be a leaf", w.Name, len(calls))
}

// endsInErrorReturn: the statement list ends with a return whose last result is a non-nil value
// of type error (an unknown kind is reported, not passed over).
func endsInErrorReturn(info *types.Info, body []ast.Stmt) bool {
	if len(body) == 0 {
		return false
	}
	rs, ok := body[len(body)-1].(*ast.ReturnStmt)
	if !ok || len(rs.Results) == 0 {
		return false
	}
	last := rs.Results[len(rs.Results)-1]
	tv, ok := info.Types[last]
	if !ok || tv.IsNil() || tv.Type == nil {
		return false
	}
	errT := types.Universe.Lookup("error").Type()
	return types.AssignableTo(tv.Type, errT) && types.Implements(tv.Type, errT.Underlying().(*types.Interface))
}

// kindByElimination: every kind other than want is excluded for ref – by the tests on this path
// and, when ref is a by-value reference parameter of a declared helper, by what each call site
// knows about the argument (a helper for "node4 or node16" called under `case nodeKind4,
// nodeKind16:` that has dealt with node4 itself).
func (c *Ctx) kindByElimination(u *FuncUnit, fs *FactSet, ref ast.Expr, want int64) string {
	m := c.m
	info := m.Info
	all := map[int64]bool{m.LeafKind.Value: true}
	for _, k := range m.Kinds {
		all[k.Value] = true
	}
	_, excl := fs.tagOf(ref)
	remaining := func(ex map[int64]bool) []int64 {
		var out []int64
		for k := range all {
			if !ex[k] {
				out = append(out, k)
			}
		}
		return out
	}
	if r := remaining(excl); len(r) == 1 && r[0] == want {
		return "every other kind is excluded on this path"
	}
	id, ok := ast.Unparen(ref).(*ast.Ident)
	if !ok || u.Lit != nil || u.Decl == nil {
		return ""
	}
	if m.paramIndex(u, id) == -1 {
		pid := c.aliasedSlotParam(u, fs, id)
		if pid == nil {
			return ""
		}
		id = pid
	}
	pi := m.paramIndex(u, id)
	if pi == -1 || assignedAnywhere(info, u.Body, identVar(info, id)) {
		return ""
	}
	sites := c.callSitesOf(u)
	if len(sites) == 0 {
		return ""
	}
	for _, s := range sites {
		a := argFor(s.call, pi)
		if a == nil {
			return ""
		}
		var at *FactSet
		c.e.flow(s.u).walk(func(n ast.Node, f *FactSet, stmt ast.Node, b *cfg.Block) {
			if n == ast.Node(s.call) && at == nil {
				at = f.clone()
			}
		})
		if at == nil {
			return ""
		}
		siteEx := map[int64]bool{}
		known, ex := at.tagOf(a)
		if os.Getenv("ARTCHECK_DEBUG") == "elim" {
			fmt.Fprintf(os.Stderr, "ELIM %s site %s arg %s want %s known=%v facts=%v\n", u.Name, s.u.Name, types.ExprString(a), at.canonTag(a), known, at.describe())
		}
		for k := range ex {
			siteEx[k] = true
		}
		if known != nil {
			for k := range all {
				if k != *known {
					siteEx[k] = true
				}
			}
		}
		for k := range excl {
			siteEx[k] = true
		}
		if r := remaining(siteEx); len(r) != 1 || r[0] != want {
			return ""
		}
	}
	return fmt.Sprintf("every other kind is excluded: by the tests of %s on this path and by what each of its %d call sites knows about the argument", u.Name, len(sites))
}

// poolAccessor: u is a helper that takes the pool index as a parameter and asserts the object it
// gets as a pointer to one of its type parameters (func acquire[N any](kind nodeKind) *N). The
// pairing of pool and layout is then decided at every call site: the type argument's layout kind
// is the constant kind passed. done is false when u has not this shape.
func (c *Ctx) poolAccessor(u *FuncUnit, index ast.Expr, asserted ast.Expr) (why, badAt string, done bool) {
	m := c.m
	info := m.Info
	if u.Lit != nil || u.Decl == nil || u.Obj == nil {
		return
	}
	id, ok := ast.Unparen(index).(*ast.Ident)
	if !ok {
		return
	}
	pi := m.paramIndex(u, id)
	if pi < 0 || assignedAnywhere(info, u.Body, identVar(info, id)) {
		return
	}
	pt, ok := info.TypeOf(asserted).(*types.Pointer)
	if !ok {
		return
	}
	tp, ok := types.Unalias(pt.Elem()).(*types.TypeParam)
	if !ok {
		return
	}
	sig, _ := u.Obj.Type().(*types.Signature)
	ti := -1
	if sig != nil && sig.TypeParams() != nil {
		for i := 0; i < sig.TypeParams().Len(); i++ {
			if sig.TypeParams().At(i) == tp {
				ti = i
			}
		}
	}
	if ti < 0 {
		return
	}
	done = true
	sites := c.callSitesOf(u)
	if len(sites) == 0 {
		return "the generic pool accessor " + u.Name + " has no call site", m.pos(u.Decl.Pos()), true
	}
	for _, s := range sites {
		fun := ast.Unparen(s.call.Fun)
		var fid *ast.Ident
		switch f := fun.(type) {
		case *ast.IndexExpr:
			fid, _ = ast.Unparen(f.X).(*ast.Ident)
		case *ast.IndexListExpr:
			fid, _ = ast.Unparen(f.X).(*ast.Ident)
		case *ast.Ident:
			fid = f
		}
		a := argFor(s.call, pi)
		if fid == nil || a == nil {
			return "call of " + u.Name + " whose kind and type argument cannot be read", m.pos(s.call.Pos()), true
		}
		inst, ok := info.Instances[fid]
		if !ok || inst.TypeArgs.Len() <= ti {
			return "call of " + u.Name + " without an instantiation", m.pos(s.call.Pos()), true
		}
		ki := m.kindByStruct(inst.TypeArgs.At(ti))
		tv, hasC := info.Types[a]
		if ki == nil || !hasC || tv.Value == nil {
			return fmt.Sprintf("call of %s: the kind argument is not a constant or the type argument %s is not a node layout", u.Name, inst.TypeArgs.At(ti)), m.pos(s.call.Pos()), true
		}
		if tv.Value.ExactString() != fmt.Sprint(ki.Value) {
			return fmt.Sprintf("object taken from pool %s is asserted as %s", types.ExprString(a), inst.TypeArgs.At(ti)), m.pos(s.call.Pos()), true
		}
	}
	return fmt.Sprintf("generic accessor: at each of its %d call sites the constant kind is the kind of the layout type argument", len(sites)), "", true
}

// aliasedSlotParam: id is a local that holds a copy of what a slot parameter points at, taken
// before anything else happens (old := *ref as the first statements of a helper); returns the
// parameter's identifier, nil otherwise.
func (c *Ctx) aliasedSlotParam(u *FuncUnit, fs *FactSet, id *ast.Ident) *ast.Ident {
	m := c.m
	info := m.Info
	if u.Lit != nil || u.Decl == nil {
		return nil
	}
	v := identVar(info, id)
	if v == nil {
		return nil
	}
	def, live := fs.aliasOf(v)
	if !live {
		return nil
	}
	st, ok := ast.Unparen(def).(*ast.StarExpr)
	if !ok {
		return nil
	}
	pid, ok := ast.Unparen(st.X).(*ast.Ident)
	if !ok || m.paramIndex(u, pid) == -1 {
		return nil
	}
	for _, s := range u.Body.List {
		as, isDef := s.(*ast.AssignStmt)
		if isDef && as.Tok == token.DEFINE && len(as.Lhs) == 1 && identVar(info, as.Lhs[0]) == v {
			break
		}
		quiet := isDef && as.Tok == token.DEFINE
		if _, isDecl := s.(*ast.DeclStmt); isDecl {
			quiet = true
		}
		ast.Inspect(s, func(n ast.Node) bool {
			if call, ok := n.(*ast.CallExpr); ok && !isConversion(info, call) {
				if bi, ok := ast.Unparen(call.Fun).(*ast.Ident); !ok || (bi.Name != "len" && bi.Name != "cap" && bi.Name != "min" && bi.Name != "max") {
					quiet = false
				}
			}
			return true
		})
		if !quiet {
			return nil
		}
	}
	return pid
}

// nonLeafAtCallSites: x is (a copy of the content of) a slot parameter of helper u, and every call
// site knows that the slot does not hold a leaf.
func (c *Ctx) nonLeafAtCallSites(u *FuncUnit, fs *FactSet, x ast.Expr) string {
	m := c.m
	info := m.Info
	id, ok := ast.Unparen(x).(*ast.Ident)
	if !ok || u.Lit != nil || u.Decl == nil {
		return ""
	}
	if m.paramIndex(u, id) == -1 {
		if id = c.aliasedSlotParam(u, fs, id); id == nil {
			return ""
		}
	}
	pi := m.paramIndex(u, id)
	if pi == -1 || assignedAnywhere(info, u.Body, identVar(info, id)) {
		return ""
	}
	sites := c.callSitesOf(u)
	if len(sites) == 0 {
		return ""
	}
	for _, s := range sites {
		a := argFor(s.call, pi)
		if a == nil {
			return ""
		}
		var at *FactSet
		c.e.flow(s.u).walk(func(n ast.Node, f *FactSet, stmt ast.Node, b *cfg.Block) {
			if n == ast.Node(s.call) && at == nil {
				at = f.clone()
			}
		})
		if at == nil || !c.nonLeaf(at, a) {
			return ""
		}
	}
	return fmt.Sprintf("copy of the content of slot parameter %s: each of the %d call sites of %s knows that the slot holds an inner node", id.Name, len(sites), u.Name)
}
