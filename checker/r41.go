package main

import (
	"fmt"
	"go/ast"
	"go/token"
	"go/types"
	"strings"

	"golang.org/x/tools/go/cfg"
)

// R41 VACATE (C10, C02, C01, C11) – on every path of a deleteChild on which the fan-out counter is
// decremented, the vacated slot is compacted away (4/16-slot classes: the shift of keys and
// children) or emptied (48/256-slot classes: pointer = nil). The 4-lane insert-position search
// looks at all four lanes, so a lane that keeps an arbitrary stale byte misplaces a later insert.
func ruleR41(c *Ctx) {
	info := c.m.Info
	m := c.m
	props := []string{"C10", "C02", "C01", "C11"}
	n := 0
	for _, k := range m.Kinds {
		u := m.ByName[k.Struct.Obj().Name()+".deleteChild"]
		if u == nil {
			continue
		}
		n++
		g := m.cfgOf(u)
		const (
			evDEC = iota
			evVAC
			evINC
		)
		// explicit loops that close the gap (shiftloop.go): the loop counts as the copy it stands
		// for, raised once where the loop starts; its stores are not single-slot moves
		shiftInit := map[ast.Node]bool{}
		shiftStore := map[ast.Node]bool{}
		for _, sl := range c.shiftLoopsIn(u.Body) {
			closesChildren := false
			for _, a := range sl.arrays {
				if strings.Contains(a, "children") && sl.dir == -1 {
					closesChildren = true
				}
			}
			if closesChildren {
				shiftInit[sl.loop.Init] = true
			}
			for _, st := range sl.stores {
				shiftStore[st] = true
			}
		}
		ev := func(b *cfg.Block, i int, nd ast.Node) []int {
			var out []int
			if shiftInit[nd] {
				out = append(out, evVAC)
			}
			ast.Inspect(nd, func(x ast.Node) bool {
				switch y := x.(type) {
				case *ast.IncDecStmt:
					if y.Tok == token.DEC && strings.HasSuffix(exprText(y.X), "childrenLen") {
						out = append(out, evDEC)
					}
					if y.Tok == token.INC && strings.HasSuffix(exprText(y.X), "childrenLen") {
						out = append(out, evINC)
					}
				case *ast.CallExpr:
					if isBuiltinCall(info, y, "copy") && len(y.Args) == 2 && strings.Contains(exprText(y.Args[0]), "children") {
						out = append(out, evVAC)
					}
					// closeSlot(n.children[:], i): a library helper that writes through the slice it is given
					if f := m.staticCallee(y); f != nil && f.Pkg() == m.Pkg {
						w := c.e.writesThrough(f)
						for ai, a := range y.Args {
							if w[ai] && strings.Contains(exprText(a), "children") {
								out = append(out, evVAC)
								break
							}
						}
					}
				case *ast.AssignStmt:
					if len(y.Lhs) == 1 && len(y.Rhs) == 1 && info.Types[y.Rhs[0]].IsNil() && strings.HasSuffix(exprText(y.Lhs[0]), ".pointer") {
						out = append(out, evVAC)
					}
					if len(y.Lhs) == 1 && len(y.Rhs) == 1 && strings.Contains(exprText(y.Lhs[0]), "children[") && c.isEmptyRefLit(y.Rhs[0]) {
						out = append(out, evVAC)
					}
				}
				return true
			})
			return out
		}
		res := runPaths(g, []string{"FANOUT-", "VACATE", "FANOUT+"}, ev, nil)
		bad := false
		for _, b := range g.Blocks {
			for _, s := range res.exits[b] {
				// the converse: a path that takes a child out counts it out, exactly once
				if (s.n[evVAC] > 0 && s.n[evDEC] != 1) || s.n[evINC] > 0 || s.n[evDEC] > 1 {
					bad = true
					pos := u.Decl.Pos()
					if len(b.Nodes) > 0 {
						pos = b.Nodes[len(b.Nodes)-1].Pos()
					}
					o := c.r.bad("R41", k.Struct.Obj().Name()+".deleteChild counts the removed child out exactly once", m.pos(pos),
						fmt.Sprintf("a path through deleteChild ends with %s: a slot is vacated without childrenLen-- (or the counter moves the wrong way / twice), so the fan-out no longer equals the number of registered children and the shrink thresholds and fill guards are off", res.describe(s)), props...)
					o.Path = res.witness(b, res.entryOf[pkey{b.Index, s}])
					continue
				}
				if s.n[evDEC] > 0 && s.n[evVAC] == 0 {
					bad = true
					pos := u.Decl.Pos()
					if len(b.Nodes) > 0 {
						pos = b.Nodes[len(b.Nodes)-1].Pos()
					}
					o := c.r.bad("R41", k.Struct.Obj().Name()+".deleteChild vacates the slot on every path that decrements the fan-out", m.pos(pos),
						"a path decrements childrenLen without shifting the arrays down / emptying the slot: the removed byte and child stay behind the live slots, where the all-lane insert-position search and the grow/shrink copies still see them", props...)
					o.Path = res.witness(b, res.entryOf[pkey{b.Index, s}])
				}
			}
		}
		// size classes that keep their slots in key order (addChild places a child at the position an
		// insert-position search returns) must close the gap by shifting: moving another child of
		// the same node into the freed slot breaks the order every traversal relies on
		sorted := false
		if au := m.ByName[k.Struct.Obj().Name()+".addChild"]; au != nil {
			ast.Inspect(au.Body, func(x ast.Node) bool {
				if call, ok := x.(*ast.CallExpr); ok && isInsertPosCall(m, call) {
					sorted = true
				}
				return true
			})
		}
		if sorted && u.Decl != nil && u.Decl.Recv != nil && len(u.Decl.Recv.List) == 1 && len(u.Decl.Recv.List[0].Names) == 1 {
			recv := info.Defs[u.Decl.Recv.List[0].Names[0]]
			moved := false
			ast.Inspect(u.Body, func(x ast.Node) bool {
				as, ok := x.(*ast.AssignStmt)
				if !ok || as.Tok == token.DEFINE || len(as.Lhs) != len(as.Rhs) || shiftStore[as] {
					return true
				}
				for i, l := range as.Lhs {
					ie, isIdx := ast.Unparen(l).(*ast.IndexExpr)
					if !isIdx {
						continue
					}
					sel, isSel := ast.Unparen(ie.X).(*ast.SelectorExpr)
					if !isSel || (sel.Sel.Name != "children" && sel.Sel.Name != "keys") || info.ObjectOf(identOf(sel.X)) != recv {
						continue
					}
					// reads a slot of the same node?
					reads := false
					ast.Inspect(as.Rhs[i], func(z ast.Node) bool {
						if rs, ok := z.(*ast.SelectorExpr); ok && (rs.Sel.Name == "children" || rs.Sel.Name == "keys") && info.ObjectOf(identOf(rs.X)) == recv {
							reads = true
						}
						return true
					})
					if reads {
						moved = true
						c.r.bad("R41", k.Struct.Obj().Name()+".deleteChild closes the gap by shifting", m.pos(as.Pos()),
							"a slot of this node is overwritten with another slot of the same node: the children of this size class are kept in key order (insert position search), and moving one into the freed slot puts it out of order for All/Backward/Range and for later inserts", props...)
					}
				}
				return true
			})
			if !moved {
				c.r.ok("R41", k.Struct.Obj().Name()+".deleteChild closes the gap by shifting", m.pos(u.Decl.Pos()), "no slot-to-slot move inside the node", props...)
			}
			// a class whose insert-position search is not given the fill count looks at every lane:
			// the lanes beyond the fill count must stay what the shift leaves there (copies of the
			// former top byte, which never sort below an occupied lane). A store of a single lane or
			// slot in deleteChild – zeroing the vacated one "for hygiene" – puts a smaller byte under
			// a stale larger one, and the next insert lands above a hole.
			allLane := false
			if au := m.ByName[k.Struct.Obj().Name()+".addChild"]; au != nil {
				ast.Inspect(au.Body, func(x ast.Node) bool {
					if call, ok := x.(*ast.CallExpr); ok && isInsertPosCall(m, call) {
						usesLen := false
						for _, a := range call.Args {
							if strings.Contains(exprText(a), "childrenLen") {
								usesLen = true
							}
						}
						if !usesLen {
							allLane = true
						}
					}
					return true
				})
			}
			if allLane {
				key := k.Struct.Obj().Name() + ".deleteChild leaves the lanes beyond the fill count to the shift"
				var where ast.Node
				ast.Inspect(u.Body, func(x ast.Node) bool {
					switch y := x.(type) {
					case *ast.AssignStmt:
						if y.Tok == token.DEFINE || len(y.Lhs) != len(y.Rhs) {
							return true
						}
						for i, l := range y.Lhs {
							ie, isIdx := ast.Unparen(l).(*ast.IndexExpr)
							if !isIdx {
								continue
							}
							sel, isSel := ast.Unparen(ie.X).(*ast.SelectorExpr)
							if !isSel || (sel.Sel.Name != "children" && sel.Sel.Name != "keys") || info.ObjectOf(identOf(sel.X)) != recv {
								continue
							}
							reads := false
							ast.Inspect(y.Rhs[i], func(z ast.Node) bool {
								if rs, ok := z.(*ast.SelectorExpr); ok && (rs.Sel.Name == "children" || rs.Sel.Name == "keys") && info.ObjectOf(identOf(rs.X)) == recv {
									reads = true
								}
								return true
							})
							if !reads && where == nil {
								where = y
							}
						}
					case *ast.CallExpr:
						f := m.staticCallee(y)
						if f == nil || f.Pkg() != m.Pkg {
							return true
						}
						sig, _ := f.Type().(*types.Signature)
						if sig == nil || sig.Recv() != nil {
							return true
						}
						hasByte := false
						for pi := 0; pi < sig.Params().Len(); pi++ {
							if b, ok := sig.Params().At(pi).Type().Underlying().(*types.Basic); ok && (b.Kind() == types.Uint8 || b.Kind() == types.Byte) && !isModeType(m, sig.Params().At(pi).Type()) {
								hasByte = true // a key byte to store (a direction or mode of a named type is not one)
							}
						}
						if !hasByte {
							return true
						}
						w := c.e.writesThrough(f)
						for ai, a := range y.Args {
							if !w[ai] {
								continue
							}
							ast.Inspect(a, func(z ast.Node) bool {
								if rs, ok := z.(*ast.SelectorExpr); ok && (rs.Sel.Name == "children" || rs.Sel.Name == "keys") && info.ObjectOf(identOf(rs.X)) == recv && where == nil {
									where = y
								}
								return true
							})
						}
					}
					return true
				})
				if where == nil {
					c.r.ok("R41", key, m.pos(u.Decl.Pos()), "the arrays of the node are written by the shift only", props...)
				} else {
					c.r.bad("R41", key, m.pos(where.Pos()), "a single lane or slot of the node is stored in deleteChild: the insert-position search of this class is not given the fill count and sees every lane, so the lanes beyond the fill count must stay what the shift leaves there (copies of the former top byte); a smaller byte written under a stale larger one makes the next insert land above a hole", props...)
				}
			}
		}
		if !bad {
			c.r.ok("R41", k.Struct.Obj().Name()+".deleteChild vacates the slot on every path that decrements the fan-out", m.pos(u.Decl.Pos()), "every path with childrenLen-- also compacts or empties the slot", props...)
		}
		// the shrink / collapse test (childrenLen == T) is an equality: a path that decrements the
		// fan-out and leaves without evaluating it steps past the threshold for good – the node is
		// never shrunk or collapsed afterwards and stays linked when it is empty
		{
			var testBlocks []*cfg.Block
			thr := ""
			for _, b := range g.Blocks {
				if !b.Live {
					continue
				}
				cond := condOf(info, b)
				if cond == nil {
					continue
				}
				for _, at := range impliedAtoms(cond, true) {
					be, ok := ast.Unparen(at.e).(*ast.BinaryExpr)
					if !ok || (be.Op != token.EQL && be.Op != token.NEQ) {
						continue
					}
					if strings.HasSuffix(exprText(be.X), "childrenLen") {
						if tv, has := info.Types[be.Y]; has && tv.Value != nil {
							testBlocks = append(testBlocks, b)
							thr = tv.Value.ExactString()
						}
					}
				}
			}
			if len(testBlocks) == 1 {
				tb := testBlocks[0]
				key := k.Struct.Obj().Name() + ".deleteChild evaluates its shrink test after every decrement of the fan-out"
				var leak ast.Node
				for _, b := range g.Blocks {
					if !b.Live {
						continue
					}
					for i, nd := range b.Nodes {
						isDec := false
						for _, e := range ev(b, i, nd) {
							if e == evDEC {
								isDec = true
							}
						}
						if !isDec {
							continue
						}
						// is an exit reachable from here without passing the test block? (the rest of
						// this block runs first; the test block itself may be this block)
						if b == tb {
							continue
						}
						for blk := range reachableWithout(b, tb) {
							if blk != b && len(blk.Succs) == 0 && leak == nil {
								leak = nd
							}
						}
						if len(b.Succs) == 0 && leak == nil {
							leak = nd
						}
					}
				}
				if leak == nil {
					c.r.ok("R41", key, m.pos(u.Decl.Pos()), "every path from a childrenLen-- reaches the test childrenLen == "+thr, append(props, "C17")...)
				} else {
					c.r.bad("R41", key, m.pos(leak.Pos()), "a path decrements childrenLen and leaves the function without evaluating the test childrenLen == "+thr+": the count steps past the threshold, the equality is never met again, and the node is never shrunk or collapsed – emptied, it stays linked and pins its ancestors", append(props, "C17")...)
				}
			}
		}
	}
	if n < 3 {
		c.r.undecided("R41", "deleteChild methods found", "node.go", fmt.Sprintf("only %d", n), props...)
	}
}

func exprText(e ast.Expr) string {
	var b strings.Builder
	var w func(e ast.Expr)
	w = func(e ast.Expr) {
		switch x := e.(type) {
		case *ast.Ident:
			b.WriteString(x.Name)
		case *ast.SelectorExpr:
			w(x.X)
			b.WriteString("." + x.Sel.Name)
		case *ast.IndexExpr:
			w(x.X)
			b.WriteString("[")
			w(x.Index)
			b.WriteString("]")
		case *ast.SliceExpr:
			w(x.X)
			b.WriteString("[:]")
		case *ast.ParenExpr:
			w(x.X)
		case *ast.StarExpr:
			b.WriteString("*")
			w(x.X)
		case *ast.BinaryExpr:
			w(x.X)
			b.WriteString(x.Op.String())
			w(x.Y)
		case *ast.BasicLit:
			b.WriteString(x.Value)
		case *ast.CallExpr:
			w(x.Fun)
			b.WriteString("(…)")
		case *ast.UnaryExpr:
			b.WriteString(x.Op.String())
			w(x.X)
		default:
			b.WriteString("?")
		}
	}
	w(e)
	return b.String()
}

func identOf(e ast.Expr) *ast.Ident {
	id, _ := ast.Unparen(e).(*ast.Ident)
	if id == nil {
		return &ast.Ident{Name: "?"}
	}
	return id
}

// isInsertPosCall: the insert-position search of a sorted size class (insertPosNode4(keys, b),
// keys.insertPos(b)).
func isInsertPosCall(m *Model, call *ast.CallExpr) bool {
	f := m.staticCallee(call)
	return f != nil && f.Pkg() == m.Pkg && strings.HasPrefix(strings.ToLower(f.Name()), "insertpos")
}
