package main

// R54, second clause – SKIPJUSTIFIED (C03, C09, C02, C04).
//
// A stack traversal may leave a popped INNER node without pushing its children (a `continue` of the
// worklist loop that is neither in the leaf arm nor behind the push of the children) only under a
// condition that witnesses a byte at which the node's compressed path and the bounds' common
// prefix DIFFER inside both strings. Recognised witnesses:
//
//   longestCommonPrefix(a, b, 0) == 0            both operands non-empty (first clause of R54)
//   !bytes.HasPrefix(x, y)                       with len(y) <= len(x) provable where it is evaluated
//   matchLength(…) <op> T                        only the `== 0` form above; any other threshold is
//                                                reported unless T <= the length of both strings
//
// A one-directional prefix test (`!bytes.HasPrefix(window, path)`) or a match length compared with
// the node's own path length (`node.checkPrefix(search, depth) != min(maxPrefixLen, prefixLen)`)
// is also false when the window simply ENDS inside the path: nothing differs, every key below the
// node may lie within the bounds, and the subtree is dropped. A condition of any other form is
// reported as undecided. A traversal that never skips an inner node has nothing to examine.

import (
	"fmt"
	"go/ast"
	"go/token"
	"go/types"

	"golang.org/x/tools/go/cfg"
)

type skipSite struct {
	br        *ast.BranchStmt
	ancestors []ast.Node // from the loop body down to the parent of br
}

func (c *Ctx) r54Skips() {
	m := c.m
	info := m.Info
	nSkips, nLoops := 0, 0
	for _, u := range c.seqLiterals() {
		loops := c.worklistLoops(u)
		if len(loops) == 0 {
			continue
		}
		props := c.attribute(u, "C02", "C03", "C04", "C08", "C09")
		if len(props) == 0 {
			continue
		}
		fl, condFacts := c.r54Facts(u)
		for _, loop := range loops {
			nLoops++
			var label *types.Label
			ast.Inspect(u.Body, func(n ast.Node) bool {
				if ls, ok := n.(*ast.LabeledStmt); ok && ls.Stmt == ast.Stmt(loop) {
					label, _ = info.Defs[ls.Label].(*types.Label)
				}
				return true
			})
			// tag expressions of the loop
			var tagXs []ast.Expr
			ast.Inspect(loop.Body, func(n ast.Node) bool {
				if sel, ok := n.(*ast.SelectorExpr); ok && sel.Sel.Name == "tag" && m.NodeRef != nil {
					if t := info.TypeOf(sel.X); t != nil {
						if p, ok := t.Underlying().(*types.Pointer); ok {
							t = p.Elem()
						}
						if types.Identical(t, m.NodeRef) {
							tagXs = append(tagXs, sel.X)
						}
					}
				}
				return true
			})
			var sites []skipSite
			var stack []ast.Node
			var visit func(n ast.Node, nested int)
			visit = func(n ast.Node, nested int) {
				if n == nil {
					return
				}
				switch x := n.(type) {
				case *ast.FuncLit:
					return
				case *ast.BranchStmt:
					if x.Tok != token.CONTINUE {
						return
					}
					if x.Label != nil {
						if lb, _ := info.Uses[x.Label].(*types.Label); lb == nil || lb != label {
							return
						}
					} else if nested > 0 {
						return
					}
					sites = append(sites, skipSite{x, append([]ast.Node(nil), stack...)})
					return
				}
				nn := nested
				switch n.(type) {
				case *ast.ForStmt, *ast.RangeStmt:
					if n != ast.Node(loop) {
						nn++
					}
				}
				stack = append(stack, n)
				for _, ch := range childrenOf(n) {
					if _, isExpr := ch.(ast.Expr); isExpr {
						continue
					}
					visit(ch, nn)
				}
				stack = stack[:len(stack)-1]
			}
			visit(loop.Body, 0)
			for _, s := range sites {
				if c.r54AfterPush(u, s) || c.r54LeafArm(u, s, tagXs, condFacts) {
					continue
				}
				nSkips++
				key := fmt.Sprintf("%s skips an inner node only on a byte mismatch", u.Name)
				cond, val := r54InnermostCond(s)
				if cond == nil {
					c.r.undecided("R54", key, m.pos(s.br.Pos()), "an inner node is left without pushing its children, under no condition the rule can read", props...)
					continue
				}
				verdict, why := c.r54Justified(u, fl, condFacts, cond, cond, val, 0)
				switch verdict {
				case 1:
					c.r.ok("R54", key, m.pos(s.br.Pos()), why, props...)
				case -1:
					c.r.bad("R54", key, m.pos(cond.Pos()), why, props...)
				default:
					c.r.undecided("R54", key, m.pos(cond.Pos()), why, props...)
				}
			}
		}
	}
	c.r.note("R54: %d stack traversals, %d skips of an inner node examined", nLoops, nSkips)
}

// r54Facts: the flow of a unit and the facts where each of its conditions (and each result of a
// return statement) is evaluated.
func (c *Ctx) r54Facts(u *FuncUnit) (*Flow, map[ast.Node]*FactSet) {
	fl := c.e.flow(u)
	condFacts := map[ast.Node]*FactSet{}
	fl.walk(func(node ast.Node, fs *FactSet, stmt ast.Node, b *cfg.Block) {
		if e, ok := node.(ast.Expr); ok && node == stmt {
			condFacts[e] = fs.clone()
			condFacts[ast.Unparen(e)] = condFacts[e]
		}
		if rs, ok := node.(*ast.ReturnStmt); ok && node == stmt {
			for _, r := range rs.Results {
				condFacts[r] = fs.clone()
				condFacts[ast.Unparen(r)] = condFacts[r]
			}
		}
	})
	return fl, condFacts
}

// r54ContainsPush: the statement (or a helper it assigns the stack from) pushes on a stack.
func (c *Ctx) r54ContainsPush(n ast.Node) bool {
	info := c.m.Info
	found := false
	ast.Inspect(n, func(x ast.Node) bool {
		if found {
			return false
		}
		if _, isLit := x.(*ast.FuncLit); isLit {
			return false
		}
		if es, ok := x.(*ast.ExprStmt); ok {
			if _, _, isPush := c.m.pushCall(es); isPush {
				found = true
			}
		}
		if as, ok := x.(*ast.AssignStmt); ok && len(as.Lhs) == 1 && len(as.Rhs) == 1 {
			if call, ok := ast.Unparen(as.Rhs[0]).(*ast.CallExpr); ok {
				if isBuiltinCall(info, call, "append") && len(call.Args) > 0 && identVar(info, call.Args[0]) != nil && identVar(info, call.Args[0]) == identVar(info, as.Lhs[0]) {
					found = true
				}
				if cu := c.m.calleeUnit(call); cu != nil && cu.Lit == nil {
					if pi := passThroughParam(c.m, cu); pi >= 0 && pi < len(call.Args) && identVar(info, call.Args[pi]) != nil && identVar(info, call.Args[pi]) == identVar(info, as.Lhs[0]) {
						found = true
					}
				}
			}
		}
		return true
	})
	return found
}

// r54AfterPush: an earlier sibling, at some level between the loop body and the continue, pushes.
func (c *Ctx) r54AfterPush(u *FuncUnit, s skipSite) bool {
	chain := append(append([]ast.Node(nil), s.ancestors...), s.br)
	for i := 0; i+1 < len(chain); i++ {
		var list []ast.Stmt
		switch x := chain[i].(type) {
		case *ast.BlockStmt:
			list = x.List
		case *ast.CaseClause:
			list = x.Body
		default:
			continue
		}
		for _, st := range list {
			if ast.Node(st) == chain[i+1] {
				break
			}
			if c.r54ContainsPush(st) {
				return true
			}
		}
	}
	return false
}

func r54InnermostCond(s skipSite) (ast.Expr, bool) {
	chain := append(append([]ast.Node(nil), s.ancestors...), s.br)
	for i := len(chain) - 2; i >= 0; i-- {
		if is, ok := chain[i].(*ast.IfStmt); ok {
			if chain[i+1] == ast.Node(is.Body) {
				return is.Cond, true
			}
			if is.Else != nil && chain[i+1] == ast.Node(is.Else) {
				return is.Cond, false
			}
		}
		switch chain[i].(type) {
		case *ast.CaseClause, *ast.ForStmt, *ast.RangeStmt, *ast.SwitchStmt:
			return nil, false
		}
	}
	return nil, false
}

// r54LeafArm: the continue belongs to the handling of a popped leaf.
func (c *Ctx) r54LeafArm(u *FuncUnit, s skipSite, tagXs []ast.Expr, condFacts map[ast.Node]*FactSet) bool {
	m := c.m
	info := m.Info
	leafV := m.LeafKind.Value
	isLeafConst := func(e ast.Expr) bool {
		tv, ok := info.Types[e]
		if !ok || tv.Value == nil {
			return false
		}
		v, ok2 := constantInt64(tv)
		if !ok2 || v != leafV {
			return false
		}
		// a constant of the kind type (the type of the tag field)
		if id, isId := ast.Unparen(e).(*ast.Ident); isId {
			if cst, isC := info.Uses[id].(*types.Const); isC {
				return cst.Name() == m.LeafKind.Name
			}
		}
		return false
	}
	isTag := func(e ast.Expr) bool {
		sel, ok := ast.Unparen(e).(*ast.SelectorExpr)
		return ok && sel.Sel.Name == "tag"
	}
	var impliesLeaf func(e ast.Expr, val bool) bool
	impliesLeaf = func(e ast.Expr, val bool) bool {
		for _, a := range impliedAtoms(e, val) {
			x := ast.Unparen(c.expandPredicate(a.e))
			if x != ast.Unparen(a.e) {
				if impliesLeaf(x, a.val) {
					return true
				}
				continue
			}
			be, ok := x.(*ast.BinaryExpr)
			if !ok {
				continue
			}
			if (isTag(be.X) && isLeafConst(be.Y)) || (isTag(be.Y) && isLeafConst(be.X)) {
				if (be.Op == token.EQL && a.val) || (be.Op == token.NEQ && !a.val) {
					return true
				}
			}
		}
		return false
	}
	chain := append(append([]ast.Node(nil), s.ancestors...), s.br)
	for i := 0; i+1 < len(chain); i++ {
		switch x := chain[i].(type) {
		case *ast.IfStmt:
			if chain[i+1] == ast.Node(x.Body) && impliesLeaf(x.Cond, true) {
				return true
			}
			if x.Else != nil && chain[i+1] == ast.Node(x.Else) && impliesLeaf(x.Cond, false) {
				return true
			}
		case *ast.CaseClause:
			if len(x.List) == 1 && isLeafConst(x.List[0]) {
				return true
			}
			// tagless switch: case n.tag == leaf
			if len(x.List) == 1 && impliesLeaf(x.List[0], true) {
				return true
			}
		}
	}
	// what the fact engine knows where the enclosing conditions are evaluated
	for i := len(chain) - 2; i >= 0; i-- {
		is, ok := chain[i].(*ast.IfStmt)
		if !ok {
			continue
		}
		fs := condFacts[ast.Unparen(is.Cond)]
		if fs == nil {
			fs = condFacts[is.Cond]
		}
		if fs == nil {
			continue
		}
		for _, tx := range tagXs {
			if known, _ := fs.tagOf(tx); known != nil && *known == leafV {
				return true
			}
		}
	}
	return false
}

// r54Justified: +1 the condition (with value val) witnesses a differing byte, -1 it provably does
// not have to, 0 unknown. root is the condition node whose facts apply.
func (c *Ctx) r54Justified(u *FuncUnit, fl *Flow, condFacts map[ast.Node]*FactSet, root, e ast.Expr, val bool, depth int) (int, string) {
	m := c.m
	info := m.Info
	e = ast.Unparen(e)
	if depth > 6 {
		return 0, "condition too deep"
	}
	all := func(parts []ast.Expr, v bool) (int, string) {
		res, why := 1, ""
		for _, p := range parts {
			r, w := c.r54Justified(u, fl, condFacts, root, p, v, depth+1)
			if r < res {
				res = r
			}
			if r != 1 && why == "" {
				why = w
			} else if r == 1 && res == 1 {
				why = w
			}
		}
		return res, why
	}
	anyOf := func(parts []ast.Expr, v bool) (int, string) {
		res, why := -1, ""
		for _, p := range parts {
			r, w := c.r54Justified(u, fl, condFacts, root, p, v, depth+1)
			if r > res || why == "" {
				if r >= res {
					why = w
				}
			}
			if r > res {
				res = r
			}
		}
		return res, why
	}
	switch x := e.(type) {
	case *ast.UnaryExpr:
		if x.Op == token.NOT {
			return c.r54Justified(u, fl, condFacts, root, x.X, !val, depth+1)
		}
	case *ast.BinaryExpr:
		switch x.Op {
		case token.LAND:
			if val {
				return anyOf([]ast.Expr{x.X, x.Y}, true)
			}
			return all([]ast.Expr{x.X, x.Y}, false)
		case token.LOR:
			if val {
				return all([]ast.Expr{x.X, x.Y}, true)
			}
			return anyOf([]ast.Expr{x.X, x.Y}, false)
		}
	case *ast.Ident:
		if d := m.resolveLocal(u, x); d != nil {
			return c.r54Justified(u, fl, condFacts, root, d, val, depth+1)
		}
	case *ast.CallExpr:
		if ex := c.expandPredicate(x); ex != ast.Expr(x) {
			return c.r54Justified(u, fl, condFacts, root, ex, val, depth+1)
		}
	}
	// a predicate with several statements: every result that lets the node be skipped is a witness
	if call, ok := e.(*ast.CallExpr); ok && !isConversion(info, call) {
		if cu := m.calleeUnit(call); cu != nil && cu.Lit == nil && cu.Decl != nil && cu.Body != nil && cu != u && depth < 3 {
			if sig, _ := cu.Obj.Type().(*types.Signature); sig != nil && sig.Results().Len() == 1 {
				if bt, isB := sig.Results().At(0).Type().Underlying().(*types.Basic); isB && bt.Info()&types.IsBoolean != 0 {
					cfl, cfacts := c.r54Facts(cu)
					res, why, nRet := 1, "", 0
					ast.Inspect(cu.Body, func(n ast.Node) bool {
						if _, isLit := n.(*ast.FuncLit); isLit {
							return false
						}
						rs, isRet := n.(*ast.ReturnStmt)
						if !isRet || len(rs.Results) != 1 {
							return true
						}
						nRet++
						if tv, has := info.Types[rs.Results[0]]; has && tv.Value != nil {
							if (tv.Value.ExactString() == "true") != val {
								return true // this result does not skip
							}
							res, why = min(res, 0), "the predicate "+cu.Name+" lets the node be skipped unconditionally on one of its paths"
							return true
						}
						r, w := c.r54Justified(cu, cfl, cfacts, rs.Results[0], rs.Results[0], val, depth+1)
						if r < res || why == "" {
							why = w
						}
						res = min(res, r)
						return true
					})
					if nRet > 0 {
						return res, why
					}
				}
			}
		}
	}
	fs := condFacts[ast.Unparen(root)]
	if fs == nil {
		fs = condFacts[root]
	}
	// path[0] != window[depth]: the first byte of the one against a byte of the other
	if be, ok := e.(*ast.BinaryExpr); ok && ((be.Op == token.NEQ && val) || (be.Op == token.EQL && !val)) {
		ix, okX := ast.Unparen(m.throughLocals(u, be.X)).(*ast.IndexExpr)
		iy, okY := ast.Unparen(m.throughLocals(u, be.Y)).(*ast.IndexExpr)
		if okX && okY {
			isZero := func(i ast.Expr) bool {
				tv, has := info.Types[i]
				return has && tv.Value != nil && tv.Value.ExactString() == "0"
			}
			isConst := func(i ast.Expr) bool {
				tv, has := info.Types[i]
				return has && tv.Value != nil
			}
			if (isZero(ix.Index) && !isConst(iy.Index)) || (isZero(iy.Index) && !isConst(ix.Index)) {
				return 1, "the first byte of the one string differs from the byte of the other at the current position"
			}
			return 0, "two bytes are compared at positions the rule cannot align: " + types.ExprString(e)
		}
	}
	// !bytes.HasPrefix(x, y)
	if call, ok := e.(*ast.CallExpr); ok && m.calleeName(call) == "bytes.HasPrefix" && len(call.Args) == 2 {
		if val {
			return 0, "the node is skipped when a prefix test SUCCEEDS"
		}
		if fs != nil && c.r54LenLE(u, fl, fs, call.Args[1], call.Args[0]) {
			return 1, "!bytes.HasPrefix(x, y) with len(y) <= len(x): a byte inside both strings differs"
		}
		return -1, "the subtree is skipped when " + types.ExprString(call.Args[0]) + " does not start with " + types.ExprString(call.Args[1]) + ", which is also the case when the former is merely the SHORTER of the two (the bounds' common prefix ends inside the node's compressed path, or the path inside the window): nothing differs there, keys below the node may lie within the bounds, and they are dropped"
	}
	// matchLength(...) op T
	if be, ok := e.(*ast.BinaryExpr); ok {
		lhs, rhs, op := be.X, be.Y, be.Op
		call := c.r54MatchCall(u, lhs)
		if call == nil {
			if call = c.r54MatchCall(u, rhs); call != nil {
				lhs, rhs = rhs, lhs
				switch op {
				case token.LSS:
					op = token.GTR
				case token.GTR:
					op = token.LSS
				case token.LEQ:
					op = token.GEQ
				case token.GEQ:
					op = token.LEQ
				}
			}
		}
		if call != nil {
			if !val {
				switch op {
				case token.EQL:
					op = token.NEQ
				case token.NEQ:
					op = token.EQL
				case token.LSS:
					op = token.GEQ
				case token.GEQ:
					op = token.LSS
				case token.GTR:
					op = token.LEQ
				case token.LEQ:
					op = token.GTR
				}
			}
			tv, isConst := info.Types[rhs]
			if isConst && tv.Value != nil {
				v, _ := constantInt64(tv)
				if (op == token.EQL && v == 0) || (op == token.LSS && v == 1) || (op == token.LEQ && v == 0) {
					return 1, "no byte in common (the operands' non-emptiness is the first clause of this rule)"
				}
				return 0, "a match length compared with the constant " + tv.Value.ExactString()
			}
			if op == token.GTR || op == token.GEQ || op == token.EQL {
				return 0, "the node is skipped when the match is LONG enough"
			}
			// M != T, M < T, M <= T with a computed threshold: the threshold has to stay within both
			// strings, in particular within what is left of the bounds' common prefix
			if fs != nil && op != token.LEQ {
				if tl, okT := fl.z.lin(rhs); okT {
					off := linConst(0)
					for _, a := range call.Args {
						if isIntType(info.TypeOf(a)) {
							if l, okL := fl.z.lin(a); okL {
								off = l
							}
						}
					}
					within, nBytes := true, 0
					for _, a := range call.Args {
						if !isByteSliceType(info.TypeOf(a)) {
							continue
						}
						nBytes++
						la, okA := c.r54LenLin(u, fl, a, 0)
						if !okA || !fs.proveLin(tl.add(la, -1).add(off, 1)) { // T - (len(a) - off) <= 0
							within = false
						}
					}
					if within && nBytes > 0 {
						return 1, "the match falls short of a threshold that stays within every compared string: a byte inside them differs"
					}
				}
			}
			return -1, "the subtree is skipped when the matched length " + types.ExprString(lhs) + " falls short of " + types.ExprString(rhs) + " – a threshold taken from the node alone: when the bounds' common prefix ends inside the node's compressed path the match stops there although nothing differs, and every key below the node, all of which may lie within the bounds, is dropped"
		}
	}
	return 0, "an inner node is skipped under `" + types.ExprString(e) + "`, which the rule cannot relate to a differing byte"
}

// r54MatchCall: e is (a local defined once as) a call of a function that returns how many bytes of
// two strings agree: longestCommonPrefix, checkPrefix, prefixMismatch – recognised by shape: an int
// result and at least one []byte argument, declared in the package, with a comparison loop.
func (c *Ctx) r54MatchCall(u *FuncUnit, e ast.Expr) *ast.CallExpr {
	m := c.m
	info := m.Info
	e = ast.Unparen(m.throughLocals(u, ast.Unparen(e)))
	for {
		if call, ok := e.(*ast.CallExpr); ok && isConversion(info, call) && len(call.Args) == 1 {
			e = ast.Unparen(m.throughLocals(u, ast.Unparen(call.Args[0])))
			continue
		}
		break
	}
	call, ok := e.(*ast.CallExpr)
	if !ok {
		return nil
	}
	cu := m.calleeUnit(call)
	if cu == nil || cu.Lit != nil || cu.Body == nil {
		return nil
	}
	t := info.TypeOf(call)
	if b, ok := t.Underlying().(*types.Basic); !ok || b.Info()&types.IsInteger == 0 {
		return nil
	}
	hasBytes := false
	for _, a := range call.Args {
		if isByteSliceType(info.TypeOf(a)) {
			hasBytes = true
		}
	}
	if !hasBytes {
		return nil
	}
	// compares bytes in a loop (or delegates to one that does)
	compares := false
	ast.Inspect(cu.Body, func(n ast.Node) bool {
		if be, ok := n.(*ast.BinaryExpr); ok && (be.Op == token.NEQ || be.Op == token.EQL) {
			_, ix := ast.Unparen(be.X).(*ast.IndexExpr)
			_, iy := ast.Unparen(be.Y).(*ast.IndexExpr)
			if ix && iy {
				compares = true
			}
		}
		if inner, ok := n.(*ast.CallExpr); ok && inner != call {
			if icu := m.calleeUnit(inner); icu != nil && icu != cu && unitBase(icu.Name) == "longestCommonPrefix" {
				compares = true
			}
		}
		return true
	})
	if !compares {
		return nil
	}
	return call
}

// r54LenLE: len(a) <= len(b) is provable where the condition is evaluated.
func (c *Ctx) r54LenLE(u *FuncUnit, fl *Flow, fs *FactSet, a, b ast.Expr) bool {
	la, okA := c.r54LenLin(u, fl, a, 0)
	lb, okB := c.r54LenLin(u, fl, b, 0)
	if !okA || !okB {
		return false
	}
	return fs.proveLin(la.add(lb, -1))
}

// r54LenLin: the length of a byte-string expression as a linear term: s[lo:hi] = hi-lo,
// unsafe.Slice(p, n) = n, a local defined once = its definition, otherwise len(e) as an atom.
func (c *Ctx) r54LenLin(u *FuncUnit, fl *Flow, e ast.Expr, depth int) (Lin, bool) {
	m := c.m
	info := m.Info
	e = ast.Unparen(e)
	if depth > 4 {
		return Lin{}, false
	}
	switch x := e.(type) {
	case *ast.Ident:
		if d := m.resolveLocal(u, x); d != nil {
			if _, isSlice := ast.Unparen(d).(*ast.SliceExpr); isSlice {
				return c.r54LenLin(u, fl, d, depth+1)
			}
			if ce, isCall := ast.Unparen(d).(*ast.CallExpr); isCall && m.calleeName(ce) == "unsafe.Slice" {
				return c.r54LenLin(u, fl, d, depth+1)
			}
		}
	case *ast.SliceExpr:
		if x.Max != nil {
			return Lin{}, false
		}
		var lo Lin = linConst(0)
		if x.Low != nil {
			l, ok := fl.z.lin(x.Low)
			if !ok {
				return Lin{}, false
			}
			lo = l
		}
		if x.High == nil {
			base, ok := c.r54LenLin(u, fl, x.X, depth+1)
			if !ok {
				return Lin{}, false
			}
			return base.add(lo, -1), true
		}
		hi, ok := fl.z.lin(x.High)
		if !ok {
			return Lin{}, false
		}
		return hi.add(lo, -1), true
	case *ast.CallExpr:
		if m.calleeName(x) == "unsafe.Slice" && len(x.Args) == 2 {
			return fl.z.lin(x.Args[1])
		}
		if ex := c.expandSimpleCall(x); ex != ast.Expr(x) && !isConversion(info, x) {
			return c.r54LenLin(u, fl, ex, depth+1)
		}
	}
	if !isByteSliceType(info.TypeOf(e)) {
		return Lin{}, false
	}
	lc := &ast.CallExpr{Fun: ast.NewIdent("len"), Args: []ast.Expr{e}}
	atom := fl.z.cc.canon(lc)
	fl.z.at.addSide(atom, linAtom(atom).scale(-1))
	return linAtom(atom), true
}
