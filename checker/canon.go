package main

// Canonical expression text with object identity, alias substitution and variable collection.

import (
	"fmt"
	"go/ast"
	"go/constant"
	"go/token"
	"go/types"
	"strings"
)

type canonCtx struct {
	info  *types.Info
	kindT *types.Named                        // the node-kind type: its constants print as K<value>
	subst func(v *types.Var) (ast.Expr, bool) // live alias of a variable, if any
	depth int
}

func varID(v *types.Var) string {
	return fmt.Sprintf("%s#%d", v.Name(), int(v.Pos()))
}

// display strips the #pos suffixes for human readers.
func display(s string) string {
	var b strings.Builder
	for i := 0; i < len(s); i++ {
		if s[i] == '#' {
			j := i + 1
			for j < len(s) && s[j] >= '0' && s[j] <= '9' {
				j++
			}
			i = j - 1
			continue
		}
		b.WriteByte(s[i])
	}
	return b.String()
}

func (c *canonCtx) constText(e ast.Expr) (string, bool) {
	tv, ok := c.info.Types[e]
	if !ok || tv.Value == nil {
		return "", false
	}
	if c.kindT != nil && tv.Type != nil && types.Identical(tv.Type, c.kindT) {
		if v, ok := constant.Int64Val(tv.Value); ok {
			return fmt.Sprintf("K%d", v), true
		}
	}
	switch tv.Value.Kind() {
	case constant.Int:
		return tv.Value.ExactString(), true
	case constant.Bool, constant.String:
		return tv.Value.ExactString(), true
	}
	return tv.Value.ExactString(), true
}

func (c *canonCtx) canon(e ast.Expr) string {
	if e == nil {
		return ""
	}
	if s, ok := c.constText(e); ok {
		return s
	}
	switch x := e.(type) {
	case *ast.ParenExpr:
		return c.canon(x.X)
	case *ast.Ident:
		switch o := c.info.ObjectOf(x).(type) {
		case *types.Var:
			if c.subst != nil && c.depth < 8 {
				if r, ok := c.subst(o); ok {
					c.depth++
					s := c.canon(r)
					c.depth--
					return s
				}
			}
			return varID(o)
		case *types.Nil:
			return "nil"
		}
		return x.Name
	case *ast.BasicLit:
		return x.Value
	case *ast.SelectorExpr:
		if id, isId := x.X.(*ast.Ident); isId {
			if _, isPkg := c.info.ObjectOf(id).(*types.PkgName); isPkg {
				// qualified identifier
				return id.Name + "." + x.Sel.Name
			}
		}
		base := c.canon(x.X)
		base = strings.TrimPrefix(base, "*") // (*p).f == p.f
		if strings.HasPrefix(base, "&") {
			base = base[1:] // (&x).f == x.f
		}
		if strings.ContainsAny(base, " ") && !strings.HasPrefix(base, "(") {
			base = "(" + base + ")"
		}
		return base + "." + x.Sel.Name
	case *ast.StarExpr:
		s := c.canon(x.X)
		if strings.HasPrefix(s, "&") {
			return s[1:]
		}
		return "*" + s
	case *ast.UnaryExpr:
		s := c.canon(x.X)
		if x.Op == token.AND {
			if strings.HasPrefix(s, "*") {
				return s[1:]
			}
			return "&" + s
		}
		return x.Op.String() + s
	case *ast.BinaryExpr:
		return "(" + c.canon(x.X) + " " + x.Op.String() + " " + c.canon(x.Y) + ")"
	case *ast.IndexExpr:
		return c.canon(x.X) + "[" + c.canon(x.Index) + "]"
	case *ast.IndexListExpr:
		var parts []string
		for _, i := range x.Indices {
			parts = append(parts, c.canon(i))
		}
		return c.canon(x.X) + "[" + strings.Join(parts, ",") + "]"
	case *ast.SliceExpr:
		return c.canon(x.X) + "[" + c.canon(x.Low) + ":" + c.canon(x.High) + ":" + c.canon(x.Max) + "]"
	case *ast.CallExpr:
		var parts []string
		for _, a := range x.Args {
			parts = append(parts, c.canon(a))
		}
		return c.canon(x.Fun) + "(" + strings.Join(parts, ",") + ")"
	case *ast.TypeAssertExpr:
		return c.canon(x.X) + ".(" + types.ExprString(x.Type) + ")"
	case *ast.CompositeLit:
		if len(x.Elts) == 0 {
			return types.ExprString(x.Type) + "{}"
		}
		return fmt.Sprintf("lit@%d", int(x.Pos()))
	case *ast.FuncLit:
		return fmt.Sprintf("func@%d", int(x.Pos()))
	case *ast.ArrayType, *ast.MapType, *ast.FuncType, *ast.InterfaceType, *ast.StructType, *ast.ChanType:
		return types.ExprString(x)
	}
	return fmt.Sprintf("?%T@%d", e, int(e.Pos()))
}

// varsOf collects the variables an expression mentions (objs) and those it reads memory
// through (derefs): pointer/slice/map variables in a dereferencing position.
func varsOf(info *types.Info, e ast.Expr) (objs, derefs map[*types.Var]bool) {
	objs, derefs = map[*types.Var]bool{}, map[*types.Var]bool{}
	var walk func(e ast.Expr, deref bool)
	mark := func(e ast.Expr, deref bool) {
		if id, ok := ast.Unparen(e).(*ast.Ident); ok {
			if v, ok := info.ObjectOf(id).(*types.Var); ok {
				objs[v] = true
				if deref {
					switch v.Type().Underlying().(type) {
					case *types.Pointer, *types.Slice, *types.Map, *types.Interface, *types.Signature:
						derefs[v] = true
					}
				}
			}
		}
	}
	walk = func(e ast.Expr, deref bool) {
		if e == nil {
			return
		}
		switch x := e.(type) {
		case *ast.ParenExpr:
			walk(x.X, deref)
		case *ast.Ident:
			mark(x, deref)
		case *ast.SelectorExpr:
			if id, isId := x.X.(*ast.Ident); isId {
				if _, isPkg := info.ObjectOf(id).(*types.PkgName); isPkg {
					return // qualified identifier
				}
			}
			walk(x.X, true)
		case *ast.StarExpr:
			walk(x.X, true)
		case *ast.UnaryExpr:
			walk(x.X, x.Op != token.AND && deref)
		case *ast.BinaryExpr:
			walk(x.X, false)
			walk(x.Y, false)
		case *ast.IndexExpr:
			walk(x.X, true)
			walk(x.Index, false)
		case *ast.SliceExpr:
			walk(x.X, false) // reslicing reads the header only
			walk(x.Low, false)
			walk(x.High, false)
			walk(x.Max, false)
		case *ast.CallExpr:
			if id, ok := ast.Unparen(x.Fun).(*ast.Ident); ok {
				if _, isB := info.Uses[id].(*types.Builtin); isB && (id.Name == "len" || id.Name == "cap") {
					for _, a := range x.Args {
						walk(a, false)
					}
					return
				}
			}
			if tv, ok := info.Types[x.Fun]; ok && tv.IsType() {
				for _, a := range x.Args {
					walk(a, deref)
				}
				return
			}
			walk(x.Fun, true)
			for _, a := range x.Args {
				walk(a, true) // a callee may read through its arguments
			}
		case *ast.TypeAssertExpr:
			walk(x.X, deref)
		case *ast.CompositeLit:
			for _, el := range x.Elts {
				if kv, ok := el.(*ast.KeyValueExpr); ok {
					walk(kv.Value, false)
				} else {
					walk(el, false)
				}
			}
		}
	}
	walk(e, false)
	return
}

// rootVar returns the variable at the root of an addressable expression (x, x.f, x[i], *x …)
// and whether the path from it passes through a pointer/slice dereference.
func rootVar(info *types.Info, e ast.Expr) (v *types.Var, throughDeref bool) {
	for {
		switch x := e.(type) {
		case *ast.ParenExpr:
			e = x.X
		case *ast.Ident:
			v, _ = info.ObjectOf(x).(*types.Var)
			return
		case *ast.SelectorExpr:
			if info.Selections[x] == nil {
				v, _ = info.ObjectOf(x.Sel).(*types.Var)
				return
			}
			if t := info.TypeOf(x.X); t != nil {
				if _, ok := t.Underlying().(*types.Pointer); ok {
					throughDeref = true
				}
			}
			e = x.X
		case *ast.IndexExpr:
			if t := info.TypeOf(x.X); t != nil {
				switch t.Underlying().(type) {
				case *types.Slice, *types.Map, *types.Pointer:
					throughDeref = true
				}
			}
			e = x.X
		case *ast.SliceExpr:
			e = x.X
		case *ast.StarExpr:
			throughDeref = true
			e = x.X
		case *ast.CallExpr:
			// e.g. (*T)(p).f – conversion of a pointer
			if tv, ok := info.Types[x.Fun]; ok && tv.IsType() && len(x.Args) == 1 {
				throughDeref = true
				e = x.Args[0]
				continue
			}
			return nil, true
		case *ast.TypeAssertExpr:
			e = x.X
		default:
			return nil, true
		}
	}
}
