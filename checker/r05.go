package main

import (
	"fmt"
	"go/ast"
	"go/constant"
	"go/token"
	"go/types"
	"strings"
)

// prefixFreeInfo: why the transformed keys of a tree kind cannot be prefixes of one another.
type prefixFreeInfo struct {
	ok     bool
	reason string // fixed-width | terminated | contract | (failure text)
	class  string
}

// codecUnit finds Transform of the codec type used by a kind (nil for interface codecs).
func (c *Ctx) codecTransform(tk *TreeKind) (*FuncUnit, string) {
	n := namedOf(tk.CodecType)
	if n == nil {
		return nil, ""
	}
	if _, isIface := n.Underlying().(*types.Interface); isIface {
		return nil, n.Obj().Name()
	}
	return c.m.ByName[n.Obj().Name()+".Transform"], n.Obj().Name()
}

// constLenOfAssigned returns the set of constant lengths assigned to slice variable v in body
// (make([]byte, C) or []byte{…}); ok=false if some assignment is of another form.
func (c *Ctx) constLens(body ast.Node, v *types.Var) (lens map[int64]bool, ok bool, appended bool) {
	info := c.m.Info
	lens, ok = map[int64]bool{}, true
	var walk func(n ast.Node)
	walk = func(n ast.Node) {
		ast.Inspect(n, func(x ast.Node) bool {
			switch y := x.(type) {
			case *ast.IfStmt:
				// fold constant conditions (bits.UintSize == 32)
				if tv, has := info.Types[y.Cond]; has && tv.Value != nil && tv.Value.Kind() == constant.Bool {
					if y.Init != nil {
						walk(y.Init)
					}
					if constant.BoolVal(tv.Value) {
						walk(y.Body)
					} else if y.Else != nil {
						walk(y.Else)
					}
					return false
				}
			case *ast.AssignStmt:
				for i, l := range y.Lhs {
					if identVar(info, l) != v || len(y.Lhs) != len(y.Rhs) {
						continue
					}
					r := ast.Unparen(y.Rhs[i])
					switch z := r.(type) {
					case *ast.CallExpr:
						if isBuiltinCall(info, z, "make") && len(z.Args) == 2 {
							if tv, has := info.Types[z.Args[1]]; has && tv.Value != nil {
								if n, exact := constant.Int64Val(tv.Value); exact {
									lens[n] = true
									continue
								}
							}
						}
						if isBuiltinCall(info, z, "append") {
							appended = true
						}
						// binary.BigEndian.AppendUintN(make([]byte, 0, C), v): N/8 bytes
						if sel, isSel := z.Fun.(*ast.SelectorExpr); isSel && strings.HasPrefix(sel.Sel.Name, "AppendUint") && len(z.Args) == 2 {
							if mk, isMk := ast.Unparen(z.Args[0]).(*ast.CallExpr); isMk && isBuiltinCall(info, mk, "make") && len(mk.Args) == 3 {
								if tv, has := info.Types[mk.Args[1]]; has && tv.Value != nil && tv.Value.ExactString() == "0" {
									var bits int64
									fmt.Sscan(strings.TrimPrefix(sel.Sel.Name, "AppendUint"), &bits)
									if bits > 0 {
										lens[bits/8] = true
										continue
									}
								}
							}
						}
						ok = false
					case *ast.CompositeLit:
						lens[int64(len(z.Elts))] = true
					default:
						ok = false
					}
				}
			}
			return true
		})
	}
	walk(body)
	return
}

func (c *Ctx) prefixFree(tk *TreeKind) prefixFreeInfo {
	tu, cname := c.codecTransform(tk)
	if tu == nil {
		c.r.assume(fmt.Sprintf("%s: keys are prefix-free by the contract of the user-supplied codec (%s)", tk.Name, cname))
		return prefixFreeInfo{ok: true, class: "contract", reason: "user codec contract"}
	}
	info := c.m.Info
	// a numeric codec whose every key type the abstract interpreter follows: each type encodes to
	// exactly its own width (codecinterp.go establishes length = Sizeof for every value class)
	if named := namedOf(tk.CodecType); named != nil && named.TypeParams().Len() == 1 && c.numericCodec(named.Origin()) {
		if ru := c.m.ByName[named.Obj().Name()+".Restore"]; ru != nil {
			all := true
			set := typeSetOf(named.Origin().TypeParams().At(0))
			for _, t := range set {
				if v := c.interpretCodecArm(tu, ru, t); !v.decided || !v.ok {
					all = false
				}
			}
			if all && len(set) > 0 {
				return prefixFreeInfo{ok: true, class: "fixed-width", reason: fmt.Sprintf("%s encodes each of its %d key types to exactly unsafe.Sizeof bytes (abstract interpretation of the codec)", tu.Name, len(set))}
			}
		}
	}
	// which variable/expression is returned as result #1
	var rets []*ast.ReturnStmt
	ast.Inspect(tu.Body, func(n ast.Node) bool {
		if _, isLit := n.(*ast.FuncLit); isLit {
			return false
		}
		if r, ok := n.(*ast.ReturnStmt); ok {
			rets = append(rets, r)
		}
		return true
	})
	if len(rets) == 0 {
		return prefixFreeInfo{reason: "codec Transform has no return"}
	}
	external := false
	// derives: the expression is computed from the result of an external call – directly, through
	// a variable assigned from one, or through a helper of the library whose returns are
	// (cok.sortKey(b) wrapping collate.Collator.Key)
	var derives func(u *FuncUnit, e ast.Expr, depth int) bool
	derives = func(u *FuncUnit, e ast.Expr, depth int) bool {
		if depth > 3 || e == nil {
			return false
		}
		found := false
		ast.Inspect(e, func(n ast.Node) bool {
			call, ok := n.(*ast.CallExpr)
			if !ok || found {
				return !found
			}
			if f := c.m.staticCallee(call); f != nil && f.Pkg() != nil && f.Pkg() != c.m.Pkg {
				name := c.m.calleeName(call)
				if strings.Contains(name, "collate") || (depth == 0 && !strings.HasPrefix(name, "bytes.")) {
					found = true
				}
				return true
			}
			if cu := c.m.calleeUnit(call); cu != nil && cu != u && cu.Body != nil && cu.Lit == nil {
				if rets, all := returnExprs(cu); all {
					for _, r := range rets {
						if derives(cu, r, depth+1) {
							found = true
						}
					}
				}
			}
			return true
		})
		if found {
			return true
		}
		if v := identVar(info, e); v != nil && u.Body != nil {
			ast.Inspect(u.Body, func(n ast.Node) bool {
				as, ok := n.(*ast.AssignStmt)
				if !ok || len(as.Lhs) != len(as.Rhs) || found {
					return !found
				}
				for i, l := range as.Lhs {
					if identVar(info, l) == v && derives(u, as.Rhs[i], depth+1) {
						found = true
					}
				}
				return true
			})
		}
		return found
	}
	for _, r := range rets {
		if len(r.Results) != 2 {
			return prefixFreeInfo{reason: "Transform return not in the two-result form"}
		}
		if derives(tu, r.Results[1], 0) {
			external = true
		}
	}
	if external {
		// The sort keys of an external collator are prefix-free among DIFFERENT sort keys (level
		// separators), but the collator does not keep different strings apart: canonically
		// equivalent strings ("\u00e9" vs "e\u0301") and all ill-formed UTF-8 bytes (→ U+FFFD)
		// get one and the same sort key. The tree tells keys apart by the original string
		// (R02/R16) but places them by the sort key – so two keys can be equal as index keys,
		// which is the degenerate case of one being a prefix of the other.
		c.r.assume(fmt.Sprintf("%s: different sort keys are not prefixes of one another (golang.org/x/text collation keys end in level separators; library contract)", tk.Name))
		return prefixFreeInfo{class: "sort-key-not-injective", reason: "the collator gives different strings the same sort key (canonical equivalents such as \"\\u00e9\" and \"e\\u0301\", every ill-formed UTF-8 byte): keys are compared by their original string but placed by their sort key, so a second key with the sort key of a stored one exhausts both keys at the split"}
	}
	// fixed width?
	fixed := true
	var widths []string
	for _, r := range rets {
		v := identVar(info, r.Results[1])
		if v == nil {
			fixed = false
			break
		}
		lens, ok, appended := c.constLens(tu.Body, v)
		if !ok || appended || len(lens) == 0 {
			fixed = false
			break
		}
		// per type-switch arm there must be exactly one width
		perArm := true
		typeArms := map[*ast.CaseClause]bool{}
		ast.Inspect(tu.Body, func(n ast.Node) bool {
			if ts, ok := n.(*ast.TypeSwitchStmt); ok {
				for _, cl := range ts.Body.List {
					typeArms[cl.(*ast.CaseClause)] = true
				}
			}
			return true
		})
		ast.Inspect(tu.Body, func(n ast.Node) bool {
			cc, ok := n.(*ast.CaseClause)
			if !ok || !typeArms[cc] {
				return true // only the arms of the switch over the key type (not a value switch inside one)
			}
			l, ok2, app := c.constLens(cc, v)
			if !ok2 || app {
				perArm = false
			}
			if len(cc.List) > 0 && len(l) != 1 {
				if !(len(l) == 0 && endsInPanic(info, cc.Body)) {
					perArm = false
				}
			}
			for w := range l {
				widths = append(widths, fmt.Sprint(w))
			}
			return true
		})
		if !perArm {
			fixed = false
		}
	}
	if fixed {
		return prefixFreeInfo{ok: true, class: "fixed-width", reason: "every arm of " + tu.Name + " returns a slice of one constant length"}
	}
	// variable length: needs a terminator that the payload cannot contain
	term := c.m.ByName["terminated"]
	usesTerm := 0
	// the terminator is appended in the entry point itself or in a key-preparing helper it calls
	var hasTerm func(u *FuncUnit, depth int) bool
	hasTerm = func(u *FuncUnit, depth int) bool {
		found := false
		ast.Inspect(u.Body, func(n ast.Node) bool {
			if call, ok := n.(*ast.CallExpr); ok && !found {
				if f := c.m.staticCallee(call); f != nil && term != nil && f == term.Obj {
					found = true
				}
				if isBuiltinCall(info, call, "append") && len(call.Args) == 2 {
					if tv, ok := info.Types[call.Args[1]]; ok && tv.Value != nil {
						found = true
					}
				}
				if cu := c.m.calleeUnit(call); !found && cu != nil && cu.Lit == nil && cu.Body != nil && cu != u && depth < 2 && cu.Recv == u.Recv && u.Recv != "" {
					if hasTerm(cu, depth+1) {
						found = true
					}
				}
			}
			return !found
		})
		return found
	}
	for _, mn := range []string{"Insert", "Search", "Delete"} {
		if u := tk.Methods[mn]; u != nil && hasTerm(u, 0) {
			usesTerm++
		}
	}
	if usesTerm >= 3 {
		// is the payload sanitised (any test or call that rejects/escapes the terminator byte
		// between Transform and the terminator)? Recognised forms: a call to a function whose
		// name mentions escape/sanitize, or bytes.IndexByte/bytes.Contains on the payload.
		sanitised := true
		for _, mn := range []string{"Insert", "Search", "Delete"} {
			if u := tk.Methods[mn]; u != nil {
				found := false
				ast.Inspect(u.Body, func(n ast.Node) bool {
					if call, ok := n.(*ast.CallExpr); ok {
						name := strings.ToLower(c.m.calleeName(call))
						if strings.Contains(name, "escape") || strings.Contains(name, "sanit") || strings.Contains(name, "indexbyte") || strings.Contains(name, "bytes.contains") {
							found = true
						}
					}
					return true
				})
				if !found {
					sanitised = false
				}
			}
		}
		if sanitised {
			return prefixFreeInfo{ok: true, class: "terminated", reason: "terminator appended to a sanitised payload"}
		}
		return prefixFreeInfo{class: "terminated-unsanitised", reason: "a 0x00 terminator is appended at the entry points but nothing keeps 0x00 out of the payload, so \"a\" and \"a\\x00\" give keys of which one is a prefix of the other"}
	}
	return prefixFreeInfo{class: "variable-length", reason: "keys have variable length and no terminator is appended at the entry points"}
}

func endsInPanic(info *types.Info, body []ast.Stmt) bool {
	if len(body) == 0 {
		return false
	}
	if es, ok := body[len(body)-1].(*ast.ExprStmt); ok {
		if call, ok := es.X.(*ast.CallExpr); ok {
			return !mayReturn(info)(call)
		}
	}
	return false
}

// R05 PREFIXFREE.
func ruleR05(c *Ctx) {
	out := map[string]prefixFreeInfo{}
	for _, tk := range c.m.Trees {
		pf := c.prefixFree(tk)
		out[tk.Name] = pf
		props := []string{"C01", "C06"}
		if isCollationKind(tk) {
			props = append(props, "C08")
		}
		if isCompoundKind(tk) {
			props = append(props, "C09")
		}
		pos := "-"
		if u := tk.Methods["Insert"]; u != nil {
			pos = c.m.pos(u.Decl.Pos())
		}
		if pf.ok {
			c.r.ok("R05", tk.Name+" prefix-free keys", pos, pf.class+": "+pf.reason, props...)
		} else {
			inst := map[bool]string{true: "terminator-on-unsanitised-payload", false: "keys-not-prefix-free"}[pf.class == "terminated-unsanitised"]
			if pf.class == "sort-key-not-injective" {
				inst = "sort-key-not-injective"
				// C08 is stated for collators that tell the stored strings apart: not attributed
				props = []string{"C01", "C06"}
			}
			c.r.bad("R05", tk.Name+" "+inst, pos, pf.reason, props...)
		}
	}
	c.r.floor("R05", 4, "tree kinds", "C01")
	c.pf = out
}

var _ = token.ADD
